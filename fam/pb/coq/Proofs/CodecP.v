(* Codec level: per-module round trips (every tag, arbitrary trailing bytes), encoded_len = bytes
   written, the exact-consumption lemma of merge_loop, repeated and packed forms. *)
From PVPb Require Import Codec Proofs.BitsP Proofs.VarintP Proofs.WireP Proofs.CastP.
From Coq Require Import ZifyN ZifyNat ZifyBool.
Open Scope Z_scope.

(* ------------------------------------------------------------------ reader primitives on known input *)
Lemma remaining_eq s : remaining s = OOk (length (rb s)) s.
Proof. reflexivity. Qed.

Lemma take_bytes_app p r a : take_bytes (length p) (mkR (p ++ r) a) = OOk p (mkR r a).
Proof.
  unfold take_bytes. cbn [rb ra]. rewrite app_length.
  replace (Nat.ltb (length p + length r) (length p)) with false by (symmetry; apply Nat.ltb_ge; lia).
  rewrite firstn_app, Nat.sub_diag, firstn_all, firstn_O, app_nil_r.
  rewrite skipn_app, Nat.sub_diag, skipn_all, skipn_O. reflexivity.
Qed.

Lemma check_wire_type_same wt s : check_wire_type wt wt s = OOk tt s.
Proof. unfold check_wire_type. destruct wt; reflexivity. Qed.

Lemma zlen_app a b : zlen (a ++ b) = zlen a + zlen b.
Proof. unfold zlen. rewrite app_length. lia. Qed.

Lemma zlen_nonneg a : 0 <= zlen a.
Proof. unfold zlen. lia. Qed.

(* ------------------------------------------------------------------ the payload of one value *)
Lemma okb_len_mod m v : is_len_mod m = true -> mod_value_okb m v = true ->
  exists l, v = VB l /\ zlen l < two64 /\ (m = MString \/ m = MFastStr -> utf8_valid l = true).
Proof.
  intros Hm Hv. destruct m; try discriminate Hm; destruct v as [z|l|k l]; try discriminate Hv; cbn [mod_value_okb] in Hv;
    exists l; (split; [reflexivity|]).
  - apply andb_prop in Hv. destruct Hv as [H1 H2]. split; [lia|auto].
  - apply andb_prop in Hv. destruct Hv as [H1 H2]. split; [lia|auto].
  - split; [lia|intros [H|H]; discriminate H].
Qed.

Lemma okb_int_mod m v : is_len_mod m = false -> mod_value_okb m v = true -> exists z, v = VI z.
Proof.
  intros Hm Hv. destruct v as [z|l|k l]; [eauto| |]; destruct m; try discriminate Hv; discriminate Hm.
Qed.

Lemma len_merge_rt l r a : zlen l < two64 ->
  bytes_merge LengthDelimited (mkR (encode_varint (zlen l) ++ l ++ r) a) = OOk (VB l) (mkR r (a + zlen l)) /\
  bytes_merge_one_copy LengthDelimited (mkR (encode_varint (zlen l) ++ l ++ r) a) = OOk (VB l) (mkR r (a + zlen l)).
Proof.
  intros Hl. pose proof (zlen_nonneg l).
  assert (E : forall A (k : Z -> M A),
    bind decode_varint k (mkR (encode_varint (zlen l) ++ l ++ r) a) = k (zlen l) (mkR (l ++ r) a)).
  { intros. apply bind_ok. apply decode_varint_rt. lia. }
  unfold bytes_merge, bytes_merge_one_copy.
  split; (unfold bind at 1; rewrite check_wire_type_same; rewrite E; unfold bind at 1; rewrite remaining_eq; cbn [rb];
    rewrite app_length;
    replace (Z.of_nat (length l + length r) <? zlen l) with false by (unfold zlen; lia);
    unfold bind at 1, charge; cbn [rb ra];
    unfold zlen at 1; rewrite Nat2Z.id; unfold bind; rewrite take_bytes_app; reflexivity).
Qed.

Theorem payload_rt m v r a : scalar_mod m = true -> mod_value_okb m v = true ->
  merge_scalar m (mod_wire_type m) (mkR (payload m v ++ r) a) = OOk v (mkR r (a + payload_cost m v)).
Proof.
  intros Hs Hv. unfold merge_scalar, payload, payload_cost, mod_wire_type.
  destruct (is_varint_mod m) eqn:Ev.
  - replace (is_len_mod m) with false by (destruct m; try discriminate Ev; reflexivity).
    destruct (okb_int_mod m v ltac:(destruct m; try discriminate Ev; reflexivity) Hv) as [z ->]. cbn [vint].
    destruct (varint_cast_rt m z Ev Hv) as [Hr Hf].
    unfold bind at 1. rewrite check_wire_type_same. unfold merge_varint_value.
    rewrite (bind_ok _ _ _ _ _ (decode_varint_rt _ r a Hr)). unfold ret. rewrite Hf. f_equal. f_equal. lia.
  - destruct (fixed_of m) as [[[t w] fwt]|] eqn:Ef.
    + replace (is_len_mod m) with false by (destruct m; try discriminate Ef; reflexivity).
      destruct (okb_int_mod m v ltac:(destruct m; try discriminate Ef; reflexivity) Hv) as [z ->]. cbn [vint].
      destruct (fixed_cast_rt m t w fwt z Ef Hv) as (Hf & Hw & _).
      unfold bind at 1. rewrite check_wire_type_same. unfold merge_fixed_value.
      unfold bind at 1. rewrite remaining_eq. cbn [rb]. rewrite app_length.
      pose proof (fixed_payload_length w z Hw) as HL. unfold zlen in HL.
      replace (Z.of_nat (length (fixed_payload w z) + length r) <? w) with false by lia.
      replace (Z.to_nat w) with (length (fixed_payload w z)) by lia.
      unfold bind. rewrite take_bytes_app. unfold ret. rewrite Hf. f_equal. f_equal. lia.
    + assert (Hl : is_len_mod m = true).
      { unfold scalar_mod, is_fixed_mod in Hs. rewrite Ev, Ef in Hs. exact Hs. }
      rewrite Hl. destruct (okb_len_mod m v Hl Hv) as (l & -> & Hlen & Hu). cbn [vbytes].
      rewrite <- app_assoc. destruct (len_merge_rt l r a Hlen) as [H1 H2].
      destruct m; try discriminate Hl.
      * unfold string_merge. rewrite (bind_ok _ _ _ _ _ H2). cbn [vbytes]. rewrite Hu by (left; reflexivity). reflexivity.
      * unfold faststr_merge. rewrite (bind_ok _ _ _ _ _ H2). cbn [vbytes]. rewrite Hu by (right; reflexivity). reflexivity.
      * exact H1.
Qed.

(* <module>::encode then decode_key + <module>::merge: every tag, every value, arbitrary trailing bytes *)
Theorem scalar_rt m tag v r a : scalar_mod m = true -> tag_ok tag -> mod_value_okb m v = true ->
  bind decode_key (fun k => merge_scalar m (snd k)) (mkR (encode_scalar m tag v ++ r) a)
  = OOk v (mkR r (a + payload_cost m v)).
Proof.
  intros Hs Ht Hv. unfold encode_scalar. rewrite <- app_assoc.
  rewrite (bind_ok _ _ _ _ _ (decode_key_rt tag (mod_wire_type m) _ a Ht)). cbn [snd].
  apply payload_rt; auto.
Qed.

(* ------------------------------------------------------------------ lengths *)
Theorem payload_len_correct m v : scalar_mod m = true -> mod_value_okb m v = true ->
  payload_len m v = zlen (payload m v).
Proof.
  intros Hs Hv. unfold payload_len, payload.
  destruct (is_varint_mod m) eqn:Ev.
  - destruct (okb_int_mod m v ltac:(destruct m; try discriminate Ev; reflexivity) Hv) as [z ->]. cbn [vint].
    destruct (varint_cast_rt m z Ev Hv) as [Hr _]. apply encoded_len_varint_correct. exact Hr.
  - destruct (fixed_of m) as [[[t w] fwt]|] eqn:Ef.
    + destruct (okb_int_mod m v ltac:(destruct m; try discriminate Ef; reflexivity) Hv) as [z ->]. cbn [vint].
      destruct (fixed_cast_rt m t w fwt z Ef Hv) as (_ & Hw & _). symmetry. apply fixed_payload_length. exact Hw.
    + assert (Hl : is_len_mod m = true).
      { unfold scalar_mod, is_fixed_mod in Hs. rewrite Ev, Ef in Hs. exact Hs. }
      destruct (okb_len_mod m v Hl Hv) as (l & -> & Hlen & _). cbn [vbytes].
      rewrite zlen_app. rewrite encoded_len_varint_correct by (pose proof (zlen_nonneg l); lia). reflexivity.
Qed.

Theorem encoded_len_scalar_correct m tag v : scalar_mod m = true -> tag_ok tag -> mod_value_okb m v = true ->
  encoded_len_scalar m tag v = zlen (encode_scalar m tag v).
Proof.
  intros Hs Ht Hv. unfold encoded_len_scalar, encode_scalar. rewrite zlen_app.
  rewrite (key_len_correct tag (mod_wire_type m) Ht). rewrite payload_len_correct by auto. reflexivity.
Qed.

Lemma payload_nonempty m v : scalar_mod m = true -> mod_value_okb m v = true -> (1 <= length (payload m v))%nat.
Proof.
  intros Hs Hv. pose proof (payload_len_correct m v Hs Hv) as H. unfold zlen in H.
  assert (1 <= payload_len m v); [|lia].
  unfold payload_len. destruct (is_varint_mod m) eqn:Ev.
  - destruct (okb_int_mod m v ltac:(destruct m; try discriminate Ev; reflexivity) Hv) as [z ->]. cbn [vint].
    destruct (varint_cast_rt m z Ev Hv) as [Hr _]. rewrite encoded_len_varint_nbytes by exact Hr.
    pose proof (nbytes_range (to_uint64 m z)). lia.
  - destruct (fixed_of m) as [[[t w] fwt]|] eqn:Ef.
    + destruct m; vm_compute in Ef; try discriminate Ef; inversion Ef; lia.
    + assert (Hl : is_len_mod m = true).
      { unfold scalar_mod, is_fixed_mod in Hs. rewrite Ev, Ef in Hs. exact Hs. }
      destruct (okb_len_mod m v Hl Hv) as (l & -> & Hlen & _). cbn [vbytes].
      pose proof (zlen_nonneg l). rewrite encoded_len_varint_nbytes by lia. pose proof (nbytes_range (zlen l)). lia.
Qed.

(* ------------------------------------------------------------------ merge_loop consumes exactly its prefix *)
Section Loop.
  Context {T X : Type}.
  Variable body : T -> M T.
  Variable enc : X -> list byte.
  Variable step : T -> X -> T.
  Variable cost : X -> Z.
  Variable good : X -> Prop.
  Hypothesis body_ok : forall t x rest a, good x -> body t (mkR (enc x ++ rest) a) = OOk (step t x) (mkR rest (a + cost x)).
  Hypothesis enc_nonempty : forall x, good x -> (1 <= length (enc x))%nat.

  Lemma while_remaining_exact : forall items fuel t r a, Forall good items ->
    (length (flat_map enc items) < fuel)%nat ->
    while_remaining fuel (length r) body t (mkR (flat_map enc items ++ r) a)
    = OOk (fold_left step items t) (mkR r (a + sumZ (map cost items))).
  Proof.
    induction items as [|x items IH]; intros fuel t r a Hg Hf.
    - cbn [flat_map app fold_left map sumZ fold_right]. destruct fuel; [cbn in Hf; lia|].
      cbn [while_remaining rb]. rewrite Nat.ltb_irrefl. f_equal. f_equal. lia.
    - inversion Hg as [|? ? Hx Hrest]; subst.
      cbn [flat_map fold_left map sumZ fold_right] in *. rewrite app_length in Hf.
      pose proof (enc_nonempty x Hx) as Hne.
      destruct fuel as [|fuel]; [lia|]. cbn [while_remaining rb].
      rewrite <- app_assoc. rewrite !app_length.
      replace (Nat.ltb (length r) (length (enc x) + (length (flat_map enc items) + length r))) with true
        by (symmetry; apply Nat.ltb_lt; lia).
      unfold bind. rewrite body_ok by exact Hx.
      rewrite IH by (auto; lia). f_equal. f_equal. unfold sumZ. lia.
  Qed.

  Lemma merge_loop_exact items t r a : Forall good items -> zlen (flat_map enc items) < two64 ->
    merge_loop body t (mkR (encode_varint (zlen (flat_map enc items)) ++ flat_map enc items ++ r) a)
    = OOk (fold_left step items t) (mkR r (a + sumZ (map cost items))).
  Proof.
    intros Hg Hl. pose proof (zlen_nonneg (flat_map enc items)).
    unfold merge_loop. rewrite (bind_ok _ _ _ _ _ (decode_varint_rt (zlen (flat_map enc items)) _ a ltac:(lia))).
    unfold bind at 1. rewrite remaining_eq. cbn [rb]. rewrite app_length.
    replace (Z.of_nat (length (flat_map enc items) + length r) <? zlen (flat_map enc items)) with false by (unfold zlen; lia).
    replace (length (flat_map enc items) + length r - Z.to_nat (zlen (flat_map enc items)))%nat with (length r)
      by (unfold zlen; lia).
    unfold while_rem. unfold bind at 1. unfold bind at 1. rewrite remaining_eq. cbn [rb].
    rewrite while_remaining_exact by (auto; rewrite app_length; lia).
    unfold bind. rewrite remaining_eq. cbn [rb]. rewrite Nat.eqb_refl. reflexivity.
  Qed.
End Loop.

(* ------------------------------------------------------------------ repeated (unpacked): one record per element *)
Lemma merge_repeated_one m wt v vs r a p : scalar_mod m = true -> mod_value_okb m v = true ->
  wt = mod_wire_type m -> p = payload m v ->
  merge_repeated m wt vs (mkR (p ++ r) a) = OOk (vs ++ [v]) (mkR r (a + payload_cost m v + 1)).
Proof.
  intros Hs Hv -> ->. unfold merge_repeated.
  destruct (is_len_mod m) eqn:El.
  - assert (Ew : mod_wire_type m = LengthDelimited) by (destruct m; try discriminate El; reflexivity).
    rewrite Ew. unfold bind at 1. rewrite check_wire_type_same. rewrite <- Ew.
    rewrite (bind_ok _ _ _ _ _ (payload_rt m v r a Hs Hv)). reflexivity.
  - assert (Ew : mod_wire_type m <> LengthDelimited).
    { unfold scalar_mod in Hs. rewrite El, orb_false_r in Hs. unfold mod_wire_type.
      destruct (is_varint_mod m); [discriminate|]. unfold is_fixed_mod in Hs. cbn [orb] in Hs.
      destruct (fixed_of m) as [[[t w] fwt]|] eqn:Ef; [|discriminate].
      destruct m; vm_compute in Ef; try discriminate Ef; inversion Ef; discriminate. }
    destruct (mod_wire_type m) eqn:Ewt; try congruence;
      (unfold bind at 1; rewrite check_wire_type_same; rewrite <- Ewt;
       rewrite (bind_ok _ _ _ _ _ (payload_rt m v r a Hs Hv)); reflexivity).
Qed.

Theorem repeated_rt m tag : scalar_mod m = true -> tag_ok tag ->
  forall vs acc r a, Forall (fun v => mod_value_okb m v = true) vs ->
  merge_records m (length vs) acc (mkR (encode_repeated m tag vs ++ r) a)
  = OOk (acc ++ vs) (mkR r (a + sumZ (map (fun v => payload_cost m v + 1) vs))).
Proof.
  intros Hs Ht. induction vs as [|v vs IH]; intros acc r a Hg.
  - cbn [length merge_records encode_repeated flat_map app map sumZ fold_right]. unfold ret. rewrite app_nil_r. f_equal. f_equal. lia.
  - inversion Hg; subst. cbn [length merge_records encode_repeated flat_map map sumZ fold_right].
    unfold encode_scalar at 1. rewrite <- !app_assoc.
    rewrite (bind_ok _ _ _ _ _ (decode_key_rt tag (mod_wire_type m) _ a Ht)). cbn [snd].
    rewrite (bind_ok _ _ _ _ _ (merge_repeated_one m _ v acc _ a _ Hs H1 eq_refl eq_refl)).
    fold (encode_repeated m tag vs). rewrite IH by auto. rewrite <- app_assoc. f_equal. f_equal. unfold sumZ. lia.
Qed.

(* ------------------------------------------------------------------ packed *)
Lemma numeric_scalar m : numeric_mod m = true -> scalar_mod m = true /\ is_len_mod m = false.
Proof.
  unfold numeric_mod, scalar_mod. intros H. rewrite H. split; [reflexivity|].
  destruct m; try reflexivity; vm_compute in H; discriminate.
Qed.

Lemma packed_body_len_correct m vs : numeric_mod m = true -> Forall (fun v => mod_value_okb m v = true) vs ->
  packed_body_len m vs = zlen (flat_map (payload m) vs).
Proof.
  intros Hn Hg. destruct (numeric_scalar m Hn) as [Hs _]. unfold packed_body_len.
  destruct (fixed_of m) as [[[t w] fwt]|] eqn:Ef.
  - induction Hg as [|v vs Hv Hg IH]; [reflexivity|].
    cbn [flat_map length]. rewrite zlen_app, <- IH.
    rewrite <- (payload_len_correct m v Hs Hv). unfold payload_len.
    replace (is_varint_mod m) with false by (destruct m; vm_compute in Ef; try discriminate Ef; reflexivity).
    rewrite Ef. lia.
  - induction Hg as [|v vs Hv Hg IH]; [reflexivity|].
    cbn [flat_map map sumZ fold_right]. rewrite zlen_app. fold (sumZ (map (payload_len m) vs)). rewrite IH.
    rewrite payload_len_correct by auto. reflexivity.
Qed.

Lemma fold_left_snoc {A} (vs : list A) : forall acc, fold_left (fun acc v => acc ++ [v]) vs acc = acc ++ vs.
Proof.
  induction vs as [|v vs IH]; intros acc; cbn [fold_left]; [symmetry; apply app_nil_r|].
  rewrite IH. rewrite <- app_assoc. reflexivity.
Qed.

Lemma sumZ_const1 {A} (vs : list A) : sumZ (map (fun _ => 1) vs) = Z.of_nat (length vs).
Proof.
  induction vs as [|v vs IH]; [reflexivity|]. cbn [map sumZ fold_right length] in *.
  fold (sumZ (map (fun _ : A => 1) vs)). lia.
Qed.

Theorem packed_rt m tag vs acc r a : numeric_mod m = true -> tag_ok tag -> vs <> [] ->
  Forall (fun v => mod_value_okb m v = true) vs -> zlen (flat_map (payload m) vs) < two64 ->
  bind decode_key (fun k => merge_repeated m (snd k) acc) (mkR (encode_packed m tag vs ++ r) a)
  = OOk (acc ++ vs) (mkR r (a + Z.of_nat (length vs))).
Proof.
  intros Hn Ht Hne Hg Hl. destruct (numeric_scalar m Hn) as [Hs El].
  unfold encode_packed. destruct vs as [|v0 vs0]; [congruence|]. set (vs := v0 :: vs0) in *.
  rewrite <- !app_assoc.
  rewrite (bind_ok _ _ _ _ _ (decode_key_rt tag LengthDelimited _ a Ht)). cbn [snd].
  unfold merge_repeated. rewrite El.
  rewrite packed_body_len_correct by auto.
  rewrite (merge_loop_exact _ (payload m) (fun acc v => acc ++ [v]) (fun _ => 1) (fun v => mod_value_okb m v = true)).
  - rewrite fold_left_snoc, sumZ_const1. reflexivity.
  - intros t x rest a' Hx.
    rewrite (bind_ok _ _ _ _ _ (payload_rt m x rest a' Hs Hx)). unfold payload_cost. rewrite El.
    unfold push, bind, charge, ret. cbn [rb ra]. f_equal. f_equal. lia.
  - intros x Hx. apply payload_nonempty; auto.
  - apply Forall_forall. rewrite Forall_forall in Hg. exact Hg.
  - exact Hl.
Qed.

(* ------------------------------------------------------------------ encoded_len of the repeated forms *)
Theorem encoded_len_repeated_correct m tag vs : scalar_mod m = true -> tag_ok tag ->
  Forall (fun v => mod_value_okb m v = true) vs ->
  encoded_len_repeated m tag vs = zlen (encode_repeated m tag vs).
Proof.
  intros Hs Ht Hg. unfold encoded_len_repeated, encode_repeated.
  assert (Hk : forall v, mod_value_okb m v = true -> zlen (encode_scalar m tag v) = key_len tag + payload_len m v).
  { intros v Hv. rewrite <- encoded_len_scalar_correct by auto. reflexivity. }
  destruct (fixed_of m) as [[[t w] fwt]|] eqn:Ef.
  - induction Hg as [|v vs Hv Hg IH]; [cbn; lia|].
    cbn [flat_map length]. rewrite zlen_app, <- IH, Hk by auto. unfold payload_len.
    replace (is_varint_mod m) with false by (destruct m; vm_compute in Ef; try discriminate Ef; reflexivity).
    rewrite Ef. lia.
  - induction Hg as [|v vs Hv Hg IH]; [cbn; lia|].
    cbn [flat_map length map sumZ fold_right]. fold (sumZ (map (payload_len m) vs)).
    rewrite zlen_app, <- IH, Hk by auto. lia.
Qed.

Theorem encoded_len_packed_correct m tag vs : numeric_mod m = true -> tag_ok tag ->
  Forall (fun v => mod_value_okb m v = true) vs -> zlen (flat_map (payload m) vs) < two64 ->
  encoded_len_packed m tag vs = zlen (encode_packed m tag vs).
Proof.
  intros Hn Ht Hg Hl. unfold encoded_len_packed, encode_packed.
  destruct vs as [|v0 vs0]; [reflexivity|]. set (vs := v0 :: vs0) in *.
  rewrite packed_body_len_correct by auto. rewrite !zlen_app.
  rewrite (key_len_correct tag LengthDelimited Ht).
  rewrite encoded_len_varint_correct by (pose proof (zlen_nonneg (flat_map (payload m) vs)); lia).
  unfold zlen. lia.
Qed.

Example codec_rt_nonvacuous :
  bind decode_key (fun k => merge_scalar MSInt32 (snd k)) (mkR (encode_scalar MSInt32 536870911 (VI (-7)) ++ [x01]) 0)
  = OOk (VI (-7)) (mkR [x01] 0) /\
  bind decode_key (fun k => merge_repeated MInt32 (snd k) []) (mkR (encode_packed MInt32 1 [VI (-1); VI 5]) 0)
  = OOk [VI (-1); VI 5] (mkR [] 2).
Proof. vm_compute. auto. Qed.
