(* C19 (protobuf half) -- a failed decode releases everything it allocated.
   The protobuf decoders have no raw-pointer decode template: values are built with safe Rust only, so dropping the
   error drops the partial value.  That claim is the regenerated inventory below; the one site that touches ownership
   (the drop guard of string::merge) is modelled in Guard.v.  WHERE the owners are -- targets, locals, overwritten values --
   is modelled in Own.v (the decoders of Msg.v with the state of the target on every exit and a ghost ledger of live heap
   blocks / handles on the input).  The implementation half is measured on every run (pv/props/c19pb.py: live heap and
   input references while the result of Message::decode is held and after it has been dropped, compared with the
   ledger the extracted model predicts).  Only statements. *)
From PVPb Require Import Guard Proofs.GuardP Own Proofs.OwnP.
Open Scope Z_scope.

(* every unsafe / set_len / mem::forget / ManuallyDrop / from_raw_parts / into_raw / Box::leak site of
   pilota/src/prost/{encoding,message,types}.rs and of the protobuf templates of pilota-build (regenerated on every run)
   is one of: the ten get_unchecked reads of decode_varint_slice, the unsafe block and the mem::forget of the string::merge
   drop guard, FastStr::from_bytes_unchecked in faststr::merge -- in this order, nothing else *)
Theorem C19_pb_inventory : unsafe_sites = accounted_sites /\ guard_covers_merge = true.
Proof. exact inventory_accounted. Qed.
Print Assumptions C19_pb_inventory.

(* the String behind string::merge is empty or valid UTF-8 on every exit (value, DecodeError, panic while the buffer is
   being read), and what is moved into the field on success is exactly the decoded bytes *)
Theorem C19_pb_guard : forall junk wt s,
  let '(r, content) := string_merge_src junk wt s in
  (content = [] \/ utf8_valid content = true) /\
  r = string_merge wt s /\
  (forall v s', r = OOk v s' -> content = vbytes v).
Proof. exact guard_sound. Qed.
Print Assumptions C19_pb_guard.

(* C19_pb_no_leak.  own_decode sc i s = (outcome, ledger) is Message::decode of message #i with the ownership made
   explicit (Own.v): `let mut message = Self::default(); Self::merge(&mut message, &mut buf)?; Ok(message)`, every
   function below it returning the state of its `&mut` target on EVERY exit, every local dropped where the code between
   its creation and its move fails, every overwritten value released.  On EVERY schema, message and reader state (any
   byte string, valid or not; no hypothesis):
     - the outcome is the one of the decoder model the other properties speak about (value, DecodeError or panic, and the
       reader state);
     - after a failure -- DecodeError or unwinding -- the ledger is EMPTY (lzero: all three counters): no heap block
       allocated by the decode is live and no handle on the input buffer survives the drop of the partially built message;
     - after a success the live heap blocks and the live handles of non-empty slices are EXACTLY what the returned message
       holds (same_hr .. (own_msg ..): the buffers of its non-empty Vecs and Strings, the tables of its non-empty maps, one
       handle per non-empty Bytes and per FastStr longer than the inline capacity, at every nesting level).
   The third counter (l_tail) is the zero-length Bytes cut at the very end of the input, which pins the buffer although
   it is empty (Bytes::split_to(len) with len = remaining returns the whole handle): it cannot be read off the value,
   the ledger carries it apart; it is there on success only and goes with the message. *)
Theorem C19_pb_no_leak : forall sc i s,
  fst (own_decode sc i s) = msg_decode sc i s /\
  match fst (own_decode sc i s) with
  | OOk v _ => same_hr (snd (own_decode sc i s)) (own_msg depth_fuel sc i v)
  | _ => snd (own_decode sc i s) = lzero
  end.
Proof. exact no_leak. Qed.
Print Assumptions C19_pb_no_leak.

(* Message::merge into a message x the caller owns, from a ledger that is exactly what x holds: on every exit the
   ledger is exactly what the (possibly partially merged) message holds -- nothing beside it is live --, and once the
   caller drops a message whose merge failed nothing is left *)
Theorem C19_pb_merge_no_leak : forall sc i x s L,
  erase (pmsg_merge sc i x s L) = msg_merge sc i x s /\
  match pmsg_merge sc i x s (own_msg depth_fuel sc i x) with
  | POk x' _ L' | PErr _ x' _ L' | PPanic _ x' L' => same_hr L' (own_msg depth_fuel sc i x')
  end /\
  match fst (own_merge_then_drop sc i x s) with
  | OOk x' _ => same_hr (snd (own_merge_then_drop sc i x s)) (own_msg depth_fuel sc i x')
  | _ => snd (own_merge_then_drop sc i x s) = lzero
  end.
Proof. exact merge_no_leak. Qed.
Print Assumptions C19_pb_merge_no_leak.

(* the invariant behind both, for merge_field of every message at every depth budget: the ledger moves exactly with
   what the target holds (L' - own target' = L - own target in heap blocks and handles, on success, `?` and unwinding) *)
Theorem C19_pb_conservation : forall sc d i tag wt ctx, conserves (own_msg d sc i) (pmerge_field d sc i tag wt ctx).
Proof. exact conserves_pmerge_field. Qed.
Print Assumptions C19_pb_conservation.

(* the wrapper impls of types.rs (bool / integers / floats / String / Vec<u8> / Bytes / ()) *)
Theorem C19_pb_wrapper_no_leak : forall m s,
  fst (own_wrapper_decode m s) = wrapper_decode m s /\
  match fst (own_wrapper_decode m s) with
  | OOk v _ => same_hr (snd (own_wrapper_decode m s)) (own_wrapper m v)
  | _ => snd (own_wrapper_decode m s) = lzero
  end.
Proof. exact wrapper_no_leak. Qed.
Print Assumptions C19_pb_wrapper_no_leak.
(* non-vacuity: Proofs/OwnP.v partial_message_is_dropped (the partial message holds 2 blocks + 2 handles when the decode
   fails), local_is_dropped, overwrite_releases, success_holds_its_resources, tail_handle, tail_handle_dropped.
   NOT in the model (named in Own.v): the Box of recursive message fields, container capacities. *)
