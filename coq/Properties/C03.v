(* C03 -- the Thrift wire format conforms to the Apache protocol specifications (interop).
   Thrift/Spec.v is an independent specification (its own type-code tables, a pure encoder over value
   trees annotated with every free choice of a conforming writer, the message envelope) for the
   binary and compact protocols; binary-LE is pilota-specific and outside the Apache specs.
   Whole-tree statement for the alternative forms: C03_legal_read_back (oracle form: the annotated
   tree [sval] carries one choice per free point) and C03_legal_read_back_rel (relation [legal]) at the
   end of this file; the header-level lemmas C03_alt_* are what they compose. *)
From PV Require Import Thrift.Spec Thrift.Interp Thrift.Msg Thrift.Skip
  Proofs.HeaderP Proofs.RoundtripP Proofs.SpecP Proofs.SpecTreeP.
Open Scope Z_scope.

(* pilota -> reference: for every well-typed value the bytes pilota's writer emits ARE the
   specification's encoding (canonical choices) -- so any decoder that inverts the specification's
   encoder recovers exactly the value written *)
Theorem C03_pilota_writes_spec : forall p k, p <> PBinaryLE -> forall v,
  wt v = true -> forall c ss c', w_pend c = None -> write_val p k v c = Ok (ss, c') -> flat ss = sp p (annot v).
Proof. exact writes_spec. Qed.
Print Assumptions C03_pilota_writes_spec.

(* reference -> pilota, canonical form, whole trees *)
Theorem C03_spec_read_back : forall p v, p <> PBinaryLE -> wt v = true ->
  forall fuel r rcx, (vsize v <= fuel)%nat -> idle rcx ->
    read_val p fuel (ttype_of v) (mkS (sp p (annot v) ++ r) rcx) = Ok (canon p v, mkS r rcx).
Proof. exact spec_read_back. Qed.
Print Assumptions C03_spec_read_back.

(* reference -> pilota, every legal alternative form (header level) *)
Theorem C03_alt_binary_bool_any_nonzero : forall p tb r c, p <> PCompact ->
  r_bool p (mkS (tb :: r) c) = Ok (negb (Byte.eqb tb x00), mkS r c).
Proof. exact alt_bool_binary. Qed.
Print Assumptions C03_alt_binary_bool_any_nonzero.

Theorem C03_alt_compact_field_header : forall last id long ct ty r rcx,
  in_s 16 id -> in_s 16 last -> r_last rcx = last ->
  ttype_of_ctype ct = Some ty -> ty <> TStop ->
  r_field_begin PCompact (mkS (s_fhdr last id long (ctype_code ct) ++ r) rcx) =
    Ok ((ty, Some id),
        mkS r (mkR id (r_stack rcx)
                   (match ct with CBooleanTrue => Some true | CBooleanFalse => Some false | _ => r_pbool rcx end)
                   false)).
Proof. exact alt_field_header. Qed.
Print Assumptions C03_alt_compact_field_header.

Theorem C03_alt_compact_list_header : forall et long b2 n r rcx,
  elem_ttype_ok et = true -> 0 <= n < 2 ^ 31 -> n <= Z.of_nat (length r) ->
  r_coll_begin PCompact (mkS (s_lhdr n long (s_etype et b2) ++ r) rcx) = Ok ((et, n), mkS r rcx).
Proof. exact alt_coll_header. Qed.
Print Assumptions C03_alt_compact_list_header.

Theorem C03_alt_compact_map_header : forall kt vt kb2 vb2 n r rcx,
  elem_ttype_ok kt = true -> elem_ttype_ok vt = true -> 0 < n < 2 ^ 31 -> n <= Z.of_nat (length r) ->
  r_map_begin PCompact (mkS (s_uv n ++ [z2b (s_etype kt kb2 * 16 + s_etype vt vb2)] ++ r) rcx) = Ok ((kt, vt, n), mkS r rcx).
Proof. exact alt_map_header. Qed.
Print Assumptions C03_alt_compact_map_header.

Theorem C03_alt_compact_empty_map : forall r rcx,
  r_map_begin PCompact (mkS (x00 :: r) rcx) = Ok ((TStop, TStop, 0), mkS r rcx).
Proof. exact alt_empty_map. Qed.
Print Assumptions C03_alt_compact_empty_map.

(* type codes, exhaustively over all 256 bytes / all 16 nibbles, against the REGENERATED tables:
   a code is the specification's code of a type and maps to that type, or is rejected in the
   header, or is 0 / 1 (Stop / Void) which nothing can consume *)
Theorem C03_type_codes_binary : forall b : byte, byte_class b.
Proof. exact type_codes_binary. Qed.
Print Assumptions C03_type_codes_binary.

Theorem C03_type_codes_compact : forall n, 0 <= n < 16 -> nibble_class n.
Proof. exact type_codes_compact. Qed.
Print Assumptions C03_type_codes_compact.

Theorem C03_stop_void_unconsumable : forall p f t s, t = TStop \/ t = TVoid ->
  (exists e, read_val p (S f) t s = Err e) /\ (forall d, exists e, skip_val p (S f) d t s = Err e).
Proof. exact unconsumable. Qed.
Print Assumptions C03_stop_void_unconsumable.

(* the message envelope, both directions, both protocols; the binary reader accepts any value of
   the unused header byte *)
Theorem C03_msg_binary_read : forall name t seq unused r c,
  len_ok (length name) = true -> in_s 32 seq ->
  r_message_begin PBinary (mkS (spec_msgB name t seq unused ++ r) c) = Ok (mkMsg name t seq, mkS r c).
Proof. exact msg_binary_read. Qed.
Print Assumptions C03_msg_binary_read.

Theorem C03_msg_binary_write : forall k name t seq c,
  len_ok (length name) = true -> in_s 32 seq ->
  exists ss, w_message_begin PBinary k (mkMsg name t seq) c = Ok (ss, c) /\ flat ss = spec_msgB name t seq x00.
Proof. exact msg_binary_write. Qed.
Print Assumptions C03_msg_binary_write.

Theorem C03_msg_compact_read : forall name t seq r c,
  len_ok (length name) = true -> in_s 32 seq ->
  r_message_begin PCompact (mkS (spec_msgC name t seq ++ r) c) = Ok (mkMsg name t seq, mkS r c).
Proof. exact msg_compact_read. Qed.
Print Assumptions C03_msg_compact_read.

Theorem C03_msg_compact_write : forall k name t seq c,
  len_ok (length name) = true -> in_s 32 seq ->
  exists ss, w_message_begin PCompact k (mkMsg name t seq) c = Ok (ss, c) /\ flat ss = spec_msgC name t seq.
Proof. exact msg_compact_write. Qed.
Print Assumptions C03_msg_compact_write.

Theorem C03_app_exception : forall p k msg kind c ss c', p <> PBinaryLE ->
  len_ok (length msg) = true -> in_s 32 kind -> w_pend c = None ->
  write_val p k (VStruct [(1, VBinary msg); (2, VI32 kind)]) c = Ok (ss, c') ->
  flat ss = sp p (spec_app_exception msg kind).
Proof. exact app_exception_spec. Qed.
Print Assumptions C03_app_exception.

(* reference -> pilota, EVERY legal alternative form, WHOLE TREES.  [sv] is a value tree annotated with
   one choice at every point the specifications leave to the writer (the byte of a binary `true`;
   long / short compact field header, incl. the short form for delta 15; long / short list and set
   header; bool element type 1 or 2 in collection and map headers; the empty map is one byte); the
   specification's encoder [sp p] run on it, followed by arbitrary bytes [r], is read back by pilota's
   reader to exactly the value, consuming exactly the encoding and restoring the reader context. *)
Theorem C03_legal_read_back : forall p sv, p <> PBinaryLE -> wt (erase sv) = true ->
  forall fuel r rcx, (vsize (erase sv) <= fuel)%nat -> idle rcx ->
    read_val p fuel (stype sv) (mkS (sp p sv ++ r) rcx) = Ok (canon p (erase sv), mkS r rcx).
Proof. exact legal_read_back_tree. Qed.
Print Assumptions C03_legal_read_back.

(* the same with the relation "l is a spec-legal encoding of v" (= the encoder under SOME oracle) *)
Theorem C03_legal_read_back_rel : forall p v l, p <> PBinaryLE -> legal p v l ->
  forall fuel r rcx, (vsize v <= fuel)%nat -> idle rcx ->
    read_val p fuel (ttype_of v) (mkS (l ++ r) rcx) = Ok (canon p v, mkS r rcx).
Proof. exact legal_read_back_rel. Qed.
Print Assumptions C03_legal_read_back_rel.

(* what pilota writes is one of the legal encodings (the canonical oracle) *)
Theorem C03_written_is_legal : forall p k v c ss c', p <> PBinaryLE -> wt v = true -> w_pend c = None ->
  write_val p k v c = Ok (ss, c') -> legal p v (flat ss).
Proof. exact written_is_legal. Qed.
Print Assumptions C03_written_is_legal.

(* a bool element `false` spelled 0 (the compact specification's text) or 2 (the Apache libraries) -- both
   accepted since fix F-03a; both are covered by C03_legal_read_back (annotation byte of SBool) *)
Theorem C03_alt_compact_bool_elem_zero :
  read_val PCompact 9 TList (mkS [x11; x00] r0) = Ok (VList TBool [VBool false], mkS [] r0) /\
  read_val PCompact 9 TList (mkS [x11; x02] r0) = Ok (VList TBool [VBool false], mkS [] r0).
Proof. exact compact_bool_elem_zero_accepted. Qed.
Print Assumptions C03_alt_compact_bool_elem_zero.

(* tie to the METHOD BODIES (regenerated table Generated/PrimOps.v, see C01_prim_ops_table): every regenerated writer row
   of a scalar (write_bool, write_i8 / i16 / i32 / i64, write_double, write_uuid, write_bytes / string / faststr /
   bytes_vec) of the binary and compact protocols, on every buffer kind, emits exactly the bytes the independent
   specification Thrift/Spec.v prescribes for that scalar, and leaves the writer context unchanged *)
From Coq Require Import String.
From PV Require Import Thrift.PrimOp Thrift.PrimOpsSem Generated.PrimOps Proofs.PrimOpsP Proofs.PrimOpsTableP.
Theorem C03_prim_ops_spec : forall r, In r prim_ops -> r_class r = "write"%string ->
  forall p, pk_of (r_proto r) = Some p -> p <> PBinaryLE ->
  forall k a c v, in_s 16 (a_id a) -> in_s 16 (w_last c) -> w_pend c = None ->
    scalar_of (r_method r) a = Some v -> wt v = true ->
    fl (run_w p k r a c) = Ok (sp p (annot v), c).
Proof. exact prim_ops_spec. Qed.
Print Assumptions C03_prim_ops_spec.

(* the number formats in the specification's OWN terms (Proofs/NumSpecP.v).  Spec.v builds its encoder
   from encode_var / zigzag / be_bytes, which the implementation model shares; here each format is a
   closed form that does not mention them, and the shared functions are proved to meet it:
   - ULEB128 [is_uleb n l]: sum (b_i mod 128) * 128^i = n, continuation bit on every byte but the last,
     no trailing zero group; at most 10 bytes for a u64; and the closed form DETERMINES the bytes;
   - zigzag: 2n / -2n-1, = (n << 1) ^ (n >> 63) on the i64 range, then ULEB128; unzigzag inverts it;
   - fixed width: k bytes whose big-endian (little-endian: binary-LE) base-256 value is the two's
     complement residue [twos k n] *)
From PV Require Import Base.Varint Proofs.NumSpecP.
Theorem C03_number_formats :
  (forall n, 0 <= n < 2 ^ 64 -> is_uleb n (s_uv n) /\ (length (s_uv n) <= 10)%nat) /\
  (forall l l' n, is_uleb n l -> is_uleb n l' -> l = l') /\
  (forall n, - 2 ^ 63 <= n < 2 ^ 63 ->
     (0 <= n -> zigzag n = 2 * n) /\ (n < 0 -> zigzag n = - 2 * n - 1) /\
     zigzag n = Z.lxor (Z.shiftl n 1) (Z.shiftr n 63) /\ is_uleb (zigzag n) (s_zz n) /\ unzigzag (zigzag n) = n) /\
  (forall k n, (0 < k)%nat -> in_s (8 * Z.of_nat k) n ->
     length (s_i k (8 * Z.of_nat k) n) = k /\ be_value (s_i k (8 * Z.of_nat k) n) = twos k n /\
     length (le_bytes k n) = k /\ le_value (le_bytes k n) = twos k n).
Proof. exact number_formats. Qed.
Print Assumptions C03_number_formats.

(* audit C03.2: ApplicationException::decode (the model of Thrift/AppMsg.v) on EVERY spec-legal encoding
   [l] of an exception struct -- [legal p v l]: the specification's encoder under SOME choice at every
   point the specifications leave to the writer (long / short compact field headers, the byte of a
   binary `true`, long / short list headers, bool element codes, ...) -- with fields 1 (string) and 2
   (i32) in ANY order and any further well-typed fields around them: (message, kind), last occurrence
   winning, defaults for absent ones; consumes exactly [l], reader context restored.  Binary and
   compact (the specifications do not cover binary-LE).  C07_app_exception_tolerant is the instance
   for the one legal encoding pilota writes. *)
From PV Require Import Thrift.Skip Thrift.AppMsg Proofs.SkipP Proofs.SpecTreeP Proofs.FieldLoopP Proofs.AppLegalP.
Theorem C03_app_exception_legal : forall p fs l,
  p <> PBinaryLE -> legal p (VStruct fs) l -> Forall app_field_ok fs ->
  forall fuel r rcx, (vsize (VStruct fs) <= fuel)%nat -> idle rcx ->
    app_decode p fuel (mkS (l ++ r) rcx) = Ok (app_pick fs app_default_msg 0, mkS r rcx).
Proof. exact app_exception_legal. Qed.
Print Assumptions C03_app_exception_legal.

(* the exception proper, message and kind in either order *)
Theorem C03_app_exception_legal_12 : forall p m k l,
  p <> PBinaryLE ->
  legal p (VStruct [(1, VBinary m); (2, VI32 k)]) l \/ legal p (VStruct [(2, VI32 k); (1, VBinary m)]) l ->
  forall fuel r rcx, (5 <= fuel)%nat -> idle rcx ->
    app_decode p fuel (mkS (l ++ r) rcx) = Ok ((m, k), mkS r rcx).
Proof. exact app_exception_legal_12. Qed.
Print Assumptions C03_app_exception_legal_12.
