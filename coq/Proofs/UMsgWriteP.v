(* C11 / C01 for the envelope WRITER of the unchecked binary codec (binary_unsafe.rs
   write_message_begin; Thrift/AppMsg.v uw_message_begin): on a transport set up as the contract
   prescribes it emits exactly the segments the checked binary writer emits -- for a sequence of
   enveloped messages written back to back on one protocol object -- and never writes outside the
   room it was given; hence (C01_message_sequence) what it writes is read back by the checked and by
   the unchecked reader. *)
From PV Require Import Thrift.Unsafe Thrift.Msg Thrift.AppMsg Proofs.VarintP Proofs.TablesP Proofs.PrimP Proofs.HeaderP
  Proofs.RoundtripP Proofs.LenP Proofs.UnsafeP Proofs.AppMsgP.
From Coq Require Import ZifyN ZifyNat ZifyBool.
Open Scope Z_scope.

(* advance_mut after a writer changes nothing the refinement observes *)
Lemma UWR_commit_r k zc w uw : UWR k zc w uw -> UWR k zc w (uw ;;; uw_commit).
Proof.
  intros H c ss c' u Hw Hk Hf.
  assert (Hw' : (w ;; wnop) c = Ok (ss ++ [], c')) by (rewrite wseq_wnop_r, Hw; reflexivity).
  rewrite app_nil_r in Hw'.
  exact (UWR_seq k zc w uw wnop uw_commit H (UWR_commit k zc) c ss c' u Hw' Hk Hf).
Qed.

(* a checked step that emits nothing (write_message_end) has no unchecked counterpart *)
Lemma UWR_skip_r k zc w (e : wm) uw : (forall c ss c', e c = Ok (ss, c') -> ss = [] /\ c' = c) ->
  UWR k zc w uw -> UWR k zc (w ;; e) uw.
Proof.
  intros He H c ss c' u Hw Hk Hf.
  apply wseq_inv in Hw as (s1 & c1 & s2 & Ha & Hb & ->).
  destruct (He _ _ _ Hb) as [-> ->]. rewrite app_nil_r in *. eauto.
Qed.

Lemma UWR_message_begin k zc m : UWR k zc (w_message_begin PBinary k m) (uw_message_begin zc m).
Proof.
  unfold uw_message_begin. cbn [w_message_begin version_of].
  apply UWR_commit_r. apply UWR_seq; [apply UWR_seq; [apply UWR_i32|apply UWR_bytes]|apply UWR_i32].
Qed.

Lemma w_message_end_inv c ss c' : w_message_end PBinary c = Ok (ss, c') -> ss = [] /\ c' = c.
Proof. unfold w_message_end, assert_no_pending_w. intros H. injection H as <- <-. auto. Qed.

Theorem uwrite_msgs_UWR k zc : forall l, UWR k zc (write_msgs PBinary k l) (uwrite_msgs zc l).
Proof.
  induction l as [|[m v] t IH]; [apply UWR_nop|].
  cbn [write_msgs uwrite_msgs].
  apply UWR_seq; [|exact IH].
  apply UWR_skip_r; [exact w_message_end_inv|].
  apply UWR_seq; [apply UWR_message_begin|apply uwrite_val_UWR].
Qed.

(* a contiguous buffer never receives a zero-copy node *)
Lemma contig_nonode_msgs : forall l, nonode (write_msgs PBinary BContig l).
Proof.
  induction l as [|[m v] t IH]; [apply nonode_nop|].
  cbn [write_msgs]. apply nonode_seq; [|exact IH].
  apply nonode_seq; [apply nonode_seq; [|apply contig_nonode]|].
  - cbn [w_message_begin]. apply nonode_seq; [apply nonode_seq; [apply nonode_ret|]|apply nonode_ret].
    unfold w_bytes. apply nonode_seq; [apply nonode_ret|].
    intros c ss c' H. unfold w_bytes_without_len in H. injection H as <- _. reflexivity.
  - intros c ss c' H. apply w_message_end_inv in H as [-> _]. reflexivity.
Qed.

(* C11_message_write_eq: a transport set up as the contract prescribes, with room for the bytes of
   the whole sequence: same segments as the checked binary writer, room and zero-copy accounting
   exact, write index = bytes written on a contiguous buffer *)
Theorem unchecked_message_write_eq k zc msgs cap :
  Forall msg_ok msgs ->
  (match k with BContig => True | BLinked z => z = zc end) ->
  exists ss, write_msgs PBinary k msgs w0 = Ok (ss, w0) /\
    (Z.of_nat (length (flat ss)) <= cap ->
     exists u', uwrite_msgs zc msgs (match k with BContig => uw_contig cap | BLinked _ => uw_linked cap end) = Ok (ss, u') /\
       uw_room u' = cap - copy_len ss /\ uw_zc u' = zc_len ss /\
       (k = BContig -> uw_idx u' = Z.of_nat (length (flat ss)))).
Proof.
  intros HF Hk. destruct (message_sequence PBinary k msgs HF w0 eq_refl) as (ss & Hw & _).
  exists ss. split; [exact Hw|]. intros Hcap.
  pose proof (flat_len ss) as FL. pose proof (zc_len_nonneg ss) as Hz.
  destruct k as [|z].
  - destruct (uwrite_msgs_UWR BContig zc msgs w0 ss w0 (uw_contig cap) Hw) as (u' & E & (A1 & A2 & A3 & A4) & _).
    + cbn. congruence.
    + split; cbn [uw_contig uw_room uw_room_tr]; [lia|]. intros rt H. injection H as <-. lia.
    + exists u'. split; [exact E|]. cbn [uw_contig uw_room uw_zc uw_idx uw_room_tr] in *.
      split; [lia|]. split; [lia|]. intros _. rewrite A4 by congruence.
      pose proof (contig_nonode_msgs msgs _ _ _ Hw). lia.
  - subst z. destruct (uwrite_msgs_UWR (BLinked zc) zc msgs w0 ss w0 (uw_linked cap) Hw) as (u' & E & (A1 & A2 & A3 & A4) & _).
    + cbn. auto.
    + split; cbn [uw_linked uw_room uw_room_tr]; [lia|]. intros rt H. discriminate.
    + exists u'. split; [exact E|]. cbn [uw_linked uw_room uw_zc] in *. split; [lia|]. split; [lia|]. intros H. discriminate.
Qed.

(* C01_message_sequence for the unchecked writer: a sequence of enveloped messages written by the
   unchecked writer (given room for them), followed by arbitrary bytes, is read back -- envelopes and
   values -- by the checked binary reader from any idle reader state and by the unchecked reader,
   each leaving exactly the rest *)
Theorem unchecked_message_sequence k zc msgs cap :
  Forall msg_ok msgs ->
  (match k with BContig => True | BLinked z => z = zc end) ->
  exists ss, write_msgs PBinary k msgs w0 = Ok (ss, w0) /\
    (Z.of_nat (length (flat ss)) <= cap ->
     exists u', uwrite_msgs zc msgs (match k with BContig => uw_contig cap | BLinked _ => uw_linked cap end) = Ok (ss, u') /\
       forall fuel r, (forall q, In q msgs -> (vsize (snd q) <= fuel)%nat) ->
         (forall rcx, idle rcx ->
            read_msgs PBinary fuel (map (fun q => ttype_of (snd q)) msgs) (mkS (flat ss ++ r) rcx)
              = Ok (map (fun q => (fst q, canon PBinary (snd q))) msgs, mkS r rcx)) /\
         (exists u2, uread_msgs fuel (map (fun q => ttype_of (snd q)) msgs) (mkU (flat ss ++ r) 0)
                       = Ok (map (fun q => (fst q, canon PBinary (snd q))) msgs, u2) /\ urest u2 = r)).
Proof.
  intros HF Hk. destruct (unchecked_message_write_eq k zc msgs cap HF Hk) as (ss & Hw & Hu).
  exists ss. split; [exact Hw|]. intros Hcap. destruct (Hu Hcap) as (u' & E & _). exists u'. split; [exact E|].
  intros fuel r Hf.
  destruct (message_sequence PBinary k msgs HF w0 eq_refl) as (ss1 & Hw1 & R1).
  destruct (unchecked_message_roundtrip k msgs w0 HF eq_refl) as (ss2 & Hw2 & R2).
  rewrite Hw in Hw1, Hw2. injection Hw1 as <-. injection Hw2 as <-.
  split; [intros rcx Hi; apply R1; auto|apply R2; auto].
Qed.

(* non-vacuity: two messages, a 5000-byte string sent as a zero-copy node on a linked buffer; one
   byte of room short: the unchecked writer goes out of bounds (modelled as Panic SOob) *)
Example unchecked_message_write_example :
  let msgs := [(mkMsg [x70; x69; x6e; x67] MCall 7, VStruct [(1, VBool true); (2, VBinary (repeat x61 5000))]);
               (mkMsg [] MReply (-3), VStruct [(1, VList TI16 [VI16 1; VI16 (-1)])])] in
  Forall msg_ok msgs /\
  (exists ss u, write_msgs PBinary (BLinked true) msgs w0 = Ok (ss, w0) /\
                uwrite_msgs true msgs (uw_linked 5100) = Ok (ss, u) /\ zc_len ss = 5000 /\ uw_room u = 5100 - copy_len ss) /\
  (exists ss u, write_msgs PBinary BContig msgs w0 = Ok (ss, w0) /\
                uwrite_msgs false msgs (uw_contig 5100) = Ok (ss, u) /\ uw_idx u = Z.of_nat (length (flat ss))) /\
  uwrite_msgs true msgs (uw_linked 30) = Panic SOob.
Proof.
  cbv zeta. split.
  - repeat (apply Forall_cons; [vm_compute; repeat split; congruence|]). apply Forall_nil.
  - split; [|split].
    + do 2 eexists. split; [vm_compute; reflexivity|]. split; [vm_compute; reflexivity|]. split; vm_compute; reflexivity.
    + do 2 eexists. split; [vm_compute; reflexivity|]. split; vm_compute; reflexivity.
    + vm_compute. reflexivity.
Qed.
