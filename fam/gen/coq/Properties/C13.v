(* C13 -- retained unknown fields survive re-encoding unchanged (keep_unknown_fields builds; the binary protocols:
   p ranges over {binary, binary-LE}; the unchecked binary codec is the checked one within its contract, property C11).

   S is the READER's schema (declarations carry the keep flag of the build and the is_arg flag of pilota-build's `args`
   set), T the decoded type -- any declared type, so "top-level, nested, inside containers" are all instances --, and the
   writer is represented by the self-describing value tree tv it puts on the wire (every writer schema that adds fields /
   variants to S produces such a tree; see Properties/C08.v).  c is the writer's context, k its buffer kind.

   [viewk S p k c T tv] (KeepSpec.v): the tolerant reader's view (EvoSpec.view) plus, in every struct whose declaration
   keeps, [fbytes p k c id x] for each wire field (id, x) the reader ignores, in wire order -- fbytes is literally what
   the runtime writer emits for that field (header, value).

   Domain: evo_dom / no_retyped_variant as in C08; arg_free S T tv: no struct the decoder of T VISITS while reading tv is
   both keep and is_arg -- finding F-13a: such a type takes `remaining - 2` bytes of the whole buffer once its known fields
   are read (C13_is_arg_refuted).  The condition is relative to the type and the message, not to the schema: a keep build
   of a service IDL has keep + is_arg structs, and every type that does not reach one is in the domain for every message
   (C13_arg_free_of_reach: no_keep_arg_reach S T, reachability over declared field / variant / element types; Example
   KeepTopP.keep_decode_service_nonvacuous has such a schema). *)
From PVGen Require Import Gen GenKeep GenSpec EvoSpec KeepSpec Proofs.GenBase Proofs.KeepP Proofs.KeepArgP Proofs.KeepSizeP Proofs.KeepTopP Proofs.KeepViewP Proofs.KeepRetP Proofs.KeepWtP Proofs.KeepMainP FullSpec Proofs.KeepFullP GenUnsafe Proofs.KeepLinkedP.
From PV Require Import Proofs.HeaderP Thrift.Unsafe Proofs.UnsafeP.
Open Scope Z_scope.

(* decode with retention: every retained chunk is, byte for byte, the encoding of exactly one field the reader ignores
   (the chunks of [viewk] are [fbytes] by definition), in wire order, at every nesting level; the known fields are the
   tolerant reader's; exactly the message is consumed and the reader context restored *)
Theorem C13_bytes : forall S p k T tv,
  p <> PCompact ->
  wt tv = true -> ttype_of tv = ttype_of_ty S T ->
  evo_dom S T tv = true -> no_retyped_variant S T tv = true -> arg_free S T tv = true ->
  forall c, w_pend c = None ->
  exists ss, write_val p k tv c = Ok (ss, c) /\
    forall fuel r rcx, (vsize tv <= fuel)%nat -> idle rcx ->
      gen_decode_keep S p fuel T (mkS (flat ss ++ r) rcx) = lift_view (viewk S p k c T tv) (mkS r rcx).
Proof. exact keep_decode. Qed.
Print Assumptions C13_bytes.

(* the type-level sufficient condition: no struct reachable from T is both keep and is_arg; implied by the schema-wide
   no_keep_arg *)
Theorem C13_arg_free_of_reach : forall S v t, no_keep_arg_reach S t -> arg_free S t v = true.
Proof. exact reach_arg_free. Qed.
Print Assumptions C13_arg_free_of_reach.

Theorem C13_reach_of_no_keep_arg : forall S T, no_keep_arg S = true -> no_keep_arg_reach S T.
Proof. exact no_keep_arg_all. Qed.
Print Assumptions C13_reach_of_no_keep_arg.

(* ... and each such chunk is a contiguous slice of the message *)
Theorem C13_bytes_slice : forall p k c fs ss id x,
  p <> PCompact -> w_pend c = None -> wt (VStruct fs) = true ->
  write_val p k (VStruct fs) c = Ok (ss, c) -> In (id, x) fs ->
  exists a b, flat ss = a ++ fbytes p k c id x ++ b.
Proof. exact keep_chunk_slice. Qed.
Print Assumptions C13_bytes_slice.

(* retention never changes how known fields decode: on the same message the plain build and the keep build have the
   same outcome and end position, and the values differ only by the retained chunks (strip).  unions_single: no keeping
   union consists of fields the reader ignores -- there the keep build yields `_UnknownFields` where the plain build
   reports an empty union, by design. *)
Theorem C13_known_unchanged : forall S p k T tv,
  wf_schema S = true -> arg_free S T tv = true -> p <> PCompact ->
  wt tv = true -> ttype_of tv = ttype_of_ty S T ->
  evo_dom S T tv = true -> no_retyped_variant S T tv = true -> unions_single S T tv = true ->
  forall c, w_pend c = None ->
  exists ss, write_val p k tv c = Ok (ss, c) /\
    forall fuel r rcx, (vsize tv <= fuel)%nat -> idle rcx ->
      gen_decode S p fuel T (mkS (flat ss ++ r) rcx) =
      match gen_decode_keep S p fuel T (mkS (flat ss ++ r) rcx) with
      | Ok (g, s) => Ok (strip g, s)
      | Err e => Err e
      | Panic q => Panic q
      end.
Proof. exact keep_known_unchanged. Qed.
Print Assumptions C13_known_unchanged.

(* unions_single is exact: for a keeping union whose only field is a variant the reader does not know the two builds
   differ in the OUTCOME (keep: `_UnknownFields`, re-emitted on encode; plain: "received empty union") -- the purpose of
   the `_UnknownFields` variant; no known field is involved.  Replayed on the emitted code:
   `dec keep uni.Un binary sync 0f000403000000010100` -> `ok _UnknownFields(..)`, `dec plain ...` -> `err invalid_data`. *)
Theorem C13_known_unchanged_unknown_variant_refuted :
  exists S p k T tv ss,
    wf_schema S = true /\ arg_free S T tv = true /\ wt tv = true /\ ttype_of tv = ttype_of_ty S T /\
    evo_dom S T tv = true /\ no_retyped_variant S T tv = true /\ unions_single S T tv = false /\
    write_val p k tv w0 = Ok (ss, w0) /\
    gen_decode_keep S p 40 T (mkS (flat ss) r0) = Ok (GUnionUnknown [x0f; x00; x04; x03; x00; x00; x00; x01; x01], mkS [] r0) /\
    gen_decode S p 40 T (mkS (flat ss) r0) = Err EInvalidData.
Proof. exact keep_unknown_variant_refuted. Qed.
Print Assumptions C13_known_unchanged_unknown_variant_refuted.

(* the specifications themselves: the keep view without its chunks is the plain view *)
Theorem C13_view_strip : forall S p k c v t, wf_schema S = true ->
  no_retyped_variant S t v = true -> unions_single S t v = true ->
  view S t v = rmap strip (viewk S p k c t v).
Proof. exact viewk_strip. Qed.
Print Assumptions C13_view_strip.

(* re-encoding: the known fields, then the retained chunks byte for byte, then the stop byte *)
Theorem C13_retain_layout : forall S p k t n dfs kp ia fs unk c ss c',
  p <> PCompact -> resolve S t = TyRef n -> lookup S n = Some (DStruct dfs kp ia) ->
  enc_ty S p k t (GStruct fs unk) c = Ok (ss, c') ->
  exists sf c2, enc_fields S p k dfs fs c = Ok (sf, c2) /\ flat ss = flat sf ++ concat unk ++ [x00].
Proof. exact keep_encode_layout. Qed.
Print Assumptions C13_retain_layout.

(* decode with retention, then the emitted encode: the re-encoded message is, byte for byte, the runtime writer's encoding
   of [reenc S T tv] (KeepSpec.v: per keeping struct the known fields in declaration order, IDL defaults filled, then the
   ignored fields exactly as they were, in wire order; nested values likewise), so the self-describing reader of the
   runtime (Interp.read_val, C01) reads it back to exactly that tree, which is well-typed; size() agrees with the bytes
   written.  empty_elems_ok (KeepSpec.v, decidable): the declared element types of the EMPTY containers among the known
   fields have a wire type (reenc announces the declared element type; void elements cannot be declared in IDL).

   The property's last clause is C13_full_reader / C13_retain below (gen-C).  It reads: for every schema W that extends S,
   view W T (reenc S T tv) = view W T tv up to the permitted default filling -- "a reader with the full schema recovers
   the original value".  What is proved towards it: the re-read tree is given in closed form (reenc), every ignored field
   is in it unchanged (C13_retain_unknown), and the known fields are the reader's own view re-encoded. *)
Theorem C13_retain_partial : forall S p k T tv g,
  wf_schema S = true -> arg_free S T tv = true -> p <> PCompact ->
  wt tv = true -> ttype_of tv = ttype_of_ty S T ->
  evo_dom S T tv = true -> no_retyped_variant S T tv = true ->
  forall c, w_pend c = None ->
  viewk S p k c T tv = Ok g -> empty_elems_ok S T tv = true ->
  exists ss b,
    write_val p k tv c = Ok (ss, c) /\
    (forall fuel r rcx, (vsize tv <= fuel)%nat -> idle rcx ->
       gen_decode_keep S p fuel T (mkS (flat ss ++ r) rcx) = Ok (g, mkS r rcx)) /\
    enc_ty S p k T g c = Ok (b, c) /\
    size_ty S p T g c = Ok (Z.of_nat (length (flat b)), c) /\
    wt (reenc S T tv) = true /\
    (forall fuel r rcx, (vsize (reenc S T tv) <= fuel)%nat -> idle rcx ->
       read_val p fuel (ttype_of tv) (mkS (flat b ++ r) rcx) = Ok (reenc S T tv, mkS r rcx)).
Proof. exact keep_retain_trip. Qed.
Print Assumptions C13_retain_partial.

Theorem C13_retain_unknown : forall S T n dfs ia fs id x,
  resolve S T = TyRef n -> lookup S n = Some (DStruct dfs true ia) ->
  In (id, x) fs -> match_field S dfs 0 (Some id) (ttype_of x) = None ->
  exists fs', reenc S T (VStruct fs) = VStruct fs' /\ In (id, x) fs'.
Proof. exact keep_retain_unknown. Qed.
Print Assumptions C13_retain_unknown.

(* size() = bytes written, retained chunks included, for every value the encoder accepts (uuids of 16 bytes) ... *)
Theorem C13_size : forall S p k t v b,
  p <> PCompact -> uuids_ok v = true ->
  gen_encode S p k t v = Ok b -> gen_size S p t v = Ok (Z.of_nat (length b)).
Proof. exact keep_size_exact. Qed.
Print Assumptions C13_size.

(* ... in particular for whatever the keep decoder returned *)
Theorem C13_size_decoded : forall S p k c T tv g b,
  wf_schema S = true -> p <> PCompact -> wt tv = true ->
  viewk S p k c T tv = Ok g -> gen_encode S p k T g = Ok b -> gen_size S p T g = Ok (Z.of_nat (length b)).
Proof. exact keep_decoded_size. Qed.
Print Assumptions C13_size_decoded.

(* finding F-13a: without arg_free the decode statement is false *)
Theorem C13_is_arg_refuted :
  exists S p k T tv ss,
    wf_schema S = true /\ arg_free S T tv = false /\ wt tv = true /\ ttype_of tv = ttype_of_ty S T /\
    evo_dom S T tv = true /\ no_retyped_variant S T tv = true /\
    write_val p k tv w0 = Ok (ss, w0) /\
    viewk S p k w0 T tv = Ok (GStruct [(1, GStruct [(1, GI32 1)] []); (2, GI32 2)] []) /\
    gen_decode_keep S p 40 T (mkS (flat ss) r0) = Err EInvalidData.
Proof. exact keep_is_arg_refuted. Qed.
Print Assumptions C13_is_arg_refuted.

(* ---------- the last clause: a reader with the full schema recovers the original value (gen-C) ----------

   W is ANY schema with S ⊑ W (FullSpec.sub_schema, decidable): same names and kinds, same typedefs; every field / variant
   S declares is declared by W with the same id, type and IDL default (requiredness may differ); a declaration of S that
   does not keep has no extra field / variant in W.  tv is what the writer put on the wire (any writer).  The reader's
   own decode succeeded (viewk S .. = Ok g).  Then whatever the full-schema reader makes of the ORIGINAL message
   (view W T tv = Ok gw) it makes of the RE-ENCODED one (reenc S T tv is, by C13_retain_partial, exactly the tree the
   re-encoded bytes carry), up to [dfill W]: a struct field the reader S filled with its IDL default d travels as an
   encoded d and comes back as fill_defaults W _ d (absent optional fields of d that have an IDL default themselves now
   hold it -- the permitted round-trip difference of C02; nothing else differs).  Nested structs, container elements,
   union payloads: by induction on the tree.  Repeated field ids are covered (the last occurrence wins on both sides).
   The Err direction (what the full reader rejects it still rejects after the decode / re-encode) is C13_full_reader_err
   below: it holds exactly when no struct of the message repeats a field id (C13_full_reader_err_repeated_refuted). *)
Theorem C13_full_reader : forall S W p k c T tv g gw,
  wf_schema S = true -> wf_schema W = true -> sub_schema S W = true ->
  no_retyped_variant S T tv = true ->
  viewk S p k c T tv = Ok g -> view W T tv = Ok gw ->
  exists gw', view W T (reenc S T tv) = Ok gw' /\ dfill W T gw gw'.
Proof. exact full_view. Qed.
Print Assumptions C13_full_reader.

(* when every IDL default of W is already filled (defaults_closed, decidable; all scalar defaults are) nothing differs *)
Theorem C13_full_reader_exact : forall S W p k c T tv g gw,
  wf_schema S = true -> wf_schema W = true -> sub_schema S W = true -> defaults_closed W = true ->
  no_retyped_variant S T tv = true ->
  viewk S p k c T tv = Ok g -> view W T tv = Ok gw ->
  view W T (reenc S T tv) = Ok gw.
Proof. exact full_view_exact. Qed.
Print Assumptions C13_full_reader_exact.

(* the whole property on bytes: decode with retention under S, emitted encode, then the decoder emitted for the full
   schema W run on the re-encoded bytes returns what it returns on the original message (view W T tv, by C08_tolerant),
   up to dfill, and stops at the end of the message.  The original message is in the C08 domain of both readers
   (evo_dom / no_retyped_variant for S and for W); the re-encoded one then is in W's (C13_reenc_domain). *)
Theorem C13_retain : forall S W p k T tv g gw,
  wf_schema S = true -> wf_schema W = true -> sub_schema S W = true -> p <> PCompact ->
  wt tv = true -> ttype_of tv = ttype_of_ty S T ->
  evo_dom S T tv = true -> no_retyped_variant S T tv = true ->
  evo_dom W T tv = true -> no_retyped_variant W T tv = true ->
  forall c, w_pend c = None ->
  viewk S p k c T tv = Ok g -> empty_elems_ok S T tv = true ->
  view W T tv = Ok gw ->
  exists b gw',
    enc_ty S p k T g c = Ok (b, c) /\ dfill W T gw gw' /\
    forall fuel r rcx, (vsize (reenc S T tv) <= fuel)%nat -> idle rcx ->
      gen_decode W p fuel T (mkS (flat b ++ r) rcx) = Ok (gw', mkS r rcx).
Proof. exact keep_retain_full. Qed.
Print Assumptions C13_retain.

(* reenc keeps a message in the domain of the full reader: it re-announces declared element types, re-orders fields and
   writes out defaults, none of which the walk of W objects to; what W ignores is carried unchanged *)
Theorem C13_reenc_domain : forall S W p k c T tv g,
  wf_schema S = true -> wf_schema W = true -> sub_schema S W = true ->
  no_retyped_variant S T tv = true -> viewk S p k c T tv = Ok g ->
  evo_dom W T tv = true -> no_retyped_variant W T tv = true ->
  evo_dom W T (reenc S T tv) = true /\ no_retyped_variant W T (reenc S T tv) = true.
Proof. exact reenc_dom. Qed.
Print Assumptions C13_reenc_domain.

(* ---------- the Err direction of the last clause (gen-C) ----------
   ids_distinct tv (FullSpec.v, decidable): in every struct of the message the field ids are pairwise distinct -- what every
   writer produces.  Then the decode / re-encode loses nothing the full reader looks at: whatever it accepts afterwards it
   accepted before (with the dfill relation of C13_full_reader), hence whatever it REJECTED before it rejects afterwards,
   and on input of the declared shape with the same error class (the only one there: InvalidData -- a required field
   absent, a union with no / several known variants, hereditarily). *)
Theorem C13_full_reader_conv : forall S W p k c T tv g gw',
  wf_schema S = true -> wf_schema W = true -> sub_schema S W = true ->
  no_retyped_variant S T tv = true -> viewk S p k c T tv = Ok g -> ids_distinct tv = true ->
  view W T (reenc S T tv) = Ok gw' ->
  exists gw, view W T tv = Ok gw /\ dfill W T gw gw'.
Proof. exact full_view_conv. Qed.
Print Assumptions C13_full_reader_conv.

Theorem C13_full_reader_err : forall S W p k c T tv g e,
  wf_schema S = true -> wf_schema W = true -> sub_schema S W = true ->
  no_retyped_variant S T tv = true -> viewk S p k c T tv = Ok g -> ids_distinct tv = true ->
  view W T tv = Err e -> exists e', view W T (reenc S T tv) = Err e'.
Proof. exact full_view_err. Qed.
Print Assumptions C13_full_reader_err.

Theorem C13_full_reader_err_class : forall S W p k c T tv g e,
  wf_schema S = true -> wf_schema W = true -> sub_schema S W = true -> ty_closed W T = true ->
  wt tv = true -> ttype_of tv = ttype_of_ty S T ->
  evo_dom S T tv = true -> no_retyped_variant S T tv = true -> empty_elems_ok S T tv = true ->
  evo_dom W T tv = true -> no_retyped_variant W T tv = true ->
  viewk S p k c T tv = Ok g -> ids_distinct tv = true ->
  view W T tv = Err e -> e = EInvalidData /\ view W T (reenc S T tv) = Err EInvalidData.
Proof. exact full_view_err_class. Qed.
Print Assumptions C13_full_reader_err_class.

(* the exception is exact: with a repeated id whose EARLIER occurrence is malformed for the full reader (field 3 twice:
   a Sub without the full schema's required field 9, then a complete one) the full reader rejects the original and accepts
   the re-encoded message -- every reader, with or without retention, keeps the last occurrence only.  Replayed on the
   emitted code (corpus type evo.Evo, NOTES.md): emitted bytes = bytes of reenc; not a finding (writers do not repeat ids;
   the property quantifies over writer schemas) and not a model error. *)
Theorem C13_full_reader_err_repeated_refuted :
  wf_schema Sd = true /\ wf_schema Wd = true /\ sub_schema Sd Wd = true /\ wt tvd = true /\
  no_retyped_variant Sd (TyRef 0) tvd = true /\ evo_dom Wd (TyRef 0) tvd = true /\ ids_distinct tvd = false /\
  (exists g, viewk Sd PBinary BContig w0 (TyRef 0) tvd = Ok g) /\
  view Wd (TyRef 0) tvd = Err EInvalidData /\
  reenc Sd (TyRef 0) tvd = VStruct [ (1, VI32 7); (3, VStruct [(1, VBool false); (9, VI32 5)]) ] /\
  view Wd (TyRef 0) (reenc Sd (TyRef 0) tvd) = Ok (GStruct [(1, GI32 7); (3, GStruct [(1, GBool false); (9, GI32 5)] [])] []).
Proof. exact full_view_err_repeated_refuted. Qed.
Print Assumptions C13_full_reader_err_repeated_refuted.

(* the size clause for the LinkedBytes flavours.  (a) The bytes a value is written to do not depend on the flavour of the
   buffer (contiguous, linked, linked with zero-copy), any protocol; (b) what is inserted as a node of its own is exactly
   zc_total: the payloads and retained chunks of at least ZERO_COPY_THRESHOLD bytes, and nothing unless the buffer is
   linked with zero-copy; (c) for a keep build written to a linked buffer the computed size is the length, the unchecked
   writer over a reservation of that size emits the same segments, its zero_copy_len is zc_total, and the reserved room
   it leaves is exactly zc_total (an inserted chunk uses no room). *)
Theorem C13_bytes_flavour_independent : forall S p k k' t v,
  gen_encode S p k t v = gen_encode S p k' t v.
Proof. exact gen_encode_buffer_independent. Qed.
Print Assumptions C13_bytes_flavour_independent.

Theorem C13_zero_copy_total : forall S k v t c ss c',
  enc_ty S PBinary k t v c = Ok (ss, c') -> zc_len ss = zc_total S k t v.
Proof. exact enc_zc. Qed.
Print Assumptions C13_zero_copy_total.

Theorem C13_zero_copy_none : forall S k, k <> BLinked true -> forall v t, zc_total S k t v = 0.
Proof. exact zc_total_nozc. Qed.
Print Assumptions C13_zero_copy_none.

Theorem C13_size_linked : forall S zc t v b,
  uuids_ok v = true -> gen_encode S PBinary (BLinked zc) t v = Ok b ->
  gen_encode S PBinary BContig t v = Ok b /\
  gen_size S PBinary t v = Ok (Z.of_nat (length b)) /\
  exists ss c' u',
    enc_ty S PBinary (BLinked zc) t v w0 = Ok (ss, c') /\ flat ss = b /\
    zc_len ss = zc_total S (BLinked zc) t v /\ (zc = false -> zc_len ss = 0) /\
    copy_len ss + zc_len ss = Z.of_nat (length b) /\
    uenc_ty S zc t v (uw_linked (Z.of_nat (length b))) = Ok (ss, u') /\
    uw_zc u' = zc_len ss /\ uw_room u' = zc_len ss.
Proof. exact keep_size_linked. Qed.
Print Assumptions C13_size_linked.
