"""C04 -- reported Thrift size equals the number of bytes encoding writes (primitive level)."""
from . import c01


def oracle(case, out):
    """size (computed just before each value is written, on the same protocol object) summed over
    the values == number of bytes written"""
    if not out.startswith("W "):
        return "writing a well-typed value failed: " + out
    t = out.split(" ")
    try:
        hexs, ln = t[1], t[t.index("L") + 1]
    except ValueError:
        return "malformed output"
    nbytes = 0 if hexs == "-" else len(hexs) // 2
    if not ln.lstrip("-").isdigit():
        return "size pass did not return a number: " + ln
    if int(ln) != nbytes:
        return "size pass reported %s bytes, encoding wrote %d" % (ln, nbytes)
    return None


def gen_app_cases(rng, n):
    """apps: the hand-written Message impl of the runtime (ApplicationException, directly and through Box / Arc): several
    size() / encode() calls in every order on ONE protocol object, also inside an open enclosing struct field"""
    from .. import thriftgen as tg
    msgs = [b"", b"boom", b"x" * 127, b"y" * 128, b"z" * 300, b"w" * 5000]
    kinds = [0, 1, 6, 7, 10, 63, 64, -1, 2 ** 31 - 1, -2 ** 31, 99]
    cases = []
    def one(pk, bk, wrap, pattern):
        ops = []
        m, k = rng.choice(msgs), rng.choice(kinds)
        for ch in pattern:
            if ch in "ze":
                ops.append("%s %s %d" % (ch, tg.hx(m), k))
            elif ch in "ZE":       # another exception
                m2, k2 = rng.choice(msgs), rng.choice(kinds)
                ops.append("%s %s %d" % (ch.lower(), tg.hx(m2), k2))
            elif ch == "o":
                ops.append("o %d" % rng.choice([1, 2, 5, 15, 16, 300, -1]))
            else:
                ops.append("c")
        return "apps %s %s %s %d %s" % (pk, bk, wrap, len(ops), " ".join(ops))
    pats = ["ze", "zze", "zeze", "zzzee", "ezze", "zeZE", "ozec", "ozzec", "ozecze", "zeozzec", "ZzEe", "zZeE", "ooZecEc"]
    for pk in c01.PKS:
        for bk in c01.BKS:
            for wrap in ("plain", "box", "arc"):
                for pat in pats:
                    cases.append(one(pk, bk, wrap, pat))
    while len(cases) < n:
        pat = "".join(rng.choice("zzeeZEoc") for _ in range(rng.randrange(2, 9)))
        # keep o / c balanced
        depth, fixed = 0, ""
        for ch in pat:
            if ch == "c" and depth == 0:
                continue
            depth += (ch == "o") - (ch == "c")
            fixed += ch
        cases.append(one(rng.choice(c01.PKS), rng.choice(c01.BKS), rng.choice(["plain", "box", "arc"]), fixed + "c" * depth))
    return cases


def app_oracle(case, out):
    """every size() of an exception == the number of bytes every encode() of the same exception writes, wherever in the
    sequence the two are called"""
    if " ERR " in out or not out.startswith("A"):
        return "ApplicationException size / encode failed: " + out[:80]
    t = case.split(" ")
    n = int(t[4]); toks = t[5:]
    res = out.split(" ")
    if "W" not in res:
        return "malformed output"
    res = res[1:res.index("W")]
    if len(res) != n:
        return "malformed output"
    i, sizes, writes = 0, {}, {}
    for r in res:
        op = toks[i]
        if op in ("z", "e"):
            key = (toks[i + 1], toks[i + 2]); i += 3
            (sizes if op == "z" else writes).setdefault(key, []).append(int(r[1:]))
        elif op == "o":
            i += 2
        else:
            i += 1
    for key, zs in sizes.items():
        ws = writes.get(key, [])
        if len(set(zs)) > 1:
            return "size() of the same ApplicationException on one protocol object changed between calls: %s" % zs
        if ws and (len(set(ws)) > 1 or ws[0] != zs[0]):
            return "ApplicationException::size() reported %d, encode() wrote %s bytes" % (zs[0], ws)
    return None


def run_prim(chk, replay=None):
    return c01.run_rt(chk, replay, oracle, "C04", extra=(gen_app_cases, app_oracle, "apps"))


def run(chk, replay=None):
    """primitive level + generated-code level (emitted size() vs emitted encode(), gen family)"""
    from .. import genextra
    is_gen = replay is not None and isinstance(replay.get("case"), dict)
    parts = []
    if replay is None or not is_gen:
        parts.append(("primitive", lambda c: run_prim(c, replay)))
    if replay is None or is_gen:
        parts.append(("generated", lambda c: genextra.run_c04g(c, replay, prop="C04")))
    return chk.run_parts(parts)
