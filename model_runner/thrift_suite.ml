(* Thrift suites: text <-> extracted Thrift model. *)
open Model
open Util

let ttype_of_code (c : int) : ttype =
  match ttype_of_byte (z_of_int c) with
  | Some t -> t
  | None -> failwith ("bad ttype code " ^ string_of_int c)
let code_of_ttype (t : ttype) : int = int_of_z (ttype_code t)

let pk_of_string = function
  | "binary" -> PBinary | "binary_le" -> PBinaryLE | "compact" -> PCompact
  | s -> failwith ("bad protocol " ^ s)
let bk_of_string = function
  | "contig" -> BContig | "linked" -> BLinked false | "linked_zc" -> BLinked true
  | s -> failwith ("bad buffer kind " ^ s)

(* value syntax (prefix): b0 b1 | y<i8> | h<i16> | i<i32> | l<i64> | d<u64 bits> | s<hex> | u<hex>
   | S<n> (f<id> value)*n | L<code>,<n> value*n | T<code>,<n> value*n | M<k>,<v>,<n> (value value)*n *)
let rec parse_val (t : toks) : tval =
  let tok = next t in
  let arg = String.sub tok 1 (String.length tok - 1) in
  let ints () = List.map int_of_string (String.split_on_char ',' arg) in
  let rec rep n f = if n <= 0 then [] else let x = f () in x :: rep (n - 1) f in
  match tok.[0] with
  | 'b' -> VBool (arg = "1")
  | 'y' -> VI8 (z_of_string arg)
  | 'h' -> VI16 (z_of_string arg)
  | 'i' -> VI32 (z_of_string arg)
  | 'l' -> VI64 (z_of_string arg)
  | 'd' -> VDouble (z_of_string arg)
  | 's' -> VBinary (bytes_of_hex arg)
  | 'u' -> VUuid (bytes_of_hex arg)
  | 'S' ->
    let n = int_of_string arg in
    VStruct (rep n (fun () ->
        let f = next t in
        if f.[0] <> 'f' then failwith "expected field";
        let id = z_of_string (String.sub f 1 (String.length f - 1)) in
        let v = parse_val t in (id, v)))
  | 'L' -> (match ints () with [c; n] -> VList (ttype_of_code c, rep n (fun () -> parse_val t)) | _ -> failwith "bad L")
  | 'T' -> (match ints () with [c; n] -> VSet (ttype_of_code c, rep n (fun () -> parse_val t)) | _ -> failwith "bad T")
  | 'M' -> (match ints () with
      | [kc; vc; n] -> VMap (ttype_of_code kc, ttype_of_code vc, rep n (fun () -> let a = parse_val t in let b = parse_val t in (a, b)))
      | _ -> failwith "bad M")
  | _ -> failwith ("bad value token " ^ tok)

let rec show_val (b : Buffer.t) (v : tval) : unit =
  let add s = Buffer.add_string b s in
  let sp () = Buffer.add_char b ' ' in
  match v with
  | VBool x -> add (if x then "b1" else "b0")
  | VI8 z -> add ("y" ^ string_of_z z)
  | VI16 z -> add ("h" ^ string_of_z z)
  | VI32 z -> add ("i" ^ string_of_z z)
  | VI64 z -> add ("l" ^ string_of_z z)
  | VDouble z -> add ("d" ^ string_of_z z)
  | VBinary l -> add ("s" ^ hex_of_bytes l)
  | VUuid l -> add ("u" ^ hex_of_bytes l)
  | VStruct fs ->
    add ("S" ^ string_of_int (List.length fs));
    List.iter (fun (id, x) -> sp (); add ("f" ^ string_of_z id); sp (); show_val b x) fs
  | VList (et, l) ->
    add (Printf.sprintf "L%d,%d" (code_of_ttype et) (List.length l));
    List.iter (fun x -> sp (); show_val b x) l
  | VSet (et, l) ->
    add (Printf.sprintf "T%d,%d" (code_of_ttype et) (List.length l));
    List.iter (fun x -> sp (); show_val b x) l
  | VMap (kt, vt, l) ->
    add (Printf.sprintf "M%d,%d,%d" (code_of_ttype kt) (code_of_ttype vt) (List.length l));
    List.iter (fun (x, y) -> sp (); show_val b x; sp (); show_val b y) l

let show_res_err = function
  | Err e -> "err " ^ string_of_err e
  | Panic s -> "panic " ^ string_of_site s
  | Ok _ -> assert false

(* rt <pk> <bk> <rest-hex> <n> v1 .. vn
   -> W <hex> Z <zero-copy len> R v1' .. vn' REM <k>
    | WERR <class> | W <hex> Z <z> RERR <class> *)
let suite_rt (t : toks) : string =
  let p = pk_of_string (next t) in
  let k = bk_of_string (next t) in
  let rest = bytes_of_hex (next t) in
  let n = next_int t in
  let rec rep n = if n <= 0 then [] else let v = parse_val t in v :: rep (n - 1) in
  let vs = rep n in
  match write_vals p k vs w0 with
  | (Err _ | Panic _) as r -> "WERR " ^ show_res_err r
  | Ok (segs, _) ->
    let bytes = flat segs in
    let b = Buffer.create 256 in
    let lstr = (match len_vals p vs w0 with
        | Ok (n, _) -> string_of_z n
        | (Err _ | Panic _) as r -> show_res_err r) in
    Buffer.add_string b ("W " ^ hex_of_bytes bytes ^ " Z " ^ string_of_z (zc_len segs) ^ " L " ^ lstr);
    let input = bytes @ rest in
    let fuel = nat_of_int (List.length input + 2) in
    let tys = List.map (fun v -> match v with
        | VBool _ -> TBool | VI8 _ -> TI8 | VI16 _ -> TI16 | VI32 _ -> TI32 | VI64 _ -> TI64
        | VDouble _ -> TDouble | VBinary _ -> TBinary | VUuid _ -> TUuid | VStruct _ -> TStruct
        | VList _ -> TList | VSet _ -> TSet | VMap _ -> TMap) vs in
    (match read_vals p fuel tys { rbuf = input; rc = r0 } with
     | (Err _ | Panic _) as r -> Buffer.add_string b (" RERR " ^ show_res_err r)
     | Ok (vs', s) ->
       Buffer.add_string b " R";
       List.iter (fun v -> Buffer.add_char b ' '; show_val b v) vs';
       Buffer.add_string b (Printf.sprintf " REM %d" (List.length s.rbuf)));
    Buffer.contents b

(* rd <pk> <ttype code> <hex>  ->  ok <value> REM <k> | err <class> | panic <site> *)
let suite_rd (t : toks) : string =
  let p = pk_of_string (next t) in
  let ty = ttype_of_code (next_int t) in
  let input = bytes_of_hex (next t) in
  let fuel = nat_of_int (List.length input + 2) in
  match read_val p fuel ty { rbuf = input; rc = r0 } with
  | (Err _ | Panic _) as r -> show_res_err r
  | Ok (v, s) ->
    let b = Buffer.create 64 in
    Buffer.add_string b "ok "; show_val b v;
    Buffer.add_string b (Printf.sprintf " REM %d" (List.length s.rbuf));
    Buffer.contents b

(* ard <pk> <ttype code> <hex> <schedule>  (the schedule is irrelevant to the model: a stream is
   the byte string it delivers) *)
let suite_ard (t : toks) : string =
  let p = pk_of_string (next t) in
  let ty = ttype_of_code (next_int t) in
  let input = bytes_of_hex (next t) in
  let _sched = next t in
  let fuel = nat_of_int (List.length input + 2) in
  match aread_val p fuel ty { rbuf = input; rc = r0 } with
  | (Err _ | Panic _) as r -> show_res_err r
  | Ok (v, s) ->
    let b = Buffer.create 64 in
    Buffer.add_string b "ok "; show_val b v;
    Buffer.add_string b (Printf.sprintf " REM %d" (List.length s.rbuf));
    Buffer.contents b

(* sk <pk> <sync|async[:schedule]> <ttype code> <hex> <next ttype code|->  *)
let suite_sk (t : toks) : string =
  let p = pk_of_string (next t) in
  let mode = next t in
  let ty = ttype_of_code (next_int t) in
  let input = bytes_of_hex (next t) in
  let nx = next t in
  let fuel = nat_of_int (List.length input + 2) in
  let s0 = { rbuf = input; rc = r0 } in
  let after (cnt : string) (s : rst) : string =
    if nx = "-" then Printf.sprintf "ok %s REM %d" cnt (List.length s.rbuf)
    else
      let nt = ttype_of_code (int_of_string nx) in
      let r = if mode = "sync" then read_val p fuel nt s else aread_val p fuel nt s in
      (match r with
       | (Err _ | Panic _) as r ->
         if mode = "sync" then Printf.sprintf "ok %s REM %d NEXT %s" cnt (List.length s.rbuf) (show_res_err r)
         else Printf.sprintf "ok %s NEXT %s" cnt (show_res_err r)
       | Ok (v, s2) ->
         let b = Buffer.create 64 in
         if mode = "sync" then Buffer.add_string b (Printf.sprintf "ok %s REM %d NEXT " cnt (List.length s.rbuf))
         else Buffer.add_string b (Printf.sprintf "ok %s NEXT " cnt);
         show_val b v;
         Buffer.add_string b (Printf.sprintf " REM %d" (List.length s2.rbuf));
         Buffer.contents b) in
  if mode = "sync" then
    (match skip p fuel ty s0 with
     | (Err _ | Panic _) as r -> show_res_err r
     | Ok (n, s) -> after (string_of_z n) s)
  else
    (match askip p fuel ty s0 with
     | (Err _ | Panic _) as r -> show_res_err r
     | Ok ((), s) -> after "-" s)

let mtype_of_int (n : int) : mtype =
  match mtype_of_code (z_of_int n) with Some t -> t | None -> failwith "bad message type"

(* msgw <pk> <bk> <name hex> <type> <seq> -> W <hex> | WERR .. *)
let suite_msgw (t : toks) : string =
  let p = pk_of_string (next t) in
  let k = bk_of_string (next t) in
  let name = bytes_of_hex (next t) in
  let mt = mtype_of_int (next_int t) in
  let seq = z_of_string (next t) in
  match w_message_begin p k { m_name = name; m_type = mt; m_seq = seq } w0 with
  | (Err _ | Panic _) as r -> "WERR " ^ show_res_err r
  | Ok (segs, _) -> "W " ^ hex_of_bytes (flat segs)

(* msgr <pk> <hex> -> ok <name hex> <type> <seq> REM <k> | err <class> *)
let suite_msgr (t : toks) : string =
  let p = pk_of_string (next t) in
  let input = bytes_of_hex (next t) in
  match r_message_begin p { rbuf = input; rc = r0 } with
  | (Err _ | Panic _) as r -> show_res_err r
  | Ok (m, s) ->
    Printf.sprintf "ok %s %d %s REM %d" (hex_of_bytes m.m_name) (int_of_z (mtype_code m.m_type))
      (string_of_z m.m_seq) (List.length s.rbuf)

(* spec <pk> <value> -> the SPECIFICATION's canonical encoding (Thrift/Spec.v) *)
let suite_spec (t : toks) : string =
  let p = pk_of_string (next t) in
  let v = parse_val t in
  (match p with
   | PCompact -> "W " ^ hex_of_bytes (sencC (annot v))
   | PBinary -> "W " ^ hex_of_bytes (sencB (annot v))
   | PBinaryLE -> "BADCASE no Apache specification for binary_le")

(* specmsg <pk> <name hex> <type> <seq> <unused byte hex> -> the specification's envelope *)
let suite_specmsg (t : toks) : string =
  let p = pk_of_string (next t) in
  let name = bytes_of_hex (next t) in
  let mt = mtype_of_int (next_int t) in
  let seq = z_of_string (next t) in
  let unused = (match bytes_of_hex (next t) with [b] -> b | _ -> failwith "unused byte") in
  (match p with
   | PCompact -> "W " ^ hex_of_bytes (spec_msgC name mt seq)
   | PBinary -> "W " ^ hex_of_bytes (spec_msgB name mt seq unused)
   | PBinaryLE -> "BADCASE no Apache specification for binary_le")

(* appw <pk> <message hex> <kind> : the struct {1: message, 2: type} through the writer model *)
let suite_appw (t : toks) : string =
  let p = pk_of_string (next t) in
  let msg = bytes_of_hex (next t) in
  let kind = z_of_string (next t) in
  match write_val p BContig (VStruct [ (z_of_int 1, VBinary msg); (z_of_int 2, VI32 kind) ]) w0 with
  | (Err _ | Panic _) as r -> "WERR " ^ show_res_err r
  | Ok (segs, _) -> "W " ^ hex_of_bytes (flat segs)

(* urt <contig|linked|linked_zc> <slack> <rest hex> <n> v1 .. vn : the unchecked binary codec *)
let suite_urt (t : toks) : string =
  let bk = next t in
  let slack = next_int t in
  let rest = bytes_of_hex (next t) in
  let n = next_int t in
  let rec rep n = if n <= 0 then [] else let v = parse_val t in v :: rep (n - 1) in
  let vs = rep n in
  match len_vals PBinary vs w0 with
  | (Err _ | Panic _) as r -> "WERR " ^ show_res_err r
  | Ok (size, _) ->
    let cap = Z.add size (z_of_int slack) in
    let (zc, st0) = (match bk with
        | "contig" -> (false, uw_contig cap)
        | "linked" -> (false, uw_linked cap)
        | "linked_zc" -> (true, uw_linked cap)
        | s -> failwith ("bad buffer kind " ^ s)) in
    (match uwrite_vals zc vs st0 with
     | (Err _ | Panic _) as r -> "WERR " ^ show_res_err r
     | Ok (segs, st) ->
       let bytes = flat segs in
       let b = Buffer.create 256 in
       Buffer.add_string b (Printf.sprintf "W %s Z %s L %s I %s" (hex_of_bytes bytes) (string_of_z st.uw_zc)
                              (string_of_z size) (string_of_z st.uw_idx));
       let input = bytes @ rest in
       let fuel = nat_of_int (List.length input + 2) in
       let tys = List.map ttype_of vs in
       (match uread_vals fuel tys { ubuf = input; uidx = O } with
        | (Err _ | Panic _) as r -> Buffer.add_string b (" RERR " ^ show_res_err r)
        | Ok (vs', s) ->
          Buffer.add_string b " R";
          List.iter (fun v -> Buffer.add_char b ' '; show_val b v) vs';
          Buffer.add_string b (Printf.sprintf " REM %d" (List.length (urest s))));
       Buffer.contents b)

(* usk <ttype code> <hex> <next ttype code|-> : the iterative skipper after a field header *)
let suite_usk (t : toks) : string =
  let tyc = next_int t in
  let ty = ttype_of_code tyc in
  let input = bytes_of_hex (next t) in
  let nx = next t in
  let hdr = bytes_of_hex (Printf.sprintf "%02x0001" tyc) in
  let all = hdr @ input in
  let fuel = nat_of_int (List.length all + 4) in
  match u_field_begin { ubuf = all; uidx = O } with
  | (Err _ | Panic _) -> "BADCASE field header"
  | Ok (_, s0) ->
    (match u_skip fuel ty s0 with
     | (Err _ | Panic _) as r -> show_res_err r
     | Ok (n, s) ->
       if nx = "-" then Printf.sprintf "ok %s REM %d" (string_of_z n) (List.length (urest s))
       else
         (match uread_val fuel (ttype_of_code (int_of_string nx)) s with
          | (Err _ | Panic _) as r -> Printf.sprintf "ok %s NEXT %s" (string_of_z n) (show_res_err r)
          | Ok (v, s2) ->
            let b = Buffer.create 64 in
            Buffer.add_string b (Printf.sprintf "ok %s NEXT " (string_of_z n));
            show_val b v;
            Buffer.add_string b (Printf.sprintf " REM %d" (List.length (urest s2)));
            Buffer.contents b))

(* rds <binary|binary_le|compact|unsafe> <sync|async[:sched]> <hex> <comma separated ids to skip|->
   a tolerant struct reader: listed field ids are skipped with the protocol's skipper *)
let suite_rds (t : toks) : string =
  let pks = next t in
  let mode = next t in
  let input = bytes_of_hex (next t) in
  let ids = (match next t with "-" -> [] | s -> List.map z_of_string (String.split_on_char ',' s)) in
  let skipid (z : z) : bool = List.exists (fun i -> Z.eqb i z) ids in
  let fuel = nat_of_int (List.length input + 4) in
  let fin (v : tval) (rem : int) : string =
    let b = Buffer.create 64 in
    Buffer.add_string b "ok "; show_val b v;
    Buffer.add_string b (Printf.sprintf " REM %d" rem); Buffer.contents b in
  if pks = "unsafe" then
    (match utread_struct skipid fuel { ubuf = input; uidx = O } with
     | (Err _ | Panic _) as r -> show_res_err r
     | Ok (v, s) -> fin v (List.length (urest s)))
  else
    let p = pk_of_string pks in
    let r = if mode = "sync" then tread_struct p skipid fuel { rbuf = input; rc = r0 }
      else atread_struct p skipid fuel { rbuf = input; rc = r0 } in
    (match r with
     | (Err _ | Panic _) as r -> show_res_err r
     | Ok (v, s) -> fin v (List.length s.rbuf))

(* ---- round 4: message sequences, ApplicationException ---- *)
let ttype_of_val (v : tval) : ttype = match v with
  | VBool _ -> TBool | VI8 _ -> TI8 | VI16 _ -> TI16 | VI32 _ -> TI32 | VI64 _ -> TI64
  | VDouble _ -> TDouble | VBinary _ -> TBinary | VUuid _ -> TUuid | VStruct _ -> TStruct
  | VList _ -> TList | VSet _ -> TSet | VMap _ -> TMap

let show_msgs (b : Buffer.t) (ms : (msgid * tval) list) : unit =
  Buffer.add_string b " R";
  List.iter (fun (m, v) ->
      Buffer.add_string b (Printf.sprintf " %s %d %s " (hex_of_bytes m.m_name) (int_of_z (mtype_code m.m_type)) (string_of_z m.m_seq));
      show_val b v) ms

(* mrt <binary|binary_le|compact|unsafe> <bk> <sync|async:sched> <rest hex> <n> (<name hex> <type> <seq> <value>)*n *)
let suite_mrt (t : toks) : string =
  let pks = next t in
  let bks = next t in
  let mode = next t in
  let rest = bytes_of_hex (next t) in
  let n = next_int t in
  let rec rep n = if n <= 0 then [] else
      let name = bytes_of_hex (next t) in
      let mt = mtype_of_int (next_int t) in
      let seq = z_of_string (next t) in
      let v = parse_val t in
      ({ m_name = name; m_type = mt; m_seq = seq }, v) :: rep (n - 1) in
  let msgs = rep n in
  let tys = List.map (fun (_, v) -> ttype_of_val v) msgs in
  if pks = "unsafe" then begin
    (* the size the caller computes: checked binary lengths (envelope 4 + 4 + |name| + 4) *)
    let size = List.fold_left (fun acc (m, v) ->
        match len_val PBinary v w0 with
        | Ok (n, _) -> Z.add acc (Z.add n (z_of_int (12 + List.length m.m_name)))
        | _ -> acc) Z0 msgs in
    let (zc, st0) = (match bks with
        | "contig" -> (false, uw_contig size) | "linked" -> (false, uw_linked size) | "linked_zc" -> (true, uw_linked size)
        | s -> failwith ("bad buffer kind " ^ s)) in
    let rec wr ms st acc = match ms with
      | [] -> Ok (acc, st)
      | (m, v) :: tl ->
        (match uw_message_begin zc m st with
         | Ok (s1, st1) -> (match uwrite_val zc v st1 with
             | Ok (s2, st2) -> wr tl st2 (acc @ s1 @ s2)
             | Err e -> Err e | Panic x -> Panic x)
         | Err e -> Err e | Panic x -> Panic x) in
    match wr msgs st0 [] with
    | (Err _ | Panic _) as r -> "WERR " ^ show_res_err r
    | Ok (segs, _) ->
      let bytes = flat segs in
      let b = Buffer.create 256 in
      Buffer.add_string b ("W " ^ hex_of_bytes bytes);
      let input = bytes @ rest in
      let fuel = nat_of_int (List.length input + 2) in
      let rec rd tys s acc = match tys with
        | [] -> Ok (List.rev acc, s)
        | ty :: tl ->
          (match u_message_begin s with
           | Ok (m, s1) -> (match uread_val fuel ty s1 with
               | Ok (v, s2) -> rd tl s2 ((m, v) :: acc)
               | Err e -> Err e | Panic x -> Panic x)
           | Err e -> Err e | Panic x -> Panic x) in
      (match rd tys { ubuf = input; uidx = O } [] with
       | (Err _ | Panic _) as r -> Buffer.add_string b (" RERR " ^ show_res_err r)
       | Ok (ms, s) -> show_msgs b ms; Buffer.add_string b (Printf.sprintf " REM %d" (List.length (urest s))));
      Buffer.contents b
  end else begin
    let p = pk_of_string pks in
    let k = bk_of_string bks in
    let rec wr ms c acc = match ms with
      | [] -> Ok (acc, c)
      | (m, v) :: tl ->
        (match wseq (wseq (w_message_begin p k m) (write_val p k v)) (w_message_end p) c with
         | Ok (s1, c1) -> wr tl c1 (acc @ s1)
         | Err e -> Err e | Panic x -> Panic x) in
    match wr msgs w0 [] with
    | (Err _ | Panic _) as r -> "WERR " ^ show_res_err r
    | Ok (segs, _) ->
      let bytes = flat segs in
      let b = Buffer.create 256 in
      Buffer.add_string b ("W " ^ hex_of_bytes bytes);
      let input = bytes @ rest in
      let fuel = nat_of_int (List.length input + 2) in
      let sync = (mode = "sync") in
      let rec rd tys s acc = match tys with
        | [] -> Ok (List.rev acc, s)
        | ty :: tl ->
          (match (if sync then r_message_begin p s else a_message_begin p s) with
           | Ok (m, s1) -> (match (if sync then read_val p fuel ty s1 else aread_val p fuel ty s1) with
               | Ok (v, s2) -> rd tl s2 ((m, v) :: acc)
               | Err e -> Err e | Panic x -> Panic x)
           | Err e -> Err e | Panic x -> Panic x) in
      (match rd tys { rbuf = input; rc = r0 } [] with
       | (Err _ | Panic _) as r -> Buffer.add_string b (" RERR " ^ show_res_err r)
       | Ok (ms, s) -> show_msgs b ms; Buffer.add_string b (Printf.sprintf " REM %d" (List.length s.rbuf)));
      Buffer.contents b
  end

(* apps <pk> <bk> <plain|box|arc> <n> op*n *)
let suite_apps (t : toks) : string =
  let p = pk_of_string (next t) in
  let k = bk_of_string (next t) in
  let _wrap = next t in
  let n = next_int t in
  let b = Buffer.create 128 in
  Buffer.add_string b "A";
  let flatlen segs = List.length (flat segs) in
  let rec go i c acc =
    if i >= n then Ok (acc, c) else
      match next t with
      | "z" ->
        let m = bytes_of_hex (next t) in
        let kd = z_of_string (next t) in
        (match app_size p m kd c with
         | Ok (sz, c1) -> Buffer.add_string b (" Z" ^ string_of_z sz); go (i + 1) c1 acc
         | Err e -> Err e | Panic x -> Panic x)
      | "e" ->
        let m = bytes_of_hex (next t) in
        let kd = z_of_string (next t) in
        (match app_encode p k m kd c with
         | Ok (s1, c1) -> Buffer.add_string b (Printf.sprintf " E%d" (flatlen s1)); go (i + 1) c1 (acc @ s1)
         | Err e -> Err e | Panic x -> Panic x)
      | "o" ->
        let id = z_of_string (next t) in
        (match wseq (w_struct_begin p) (w_field_begin p TStruct id) c with
         | Ok (s1, c1) -> Buffer.add_string b (Printf.sprintf " O%d" (flatlen s1)); go (i + 1) c1 (acc @ s1)
         | Err e -> Err e | Panic x -> Panic x)
      | "c" ->
        (match wseq (wseq (w_field_end p) (w_field_stop p)) (w_struct_end p) c with
         | Ok (s1, c1) -> Buffer.add_string b (Printf.sprintf " C%d" (flatlen s1)); go (i + 1) c1 (acc @ s1)
         | Err e -> Err e | Panic x -> Panic x)
      | s -> failwith ("bad op " ^ s) in
  (match go 0 w0 [] with
   | Ok (segs, _) -> Buffer.add_string b (" W " ^ hex_of_bytes (flat segs))
   | (Err _ | Panic _) as r -> Buffer.add_string b (" ERR " ^ show_res_err r));
  Buffer.contents b

(* appr <pk> <hex> / aappr <pk> <hex> <sched> : ApplicationException::decode / ::decode_async *)
let show_app r =
  match r with
  | (Err _ | Panic _) as r -> show_res_err r
  | Ok ((m, kd), s) -> Printf.sprintf "ok %s %s REM %d" (hex_of_bytes m) (string_of_z kd) (List.length s.rbuf)
let suite_appr (t : toks) : string =
  let p = pk_of_string (next t) in
  let input = bytes_of_hex (next t) in
  show_app (app_decode p (nat_of_int (List.length input + 2)) { rbuf = input; rc = r0 })
let suite_aappr (t : toks) : string =
  let p = pk_of_string (next t) in
  let input = bytes_of_hex (next t) in
  let _ = next t in
  show_app (app_decode_async p (nat_of_int (List.length input + 2)) { rbuf = input; rc = r0 })

let suites = [ ("mrt", suite_mrt); ("apps", suite_apps); ("appr", suite_appr); ("aappr", suite_aappr);
               ("rds", suite_rds); ("urt", suite_urt); ("usk", suite_usk); ("rt", suite_rt); ("rd", suite_rd); ("ard", suite_ard); ("sk", suite_sk);
               ("msgw", suite_msgw); ("msgr", suite_msgr); ("spec", suite_spec); ("specmsg", suite_specmsg);
               ("appw", suite_appw) ]
