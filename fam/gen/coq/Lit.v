(* Model of the lowering of IDL literals to Rust expressions in pilota-build/src/middle/context.rs:

     Context::default_val (447)      -> default_val_lit
     Context::lit_as_rvalue (462)    -> lit_as_rvalue = lower true   (map literals / `[]` at a map type, set consts)
     Context::ident_into_ty (530)    -> ident_into_ty      (const references, enum members; through typedef'd targets)
     Context::lit_into_ty (590)      -> lit_into_ty = lower false    (everything else)
                                        both DISPATCH on the regenerated arm lists; members of container and struct
                                        literals and typedef'd targets go through lit_as_rvalue again
     Context::def_lit (814)          -> def_lit            (the value a `const` item denotes)
     db::codegen_ty / TyTransformer  -> item_cty, const_cty, ident_ty_of_const
     ImplDefaultPlugin (plugin/mod.rs 335) -> rust_default (Default::default() of an emitted type)

   The emitted Rust EXPRESSION is modelled by the VALUE it denotes (a gval of Gen.v: typedef newtypes, Box, Arc,
   FastStr-vs-String, AHash-vs-BTree are representation only) together with the `bool /* const? */` flag that
   decides where the default is applied.  Every panic!/assert!/unwrap site of those functions is an outcome
   (LPanic site), never hidden.

   What "the value an expression denotes" assumes about Rust (trusted, validated on every run against the Debug
   rendering of the real T::default()):
     * `{i}i8` .. `{i}i64`: the integer i (out of range: does not compile, property C14);
     * `( *i) as f64` rounds to nearest, ties to even (Rust reference, numeric casts); `format!("{f}f64")` prints
       digits that rustc reads back as the same double (Display of f64 round-trips);
     * `f.parse::<f64>()` is the correctly rounded decimal -> binary64 conversion: Section variable [parse_f64],
       SHARED with the specification LitSpec.v (no real numbers, no Flocq: no axioms);
     * escapes inside a Rust string literal: rust_unescape below.
   No proofs in this file. *)
From PVGen Require Export Gen LitKinds Generated.LitTable.
Open Scope Z_scope.

(* ---------- outcomes ---------- *)
Inductive lsite :=
| PUnexpectedLiteral     (* lit_into_ty: `_ => panic!("unexpected literal {:?} with ty {:?}")` (799) *)
| PInvalidConvert        (* ident_into_ty: `_ => panic!("invalid convert {:?} to {:?}")` (586) *)
| PInvalidEnum           (* `_ => panic!("invalid enum")` (657) *)
| PInvalidEnumValue      (* `|| panic!("invalid enum value")` (662) *)
| PInvalidMapType        (* `_ => panic!("invalid map type {:?}")` (502, 515, 700) *)
| PAssertEmpty           (* `assert!(l.is_empty())` (509, 519, 523) *)
| PParseFloat            (* `f.parse::<f64>().unwrap()` (669, 673) *)
| PNotMessage            (* struct-literal arm: `_ => panic!()` (752) *)
| PKeyNotString          (* struct-literal arm: `_ => panic!()` on a key that is not a string (762) *)
| PUnwrap.               (* `.unwrap()` on a node / item that does not exist (dangling DefId: never produced by the resolver) *)

Inductive lerr :=
| EFuel                  (* model artefact (cyclic typedefs / consts / by-value struct defaults); excluded by the theorems *)
| ENoValue.              (* the generator emits text that is not a Rust value of the type (does not compile: property C14) *)

Inductive lres (A : Type) := LOk (a : A) | LErr (e : lerr) | LPanic (s : lsite).
Arguments LOk {A} a.
Arguments LErr {A} e.
Arguments LPanic {A} s.

Definition lbind {A B} (r : lres A) (f : A -> lres B) : lres B :=
  match r with LOk a => f a | LErr e => LErr e | LPanic s => LPanic s end.
Notation "'let+' x ':=' r 'in' k" := (lbind r (fun x => k))
  (at level 200, x pattern, r at level 100, k at level 200, right associativity).

(* ---------- types ---------- *)
(* middle::ty::TyKind as the Thrift front end + resolve.rs (lower_type, lower_type_for_hash_key, modify_ty_by_tags)
   produce it for Thrift.  U8, UInt32, UInt64, F32 are never produced from Thrift IDL and left out (the CodegenTy side
   keeps U8 as the element of BytesVec = Vec<u8>, and F32 because lit_into_ty has an arm for it). *)
Inductive rty :=
| RString | RFastStr | RVoid | RBool | RBytesVec | RBytes | RI8 | RI16 | RI32 | RI64 | RF64 | ROrderedF64 | RUuid
| RVec (t : rty) | RSet (t : rty) | RBTreeSet (t : rty) | RMap (k v : rty) | RBTreeMap (k v : rty)
| RArc (t : rty)
| RPath (n : nat).     (* DefId of a struct / enum / union / typedef: index into ls_items *)

(* middle::ty::CodegenTy.  Adt { did, kind }: the kind is a function of the did (db::codegen_ty), so only the did
   is kept and the kind is looked up (ckind); Array's length plays no role in any comparison (it is 0 in every type
   that reaches `==`). *)
Inductive cty :=
| CFastStr | CString | CStr | CVoid | CU8 | CBool | CI8 | CI16 | CI32 | CI64 | CF32 | CF64 | COrderedF64 | CUuid | CBytes
| CLazyStaticRef (t : cty) | CStaticRef (t : cty) | CVec (t : cty) | CArray (t : cty) | CSet (t : cty) | CBTreeSet (t : cty)
| CMap (k v : cty) | CBTreeMap (k v : cty)
| CAdt (n : nat)
| CArc (t : cty).

(* DefaultTyTransformer::codegen_item_ty (middle/ty.rs 397; Path: db::codegen_ty) *)
Fixpoint item_cty (t : rty) : cty :=
  match t with
  | RString => CString | RFastStr => CFastStr | RVoid => CVoid | RBool => CBool
  | RBytesVec => CVec CU8 | RBytes => CBytes
  | RI8 => CI8 | RI16 => CI16 | RI32 => CI32 | RI64 => CI64 | RF64 => CF64 | ROrderedF64 => COrderedF64
  | RUuid => CUuid
  | RVec a => CVec (item_cty a) | RSet a => CSet (item_cty a) | RBTreeSet a => CBTreeSet (item_cty a)
  | RMap a b => CMap (item_cty a) (item_cty b) | RBTreeMap a b => CBTreeMap (item_cty a) (item_cty b)
  | RArc a => CArc (item_cty a)
  | RPath n => CAdt n
  end.

(* ConstTyTransformer (middle/ty.rs 436-499): string / faststr -> Str, vec -> Array, set / map -> StaticRef of the
   container, each over dyn_codegen_item_ty of the component (Array -> Vec at the top of the component) *)
Definition undyn (c : cty) : cty := match c with CArray i => CVec i | _ => c end.
Fixpoint const_cty (t : rty) : cty :=
  match t with
  | RString | RFastStr => CStr
  | RVoid => CVoid | RBool => CBool
  | RBytesVec => CVec CU8 | RBytes => CBytes
  | RI8 => CI8 | RI16 => CI16 | RI32 => CI32 | RI64 => CI64 | RF64 => CF64 | ROrderedF64 => COrderedF64
  | RUuid => CUuid
  | RVec a => CArray (undyn (const_cty a))        (* only the outermost list of a const is an array *)
  | RSet a => CStaticRef (CSet (undyn (const_cty a)))
  | RBTreeSet a => CStaticRef (CBTreeSet (undyn (const_cty a)))
  | RMap a b => CStaticRef (CMap (undyn (const_cty a)) (undyn (const_cty b)))
  | RBTreeMap a b => CStaticRef (CBTreeMap (undyn (const_cty a)) (undyn (const_cty b)))
  | RArc a => CArc (const_cty a)
  | RPath n => CAdt n
  end.

Fixpoint unarc (t : rty) : rty := match t with RArc a => unarc a | _ => t end.

Fixpoint cty_eqb (a b : cty) : bool :=
  match a, b with
  | CFastStr, CFastStr | CString, CString | CStr, CStr | CVoid, CVoid | CU8, CU8 | CBool, CBool | CI8, CI8 | CI16, CI16
  | CI32, CI32 | CI64, CI64 | CF32, CF32 | CF64, CF64 | COrderedF64, COrderedF64 | CUuid, CUuid | CBytes, CBytes => true
  | CLazyStaticRef x, CLazyStaticRef y | CStaticRef x, CStaticRef y | CVec x, CVec y | CArray x, CArray y
  | CSet x, CSet y | CBTreeSet x, CBTreeSet y | CArc x, CArc y => cty_eqb x y
  | CMap x1 x2, CMap y1 y2 | CBTreeMap x1 x2, CBTreeMap y1 y2 => cty_eqb x1 y1 && cty_eqb x2 y2
  | CAdt n, CAdt m => Nat.eqb n m
  | _, _ => false
  end.

(* ---------- literals (middle::rir::Literal, paths already resolved to DefIds by resolve.rs lower_path) ---------- *)
Inductive lit :=
| LMember (e m : nat)        (* Literal::Path to an enum variant: its parent enum (index into ls_items) and position *)
| LConst (c : nat)           (* Literal::Path to a const item: index into ls_consts *)
| LBool (b : bool)
| LString (s : list byte)    (* the text between the IDL quotes, escapes NOT processed (pilota-thrift-parser literal.rs) *)
| LInt (i : Z)               (* i64 *)
| LFloat (s : list byte)     (* the source text of the double constant *)
| LList (l : list lit)
| LMap (l : list (lit * lit)).

Definition lkind (l : lit) : lpat :=
  match l with
  | LMember _ _ | LConst _ => LPPath | LBool _ => LPBool | LString _ => LPString | LInt _ => LPInt | LFloat _ => LPFloat
  | LList _ => LPList | LMap _ => LPMap
  end.

(* ---------- schema with names, annotations' effect on types, literals ---------- *)
Record lfield := mkLF {
  lf_name : list byte;        (* IDL name: struct literals address members by it *)
  lf_id : Z;
  lf_req : req;               (* FieldKind: IDL `required` -> Required, optional AND default -> Optional *)
  lf_ty : rty;
  lf_dflt : option lit
}.

Inductive litem :=
| IStruct (fs : list lfield) (keep : bool) (is_arg : bool)
| IEnum (ms : list Z)                                   (* repr i32: discriminants in declaration order *)
| IUnion (vs : list (Z * rty)) (void_ok : bool) (keep : bool)
| INewType (t : rty).

Record lschema := mkLS {
  ls_items : list litem;
  ls_consts : list (rty * lit)      (* const items: declared type, literal *)
}.

(* ---------- numbers ---------- *)
(* round a natural number to p significant bits, nearest, ties to even: (q, k), the result is q * 2^k *)
Definition rne (p n : Z) : Z * Z :=
  let k := Z.log2 n + 1 - p in
  if k <=? 0 then (n, 0)
  else
    let q := n / 2 ^ k in
    let r := n mod 2 ^ k in
    let h := 2 ^ (k - 1) in
    ((if (h <? r) || ((r =? h) && Z.odd q) then q + 1 else q), k).

(* `i as f32` (p = 24) / `i as f64` (p = 53) for an i64: the integer the resulting float denotes *)
Definition z2f (p i : Z) : Z :=
  let '(q, k) := rne p (Z.abs i) in Z.sgn i * (q * 2 ^ k).

(* IEEE 754 binary64 bit pattern of an integer that IS a double (|v| = m * 2^e, m < 2^53, below 2^1024) *)
Definition f64_enc (v : Z) : Z :=
  if v =? 0 then 0
  else
    let a := Z.abs v in
    let e := Z.log2 a in
    (if v <? 0 then 2 ^ 63 else 0) + (e + 1023) * 2 ^ 52 +
    ((if 52 <=? e then a / 2 ^ (e - 52) else a * 2 ^ (52 - e)) - 2 ^ 52).

Definition prec_of (c : cpat) : Z := match c with CPF32 => 24 | _ => 53 end.

(* `x as iN` from i32 / i64: two's complement wrap *)
Definition wrap (bits z : Z) : Z := (z + 2 ^ (bits - 1)) mod 2 ^ bits - 2 ^ (bits - 1).

(* ---------- strings ---------- *)
Definition byte_eqb (a b : byte) : bool := Byte.eqb a b.
Fixpoint bytes_eqb (a b : list byte) : bool :=
  match a, b with
  | [], [] => true
  | x :: r, y :: s => byte_eqb x y && bytes_eqb r s
  | _, _ => false
  end.

Definition bslash : byte := x5c.
Definition dquote : byte := x22.

(* escape_double_quotes (context.rs 597): a backslash and the character after it are copied, a bare double quote gets a
   backslash.  (Rust iterates over chars; backslash and double quote are ASCII and never occur inside a multi-byte UTF-8 sequence,
   so the byte-wise reading is the same function.) *)
Fixpoint escape_dq (s : list byte) : list byte :=
  match s with
  | [] => []
  | c :: r =>
      if byte_eqb c bslash then
        match r with
        | n :: r' => c :: n :: escape_dq r'
        | [] => [c]
        end
      else if byte_eqb c dquote then bslash :: dquote :: escape_dq r
      else c :: escape_dq r
  end.

(* the bytes a Rust string literal with this body denotes (Rust reference, "String literals": quote and ASCII escapes);
   None: the body is not the inside of a string literal (unknown escape, bare double quote, lone trailing backslash).  `\x..`,
   `\u{..}` and line continuations are not produced from the four escapes the IDL parser accepts and count as unknown. *)
Definition rust_escape (n : byte) : option byte :=
  if byte_eqb n x6e then Some x0a            (* \n *)
  else if byte_eqb n x72 then Some x0d       (* \r *)
  else if byte_eqb n x74 then Some x09       (* \t *)
  else if byte_eqb n x30 then Some x00       (* \0 *)
  else if byte_eqb n bslash then Some bslash
  else if byte_eqb n dquote then Some dquote
  else if byte_eqb n x27 then Some x27       (* \' *)
  else None.

Fixpoint rust_unescape (s : list byte) : option (list byte) :=
  match s with
  | [] => Some []
  | c :: r =>
      if byte_eqb c bslash then
        match r with
        | n :: r' =>
            match rust_escape n, rust_unescape r' with
            | Some b, Some t => Some (b :: t)
            | _, _ => None
            end
        | [] => None
        end
      else if byte_eqb c dquote then None
      else match rust_unescape r with Some t => Some (c :: t) | None => None end
  end.

(* `"{escape_double_quotes(s)}"` as a value *)
Definition string_value (s : list byte) : lres gval :=
  match rust_unescape (escape_dq s) with
  | Some b => LOk (GBytes b)
  | None => LErr ENoValue
  end.

(* ---------- the generic loops (instantiated with the recursive call; the nested fixpoints below are these) ---------- *)
Section Loops.
  Variable rec : lit -> cty -> lres (gval * bool).

  (* list_stream / the Array arm: elements left to right *)
  Definition low_list (inner : cty) : list lit -> lres (list (gval * bool)) :=
    fix go (els : list lit) : lres (list (gval * bool)) :=
      match els with
      | [] => LOk []
      | x :: r => let+ a := rec x inner in let+ b := go r in LOk (a :: b)
      end.

  (* mk_map: key (through [reck] = lit_into_ty) then value (through [rec] = lit_as_rvalue), pairs left to right *)
  Variable reck : lit -> cty -> lres (gval * bool).
  Definition low_pairs (kt vt : cty) : list (lit * lit) -> lres (list (gval * gval)) :=
    fix go (m : list (lit * lit)) : lres (list (gval * gval)) :=
      match m with
      | [] => LOk []
      | (k, v) :: r =>
          let+ a := reck k kt in let+ b := rec v vt in let+ t := go r in LOk ((fst a, fst b) :: t)
      end.

  (* struct literal: `m.iter().find_map(|(k, v)| { let k = match k { String(s) => s, _ => panic!() }; if k == name {Some(v)} .. })`
     followed by lit_into_ty(v, field type): the first pair whose key is the name; a key that is not a string panics
     when the search reaches it *)
  Definition low_look (name : list byte) (fty : cty) : list (lit * lit) -> lres (option (gval * bool)) :=
    fix go (m : list (lit * lit)) : lres (option (gval * bool)) :=
      match m with
      | [] => LOk None
      | (k, v) :: r =>
          match k with
          | LString s => if bytes_eqb s name then (let+ x := rec v fty in LOk (Some x)) else go r
          | _ => LPanic PKeyNotString
          end
      end.
End Loops.

Section Model.
  Variable parse_f64 : list byte -> option Z.     (* decimal text -> bits of the nearest double; None: not a float *)
  Variable S : lschema.

  Definition item (n : nat) : option litem := nth_error (ls_items S) n.

  (* the CodegenTy constructor (Adt: by AdtKind, from the item the DefId names; unions are rir::Item::Enum) *)
  Definition ckind (ty : cty) : option cpat :=
    match ty with
    | CFastStr => Some CPFastStr | CString => Some CPString | CStr => Some CPStr | CVoid => Some CPVoid | CU8 => Some CPU8
    | CBool => Some CPBool | CI8 => Some CPI8 | CI16 => Some CPI16 | CI32 => Some CPI32 | CI64 => Some CPI64
    | CF32 => Some CPF32 | CF64 => Some CPF64 | COrderedF64 => Some CPOrderedF64 | CUuid => Some CPUuid | CBytes => Some CPBytes
    | CLazyStaticRef (CMap _ _) | CLazyStaticRef (CBTreeMap _ _) => Some CPLazyMap
    | CStaticRef (CSet _) | CStaticRef (CBTreeSet _) | CStaticRef (CMap _ _) | CStaticRef (CBTreeMap _ _) => Some CPStaticRefColl
    | CLazyStaticRef _ => Some CPLazyStaticRef | CStaticRef _ => Some CPStaticRef | CVec _ => Some CPVec
    | CArray _ => Some CPArray | CSet _ => Some CPSet | CBTreeSet _ => Some CPBTreeSet | CMap _ _ => Some CPMap
    | CBTreeMap _ _ => Some CPBTreeMap | CArc _ => Some CPArc
    | CAdt n =>
        match item n with
        | Some (IStruct _ _ _) => Some CPAdtStruct
        | Some (IEnum _) | Some (IUnion _ _ _) => Some CPAdtEnum
        | Some (INewType _) => Some CPAdtNewType
        | None => None
        end
    end.

  (* the NewType arm of lit_into_ty, `(l, Adt NewType(inner_ty)) => self.lit_into_ty(l, inner_ty)` with
     inner_ty = codegen_item_ty(typedef target): followed until the type is no newtype (fuel: typedef chains are
     shorter than the schema; a cyclic chain leaves a newtype and is answered EFuel) *)
  Fixpoint peel (fuel : nat) (ty : cty) : cty :=
    match fuel with
    | O => ty
    | Datatypes.S f =>
        match ty with
        | CAdt n => match item n with Some (INewType t) => peel f (item_cty t) | _ => ty end
        | _ => ty
        end
    end.
  Definition pfuel : nat := Datatypes.S (length (ls_items S)).

  (* the rir type with typedefs and Arc wrappers stripped (for Default::default(), which is transparent for both) *)
  Fixpoint rstrip_n (fuel : nat) (t : rty) : rty :=
    match fuel with
    | O => unarc t
    | Datatypes.S f =>
        match unarc t with
        | RPath n => match item n with Some (INewType a) => rstrip_n f a | _ => RPath n end
        | x => x
        end
    end.
  Definition rstrip : rty -> rty := rstrip_n pfuel.

  (* db::codegen_ty of a const item: codegen_const_ty, StaticRef -> LazyStaticRef at the top *)
  Definition ident_ty_of_const (c : nat) : option cty :=
    match nth_error (ls_consts S) c with
    | Some (t, _) => Some (match const_cty t with CStaticRef i => CLazyStaticRef i | x => x end)
    | None => None
    end.

  Definition flag_of (arms : list arm) (i : nat) (dyn : bool) : bool :=
    match arm_flag arms i with FTrue => true | FFalse => false | FDyn => dyn end.

  (* index into ident_into_ty_arms *)
  Fixpoint select2 (arms : list (list (cpat * cpat) * flagk)) (a b : cpat) : nat :=
    match arms with
    | [] => O
    | (alts, _) :: r => if existsb (fun '(x, y) => cmatch x a && cmatch y b) alts then O else Datatypes.S (select2 r a b)
    end.
  Definition flag_of2 (arms : list (list (cpat * cpat) * flagk)) (i : nat) (dyn : bool) : bool :=
    match nth_error arms i with Some (_, FTrue) => true | Some (_, FFalse) => false | _ => dyn end.

  Definition is_nt (ty : cty) : bool := match ckind ty with Some CPAdtNewType => true | _ => false end.

  (* ---- repairs that may or may not be in the tree (the tables say which) ----
     arc-field-default: `(l, Arc(inner)) => Arc::new(lit_as_rvalue(l, inner))`, const flag false, as the LAST arm of
     lit_into_ty, and `(_, Arc(inner)) => Arc::new(ident_into_ty(.., inner))` as the last arm of ident_into_ty *)
  Definition arc_ok : bool := Nat.ltb (select lit_into_ty_arms LPInt CPArc) (length lit_into_ty_arms).
  Definition is_arc_c (ty : cty) : bool := match ty with CArc _ => true | _ => false end.
  Fixpoint unarc_c (ty : cty) : cty := match ty with CArc x => unarc_c x | _ => ty end.
  (* the end of the chain of NewType AND Arc layers *)
  Fixpoint peela (fuel : nat) (ty : cty) {struct fuel} : cty :=
    let ty0 := unarc_c ty in
    match fuel with
    | O => ty0
    | Datatypes.S f =>
        match ty0 with
        | CAdt n => match item n with Some (INewType t) => peela f (item_cty t) | _ => ty0 end
        | _ => ty0
        end
    end.
  (* double-sign-run: `-+x` is parsed as -(x) *)
  Definition sign_norm (s : list byte) : list byte :=
    match s with
    | a :: b :: r => if byte_eqb a x2d && byte_eqb b x2b then a :: r else s
    | _ => s
    end.
  (* double-exponent-form: the exponent of a double constant is an IDL integer constant (IntConstant::parse): a run of `-` signs,
     then decimal or 0x hexadecimal digits; its value is the digits' value, negated when the number of signs is odd.  An exponent
     with more than one sign or with hexadecimal digits is rewritten as `e`, one sign at most, the decimal digits of the value
     (1.5e--3 = 1.5e3, 1e---2 = 1e-2, 1e0x10 = 1e16); every other text is left as it is *)
  Definition is_exp_mark (c : byte) : bool := byte_eqb c x65 || byte_eqb c x45.
  Fixpoint split_exp (s : list byte) : option (list byte * list byte) :=
    match s with
    | [] => None
    | c :: r => if is_exp_mark c then Some ([], r)
                else match split_exp r with Some (m, x) => Some (c :: m, x) | None => None end
    end.
  Fixpoint strip_minus (s : list byte) : nat * list byte :=
    match s with
    | c :: r => if byte_eqb c x2d then (let (k, d) := strip_minus r in (Datatypes.S k, d)) else (O, s)
    | [] => (O, s)
    end.
  Definition digit_val (hex : bool) (c : byte) : option N :=
    let n := Byte.to_N c in
    if (48 <=? n)%N && (n <=? 57)%N then Some (n - 48)%N
    else if hex && (97 <=? n)%N && (n <=? 102)%N then Some (n - 87)%N
    else if hex && (65 <=? n)%N && (n <=? 70)%N then Some (n - 55)%N
    else None.
  Fixpoint digits_val (hex : bool) (acc : N) (s : list byte) : option N :=
    match s with
    | [] => Some acc
    | c :: r => match digit_val hex c with
                | Some d => digits_val hex (acc * (if hex then 16 else 10) + d)%N r
                | None => None
                end
    end.
  Fixpoint dec_text_go (fuel : nat) (n : N) (acc : list byte) : list byte :=
    match fuel with
    | O => acc
    | Datatypes.S f =>
        let d := match Byte.of_N (48 + n mod 10)%N with Some b => b | None => x30 end in
        if (n <? 10)%N then d :: acc else dec_text_go f (n / 10)%N (d :: acc)
    end.
  Definition dec_text (n : N) : list byte := dec_text_go 40 n [].
  Definition exp_norm (s : list byte) : list byte :=
    match split_exp s with
    | Some (m, x) =>
        let (k, d) := strip_minus x in
        let hex := match d with a :: b :: h => if byte_eqb a x30 && byte_eqb b x78 then Some h else None | _ => None end in
        if Nat.ltb 1 k || (match hex with Some _ => true | None => false end) then
          match (match hex with Some h => digits_val true 0 h | None => digits_val false 0 d end) with
          | Some n => if (n <? 9223372036854775808)%N then m ++ x65 :: (if Nat.odd k then [x2d] else []) ++ dec_text n
                      else s      (* not an i64: IntConstant::parse does not accept it *)
          | None => s
          end
        else s
    | None => s
    end.
  (* parse_double: the exponent first, then the sign run; each step only where its repair is in the source *)
  Definition float_text (s : list byte) : list byte :=
    let s1 := if double_exponent_ok then exp_norm s else s in
    if double_sign_run_ok then sign_norm s1 else s1.
  (* the text is one f64::from_str is given as the grammar's meaning intends (no rewriting needed, or the rewriting is there) *)
  Definition float_exp_plain (s : list byte) : bool := double_exponent_ok || bytes_eqb s (exp_norm s).
  Definition float_sign_plain (s : list byte) : bool := double_sign_run_ok || bytes_eqb (exp_norm s) (sign_norm (exp_norm s)).
  (* container-const-reference: CodegenTy of a const of list / set / map type *)
  Definition is_container_c (ty : cty) : bool := match ty with CArray _ | CLazyStaticRef _ => true | _ => false end.

  (* does [it] occur in the typedef chain of [ty] (ty, its target, the target's target, ..)? *)
  Fixpoint in_chain (fuel : nat) (it ty : cty) : bool :=
    cty_eqb it ty ||
    match fuel, ty with
    | Datatypes.S f, CAdt n => match item n with Some (INewType a) => in_chain f it (item_cty a) | _ => false end
    | _, _ => false
    end.
  (* the same through Arc layers: Some b = it occurs, b = an Arc layer was passed before *)
  Fixpoint in_chain_a (fuel : nat) (it ty : cty) {struct fuel} : option bool :=
    if cty_eqb it ty then Some false
    else
      match fuel with
      | O => None
      | Datatypes.S f =>
          match ty with
          | CAdt n => match item n with Some (INewType a) => in_chain_a f it (item_cty a) | _ => None end
          | CArc x => match in_chain_a f it x with Some _ => Some true | None => None end
          | _ => None
          end
      end.

  (* the conversion arms of ident_into_ty at the end [fin] of the target's chain; [force]: the result is wrapped in
     Arc::new, which is never const *)
  Definition ident_conv (fin : cty) (force : bool) (ident_ty : cty) (v : lres gval) : lres (gval * bool) :=
      match ckind ident_ty, ckind fin with
      | Some ik, Some tk =>
          let i := select2 ident_into_ty_arms ik tk in
          let fl := fun dyn => if force then false else flag_of2 ident_into_ty_arms i dyn in
          match i with
          | 0%nat => LErr EFuel                          (* still a newtype at the end of the chain: cyclic typedefs *)
          | 1%nat | 2%nat =>                             (* (Str, FastStr): from_static_str(path); (Str, String): path.to_string() *)
              let+ x := v in LOk (x, fl true)
          | 3%nat =>                                     (* (Adt Enum, I64 | I32 | I16 | I8): (path.inner() as iN) *)
              let+ x := v in
              match x with
              | GEnum z =>
                  match fin with
                  | CI64 => LOk (GI64 (wrap 64 z), fl true)
                  | CI32 => LOk (GI32 (wrap 32 z), fl true)
                  | CI16 => LOk (GI16 (wrap 16 z), fl true)
                  | CI8 => LOk (GI8 (wrap 8 z), fl true)
                  | _ => LErr ENoValue                   (* unreachable!() *)
                  end
              | _ => LErr ENoValue                       (* a union variant / a union-typed const has no .inner() *)
              end
          | _ => LPanic PInvalidConvert                  (* incl. the Arc arm's index when the chain still ends at an Arc *)
          end
      | _, _ => LPanic PUnwrap
      end.

  (* the walk of lit_into_ty / ident_into_ty through the layers of a target type: NewType layers (the NewType arms) and, where
     the Arc arms exist, Arc layers.  [fa_of]: the typedef chain of the target reaches an Arc and the Arc arm takes it from
     there; [tfin]: the type at the end of the walk *)
  Definition fa_of (ty : cty) : bool := arc_ok && is_arc_c (peel pfuel ty).
  Definition tfin (ty : cty) : cty := if fa_of ty then peela (pfuel + pfuel) ty else peel pfuel ty.
  (* does the path's type occur on the walk (Rust tests `ident_ty == target` at every level)?  Some b: yes, b = below an Arc *)
  Definition chain_of (it ty : cty) : option bool :=
    if fa_of ty then in_chain_a (pfuel + pfuel) it ty else if in_chain pfuel it ty then Some false else None.

  (* ident_into_ty: [v] is the value the path denotes.  Rust tests `ident_ty == target`, then the NewType arm recurses at
     the aliased type (wrapping the result in the newtype: same value, same flag) and the Arc arm at the wrapped type
     (Arc::new(..): same value, never const); so: the path itself as soon as some level of the walk IS the path's type,
     else the conversion arms at the end of the walk. *)
  Definition ident_into_ty (ident_ty target : cty) (v : lres gval) : lres (gval * bool) :=
    match chain_of ident_ty target with
    | Some b => let+ x := v in LOk (x, negb b)
    | None => ident_conv (tfin target) (fa_of target) ident_ty v
    end.

  Section Lit.
    Variable cval : nat -> lres gval.        (* the value const item c denotes (def_lit) *)
    Variable dflt : rty -> lres gval.        (* Default::default() of the emitted type of a field of this rir type *)
    Variable cinl : nat -> cty -> lres (gval * bool).   (* lit_as_rvalue(literal of const item c, target type) *)

    Definition const_flag (l : list (gval * bool)) : bool := forallb snd l.

    (* which arm of lit_as_rvalue takes the pair, if lit_as_rvalue is asked at all ([en]); else its fall-through *)
    Definition rv_index (en : bool) (lk : lpat) (ck : cpat) : nat :=
      if en then select lit_as_rvalue_arms lk ck else length lit_as_rvalue_arms.

    (* lit_as_rvalue ([top] = true) and lit_into_ty ([top] = false) in one structural recursion over the literal.
       Path literals take the first arm of lit_into_ty whatever the type (no arm of lit_as_rvalue asks for a path).
       For every other literal: lit_as_rvalue tries its own arms and falls through to lit_into_ty; lit_into_ty's NewType
       arm, `(l, Adt NewType(inner_ty)) => self.lit_as_rvalue(l, inner_ty)`, hands the SAME literal back to
       lit_as_rvalue at the aliased type.  So the literal is looked at, at the end of the typedef chain ([peel]), first
       by lit_as_rvalue's arms unless we entered through lit_into_ty at a type that is no newtype ([en]), then by
       lit_into_ty's.  Arms are selected from the REGENERATED lists by the kinds of literal and type, as Rust's match
       does (first arm that matches); the bodies re-inspect literal and type, and a shape the selected arm cannot have
       is answered like the fall-through.  Members of container / struct literals: lit_as_rvalue; the elements of a
       const Array: lit_into_ty; map keys: lit_into_ty, or lit_as_rvalue where mk_map was repaired ([map_key_rvalue]). *)
    Fixpoint lower (top : bool) (l : lit) (ty : cty) {struct l} : lres (gval * bool) :=
      match l with
      | LMember e m =>
          match item e with
          | Some (IEnum ms) =>
              match nth_error ms m with
              | Some z => ident_into_ty (CAdt e) ty (LOk (GEnum z))      (* `Enum::MEMBER` = Self(discr) *)
              | None => LPanic PUnwrap
              end
          | Some (IUnion _ _ _) => ident_into_ty (CAdt e) ty (LErr ENoValue)   (* a tuple-variant constructor is no value *)
          | _ => LPanic PUnwrap
          end
      | LConst c =>
          match ident_ty_of_const c with
          | Some it =>
              (* container-const-reference: a const of list / set / map type at another type is lowered from its literal *)
              if const_inline_present && is_container_c it && negb (cty_eqb it ty) then cinl c ty
              else ident_into_ty it ty (cval c)
          | None => LPanic PUnwrap
          end
      | _ =>
          (* [fa]: the typedef chain of ty passes through the Arc arm (lit_as_rvalue at the wrapped type; never const) *)
          let fa := fa_of ty in
          let en := if fa then true else top || is_nt ty in
          let ty' := tfin ty in
          match ckind ty' with
          | None => LPanic PUnwrap
          | Some ck =>
              let r := rv_index en (lkind l) ck in
              let rfl := if fa then false else flag_of lit_as_rvalue_arms r false in
              match r with
              | 0%nat =>                                    (* (Map, LazyStaticRef(map)): mk_map *)
                  match l, ty' with
                  | LMap m, CLazyStaticRef (CMap kt vt) | LMap m, CLazyStaticRef (CBTreeMap kt vt) =>
                      let+ kvs :=
                        (fix go (m : list (lit * lit)) : lres (list (gval * gval)) :=
                           match m with
                           | [] => LOk []
                           | (k, v) :: r =>
                               let+ a := lower map_key_rvalue k kt in let+ b := lower true v vt in let+ t := go r in
                               LOk ((fst a, fst b) :: t)
                           end) m in
                      LOk (GMap kvs, rfl)
                  | LMap _, _ => LPanic PInvalidMapType
                  | _, _ => LPanic PUnexpectedLiteral
                  end
              | 1%nat | 2%nat =>                            (* (Map, Map | BTreeMap): mk_map *)
                  match l, ty' with
                  | LMap m, CMap kt vt | LMap m, CBTreeMap kt vt =>
                      let+ kvs :=
                        (fix go (m : list (lit * lit)) : lres (list (gval * gval)) :=
                           match m with
                           | [] => LOk []
                           | (k, v) :: r =>
                               let+ a := lower map_key_rvalue k kt in let+ b := lower true v vt in let+ t := go r in
                               LOk ((fst a, fst b) :: t)
                           end) m in
                      LOk (GMap kvs, rfl)
                  | _, _ => LPanic PUnexpectedLiteral
                  end
              | 3%nat | 5%nat | 6%nat =>                    (* (List, LazyStaticRef(map) | Map | BTreeMap): assert!(l.is_empty()) *)
                  match l with
                  | LList [] => LOk (GMap [], rfl)
                  | LList (_ :: _) => LPanic PAssertEmpty
                  | _ => LPanic PUnexpectedLiteral
                  end
              | 4%nat =>                                    (* (List, LazyStaticRef(set)): `(self.lit_into_ty(lit, set)?.0, false)` *)
                  match l, ty' with
                  | LList els, CLazyStaticRef (CSet t) | LList els, CLazyStaticRef (CBTreeSet t) =>
                      let+ xs :=
                        (fix go (els : list lit) : lres (list (gval * bool)) :=
                           match els with
                           | [] => LOk []
                           | x :: r => let+ a := lower true x t in let+ b := go r in LOk (a :: b)
                           end) els in
                      LOk (GSet (map fst xs), rfl)
                  | _, _ => LPanic PUnexpectedLiteral      (* db::codegen_ty wraps only sets and maps in a LazyStaticRef *)
                  end
              | _ =>                                        (* fall-through: lit_into_ty's arms *)
              let i := select lit_into_ty_arms (lkind l) ck in
              let fl := fun dyn => if fa then false else flag_of lit_into_ty_arms i dyn in
              match i with
              | 1%nat | 2%nat | 3%nat | 23%nat =>           (* (String, Str | String | FastStr | Bytes) *)
                  match l with
                  | LString s => let+ v := string_value s in LOk (v, fl true)
                  | _ => LPanic PUnexpectedLiteral
                  end
              | 4%nat => match l with LInt z => LOk (GI8 z, fl true) | _ => LPanic PUnexpectedLiteral end
              | 5%nat => match l with LInt z => LOk (GI16 z, fl true) | _ => LPanic PUnexpectedLiteral end
              | 6%nat => match l with LInt z => LOk (GI32 z, fl true) | _ => LPanic PUnexpectedLiteral end
              | 7%nat => match l with LInt z => LOk (GI64 z, fl true) | _ => LPanic PUnexpectedLiteral end
              | 8%nat | 9%nat | 10%nat =>                   (* (Int, F32 | F64 | OrderedF64): `let f = ( *i) as <cast>; "{f}f32|f64"` *)
                  match l with
                  | LInt z =>
                      match find (fun '(t, _) => cpat_eqb t ck) int_float_casts with
                      | Some (_, cast) =>
                          (* an f32 value is recorded by the double that equals it (gval has no f32; no Thrift type is f32) *)
                          LOk (GDouble (f64_enc (z2f (prec_of cast) z)), fl true)
                      | None => LPanic PUnexpectedLiteral
                      end
                  | _ => LPanic PUnexpectedLiteral
                  end
              | 11%nat =>                                   (* (Int, Adt Enum): the member whose discriminant is i, named by its own path
                                                               (LitTable.enum_number_member_path): `Enum::NAME` = Self(i) *)
                  match l, ty' with
                  | LInt z, CAdt n =>
                      match item n with
                      | Some (IEnum ms) =>
                          if existsb (Z.eqb z) ms then LOk (GEnum z, fl true) else LPanic PInvalidEnumValue
                      | Some (IUnion _ _ _) => LPanic PInvalidEnumValue      (* variants of a union carry discr = None *)
                      | _ => LPanic PInvalidEnum
                      end
                  | _, _ => LPanic PUnexpectedLiteral
                  end
              | 12%nat | 13%nat =>                          (* (Float, F64 | OrderedF64): f64_literal(parse) -- an infinity is f64::INFINITY *)
                  match l with
                  | LFloat s => match parse_f64 (float_text s) with Some b => LOk (GDouble b, fl true) | None => LPanic PParseFloat end
                  | _ => LPanic PUnexpectedLiteral
                  end
              | 14%nat => LErr EFuel                        (* still a newtype after peel: cyclic typedefs *)
              | 15%nat =>                                   (* (Map, StaticRef(map)): def_lit("INNER_MAP", lit, LazyStaticRef(map)) -> mk_map *)
                  match l, ty' with
                  | LMap m, CStaticRef (CMap kt vt) | LMap m, CStaticRef (CBTreeMap kt vt) =>
                      let+ kvs :=
                        (fix go (m : list (lit * lit)) : lres (list (gval * gval)) :=
                           match m with
                           | [] => LOk []
                           | (k, v) :: r =>
                               let+ a := lower map_key_rvalue k kt in let+ b := lower true v vt in let+ t := go r in
                               LOk ((fst a, fst b) :: t)
                           end) m in
                      LOk (GMap kvs, fl false)
                  | LMap _, _ => LPanic PInvalidMapType
                  | _, _ => LPanic PUnexpectedLiteral
                  end
              | 16%nat =>                                   (* (List, StaticRef(set | map)): def_lit("INNER", lit, LazyStaticRef(inner)) ->
                                                               lit_as_rvalue: `[]` for a map (assert!(l.is_empty())), else the set *)
                  match l, ty' with
                  | LList els, CStaticRef (CSet t) | LList els, CStaticRef (CBTreeSet t) =>
                      let+ xs :=
                        (fix go (els : list lit) : lres (list (gval * bool)) :=
                           match els with
                           | [] => LOk []
                           | x :: r => let+ a := lower true x t in let+ b := go r in LOk (a :: b)
                           end) els in
                      LOk (GSet (map fst xs), fl false)
                  | LList [], CStaticRef (CMap _ _) | LList [], CStaticRef (CBTreeMap _ _) => LOk (GMap [], fl false)
                  | LList (_ :: _), CStaticRef (CMap _ _) | LList (_ :: _), CStaticRef (CBTreeMap _ _) => LPanic PAssertEmpty
                  | _, _ => LPanic PUnexpectedLiteral
                  end
              | 17%nat =>                                   (* (List, Array): elements through lit_into_ty *)
                  match l, ty' with
                  | LList els, CArray inner =>
                      let+ xs :=
                        (fix go (els : list lit) : lres (list (gval * bool)) :=
                           match els with
                           | [] => LOk []
                           | x :: r => let+ a := lower false x inner in let+ b := go r in LOk (a :: b)
                           end) els in
                      LOk (GList (map fst xs), fl (const_flag xs))
                  | _, _ => LPanic PUnexpectedLiteral
                  end
              | 18%nat | 19%nat | 20%nat =>                 (* (List, Vec | Set | BTreeSet): list_stream, elements through lit_as_rvalue *)
                  match l with
                  | LList els =>
                      match (match ty' with CVec t | CSet t | CBTreeSet t => Some t | _ => None end) with
                      | Some inner =>
                          let+ xs :=
                            (fix go (els : list lit) : lres (list (gval * bool)) :=
                               match els with
                               | [] => LOk []
                               | x :: r => let+ a := lower true x inner in let+ b := go r in LOk (a :: b)
                               end) els in
                          let vs := map fst xs in
                          LOk (match ty' with CSet _ | CBTreeSet _ => GSet vs | _ => GList vs end, fl (const_flag xs))
                      | None => LPanic PUnexpectedLiteral
                      end
                  | _ => LPanic PUnexpectedLiteral
                  end
              | 21%nat => match l with LBool b => LOk (GBool b, fl true) | _ => LPanic PUnexpectedLiteral end
              | 22%nat =>                                   (* (Int, Bool): `let b = *i <op> <n>` *)
                  match l with
                  | LInt z =>
                      let '(ne, n) := int_bool_test in
                      LOk (GBool (if ne then negb (z =? n) else (z =? n)), fl true)
                  | _ => LPanic PUnexpectedLiteral
                  end
              | 24%nat =>                                   (* (Map, Adt Struct): a struct literal *)
                  match l, ty' with
                  | LMap m, CAdt n =>
                      match item n with
                      | Some (IStruct fs _ _) =>
                          let+ out :=
                            (fix fields (fs : list lfield) : lres (list (Z * gval) * bool) :=
                               match fs with
                               | [] => LOk ([], true)
                               | f :: r =>
                                   let+ found :=
                                     (fix go (m : list (lit * lit)) : lres (option (gval * bool)) :=
                                        match m with
                                        | [] => LOk None
                                        | (k, v) :: m' =>
                                            match k with
                                            | LString s =>
                                                if bytes_eqb s (lf_name f)
                                                then (let+ x := lower true v (item_cty (lf_ty f)) in LOk (Some x))
                                                else go m'
                                            | _ => LPanic PKeyNotString
                                            end
                                        end) m in
                                   let+ here :=
                                     match found with
                                     | Some (x, c) => LOk (Some x, c)                 (* `name: v` / `name: Some(v)` *)
                                     | None =>
                                         match lf_req f with
                                         | Optional => LOk (None, true)                 (* `name: None` *)
                                         | Required => let+ d := dflt (lf_ty f) in LOk (Some d, false)   (* `name: Default::default()` *)
                                         end
                                     end in
                                   let+ rest := fields r in
                                   LOk (match fst here with Some x => (lf_id f, x) :: fst rest | None => fst rest end,
                                        snd here && snd rest)
                               end) fs in
                          LOk (GStruct (fst out) [], fl (snd out))
                      | _ => LPanic PNotMessage
                      end
                  | _, _ => LPanic PUnexpectedLiteral
                  end
              | 25%nat =>                                   (* (String, Vec(U8)) where that arm exists: `"..".as_bytes().to_vec()` *)
                  match l, ty' with
                  | LString s, CVec CU8 =>
                      if string_at_bytesvec_ok then (let+ v := string_value s in LOk (v, fl false)) else LPanic PUnexpectedLiteral
                  | _, _ => LPanic PUnexpectedLiteral       (* the guard fails, or 25 is the Arc arm's index / the fall-through *)
                  end
              | _ => LPanic PUnexpectedLiteral              (* 0 (Path) is handled above; the fall-through *)
              end
              end
          end
      end.

    Definition lit_as_rvalue : lit -> cty -> lres (gval * bool) := lower true.
    Definition lit_into_ty : lit -> cty -> lres (gval * bool) := lower false.

    (* CodegenTy::should_lazy_static (NewType: as its inner type) *)
    Definition should_lazy_static (ty : cty) : bool :=
      match ckind (peel pfuel ty) with
      | Some k => existsb (fun p => cmatch p k) lazy_static_kinds
      | None => false
      end.

    (* def_lit: the value of `pub const NAME` / `pub static NAME: LazyLock<..>` *)
    Definition def_lit (l : lit) (ty : cty) : lres gval :=
      let+ r := (if should_lazy_static ty then lit_as_rvalue l ty else lit_into_ty l ty) in LOk (fst r).
  End Lit.

  (* ---------- the values of const items and Default::default(), by unfolding through the schema ---------- *)
  Inductive query := QConst (c : nat) | QDefault (t : rty).

  Fixpoint ev (fuel : nat) (q : query) : lres gval :=
    match fuel with
    | O => LErr EFuel
    | Datatypes.S f =>
        let cval := fun c => ev f (QConst c) in
        let dflt := fun t => ev f (QDefault t) in
        let cinl := evi f in
        match q with
        | QConst c =>
            match nth_error (ls_consts S) c, ident_ty_of_const c with
            | Some (_, l), Some ty => def_lit cval dflt cinl l ty     (* Codegen::write_const *)
            | _, _ => LPanic PUnwrap
            end
        | QDefault t =>
            (* derive(Default) on a typedef's tuple struct and Arc::default() are transparent *)
            match rstrip t with
            | RString | RFastStr | RBytesVec | RBytes => LOk (GBytes [])
            | RVoid => LOk GVoid
            | RBool => LOk (GBool false)
            | RI8 => LOk (GI8 0) | RI16 => LOk (GI16 0) | RI32 => LOk (GI32 0) | RI64 => LOk (GI64 0)
            | RF64 | ROrderedF64 => LOk (GDouble 0)
            | RUuid => LOk (GUuid (repeat x00 16))
            | RVec _ => LOk (GList []) | RSet _ | RBTreeSet _ => LOk (GSet []) | RMap _ _ | RBTreeMap _ _ => LOk (GMap [])
            | RArc _ => LErr EFuel                                    (* rstrip never ends at an Arc *)
            | RPath n =>
                match item n with
                | Some (IStruct fs _ _) =>
                    (* ImplDefaultPlugin: no field has a default -> derive(Default); otherwise the explicit impl.  Both
                       give: the default (Some(..) when optional) where there is one, else None / the type's default *)
                    let+ out :=
                      (fix fields (fs : list lfield) : lres (list (Z * gval)) :=
                         match fs with
                         | [] => LOk []
                         | fd :: r =>
                             let+ here :=
                               match lf_dflt fd with
                               | Some l => let+ x := lit_as_rvalue cval dflt cinl l (item_cty (lf_ty fd)) in LOk (Some (fst x))
                               | None =>
                                   match lf_req fd with
                                   | Optional => LOk None
                                   | Required => let+ x := dflt (lf_ty fd) in LOk (Some x)
                                   end
                               end in
                             let+ rest := fields r in
                             LOk (match here with Some x => (lf_id fd, x) :: rest | None => rest end)
                         end) fs in
                    LOk (GStruct out [])
                | Some (IEnum _) => LOk (GEnum 0)                    (* derive(Default) on `struct E(i32)` *)
                | Some (IUnion ((id, vt) :: _) _ _) => let+ x := dflt vt in LOk (GUnion id x)
                | Some (IUnion [] _ _) => LErr ENoValue              (* an empty Rust enum has no Default *)
                | Some (INewType _) => LErr EFuel                    (* cyclic typedefs *)
                | None => LPanic PUnwrap
                end
            end
        end
    end
  (* the literal of const item c lowered by lit_as_rvalue at [ty] (container-const-reference) *)
  with evi (fuel : nat) (c : nat) (ty : cty) {struct fuel} : lres (gval * bool) :=
    match fuel with
    | O => LErr EFuel
    | Datatypes.S f =>
        match nth_error (ls_consts S) c with
        | Some (_, l) => lit_as_rvalue (fun c => ev f (QConst c)) (fun t => ev f (QDefault t)) (evi f) l ty
        | None => LPanic PUnwrap
        end
    end.

  (* fuel: every unfolding step enters a const, a typedef, a union variant or a by-value struct field *)
  Definition efuel : nat := Datatypes.S (Datatypes.S (length (ls_items S) + length (ls_consts S))).

  (* Context::default_val(f) = lit_as_rvalue(default, codegen_item_ty(f.ty)): value and const flag *)
  Definition default_val_lit_n (fuel : nat) (t : rty) (l : lit) : lres (gval * bool) :=
    lit_as_rvalue (fun c => ev fuel (QConst c)) (fun t => ev fuel (QDefault t)) (evi fuel) l (item_cty t).
  Definition default_val_lit : rty -> lit -> lres (gval * bool) := default_val_lit_n efuel.

  Definition const_value (c : nat) : lres gval := ev (Datatypes.S efuel) (QConst c).
  Definition rust_default (t : rty) : lres gval := ev (Datatypes.S efuel) (QDefault t).
End Model.

(* ---------- projection to the schema of Gen.v: types erased to wire types, field defaults as VALUES ---------- *)
Fixpoint erase (t : rty) : ty :=
  match t with
  | RString | RFastStr => TyString
  | RVoid => TyVoid
  | RBool => TyBool
  | RBytesVec | RBytes => TyBinary
  | RI8 => TyI8 | RI16 => TyI16 | RI32 => TyI32 | RI64 => TyI64
  | RF64 | ROrderedF64 => TyDouble
  | RUuid => TyUuid
  | RVec a => TyList (erase a)
  | RSet a | RBTreeSet a => TySet (erase a)
  | RMap a b | RBTreeMap a b => TyMap (erase a) (erase b)
  | RArc a => erase a
  | RPath n => TyRef n
  end.

Section Proj.
  Variable parse_f64 : list byte -> option Z.
  Variable S : lschema.
  Variable fuel : nat.

  Definition proj_field (f : lfield) : field :=
    mkField (lf_id f) (lf_req f) (erase (lf_ty f))
      (match lf_dflt f with
       | Some l => match default_val_lit_n parse_f64 S fuel (lf_ty f) l with
                   | LOk (v, c) => Some (c, v)
                   | _ => None        (* the generator panicked: there is no emitted code at all *)
                   end
       | None => None
       end).

  Definition proj_item (i : litem) : decl :=
    match i with
    | IStruct fs k a => DStruct (map proj_field fs) k a
    | IEnum ms => DEnum ms
    | IUnion vs v k => DUnion (map (fun '(id, t) => (id, erase t)) vs) v k
    | INewType t => DTypedef (erase t)
    end.

  Definition proj_n : schema := map proj_item (ls_items S).
End Proj.
Definition proj (parse_f64 : list byte -> option Z) (S : lschema) : schema := proj_n parse_f64 S (efuel S).
