(* C15, stage 4a: integer constants (any number of minus signs, decimal or 0x hexadecimal, i64 range) and double
   constants (the three body forms, exponents that are integer constants), as spelled by the layout. *)
From PVIdl Require Import Comb Ast Parser Print Proofs.Total Proofs.RoundTok Proofs.RoundPath Proofs.RoundAnn Proofs.RoundTy
  Proofs.RoundKit Proofs.Lex.
From Coq Require Import ZifyN ZifyNat ZifyBool.
From Coq Require String.
Import String.StringSyntax.
Open Scope nat_scope.

(* ---------- the conversion of the parser is positional notation with a range check ---------- *)
Lemma digit_val_nonneg d : (0 <= digit_val d)%Z.
Proof. destruct d; vm_compute; discriminate. Qed.

Definition stepf (radix : Z) : Z -> byte -> Z := fun a d => (a * radix + digit_val d)%Z.

Lemma fold_ge radix : (1 <= radix)%Z -> forall ds a, (0 <= a)%Z -> (a <= fold_left (stepf radix) ds a)%Z.
Proof.
  intros Hr. induction ds as [|d ds IH]; intros a Ha; cbn [fold_left]; [lia|].
  pose proof (digit_val_nonneg d). change (stepf radix a d) with (a * radix + digit_val d)%Z.
  assert (0 <= a * radix)%Z by nia. assert (a <= a * radix)%Z by nia.
  specialize (IH (a * radix + digit_val d)%Z ltac:(lia)). lia.
Qed.

Lemma digits_val_fold radix max : (1 <= radix)%Z -> forall ds acc, (0 <= acc <= max)%Z ->
  digits_val radix max acc ds =
  (if (fold_left (stepf radix) ds acc <=? max)%Z then Some (fold_left (stepf radix) ds acc) else None).
Proof.
  intros Hr. induction ds as [|d ds IH]; intros acc Ha; cbn [digits_val fold_left].
  - replace (acc <=? max)%Z with true by lia. reflexivity.
  - pose proof (digit_val_nonneg d). change (stepf radix acc d) with (acc * radix + digit_val d)%Z.
    assert (0 <= acc * radix)%Z by nia. destruct (acc * radix + digit_val d <=? max)%Z eqn:E.
    + apply IH. lia.
    + pose proof (fold_ge radix Hr ds (acc * radix + digit_val d)%Z ltac:(lia)).
      replace (fold_left (stepf radix) ds (acc * radix + digit_val d) <=? max)%Z with false by lia.
      reflexivity.
Qed.

Lemma parse_unsigned_value radix ds : (1 <= radix)%Z -> (digits_value radix ds <= i64_max)%Z ->
  parse_unsigned radix i64_max ds = Some (digits_value radix ds).
Proof.
  intros Hr Hv. unfold parse_unsigned. rewrite (digits_val_fold radix i64_max Hr ds 0%Z) by (unfold i64_max; lia).
  change (digits_value radix ds) with (fold_left (stepf radix) ds 0%Z) in *. replace (_ <=? i64_max)%Z with true by lia. reflexivity.
Qed.

Lemma parse_unsigned_value_max radix max ds : (1 <= radix)%Z -> (0 <= max)%Z -> (digits_value radix ds <= max)%Z ->
  parse_unsigned radix max ds = Some (digits_value radix ds).
Proof.
  intros Hr Hm Hv. unfold parse_unsigned. rewrite (digits_val_fold radix max Hr ds 0%Z) by lia.
  change (digits_value radix ds) with (fold_left (stepf radix) ds 0%Z) in *. replace (_ <=? max)%Z with true by lia. reflexivity.
Qed.

Lemma parse_unsigned_none radix max ds : (1 <= radix)%Z -> (0 <= max)%Z -> (max < digits_value radix ds)%Z ->
  parse_unsigned radix max ds = None.
Proof.
  intros Hr Hm Hv. unfold parse_unsigned. rewrite (digits_val_fold radix max Hr ds 0%Z) by lia.
  change (digits_value radix ds) with (fold_left (stepf radix) ds 0%Z) in *. replace (_ <=? max)%Z with false by lia. reflexivity.
Qed.

(* ---------- first bytes ---------- *)
Definition nominus (k : list byte) : bool := hd_sat (fun b => negb (Byte.eqb b x2d)) k.


Lemma nid_nohex k : nid k = true -> hd_sat (fun b => negb (is_hexdigit b)) k = true.
Proof.
  apply hd_sat_imp. intros b H. destruct (is_hexdigit b) eqn:E; [|reflexivity].
  rewrite (hexdigit_identch b E) in H. discriminate.
Qed.
Lemma nid_nodigit k : nid k = true -> hd_sat (fun b => negb (is_digit b)) k = true.
Proof.
  apply hd_sat_imp. intros b H. destruct (is_digit b) eqn:E; [|reflexivity].
  rewrite (digit_identch b E) in H. discriminate.
Qed.

(* ---------- integer constants ---------- *)
Lemma minus_loop : forall n rest fuel, nominus rest = true -> length (minus_run n rest) < fuel ->
  many0_count fuel (tag sym_int_minus) (minus_run n rest) = POk rest n.
Proof.
  induction n as [|n IH]; intros rest fuel Hr Hf; (destruct fuel as [|f]; [lia|]); cbn [minus_run many0_count] in *.
  - assert (E : is_perr (tag sym_int_minus rest)).
    { destruct rest as [|b r]; [exact I|]. apply tag_hd_ne. cbn in Hr. now apply negb_true_iff in Hr. }
    destruct (tag sym_int_minus rest); cbn in E; try contradiction. reflexivity.
  - change (x2d :: minus_run n rest) with (sym_int_minus ++ minus_run n rest). rewrite tag_ok.
    rewrite (same_len_app_false sym_int_minus) by discriminate.
    rewrite (IH rest f Hr) by (cbn [length] in Hf; lia). reflexivity.
Qed.

Lemma len_minus n k : length (minus_run n k) = n + length k.
Proof. induction n; cbn [minus_run length]; lia. Qed.

Definition int_hex : parser Z := fun i => do i, _ <- tag sym_int_hex i ;; map_res hex_digit1 (parse_unsigned 16 i64_max) i.

(* the hexadecimal alternative fails on a decimal constant -- unless the constant is the digit 0 and 'x' with
   hexadecimal digits within i64 follows *)
Lemma dec_not_hex ds k : ds <> [] -> forallb is_digit ds = true -> (is_zero ds && hex_continues k) = false ->
  is_perr (int_hex (ds ++ k)).
Proof.
  intros Hne Hd Hz. destruct ds as [|d ds]; [contradiction|]. unfold int_hex, tag. change sym_int_hex with [x30; x78].
  cbn [app strip_prefix]. destruct (Byte.eqb d x30) eqn:E0; [|exact I].
  cbn [forallb] in Hd. apply andb_prop in Hd. destruct Hd as [_ Hd]. destruct ds as [|d2 ds].
  - cbn [app]. destruct k as [|c k]; [exact I|]. destruct (Byte.eqb c x78) eqn:E; [|exact I].
    cbn [pbind]. cbn [is_zero hex_continues] in Hz. rewrite E0, E in Hz. cbn [andb] in Hz.
    unfold map_res, hex_digit1, span1. destruct (span_run is_hexdigit k) as [r [-> [Ek [Hr Hf]]]].
    destruct (run is_hexdigit k) as [|h hs] eqn:Eh; [exact I|]. cbn [is_nil negb andb] in Hz. cbn [is_nil].
    rewrite parse_unsigned_none; [exact I|lia|unfold i64_max; lia|unfold i64_max; lia].
  - cbn [app]. destruct (Byte.eqb d2 x78) eqn:E; [|exact I]. apply byte_dec_bl in E. subst d2. discriminate Hd.
Qed.
Definition int_alts : list (parser Z) := [ int_hex; map_res digit1 (parse_unsigned 10 i64_max) ].
Lemma p_int_eq lf i : p_int_constant lf i =
  (do i, minus <- many0_count lf (tag sym_int_minus) i ;; do i, v <- alt int_alts i ;; POk i (if Nat.odd minus then (- v)%Z else v)).
Proof. exact (Proofs.Partial.p_int_constant_is_total lf i). Qed.

Theorem rt_int lf i k : wf_int i = true -> int_stops i k = true -> length (pr_int i k) < lf ->
  p_int_constant lf (pr_int i k) = POk k (erase_int i).
Proof.
  intros Hw Hk Hf. destruct i as [n hex ds]. unfold wf_int, pr_int, erase_int, int_abs, int_stops in *.
  cbn [ci_minus ci_hex ci_digits] in *. bsplit Hw. rename W0 into Wd. rename W into Wr.
  assert (Hne : ds <> []) by (intros ->; discriminate Hw).
  rewrite p_int_eq.
  rewrite minus_loop; [| |exact Hf].
  2:{ destruct hex; [reflexivity|]. destruct ds as [|d ds]; [contradiction|]. cbn [app forallb] in *.
      apply andb_prop in Wd. destruct Wd as [Wd _]. unfold nominus. cbn [hd_sat].
      apply hexdigit_nominus, digit_hexdigit, Wd. }
  cbn [pbind].
  match goal with |- context [alt ?l ?i] =>
    assert (E : alt l i = POk k (digits_value (if hex then 16%Z else 10%Z) ds)) end.
  { unfold int_alts. destruct hex.
    - apply alt_ok. unfold int_hex. change sym_int_hex with (txt "0x"). rewrite tag_ok. cbn [pbind].
      apply negb_true_iff in Hk.
      unfold map_res, hex_digit1, span1. rewrite (span_app_stop is_hexdigit ds k Wd (hd_is_sat _ k Hk)).
      destruct ds; [contradiction|]. cbn [is_nil].
      rewrite parse_unsigned_value by (try lia; unfold i64_max; lia). reflexivity.
    - cbn [app]. apply andb_prop in Hk. destruct Hk as [Hk Hz]. apply negb_true_iff in Hk, Hz.
      rewrite alt_err by (now apply dec_not_hex).
      cbn [alt]. unfold map_res, digit1, span1. rewrite (span_app_stop is_digit ds k Wd (hd_is_sat _ k Hk)).
      destruct ds; [contradiction|]. cbn [is_nil].
      rewrite parse_unsigned_value by (try lia; unfold i64_max; lia). reflexivity. }
  rewrite E. reflexivity.
Qed.

Lemma minus_run_app n a k : minus_run n (a ++ k) = minus_run n a ++ k.
Proof. induction n; cbn [minus_run app]; [reflexivity|]. now rewrite IHn. Qed.

Lemma pr_int_app i k : pr_int i k = pr_int i [] ++ k.
Proof.
  unfold pr_int. rewrite <- minus_run_app. f_equal. rewrite app_nil_r. now rewrite app_assoc.
Qed.

(* first byte of a printed integer: '-' or a digit *)
Lemma int_head (f : byte -> bool) i k : wf_int i = true -> f x2d = true -> (forall b, is_digit b = true -> f b = true) ->
  hd_sat f (pr_int i k) = true.
Proof.
  intros Hw H1 H2. destruct i as [[|n] hex ds]; unfold pr_int, wf_int in *; cbn [ci_minus ci_hex ci_digits minus_run] in *.
  - bsplit Hw. destruct hex; [cbn; now apply H2|]. destruct ds as [|d ds]; [discriminate|]. cbn [app hd_sat forallb] in *.
    apply andb_prop in W0. destruct W0 as [W0 _]. auto.
  - exact H1.
Qed.

(* ---------- double constants ---------- *)
Definition ebyte (u : bool) : byte := if u then x45 else x65.
Lemma tag_nc_e e u r : e = [x65] -> tag_no_case e (ebyte u :: r) = POk r [ebyte u].
Proof. intros ->. destruct u; reflexivity. Qed.

Lemma tag_nc_e_err e k : e = [x65] -> nid k = true -> is_perr (tag_no_case e k).
Proof.
  intros -> H. destruct k as [|b k]; [exact I|]. unfold tag_no_case. cbn [strip_prefix_nc].
  destruct (Byte.eqb (lower_ascii b) (lower_ascii x65)) eqn:E; [|exact I].
  exfalso. cbn in H. revert E H. clear. destruct b; vm_compute; congruence.
Qed.
Lemma lower_e b : Byte.eqb (lower_ascii b) (lower_ascii x65) = (Byte.eqb b x65 || Byte.eqb b x45).
Proof. destruct b; reflexivity. Qed.
Lemma e_cases b : (Byte.eqb b x65 || Byte.eqb b x45) = true -> exists u, b = ebyte u.
Proof. intros H. apply orb_prop in H. destruct H as [H|H]; apply byte_dec_bl in H; subst; [exists false|exists true]; reflexivity. Qed.

(* no integer constant is read where none starts *)
Lemma int_starts_err lf k : int_starts k = false -> length k < lf -> is_perr (p_int_constant lf k).
Proof.
  intros Hs Hf. unfold int_starts in Hs. destruct (skip_minus_spec k) as [n [Ek Hm]]. set (t := skip_minus k) in *.
  rewrite p_int_eq. rewrite Ek at 1. rewrite minus_loop; [|now apply hd_is_sat|rewrite <- Ek; exact Hf]. cbn [pbind].
  apply pbind_err. destruct (span_run is_digit t) as [r [Es [Et [Hr Hd]]]]. unfold int_alts.
  destruct (run is_digit t) as [|d ds] eqn:Ed.
  - cbn [app] in Et. subst r.
    rewrite alt_err by (unfold int_hex; apply pbind_err; apply (tag_hd_err (fun b => negb (is_digit b))); [reflexivity|now apply hd_is_sat]).
    apply alt_last_err. unfold map_res, digit1, span1. rewrite Es. exact I.
  - cbn [is_nil negb andb] in Hs. rewrite Et.
    assert (Hz : (is_zero (d :: ds) && hex_continues r) = false).
    { destruct (is_zero (d :: ds)) eqn:Ez; [|reflexivity]. exfalso. destruct ds; [|discriminate Ez]. cbn [is_zero] in Ez.
      apply byte_dec_bl in Ez. subst d. discriminate Hs. }
    rewrite alt_err by (apply dec_not_hex; [discriminate|exact Hd|exact Hz]).
    apply alt_last_err. unfold map_res, digit1, span1. rewrite <- Et, Es. cbn [is_nil].
    rewrite parse_unsigned_none; [exact I|lia|unfold i64_max; lia|unfold i64_max; lia].
Qed.

Section Dbl.
Variable lf : nat.

Lemma rt_exp e0 e k : e0 = [x65] -> wf_exp e = true -> int_stops (ce_int e) k = true -> length (pr_exp e k) < lf ->
  p_exponent lf e0 (pr_exp e k) = POk k tt.
Proof.
  intros E0 Hw Hk Hf. destruct e as [u i]. unfold wf_exp, pr_exp, p_exponent in *. cbn [ce_upper ce_int] in *.
  change (if u then x45 else x65) with (ebyte u). rewrite (tag_nc_e e0 u _ E0). cbn [pbind]. rewrite (rt_int lf i k Hw Hk) by (cbn [length] in Hf; lia). reflexivity.
Qed.

Lemma exp_starts_err e0 k : e0 = [x65] -> exp_starts k = false -> length k < lf -> is_perr (p_exponent lf e0 k).
Proof.
  intros -> Hs Hf. unfold p_exponent. destruct k as [|b k]; [exact I|]. cbn [exp_starts] in Hs.
  destruct (Byte.eqb b x65 || Byte.eqb b x45) eqn:E.
  - destruct (e_cases b E) as [u ->]. rewrite (tag_nc_e [x65] u k eq_refl). cbn [pbind]. apply pbind_err.
    apply int_starts_err; [exact Hs|cbn [length] in Hf; lia].
  - apply pbind_err. unfold tag_no_case. cbn [strip_prefix_nc]. rewrite lower_e, E. exact I.
Qed.

Definition oexp_stops (e : option cexp) (k : list byte) : bool :=
  match e with Some e => int_stops (ce_int e) k | None => negb (exp_starts k) end.

Lemma rt_oexp e0 e k : e0 = [x65] -> wf_oexp e = true -> oexp_stops e k = true -> length (pr_oexp e k) < lf ->
  exists o, opt (p_exponent lf e0) (pr_oexp e k) = POk k o.
Proof.
  intros E0 Hw Hk Hf. destruct e as [e|]; cbn [pr_oexp wf_oexp oexp_stops] in *.
  - exists (Some tt). apply opt_ok. now apply rt_exp.
  - exists None. apply opt_err. apply negb_true_iff in Hk. now apply exp_starts_err.
Qed.

Lemma exp_head (f : byte -> bool) e k : f x45 = true -> f x65 = true -> hd_sat f (pr_exp e k) = true.
Proof. intros H1 H2. destruct e as [[|] i]; cbn; auto. Qed.
Lemma oexp_head (f : byte -> bool) e k : f x45 = true -> f x65 = true -> hd_sat f k = true -> hd_sat f (pr_oexp e k) = true.
Proof. intros H1 H2 H3. destruct e as [e|]; cbn [pr_oexp]; auto using exp_head. Qed.

Lemma digit1_ok ds k : ds <> [] -> is_digits ds = true -> hd_sat (fun b => negb (is_digit b)) k = true ->
  digit1 (ds ++ k) = POk k ds.
Proof.
  intros Hne Hd Hk. unfold digit1, span1. rewrite (span_app_stop is_digit ds k Hd Hk). destruct ds; [contradiction|reflexivity].
Qed.
Lemma digit1_err k : hd_sat (fun b => negb (is_digit b)) k = true -> is_perr (digit1 k).
Proof.
  intros H. unfold digit1, span1. destruct k as [|b k]; [exact I|]. cbn in H. cbn [span].
  apply negb_true_iff in H. rewrite H. exact I.
Qed.
Lemma odigit1 ds k : is_digits ds = true -> hd_sat (fun b => negb (is_digit b)) k = true ->
  exists o, opt digit1 (ds ++ k) = POk k o.
Proof.
  intros Hd Hk. destruct ds as [|d ds].
  - exists None. apply opt_err. now apply digit1_err.
  - exists (Some (d :: ds)). apply opt_ok. apply digit1_ok; auto. discriminate.
Qed.

Lemma len_exp e k : length k <= length (pr_exp e k).
Proof.
  destruct e as [u i]. unfold pr_exp, pr_int. cbn [ce_upper ce_int length]. rewrite len_minus, !app_length. lia.
Qed.
Lemma len_oexp e k : length k <= length (pr_oexp e k).
Proof. destruct e; cbn [pr_oexp]; [apply len_exp|lia]. Qed.

Definition dbl_a : parser unit :=
  fun i => do i, _ <- digit1 i ;; do i, _ <- tag sym_dbl_dot_a i ;;
           do i, _ <- opt digit1 i ;; do i, _ <- opt (p_exponent lf sym_dbl_exp_a) i ;; POk i tt.
Definition dbl_b : parser unit :=
  fun i => do i, _ <- opt digit1 i ;; do i, _ <- tag sym_dbl_dot_b i ;;
           do i, _ <- digit1 i ;; do i, _ <- opt (p_exponent lf sym_dbl_exp_b) i ;; POk i tt.
Definition dbl_c : parser unit :=
  fun i => do i, _ <- digit1 i ;; do i, _ <- tag_no_case sym_dbl_exp_c i ;;
           do i, _ <- p_int_constant lf i ;; POk i tt.
Definition dbl_alts : list (parser unit) := [dbl_a; dbl_b; dbl_c].

Lemma nd_e (u : bool) r : hd_sat (fun b => negb (is_digit b)) (ebyte u :: r) = true.
Proof. destruct u; reflexivity. Qed.

(* the body of a double ends where k begins *)
Definition dbody_stops (b : cdbody) (k : list byte) : bool :=
  match b with
  | DBodyA _ _ None | DBodyB _ None => negb (hd_is is_digit k) && negb (exp_starts k)
  | DBodyA _ _ (Some e) | DBodyB _ (Some e) | DBodyC _ e => int_stops (ce_int e) k
  end.
Lemma dbl_stops_body d k : dbl_stops d k = dbody_stops (cd_body d) k.
Proof. reflexivity. Qed.

Lemma oexp_stops_of ex k : (match ex with None => negb (hd_is is_digit k) && negb (exp_starts k) | Some e => int_stops (ce_int e) k end) = true ->
  oexp_stops ex k = true /\ hd_sat (fun c => negb (is_digit c)) (pr_oexp ex k) = true.
Proof.
  destruct ex as [e|]; cbn [oexp_stops pr_oexp]; intros H.
  - split; [exact H|]. destruct e as [[|] i]; reflexivity.
  - apply andb_prop in H. destruct H as [H1 H2]. split; [exact H2|]. apply hd_is_sat. now apply negb_true_iff in H1.
Qed.

Lemma rt_dbody b k : wf_dbody b = true -> dbody_stops b k = true -> length (pr_dbody b k) < lf ->
  alt dbl_alts (pr_dbody b k) = POk k tt.
Proof.
  intros Hw Hk Hf. unfold dbl_alts, dbl_a, dbl_b, dbl_c.
  destruct b as [ip fp ex|fp ex|ip ex]; cbn [pr_dbody wf_dbody] in *; bsplit Hw.
  - (* d+ . d* [exp] *)
    assert (Nip : negb (is_nil ip) = true) by assumption. assert (Dip : is_digits ip = true) by assumption.
    assert (Dfp : is_digits fp = true) by assumption. assert (Wex : wf_oexp ex = true) by assumption.
    assert (Hne : ip <> []) by (intros ->; discriminate Nip).
    apply alt_ok. rewrite (digit1_ok ip) by (auto; reflexivity). cbn [pbind].
    change sym_dbl_dot_a with [x2e]. change (x2e :: fp ++ pr_oexp ex k) with ([x2e] ++ fp ++ pr_oexp ex k).
    rewrite tag_ok. cbn [pbind].
    assert (Hk' : oexp_stops ex k = true /\ hd_sat (fun c => negb (is_digit c)) (pr_oexp ex k) = true).
    { apply oexp_stops_of. destruct ex; exact Hk. }
    destruct Hk' as [Hk1 Hk2].
    destruct (odigit1 fp (pr_oexp ex k) Dfp Hk2) as [o ->]. cbn [pbind].
    destruct (rt_oexp sym_dbl_exp_a ex k eq_refl Wex Hk1) as [o2 ->]; [|reflexivity].
    rewrite !app_length in Hf. cbn [length] in Hf. rewrite app_length in Hf. lia.
  - (* . d+ [exp] *)
    assert (Nfp : negb (is_nil fp) = true) by assumption. assert (Dfp : is_digits fp = true) by assumption.
    assert (Wex : wf_oexp ex = true) by assumption.
    assert (Hne : fp <> []) by (intros ->; discriminate Nfp).
    rewrite alt_err by (apply pbind_err; exact I).
    apply alt_ok. rewrite (opt_err digit1) by exact I. cbn [pbind].
    change sym_dbl_dot_b with [x2e]. change (x2e :: fp ++ pr_oexp ex k) with ([x2e] ++ fp ++ pr_oexp ex k).
    rewrite tag_ok. cbn [pbind].
    assert (Hk' : oexp_stops ex k = true /\ hd_sat (fun c => negb (is_digit c)) (pr_oexp ex k) = true).
    { apply oexp_stops_of. destruct ex; exact Hk. }
    destruct Hk' as [Hk1 Hk2].
    rewrite (digit1_ok fp) by auto. cbn [pbind].
    destruct (rt_oexp sym_dbl_exp_b ex k eq_refl Wex Hk1) as [o2 ->]; [|reflexivity].
    cbn [length] in Hf. rewrite app_length in Hf. lia.
  - (* d+ exp *)
    assert (Nip : negb (is_nil ip) = true) by assumption. assert (Dip : is_digits ip = true) by assumption.
    assert (Wex : wf_exp ex = true) by assumption.
    assert (Hne : ip <> []) by (intros ->; discriminate Nip).
    destruct ex as [u i]. unfold pr_exp in *. cbn [ce_upper ce_int] in *. unfold wf_exp in Wex. cbn [ce_int] in Wex.
    change (if u then x45 else x65) with (ebyte u) in *.
    rewrite alt_err.
    2:{ rewrite (digit1_ok ip) by (auto; apply nd_e). cbn [pbind]. apply pbind_err. destruct u; exact I. }
    rewrite alt_err.
    2:{ rewrite (opt_ok digit1 _ _ _ (digit1_ok ip _ Hne Dip (nd_e u _))). cbn [pbind]. apply pbind_err. destruct u; exact I. }
    cbn [alt]. rewrite (digit1_ok ip) by (auto; apply nd_e). cbn [pbind].
    rewrite (tag_nc_e sym_dbl_exp_c u _ eq_refl). cbn [pbind].
    rewrite (rt_int lf i k Wex Hk); [reflexivity|]. rewrite app_length in Hf. cbn [length] in Hf. lia.
Qed.

Lemma pr_oexp_app e k : pr_oexp e k = pr_oexp e [] ++ k.
Proof. destruct e as [[u i]|]; cbn [pr_oexp]; [|reflexivity]. unfold pr_exp. cbn [ce_upper ce_int app]. f_equal. apply pr_int_app. Qed.

Lemma pr_dbody_app b k : pr_dbody b k = pr_dbody b [] ++ k.
Proof.
  destruct b as [ip fp ex|fp ex|ip ex]; cbn [pr_dbody].
  - rewrite (pr_oexp_app ex k). rewrite <- !app_assoc. cbn [app]. now rewrite <- app_assoc.
  - rewrite (pr_oexp_app ex k). cbn [app]. now rewrite <- app_assoc.
  - destruct ex as [u i]. unfold pr_exp. cbn [ce_upper ce_int]. rewrite (pr_int_app i k). rewrite <- !app_assoc. reflexivity.
Qed.

Lemma pr_dbl_app d k : pr_dbl d k = pr_dbl d [] ++ k.
Proof. unfold pr_dbl. rewrite (pr_dbody_app (cd_body d) k). now rewrite <- !app_assoc. Qed.

(* the first byte of a body: a digit or '.' *)
Lemma dbody_head (f : byte -> bool) b k : wf_dbody b = true -> f x2e = true -> (forall c, is_digit c = true -> f c = true) ->
  hd_sat f (pr_dbody b k) = true.
Proof.
  intros Hw H1 H2. destruct b as [ip fp ex|fp ex|ip ex]; cbn [pr_dbody wf_dbody] in *; bsplit Hw; try exact H1;
    (assert (Dip : is_digits ip = true) by assumption); (destruct ip as [|c ip]; [discriminate|]);
    cbn [app hd_sat is_digits forallb] in *; apply andb_prop in Dip; destruct Dip; auto.
Qed.

Definition dbl_inner : parser unit :=
  fun i => do i, _ <- opt (tag sym_dbl_minus) i ;; do i, _ <- opt (tag sym_dbl_plus) i ;; alt dbl_alts i.
Lemma p_dbl_eq i : p_double_constant lf i = map_res (recognize dbl_inner) (fun s => Some s) i.
Proof. reflexivity. Qed.

Theorem rt_dbl d k : wf_dbl d = true -> dbl_stops d k = true -> length (pr_dbl d k) < lf ->
  p_double_constant lf (pr_dbl d k) = POk k (erase_dbl d).
Proof.
  intros Hw Hk Hf. rewrite p_dbl_eq. unfold map_res, recognize, erase_dbl.
  assert (E : dbl_inner (pr_dbl d k) = POk k tt).
  { unfold dbl_inner. rewrite dbl_stops_body in Hk. destruct d as [m p b]. unfold pr_dbl, wf_dbl in *. cbn [cd_minus cd_plus cd_body] in *. cbn beta.
    assert (L : length (pr_dbody b k) < lf).
    { rewrite !app_length in Hf. lia. }
    assert (Hm : is_perr (tag sym_dbl_minus (pr_dbody b k))).
    { apply (tag_hd_err (fun c => negb (Byte.eqb c x2d))); [reflexivity|]. apply dbody_head; auto.
      intros c Hc. apply hexdigit_nominus, digit_hexdigit, Hc. }
    assert (Hp : is_perr (tag sym_dbl_plus (pr_dbody b k))).
    { apply (tag_hd_err (fun c => negb (Byte.eqb c x2b))); [reflexivity|]. apply dbody_head; auto.
      intros c. destruct c; vm_compute; intro H; try reflexivity; discriminate H. }
    change sym_dbl_minus with [x2d] in *. change sym_dbl_plus with [x2b] in *.
    destruct m, p.
    - rewrite (opt_ok (tag [x2d]) _ _ _ (tag_ok [x2d] _)). cbn [pbind].
      rewrite (opt_ok (tag [x2b]) _ _ _ (tag_ok [x2b] _)). cbn [pbind]. now apply rt_dbody.
    - rewrite (opt_ok (tag [x2d]) _ _ _ (tag_ok [x2d] _)). cbn [pbind app].
      rewrite (opt_err (tag [x2b])) by exact Hp. cbn [pbind]. now apply rt_dbody.
    - cbn [app]. rewrite (opt_err (tag [x2d])) by exact I. cbn [pbind].
      change (x2b :: pr_dbody b k) with ([x2b] ++ pr_dbody b k).
      rewrite (opt_ok (tag [x2b]) _ _ _ (tag_ok [x2b] _)). cbn [pbind]. now apply rt_dbody.
    - cbn [app]. rewrite (opt_err (tag [x2d])) by exact Hm. cbn [pbind].
      rewrite (opt_err (tag [x2b])) by exact Hp. cbn [pbind]. now apply rt_dbody. }
  rewrite E. rewrite (pr_dbl_app d k) at 1. rewrite consumed_app. reflexivity.
Qed.

End Dbl.

(* non-vacuity *)
Example rt_int_example :
  let i := mkCInt 3 true (txt "7fFF") in
  wf_int i = true /\ pr_int i (txt ";") = txt "---0x7fFF;" /\ p_int_constant 100 (pr_int i (txt ";")) = POk (txt ";") (-32767)%Z.
Proof. vm_compute. repeat split. Qed.
Example rt_dbl_example :
  let d := mkCDbl true true (DBodyA (txt "12") [] (Some (mkCExp true (mkCInt 2 true (txt "1f"))))) in
  wf_dbl d = true /\ pr_dbl d (txt ",") = txt "-+12.E--0x1f," /\ p_double_constant 100 (pr_dbl d (txt ",")) = POk (txt ",") (txt "-+12.E--0x1f").
Proof. vm_compute. repeat split. Qed.
