(* Self-describing Thrift value trees. *)
From PV Require Export Thrift.Types Generated.ThriftConsts.
Open Scope Z_scope.

Inductive tval :=
| VBool (b : bool)
| VI8 (z : Z) | VI16 (z : Z) | VI32 (z : Z) | VI64 (z : Z)
| VDouble (bits : Z)                 (* IEEE-754 bit pattern, 0 <= bits < 2^64 *)
| VBinary (l : list byte)
| VUuid (l : list byte)              (* exactly 16 bytes *)
| VStruct (fs : list (Z * tval))     (* (field id, value) in wire order *)
| VList (et : ttype) (l : list tval)
| VSet (et : ttype) (l : list tval)
| VMap (kt vt : ttype) (l : list (tval * tval)).

Definition ttype_of (v : tval) : ttype :=
  match v with
  | VBool _ => TBool | VI8 _ => TI8 | VI16 _ => TI16 | VI32 _ => TI32 | VI64 _ => TI64
  | VDouble _ => TDouble | VBinary _ => TBinary | VUuid _ => TUuid | VStruct _ => TStruct
  | VList _ _ => TList | VSet _ _ => TSet | VMap _ _ _ => TMap
  end.

(* element types a container header may announce and a reader can consume *)
Definition elem_ttype_ok (t : ttype) : bool :=
  match t with TStop | TVoid => false | _ => true end.

Definition len_ok (n : nat) : bool := Z.of_nat n <? 2 ^ 31.

(* well-typed: ints in range, ids in i16, uuid of 16 bytes, container elements match
   the announced type, sizes representable by the wire's i32 *)
Fixpoint wt (v : tval) : bool :=
  match v with
  | VBool _ => true
  | VI8 z => in_sb 8 z
  | VI16 z => in_sb 16 z
  | VI32 z => in_sb 32 z
  | VI64 z => in_sb 64 z
  | VDouble b => (0 <=? b) && (b <? 2 ^ 64)
  | VBinary l => len_ok (length l)
  | VUuid l => Nat.eqb (length l) 16
  | VStruct fs =>
      (fix go (fs : list (Z * tval)) : bool :=
         match fs with
         | [] => true
         | (id, x) :: t => in_sb 16 id && wt x && go t
         end) fs
  | VList et l | VSet et l =>
      elem_ttype_ok et && len_ok (length l) &&
      (fix go (l : list tval) : bool :=
         match l with
         | [] => true
         | x :: t => ttype_eqb (ttype_of x) et && wt x && go t
         end) l
  | VMap kt vt l =>
      elem_ttype_ok kt && elem_ttype_ok vt && len_ok (length l) &&
      (fix go (l : list (tval * tval)) : bool :=
         match l with
         | [] => true
         | (k, x) :: t => ttype_eqb (ttype_of k) kt && wt k && ttype_eqb (ttype_of x) vt && wt x && go t
         end) l
  end.

(* number of nodes: the fuel a reader needs *)
Fixpoint vsize (v : tval) : nat :=
  match v with
  | VStruct fs => S ((fix go (fs : list (Z * tval)) : nat :=
                       match fs with [] => O | (_, x) :: t => S (vsize x + go t) end) fs)
  | VList _ l | VSet _ l => S ((fix go (l : list tval) : nat :=
                       match l with [] => O | x :: t => S (vsize x + go t) end) l)
  | VMap _ _ l => S ((fix go (l : list (tval * tval)) : nat :=
                       match l with [] => O | (k, x) :: t => S (vsize k + vsize x + go t) end) l)
  | _ => 1%nat
  end.

(* nesting depth (structs and containers) *)
Fixpoint vdepth (v : tval) : nat :=
  match v with
  | VStruct fs => S ((fix go (fs : list (Z * tval)) : nat :=
                       match fs with [] => O | (_, x) :: t => Nat.max (vdepth x) (go t) end) fs)
  | VList _ l | VSet _ l => S ((fix go (l : list tval) : nat :=
                       match l with [] => O | x :: t => Nat.max (vdepth x) (go t) end) l)
  | VMap _ _ l => S ((fix go (l : list (tval * tval)) : nat :=
                       match l with [] => O | (k, x) :: t => Nat.max (Nat.max (vdepth k) (vdepth x)) (go t) end) l)
  | _ => 1%nat
  end.

(* strong induction principle for the nested type *)
Section tval_ind.
  Variable P : tval -> Prop.
  Hypothesis Hbool : forall b, P (VBool b).
  Hypothesis Hi8 : forall z, P (VI8 z).
  Hypothesis Hi16 : forall z, P (VI16 z).
  Hypothesis Hi32 : forall z, P (VI32 z).
  Hypothesis Hi64 : forall z, P (VI64 z).
  Hypothesis Hdouble : forall z, P (VDouble z).
  Hypothesis Hbinary : forall l, P (VBinary l).
  Hypothesis Huuid : forall l, P (VUuid l).
  Hypothesis Hstruct : forall fs, Forall (fun p => P (snd p)) fs -> P (VStruct fs).
  Hypothesis Hlist : forall et l, Forall P l -> P (VList et l).
  Hypothesis Hset : forall et l, Forall P l -> P (VSet et l).
  Hypothesis Hmap : forall kt vt l, Forall (fun p => P (fst p) /\ P (snd p)) l -> P (VMap kt vt l).

  Fixpoint tval_ind' (v : tval) : P v :=
    match v with
    | VBool b => Hbool b | VI8 z => Hi8 z | VI16 z => Hi16 z | VI32 z => Hi32 z | VI64 z => Hi64 z
    | VDouble z => Hdouble z | VBinary l => Hbinary l | VUuid l => Huuid l
    | VStruct fs => Hstruct fs
        ((fix go (fs : list (Z * tval)) : Forall (fun p => P (snd p)) fs :=
            match fs with
            | [] => Forall_nil _
            | (i, x) :: t => Forall_cons (i, x) (tval_ind' x) (go t)
            end) fs)
    | VList et l => Hlist et l
        ((fix go (l : list tval) : Forall P l :=
            match l with [] => Forall_nil _ | x :: t => Forall_cons x (tval_ind' x) (go t) end) l)
    | VSet et l => Hset et l
        ((fix go (l : list tval) : Forall P l :=
            match l with [] => Forall_nil _ | x :: t => Forall_cons x (tval_ind' x) (go t) end) l)
    | VMap kt vt l => Hmap kt vt l
        ((fix go (l : list (tval * tval)) : Forall (fun p => P (fst p) /\ P (snd p)) l :=
            match l with
            | [] => Forall_nil _
            | (k, x) :: t => Forall_cons (k, x) (conj (tval_ind' k) (tval_ind' x)) (go t)
            end) l)
    end.
End tval_ind.
