(* C15, stage 2a: bookkeeping of printed text (suffixes, first bytes) and dotted paths, every layout. *)
From PVIdl Require Import Comb Ast Parser Print Proofs.Total Proofs.RoundTok.
From Coq Require Import ZifyN ZifyNat ZifyBool.
From Coq Require String.
Import String.StringSyntax.
Open Scope nat_scope.

(* ---------- suffixes of printed text (fuel bookkeeping) ---------- *)
Lemma sfx_app_r r a k : sfx r k -> sfx r (a ++ k).
Proof. intros [p ->]. exists (a ++ p). now rewrite app_assoc. Qed.
Lemma sfx_cons_r r (b : byte) k : sfx r k -> sfx r (b :: k).
Proof. apply (sfx_app_r r [b]). Qed.
Lemma sfx_atom r a k : sfx r k -> sfx r (pr_atom a k).
Proof. destruct a; cbn [pr_atom]; intros H; repeat apply sfx_app_r; exact H. Qed.
Lemma sfx_blank r bl k : sfx r k -> sfx r (pr_blank bl k).
Proof. induction bl; cbn [pr_blank]; intros H; [exact H|]. apply sfx_atom. auto. Qed.
Lemma sfx_path_tail r t k : sfx r k -> sfx r (pr_path_tail t k).
Proof.
  induction t as [|[[b1 b2] s] t IH]; cbn [pr_path_tail]; intros H; [exact H|].
  apply sfx_blank, sfx_app_r, sfx_blank, sfx_app_r. auto.
Qed.
Lemma sfx_lit r l k : sfx r k -> sfx r (pr_lit l k).
Proof. intros H. unfold pr_lit. apply sfx_cons_r, sfx_app_r, sfx_cons_r, H. Qed.
Lemma sfx_sep r s k : sfx r k -> sfx r (pr_sep s k).
Proof. destruct s; cbn [pr_sep]; intros H; [exact H|]. apply sfx_cons_r, sfx_blank, H. Qed.
Lemma sfx_ann r a k : sfx r k -> sfx r (pr_ann a k).
Proof.
  intros H. unfold pr_ann. apply sfx_blank, sfx_app_r, sfx_blank, sfx_app_r, sfx_blank, sfx_lit, sfx_blank, sfx_sep, H.
Qed.
Lemma sfx_ann_list r l k : sfx r k -> sfx r (pr_ann_list l k).
Proof. induction l; cbn [pr_ann_list]; intros H; [exact H|]. apply sfx_ann. auto. Qed.
Lemma sfx_anns r l k : sfx r k -> sfx r (pr_anns l k).
Proof. intros H. unfold pr_anns. apply sfx_app_r, sfx_ann_list, sfx_app_r, H. Qed.
Lemma sfx_oanns r a k : sfx r k -> sfx r (pr_oanns a k).
Proof. destruct a; cbn [pr_oanns]; intros H; [apply sfx_anns, H|exact H]. Qed.
Lemma sfx_ocpp r c k : sfx r k -> sfx r (pr_ocpp c k).
Proof.
  destruct c as [c|]; cbn [pr_ocpp]; intros H; [|exact H]. unfold pr_cpp. apply sfx_blank, sfx_app_r, sfx_blank, sfx_lit, H.
Qed.
Lemma sfx_path r p k : sfx r k -> sfx r (pr_path p k).
Proof. intros H. unfold pr_path. apply sfx_app_r, sfx_path_tail, H. Qed.
#[export] Hint Resolve sfx_refl sfx_app_r sfx_cons_r sfx_blank sfx_path_tail sfx_lit sfx_sep sfx_anns sfx_ocpp sfx_path : sfxdb.

Fixpoint sfx_ty (t : cty) : forall r k, sfx r k -> sfx r (pr_ty t k)
with sfx_type (t : ctype) : forall r k, sfx r k -> sfx r (pr_type t k).
Proof.
  - destruct t; cbn [pr_ty]; intros r k H.
    + apply sfx_app_r, H.
    + apply sfx_app_r, sfx_blank, sfx_app_r, sfx_blank, sfx_type, sfx_blank, sfx_app_r, sfx_ocpp, H.
    + apply sfx_app_r, sfx_ocpp, sfx_blank, sfx_app_r, sfx_blank, sfx_type, sfx_blank, sfx_app_r, H.
    + apply sfx_app_r, sfx_ocpp, sfx_blank, sfx_app_r, sfx_blank, sfx_type, sfx_blank, sfx_cons_r, sfx_blank, sfx_type,
        sfx_blank, sfx_app_r, H.
    + apply sfx_path, H.
  - destruct t as [t [[bl a]|]]; cbn [pr_type]; intros r k H.
    + apply sfx_ty, sfx_blank, sfx_anns, H.
    + apply sfx_ty, H.
Qed.
#[export] Hint Resolve sfx_ty sfx_type : sfxdb.

(* deterministic: peel the printers of the enclosing text from the outside in *)
Ltac sfx_step :=
  first [ apply sfx_refl | apply sfx_app_r | apply sfx_cons_r | apply sfx_blank | apply sfx_type | apply sfx_ty
        | apply sfx_ocpp | apply sfx_path_tail | apply sfx_path | apply sfx_lit | apply sfx_sep | apply sfx_anns | apply sfx_oanns ].
Ltac sfx_of H := eapply sfx_trans; [|exact H]; repeat sfx_step.

Lemma sfx_lt lf whole t : length whole < lf -> sfx t whole -> length t < lf.
Proof. intros H S. apply sfx_len in S. lia. Qed.

Ltac sfx_of0 H := eapply sfx_trans; [|exact H]; auto 60 with sfxdb.

(* ---------- heads ---------- *)
Lemma blank_start_not_identch b : blank_start b = true -> identch b = false.
Proof. destruct b; vm_compute; intro H; try reflexivity; discriminate H. Qed.
Lemma blank_start_wordend b : blank_start b = true -> (N.ltb (bn b) 128 && negb (identch b)) = true.
Proof. destruct b; vm_compute; intro H; try reflexivity; discriminate H. Qed.
Lemma identhead_nb b : (is_alpha b || is_underscore b) = true -> blank_start b = false.
Proof. destruct b; vm_compute; intro H; try reflexivity; discriminate H. Qed.

Lemma ident_nb s k : is_ident s = true -> nb (s ++ k) = true.
Proof.
  destruct s as [|h t]; [discriminate|]. cbn [is_ident]. intros H. apply andb_prop in H. destruct H as [H _].
  cbn. now rewrite (identhead_nb h H).
Qed.

(* the head of [pr_blank bl k'] when bl is non-empty is a blank start; so every "next byte" condition that holds for
   blank starts and (when bl is empty) for k' holds for the whole *)
Lemma blank_then (f : byte -> bool) bl k' :
  wf_blank bl = true -> (forall b, blank_start b = true -> f b = true) -> (bl = [] -> hd_sat f k' = true) ->
  hd_sat f (pr_blank bl k') = true.
Proof.
  intros Hw Hf Hk. destruct bl as [|a bl]; [now apply Hk|].
  destruct (blank_head (a :: bl) k' Hw ltac:(discriminate)) as [b [r [-> Hb]]]. cbn. auto.
Qed.

(* blank slots that may be the last of the text *)
Lemma blank_head_e eof bl k : wfb eof bl = true -> bl <> [] -> exists b r, pr_blank bl k = b :: r /\ blank_start b = true.
Proof.
  intros Hw Hne. assert (Hw' : wf_blank_eof bl = true) by (destruct eof; cbn [wfb] in Hw; auto using wf_blank_eof_of).
  destruct bl as [|a bl]; [contradiction|]. cbn [wf_blank_eof] in Hw'.
  apply andb_prop in Hw'. destruct Hw' as [Hw' _]. apply andb_prop in Hw'. destruct Hw' as [Hw' _].
  destruct a as [ws|body|body|body]; cbn [pr_blank pr_atom wf_atom] in *.
  - apply andb_prop in Hw'. destruct Hw' as [Hn Hs]. destruct ws as [|w ws]; [discriminate|]. cbn [forallb] in Hs.
    apply andb_prop in Hs. exists w, (ws ++ pr_blank bl k). split; [reflexivity|]. unfold blank_start. destruct Hs as [-> _]. reflexivity.
  - eexists _, _. split; [reflexivity|]. reflexivity.
  - eexists _, _. split; [reflexivity|]. reflexivity.
  - eexists _, _. split; [reflexivity|]. reflexivity.
Qed.

Lemma blank_then_e (f : byte -> bool) eof bl k' :
  wfb eof bl = true -> (forall b, blank_start b = true -> f b = true) -> (bl = [] -> hd_sat f k' = true) ->
  hd_sat f (pr_blank bl k') = true.
Proof.
  intros Hw Hf Hk. destruct bl as [|a bl]; [now apply Hk|].
  destruct (blank_head_e eof (a :: bl) k' Hw ltac:(discriminate)) as [b [r [-> Hb]]]. cbn. auto.
Qed.

Lemma wfb_false_of eof bl : wfb false bl = true -> wfb eof bl = true.
Proof. destruct eof; cbn [wfb]; auto using wf_blank_eof_of. Qed.

(* ---------- paths ---------- *)
(* what follows a path: no word character, and not a separator ('.' between optional blanks) followed by an identifier.
   (A '.' that is not followed by an identifier -- the double .5 after the path a -- ends the path before the '.') *)
Definition sepfollow (lf : nat) (k : list byte) : Prop :=
  is_perr (p_path_sep lf k) \/ exists i1 u, p_path_sep lf k = POk i1 u /\ same_len i1 k = false /\ is_perr (p_ident i1).
Definition pfollow (lf : nat) (k : list byte) : Prop :=
  hd_sat (fun b => negb (identch b)) k = true /\ sepfollow lf k.

Lemma dot_not_blank_start : blank_start x2e = false. Proof. reflexivity. Qed.

Section WithFuel.
Variable lf : nat.
Variable whole : list byte.
Hypothesis Hlf : length whole < lf.

Lemma oblank bl k : wf_blank bl = true -> nb k = true -> sfx (pr_blank bl k) whole ->
  exists o, opt (p_blank lf) (pr_blank bl k) = POk k o.
Proof. intros Hw Hk S. apply rt_oblank; auto. eapply sfx_lt; eauto. Qed.

Lemma oblank_e eof bl k : wfb eof bl = true -> (eof = true -> k = []) -> nb k = true -> sfx (pr_blank bl k) whole ->
  exists o, opt (p_blank lf) (pr_blank bl k) = POk k o.
Proof.
  intros Hw He Hk S. destruct eof; cbn [wfb] in Hw.
  - rewrite (He eq_refl) in *. apply rt_oblank_eof; auto. eapply sfx_lt; eauto.
  - now apply oblank.
Qed.

Lemma mblank bl k : wf_blank bl = true -> negb (is_nil bl) = true -> nb k = true -> sfx (pr_blank bl k) whole ->
  p_blank lf (pr_blank bl k) = POk k tt.
Proof. intros Hw Hn Hk S. apply rt_blank; auto; [destruct bl; discriminate|eapply sfx_lt; eauto]. Qed.

Lemma path_tail_head t k : forallb (fun x => wf_blank (fst (fst x)) && wf_blank (snd (fst x)) && is_ident (snd x)) t = true ->
  hd_sat (fun b => negb (identch b)) k = true -> hd_sat (fun b => negb (identch b)) (pr_path_tail t k) = true.
Proof.
  intros Hw Hk. destruct t as [|[[b1 b2] s] t]; [exact Hk|]. cbn [pr_path_tail forallb fst snd] in *.
  apply andb_prop in Hw. destruct Hw as [Hw _]. apply andb_prop in Hw. destruct Hw as [Hw _]. apply andb_prop in Hw.
  destruct Hw as [Hw1 _]. apply blank_then; auto.
  - intros b Hb. now rewrite (blank_start_not_identch b Hb).
Qed.

Lemma path_loop : forall t k fuel,
  forallb (fun x => wf_blank (fst (fst x)) && wf_blank (snd (fst x)) && is_ident (snd x)) t = true ->
  pfollow lf k -> sfx (pr_path_tail t k) whole -> length (pr_path_tail t k) < fuel ->
  sep_loop fuel (p_path_sep lf) p_ident (pr_path_tail t k) = POk k (map (fun x => snd x) t).
Proof.
  induction t as [|[[b1 b2] s] t IH]; intros k fuel Hw [Hk1 Hk2] S Hf.
  - cbn [pr_path_tail map] in *. destruct fuel as [|f]; [lia|]. cbn [sep_loop].
    destruct Hk2 as [Hk2|[i1 [u [-> [Hs Hi]]]]].
    + destruct (p_path_sep lf k); cbn in Hk2; try contradiction. reflexivity.
    + rewrite Hs. destruct (p_ident i1); cbn in Hi; try contradiction. reflexivity.
  - cbn [pr_path_tail forallb fst snd map] in *. apply andb_prop in Hw. destruct Hw as [Hw Hwt].
    apply andb_prop in Hw. destruct Hw as [Hw Hs]. apply andb_prop in Hw. destruct Hw as [Hw1 Hw2].
    destruct fuel as [|f]; [lia|]. cbn [sep_loop].
    set (rest := pr_path_tail t k) in *.
    assert (E : p_path_sep lf (pr_blank b1 (txt "." ++ pr_blank b2 (s ++ rest))) = POk (s ++ rest) tt).
    { unfold p_path_sep.
      destruct (oblank b1 (txt "." ++ pr_blank b2 (s ++ rest)) Hw1 eq_refl S) as [o1 ->]. cbn [pbind].
      change sym_path_dot with (txt "."). rewrite tag_ok. cbn [pbind].
      destruct (oblank b2 (s ++ rest) Hw2 (ident_nb s rest Hs) ltac:(sfx_of S)) as [o2 ->]. reflexivity. }
    rewrite E.
    assert (L : length (s ++ rest) < length (pr_blank b1 (txt "." ++ pr_blank b2 (s ++ rest)))).
    { assert (S1 : sfx (txt "." ++ pr_blank b2 (s ++ rest)) (pr_blank b1 (txt "." ++ pr_blank b2 (s ++ rest)))) by auto with sfxdb.
      assert (S2 : sfx (s ++ rest) (pr_blank b2 (s ++ rest))) by auto with sfxdb.
      apply sfx_len in S1, S2. change (txt "." ++ pr_blank b2 (s ++ rest)) with (x2e :: pr_blank b2 (s ++ rest)) in *.
      cbn [length] in S1. lia. }
    assert (SL : same_len (s ++ rest) (pr_blank b1 (txt "." ++ pr_blank b2 (s ++ rest))) = false).
    { destruct (same_len (s ++ rest) (pr_blank b1 (txt "." ++ pr_blank b2 (s ++ rest)))) eqn:E2; [|reflexivity].
      apply same_len_iff in E2. lia. }
    rewrite SL. rewrite (rt_ident s rest Hs (path_tail_head t k Hwt Hk1)).
    assert (S3 : sfx rest (s ++ rest)) by auto with sfxdb. apply sfx_len in S3.
    assert (S4 : sfx rest whole) by (sfx_of S).
    subst rest. rewrite (IH k f Hwt (conj Hk1 Hk2)); [reflexivity|exact S4|lia].
Qed.

Lemma rt_path p k : wf_path p = true -> pfollow lf k -> sfx (pr_path p k) whole ->
  p_path lf (pr_path p k) = POk k (erase_path p).
Proof.
  intros Hw Hk S. destruct p as [h t]. unfold wf_path, pr_path, erase_path in *. cbn [cp_head cp_tail] in *.
  apply andb_prop in Hw. destruct Hw as [Hh Ht]. unfold p_path, separated_list1.
  rewrite (rt_ident h (pr_path_tail t k) Hh (path_tail_head t k Ht (proj1 Hk))). cbn [pbind].
  rewrite (path_loop t k lf Ht Hk); [reflexivity|sfx_of S|]. eapply sfx_lt; [exact Hlf|sfx_of S].
Qed.

End WithFuel.


(* ---------- shared helpers for the production proofs ---------- *)
Definition nosep (k : list byte) : bool := hd_sat (fun b => negb (bmem b set_list_separator)) k.

Lemma sep_head (f : byte -> bool) s k : f x2c = true -> f x3b = true -> hd_sat f k = true -> hd_sat f (pr_sep s k) = true.
Proof. intros H1 H2 Hk. destruct s as [|[|] bl]; cbn [pr_sep sep_byte hd_sat]; auto. Qed.

Lemma sep_nb s k : nb k = true -> nb (pr_sep s k) = true.
Proof. intros H. apply sep_head; auto. Qed.

Lemma lit_nb l k : nb (pr_lit l k) = true.
Proof. destruct l as [[|] body]; reflexivity. Qed.

Lemma len_blank bl k : length k <= length (pr_blank bl k).
Proof. apply sfx_len. auto with sfxdb. Qed.

Lemma len_sep s k : length k <= length (pr_sep s k).
Proof. apply sfx_len. auto with sfxdb. Qed.

Lemma same_len_shorter {A} (r i : list A) : length r < length i -> same_len r i = false.
Proof. intros H. destruct (same_len r i) eqn:E; [|reflexivity]. apply same_len_iff in E. lia. Qed.

(* tag on a printed keyword / symbol: [tg K (txt "text")] *)
Ltac tg K T := change K with T; rewrite tag_ok; cbn [pbind].

(* an optional blank slot: [obk lf whole Hlf S tac], tac proves that what follows does not start a blank; the
   well-formedness of the blank is an assumption *)
Ltac obk lf whole Hlf S tac :=
  match goal with |- context [opt (p_blank _) (pr_blank ?b ?k)] =>
    let o := fresh "o" in
    destruct (oblank lf whole Hlf b k ltac:(assumption) ltac:(tac) ltac:(sfx_of S)) as [o ->]; cbn [pbind] end.

(* a mandatory blank slot *)
Ltac mbk lf whole Hlf S tac :=
  match goal with |- context [p_blank _ (pr_blank ?b ?k)] =>
    rewrite (mblank lf whole Hlf b k ltac:(assumption) ltac:(assumption) ltac:(tac) ltac:(sfx_of S)); cbn [pbind] end.

(* split a conjunction of booleans in a hypothesis into its components *)
Ltac bsplit H :=
  repeat match type of H with
         | (_ && _) = true => let H' := fresh "W" in apply andb_prop in H; destruct H as [H H']
         end.
