"""gen family -- lowering of the EMITTED code (what the real pilota-build wrote for the corpus) to the op language of
fam/gen/coq/EmitOps.v.

Input : the emitted file of one builder configuration (.cache/gen_out*/<cfg>.rs), the lowered schema (schema.txt) and the
        map global schema name -> Rust path (gengen).
Output: for every schema type of the configuration one row: the bodies of `encode`, `size`, `decode` of its
        `impl ::pilota::thrift::Message`, each statement matched against the template shapes and turned into ops.

Anything outside the understood shapes raises LowerError (the caller reports it as a translator failure): nothing is
skipped silently.  What is NOT lowered is listed in fam/gen/NOTES.md (gen-C, "emitted ops")."""
import os
import re
import sys

sys.path.insert(0, os.path.dirname(os.path.abspath(__file__)))
import rustmini                                            # noqa: E402
from rustmini import ParseError                            # noqa: E402


class LowerError(Exception):
    pass


# ------------------------------------------------------------------ text level
def strip_text(src):
    """comments removed, string / byte-string / char literals replaced by `""` (their content is never needed: names are
    taken from the declarations); lifetimes kept"""
    out = []
    i, n = 0, len(src)
    while i < n:
        c = src[i]
        if c == '/' and src.startswith('//', i):
            j = src.find('\n', i)
            i = n if j < 0 else j
            continue
        if c == '/' and src.startswith('/*', i):
            depth, i = 1, i + 2
            while i < n and depth:
                if src.startswith('/*', i):
                    depth += 1; i += 2
                elif src.startswith('*/', i):
                    depth -= 1; i += 2
                else:
                    i += 1
            continue
        m = re.compile(r'b?r(#*)"').match(src, i)
        if m and (i == 0 or not (src[i - 1].isalnum() or src[i - 1] == '_')):
            end = src.find('"' + m.group(1), m.end())
            if end < 0:
                raise LowerError('unterminated raw string')
            out.append('""')
            i = end + 1 + len(m.group(1))
            continue
        if c == '"' or (c == 'b' and src.startswith('b"', i) and (i == 0 or not (src[i - 1].isalnum() or src[i - 1] == '_'))):
            i += 1 if c == '"' else 2
            while i < n and src[i] != '"':
                i += 2 if src[i] == '\\' else 1
            out.append('""')
            i += 1
            continue
        if c == "'":
            m = re.compile(r"'(?:\\(?:u\{[0-9a-fA-F_]+\}|x[0-9a-fA-F]{2}|.)|[^\\'])'").match(src, i)
            if m:
                out.append('""')
                i = m.end()
                continue
        out.append(c)
        i += 1
    return ''.join(out)


def match_brace(s, i, open_='{', close='}'):
    """s[i] == open_ ; index of the matching close"""
    depth = 0
    for j in range(i, len(s)):
        if s[j] == open_:
            depth += 1
        elif s[j] == close:
            depth -= 1
            if depth == 0:
                return j
    raise LowerError('unbalanced %s' % open_)


def split_top(s, sep=','):
    """split at separators outside () [] {} <>"""
    out, cur, depth = [], [], 0
    i = 0
    while i < len(s):
        c = s[i]
        if c in '([{<':
            depth += 1
        elif c in ')]}':
            depth -= 1
        elif c == '>' and not (i > 0 and s[i - 1] in '-='):
            depth -= 1
        if c == sep and depth == 0:
            out.append(''.join(cur)); cur = []
        else:
            cur.append(c)
        i += 1
    if ''.join(cur).strip():
        out.append(''.join(cur))
    return [x.strip() for x in out]


ITEM_RE = re.compile(r'\b(?:pub mod (\w+)\s*\{|pub struct (\w+)\s*([({;])|pub enum (\w+)\s*\{|impl ::pilota::thrift::Message for (\w+)\s*\{)')


def scan_items(code, top):
    """-> decls: {rust path: ('struct', [(field, type text)]) | ('tuple', [type text]) | ('enum', [(variant, type text | None)])},
          impls: {rust path: {fn name: body text}}   (paths relative to the configuration's top module)"""
    decls, impls = {}, {}

    def walk(lo, hi, path):
        i = lo
        while True:
            m = ITEM_RE.search(code, i, hi)
            if not m:
                return
            if m.group(1):
                j = match_brace(code, m.end() - 1)
                walk(m.end(), j, path + [m.group(1)])
                i = j + 1
            elif m.group(2):
                name = '::'.join(path + [m.group(2)])
                k = m.group(3)
                if k == '{':
                    j = match_brace(code, m.end() - 1)
                    fs = []
                    for part in split_top(code[m.end():j]):
                        part = re.sub(r'#\[[^\]]*\]', '', part).strip()
                        mm = re.match(r'pub (?:r#)?(\w+)\s*:\s*(.*)$', part, flags=re.S)
                        if not mm:
                            raise LowerError('struct %s: field declaration not understood: %r' % (name, part[:80]))
                        fs.append((mm.group(1), ' '.join(mm.group(2).split())))
                    decls[name] = ('struct', fs)
                    i = j + 1
                elif k == '(':
                    j = match_brace(code, m.end() - 1, '(', ')')
                    ts = [re.sub(r'^pub\s+', '', x) for x in split_top(code[m.end():j])]
                    decls[name] = ('tuple', [' '.join(t.split()) for t in ts])
                    i = j + 1
                else:
                    decls[name] = ('struct', [])
                    i = m.end()
            elif m.group(4):
                name = '::'.join(path + [m.group(4)])
                j = match_brace(code, m.end() - 1)
                vs = []
                for part in split_top(code[m.end():j]):
                    part = re.sub(r'#\[[^\]]*\]', '', part).strip()
                    mm = re.match(r'(?:r#)?(\w+)\s*(?:\((.*)\))?\s*(?:=\s*-?\d+)?$', part, flags=re.S)
                    if not mm:
                        raise LowerError('enum %s: variant not understood: %r' % (name, part[:80]))
                    vs.append((mm.group(1), ' '.join(mm.group(2).split()) if mm.group(2) is not None else None))
                decls[name] = ('enum', vs)
                i = j + 1
            else:
                name = '::'.join(path + [m.group(5)])
                j = match_brace(code, m.end() - 1)
                fns = {}
                k = m.end()
                while True:
                    fm = re.compile(r'\bfn (\w+)').search(code, k, j)
                    if not fm:
                        break
                    # the body is the first `{` at bracket depth 0 after the signature
                    p, depth = fm.end(), 0
                    while True:
                        ch = code[p]
                        if ch in '(<[':
                            depth += 1
                        elif ch in ')]':
                            depth -= 1
                        elif ch == '>' and code[p - 1] != '-':
                            depth -= 1
                        elif ch == '{' and depth == 0:
                            break
                        p += 1
                    q = match_brace(code, p)
                    fns[fm.group(1)] = code[p + 1:q]
                    k = q + 1
                impls[name] = fns
                i = j + 1
    m = re.search(r'pub mod %s\s*\{' % re.escape(top), code)
    if not m:
        raise LowerError('top module %s not found' % top)
    walk(m.end(), match_brace(code, m.end() - 1), [])
    return decls, impls


# ------------------------------------------------------------------ Rust types of the declarations
def parse_rtype(t):
    """type text -> tree: ('opt', T) ('vec', T) ('set', bt, T) ('map', bt, K, V) ('box', T) ('arc', T) ('k', mk) ('unit',) ('path', 'a::b')"""
    t = t.strip()
    m = re.match(r'^([\w:]+)\s*<(.*)>$', t, flags=re.S)
    if m:
        head, args = m.group(1), split_top(m.group(2))
        h = head.lstrip(':')
        if h == 'std::option::Option':
            return ('opt', parse_rtype(args[0]))
        if h == 'std::vec::Vec':
            if args[0] == 'u8':
                return ('k', 'KBytesVec')
            return ('vec', parse_rtype(args[0]))
        if h == 'pilota::AHashSet':
            return ('set', False, parse_rtype(args[0]))
        if h == 'std::collections::BTreeSet':
            return ('set', True, parse_rtype(args[0]))
        if h == 'pilota::AHashMap':
            return ('map', False, parse_rtype(args[0]), parse_rtype(args[1]))
        if h == 'std::collections::BTreeMap':
            return ('map', True, parse_rtype(args[0]), parse_rtype(args[1]))
        if h == 'std::boxed::Box':
            return ('box', parse_rtype(args[0]))
        if h == 'std::sync::Arc':
            return ('arc', parse_rtype(args[0]))
        if h == 'pilota::OrderedFloat' and args == ['f64']:
            return ('k', 'KOrderedF64')
        raise LowerError('generic type not understood: %s' % t)
    prim = {'bool': 'KBool', 'u8': 'KU8', 'i8': 'KI8', 'i16': 'KI16', 'i32': 'KI32', 'i64': 'KI64', 'f64': 'KF64',
            '::pilota::FastStr': 'KFastStr', '::std::string::String': 'KString', '::pilota::Bytes': 'KBytes', '[u8; 16]': 'KUuid'}
    if t in prim:
        return ('k', prim[t])
    if t == '()':
        return ('unit',)
    if re.match(r'^[\w:]+$', t):
        return ('path', t)
    raise LowerError('type not understood: %s' % t)


def resolve_path(mod, p):
    """Rust path as written inside module `mod` (list of segments) -> path relative to the configuration's top module"""
    segs = p.split('::')
    cur = list(mod)
    while segs and segs[0] == 'super':
        if not cur:
            raise LowerError('path %s escapes the top module' % p)
        cur.pop(); segs.pop(0)
    return '::'.join(cur + segs)


# ------------------------------------------------------------------ parser (rustmini + the constructs of the emitted code)
TOK = re.compile(r"""
    (?P<ws>\s+)
  | (?P<num>0x[0-9a-fA-F_]+(?:[iu](?:8|16|32|64|128|size))?|\d[\d_]*(?:\.\d[\d_]*)?(?:[eE][-+]?\d+)?(?:f64|f32|[iu](?:8|16|32|64|128|size))?)
  | (?P<str>"")
  | (?P<life>'[A-Za-z_]\w*)
  | (?P<id>(?:r\#)?[A-Za-z_$]\w*(?:::(?:<[^<>]*(?:<[^<>]*>[^<>]*)*>|[A-Za-z_]\w*))*!?)
  | (?P<op>\.\.=|<<=|>>=|\.\.|<<|<=|>=|==|!=|&&|\|\||=>|->|\+=|-=|\*=|::|[-+*/%&|^!<>=.,;:(){}\[\]?\#@])
""", re.X)


def tokenize(s):
    """as rustmini.tokenize, with float literals and raw identifiers; `>>` is two tokens (generic arguments close that way far
    more often than anything is shifted in the emitted code, and the templates never shift)"""
    out, i = [], 0
    while i < len(s):
        m = TOK.match(s, i)
        if not m:
            raise ParseError("cannot tokenize at %r" % s[i:i + 30])
        i = m.end()
        k = m.lastgroup
        if k == "ws":
            continue
        if k == "num" and re.search(r"\.|[eE]|f64|f32", m.group(0)) and not m.group(0).startswith("0x"):
            out.append(("num", "0")); continue            # float literal: the value of a default is not lowered
        out.append((k, m.group(0)[2:] if k == "id" and m.group(0).startswith("r#") else m.group(0)))
    out.append(("eof", ""))
    return out


class P(rustmini.P):
    def skip_until(self, stops):
        depth, out = 0, []
        while True:
            k, v = self.peek()
            if k == "eof":
                raise ParseError("unexpected end while skipping")
            if depth == 0 and v in stops and k in ("op", "id"):
                return " ".join(out)
            if v in "([{" and k == "op":
                depth += 1
            elif v in ")]}" and k == "op":
                depth -= 1
            elif v == "<" and k == "op" and out and re.match(r"[A-Za-z_]", out[-1][-1:] or " "):
                depth += 1
            elif v == ">" and k == "op" and depth > 0 and "<" in "".join(out):
                depth -= 1
            out.append(v)
            self.i += 1

    def block(self):
        self.eat("{")
        stmts, tail = [], None
        while not self.at("}"):
            if self.at(";"):
                self.eat(); continue
            if self.at("#"):
                self.eat(); self.skip_bracket(); continue
            if self.peek() == ("id", "use"):
                while not self.at(";"):
                    self.eat()
                self.eat(";"); continue
            if self.peek() == ("id", "let"):
                self.eat()
                pat = self.skip_until({"=", ";", ":"})
                if self.at(":"):
                    self.eat(); self.skip_until({"=", ";"})
                init = None
                if self.at("="):
                    self.eat(); init = self.expr()
                if self.peek() == ("id", "else"):
                    self.eat()
                    blk = self.block()
                    self.eat(";")
                    stmts.append(("letelse", pat, init, blk)); continue
                self.eat(";")
                stmts.append(("let", pat, init)); continue
            e = self.expr()
            if self.peek()[0] == "op" and self.peek()[1] in ("=", "+=", "-=", "*="):
                op = self.eat()[1]
                rhs = self.expr()
                if self.at(";"):
                    self.eat()
                stmts.append(("assign", op, e, rhs)); continue
            if self.at(";"):
                self.eat(); stmts.append(("expr", e))
            elif self.at("}"):
                tail = e
            elif e[0] in ("if", "iflet", "match", "block", "unsafe", "loop", "for", "while"):
                stmts.append(("expr", e))
            else:
                raise ParseError("expected ; or } after expression, found %r" % (self.peek()[1],))
        self.eat("}")
        return ("block", stmts, tail)

    def postfix(self, e, nostruct):
        while True:
            e = rustmini.P.postfix(self, e, nostruct)
            if self.at("(") and e[0] in ("paren",):
                e = ("callv", e, self.args()); continue
            return e

    def primary(self, nostruct):
        k, v = self.peek()
        if k == "op" and v == "::":
            self.eat()
            k2, v2 = self.peek()
            if k2 != "id":
                raise ParseError("path expected after ::")
            self.t[self.i] = (k2, "::" + v2)
            return self.primary(nostruct)
        if k == "op" and v == "<":
            # <T as Trait>::f
            self.eat()
            txt = self.skip_until({">"})
            self.eat(">")
            self.eat("::")
            k2, v2 = self.eat()
            return ("path", "<%s>::%s" % (txt, v2))
        if k == "id" and v == "async":
            self.eat()
            if self.peek() == ("id", "move"):
                self.eat()
            return ("async", self.block())
        if k == "id" and v == "if" and self.peek(1) == ("id", "let"):
            self.eat(); self.eat()
            pat = self.skip_until({"="})
            self.eat("=")
            c = self.expr(nostruct=True)
            t = self.block()
            e = None
            if self.peek() == ("id", "else"):
                self.eat()
                e = self.block()
            return ("iflet", re.sub(r"\s+", " ", pat).strip(), c, t, e)
        return rustmini.P.primary(self, nostruct)


def parse_body(text):
    p = P(tokenize("{" + text + "}"))
    b = p.block()
    if p.peek()[0] != "eof":
        raise ParseError("trailing tokens after the body")
    return b


# ------------------------------------------------------------------ lowering
PROTO = ('path', '__protocol')
METHOD_KIND = {'bool': 'KBool', 'byte': 'KU8', 'i8': 'KI8', 'i16': 'KI16', 'i32': 'KI32', 'i64': 'KI64', 'double': 'KF64',
               'uuid': 'KUuid', 'string': 'KString', 'faststr': 'KFastStr', 'bytes': 'KBytes', 'bytes_vec': 'KBytesVec'}
TTYPES = ('Stop', 'Void', 'Bool', 'I8', 'Double', 'I16', 'I32', 'I64', 'Binary', 'Struct', 'Map', 'Set', 'List', 'Uuid')


def fail(ctx, msg, node=None):
    raise LowerError('%s: %s%s' % (ctx, msg, (' -- ' + repr(node)[:300]) if node is not None else ''))


def peel(e):
    """strip ?, .await, parentheses, &, *, .clone()"""
    while True:
        if e[0] in ('try', 'await', 'paren', 'ref'):
            e = e[1]
        elif e[0] == 'un' and e[1] == '*':
            e = e[2]
        elif e[0] == 'mcall' and e[2] == 'clone' and not e[3]:
            e = e[1]
        else:
            return e


def proto_call(e):
    """e = __protocol.name(args) under ? / .await  ->  (name, args) | None"""
    e0 = e
    while e0[0] in ('try', 'await', 'paren'):
        e0 = e0[1]
    if e0[0] == 'mcall' and e0[1] == PROTO:
        return e0[2], e0[3]
    return None


def ttype_of(e, ctx):
    e = peel(e)
    m = re.match(r'^::pilota::thrift::TType::(\w+)$', e[1]) if e[0] == 'path' else None
    if not m or m.group(1) not in TTYPES:
        fail(ctx, 'TType constant expected', e)
    return 'T' + m.group(1)


def int_of(e, ctx):
    if e[0] == 'num':
        return e[1]
    if e[0] == 'un' and e[1] == '-' and e[2][0] == 'num':
        return -e[2][1]
    fail(ctx, 'integer literal expected', e)


def some_int(e, ctx):
    if e[0] == 'call' and e[1] == 'Some' and len(e[2]) == 1:
        return int_of(e[2][0], ctx)
    fail(ctx, 'Some(<id>) expected', e)


def strip_wrap(rt):
    while rt[0] in ('arc', 'box'):
        rt = rt[1]
    return rt


def self_member(e):
    """the unique `self.<name>` below e"""
    found = []

    def go(x):
        if isinstance(x, tuple):
            if len(x) == 3 and x[0] == 'field' and x[1] == ('path', 'self'):
                found.append(x[2])
            for y in x:
                go(y)
        elif isinstance(x, list):
            for y in x:
                go(y)
    go(e)
    return found


def is_ok_unit(e):
    return e is not None and e[0] == 'call' and e[1].endswith('Result::Ok') and e[2] == [('tuple', [])]


class Lower:
    def __init__(self, index_of_path, mod):
        self.idx = index_of_path          # rust path (relative to the top module) -> schema index
        self.mod = mod

    def path_index(self, rt, ctx):
        rt = strip_wrap(rt)
        if rt[0] != 'path':
            fail(ctx, 'the declared Rust type is not a path where the text calls Message::encode / size / decode', rt)
        p = resolve_path(self.mod, rt[1])
        if p not in self.idx:
            fail(ctx, 'Rust path %s is not a type of the schema' % p)
        return self.idx[p]

    def kind(self, meth, rt, ctx, arg=None):
        k = METHOD_KIND.get(meth)
        if k is None:
            fail(ctx, 'unknown scalar method family `%s`' % meth)
        rt = strip_wrap(rt)
        if k == 'KF64' and rt == ('k', 'KOrderedF64'):
            k = 'KOrderedF64'
        if rt != ('k', k):
            fail(ctx, 'method family `%s` used at declared Rust type %r' % (meth, rt))
        return k

    # ---- value level, encode
    def wvop_closure(self, c, rt, ctx):
        if c[0] != 'closure' or c[1][0] != 'block' or not is_ok_unit(c[1][2]):
            fail(ctx, 'element closure `|__protocol, val| { ..; Ok(()) }` expected', c)
        return self.wvop_stmts(c[1][1], rt, ctx)

    def wvop_stmts(self, stmts, rt, ctx):
        calls = []
        for st in stmts:
            pc = proto_call(st[1]) if st[0] == 'expr' and st[1][0] == 'try' else None
            if pc is None:
                fail(ctx, 'statement `__protocol.write_..(..)?;` expected', st)
            calls.append(pc)
        rt = strip_wrap(rt)
        if [c[0] for c in calls] == ['write_struct_begin', 'write_struct_end']:
            if rt != ('unit',):
                fail(ctx, 'void write at Rust type %r' % (rt,))
            return ('VVoid',)
        if len(calls) != 1:
            fail(ctx, 'one write statement expected', stmts)
        name, args = calls[0]
        if not name.startswith('write_'):
            fail(ctx, 'write_* expected', name)
        m = name[6:]
        if m == 'struct':
            return ('VPath', self.path_index(rt, ctx))
        if m == 'list':
            if rt[0] != 'vec' or len(args) != 3:
                fail(ctx, 'write_list at Rust type %r' % (rt,))
            return ('VList', ttype_of(args[0], ctx), self.wvop_closure(args[2], rt[1], ctx))
        if m in ('set', 'btree_set'):
            if rt[0] != 'set' or rt[1] != (m == 'btree_set') or len(args) != 3:
                fail(ctx, '%s at Rust type %r' % (name, rt))
            return ('VSet', rt[1], ttype_of(args[0], ctx), self.wvop_closure(args[2], rt[2], ctx))
        if m in ('map', 'btree_map'):
            if rt[0] != 'map' or rt[1] != (m == 'btree_map') or len(args) != 5:
                fail(ctx, '%s at Rust type %r' % (name, rt))
            return ('VMap', rt[1], ttype_of(args[0], ctx), ttype_of(args[1], ctx),
                    self.wvop_closure(args[3], rt[2], ctx), self.wvop_closure(args[4], rt[3], ctx))
        if len(args) != 1:
            fail(ctx, 'one argument expected', args)
        return ('VK', self.kind(m, rt, ctx))

    # ---- field level, encode: one statement `__protocol.write_<x>_field(id, ..)?;`
    def wfield_stmt(self, st, rt, ctx):
        pc = proto_call(st[1]) if st[0] == 'expr' and st[1][0] == 'try' else None
        if pc is None or not re.match(r'^write_\w+_field$', pc[0]):
            fail(ctx, 'statement `__protocol.write_.._field(..)?;` expected', st)
        name, args = pc
        m = name[6:-6]
        fid = int_of(args[0], ctx)
        rt = strip_wrap(rt)
        if m == 'struct':
            if len(args) != 3:
                fail(ctx, 'write_struct_field(id, x, ttype) expected', args)
            return fid, ('FPath', ttype_of(args[2], ctx), self.path_index(rt, ctx))
        if m == 'list':
            if rt[0] != 'vec' or len(args) != 4:
                fail(ctx, 'write_list_field at Rust type %r' % (rt,))
            return fid, ('FList', ttype_of(args[1], ctx), self.wvop_closure(args[3], rt[1], ctx))
        if m in ('set', 'btree_set'):
            if rt[0] != 'set' or rt[1] != (m == 'btree_set') or len(args) != 4:
                fail(ctx, '%s at Rust type %r' % (name, rt))
            return fid, ('FSet', rt[1], ttype_of(args[1], ctx), self.wvop_closure(args[3], rt[2], ctx))
        if m in ('map', 'btree_map'):
            if rt[0] != 'map' or rt[1] != (m == 'btree_map') or len(args) != 6:
                fail(ctx, '%s at Rust type %r' % (name, rt))
            return fid, ('FMap', rt[1], ttype_of(args[1], ctx), ttype_of(args[2], ctx),
                         self.wvop_closure(args[4], rt[2], ctx), self.wvop_closure(args[5], rt[3], ctx))
        if len(args) != 2:
            fail(ctx, 'write_<k>_field(id, x) expected', args)
        a = args[1]
        while a[0] == 'paren':
            a = a[1]
        if m == 'i32' and a[0] == 'mcall' and a[2] == 'inner':
            return fid, ('FEnum', self.path_index(rt, ctx))
        return fid, ('FK', self.kind(m, rt, ctx))

    # ---- value level, size: an expression
    def svop_closure(self, c, rt, ctx):
        if c[0] != 'closure':
            fail(ctx, 'closure expected', c)
        b = c[1]
        if b[0] == 'block':
            if b[1] or b[2] is None:
                fail(ctx, 'closure body: one expression expected', b)
            b = b[2]
        return self.svop(b, rt, ctx)

    def svop(self, e, rt, ctx):
        pc = proto_call(e)
        if pc is None or not pc[0].endswith('_len'):
            fail(ctx, '`__protocol.<x>_len(..)` expected', e)
        name, args = pc
        m = name[:-4]
        rt = strip_wrap(rt)
        if m == 'void':
            if rt != ('unit',):
                fail(ctx, 'void_len at Rust type %r' % (rt,))
            return ('VVoid',)
        if m == 'struct':
            return ('VPath', self.path_index(rt, ctx))
        if m == 'list':
            if rt[0] != 'vec' or len(args) != 3:
                fail(ctx, 'list_len at Rust type %r' % (rt,))
            return ('VList', ttype_of(args[0], ctx), self.svop_closure(args[2], rt[1], ctx))
        if m in ('set', 'btree_set'):
            if rt[0] != 'set' or rt[1] != (m == 'btree_set') or len(args) != 3:
                fail(ctx, '%s at Rust type %r' % (name, rt))
            return ('VSet', rt[1], ttype_of(args[0], ctx), self.svop_closure(args[2], rt[2], ctx))
        if m in ('map', 'btree_map'):
            if rt[0] != 'map' or rt[1] != (m == 'btree_map') or len(args) != 5:
                fail(ctx, '%s at Rust type %r' % (name, rt))
            return ('VMap', rt[1], ttype_of(args[0], ctx), ttype_of(args[1], ctx),
                    self.svop_closure(args[3], rt[2], ctx), self.svop_closure(args[4], rt[3], ctx))
        if len(args) != 1:
            fail(ctx, 'one argument expected', args)
        return ('VK', self.kind(m, rt, ctx))

    # ---- field level, size: `__protocol.<x>_field_len(Some(id), ..)`
    def sfield(self, e, rt, ctx):
        pc = proto_call(e)
        if pc is None or not pc[0].endswith('_field_len'):
            fail(ctx, '`__protocol.<x>_field_len(Some(id), ..)` expected', e)
        name, args = pc
        m = name[:-10]
        fid = some_int(args[0], ctx)
        rt = strip_wrap(rt)
        if m == 'struct':
            if len(args) != 2:
                fail(ctx, 'struct_field_len(Some(id), x) expected', args)
            return fid, ('FPath', None, self.path_index(rt, ctx))
        if m == 'list':
            if rt[0] != 'vec' or len(args) != 4:
                fail(ctx, 'list_field_len at Rust type %r' % (rt,))
            return fid, ('FList', ttype_of(args[1], ctx), self.svop_closure(args[3], rt[1], ctx))
        if m in ('set', 'btree_set'):
            if rt[0] != 'set' or rt[1] != (m == 'btree_set') or len(args) != 4:
                fail(ctx, '%s at Rust type %r' % (name, rt))
            return fid, ('FSet', rt[1], ttype_of(args[1], ctx), self.svop_closure(args[3], rt[2], ctx))
        if m in ('map', 'btree_map'):
            if rt[0] != 'map' or rt[1] != (m == 'btree_map') or len(args) != 6:
                fail(ctx, '%s at Rust type %r' % (name, rt))
            return fid, ('FMap', rt[1], ttype_of(args[1], ctx), ttype_of(args[2], ctx),
                         self.svop_closure(args[4], rt[2], ctx), self.svop_closure(args[5], rt[3], ctx))
        if len(args) != 2:
            fail(ctx, '<k>_field_len(Some(id), x) expected', args)
        a = args[1]
        while a[0] == 'paren':
            a = a[1]
        if m == 'i32' and a[0] == 'mcall' and a[2] == 'inner':
            return fid, ('FEnum', self.path_index(rt, ctx))
        return fid, ('FK', self.kind(m, rt, ctx))

    # ---- decode: a read expression
    def rop(self, e, rt, ctx, is_async=False):
        r = self.rop0(e, rt, ctx)
        self.check_awaits(e, is_async, ctx)
        return r

    def check_awaits(self, e, is_async, ctx):
        """every call on __protocol (and every decode_async) is `.await`ed in an async body, none in a sync body"""
        def go(x, awaited):
            if isinstance(x, tuple):
                if x and x[0] == 'await':
                    go(x[1], True)
                    return
                is_call = (len(x) == 4 and x[0] == 'mcall' and x[1] == PROTO) or \
                          (len(x) == 3 and x[0] == 'call' and isinstance(x[1], str) and x[1].endswith('::decode_async'))
                if is_call and awaited != is_async:
                    fail(ctx, ('read without .await in an async body' if is_async else '.await in a sync body'), x)
                for y in x:
                    go(y, False)
            elif isinstance(x, list):
                for y in x:
                    go(y, False)
        go(e, False)

    def rop0(self, e, rt, ctx):
        while e[0] == 'paren':
            e = e[1]
        if rt[0] == 'box':
            if not (e[0] == 'call' and e[1] == '::std::boxed::Box::new' and len(e[2]) == 1):
                fail(ctx, 'Box::new(read) expected at a boxed member', e)
            return ('RBox', self.rop0(e[2][0], rt[1], ctx))
        if rt[0] == 'arc':
            if not (e[0] == 'call' and e[1] == '::std::sync::Arc::new' and len(e[2]) == 1):
                fail(ctx, 'Arc::new(read) expected at an Arc member', e)
            return ('RArc', self.rop0(e[2][0], rt[1], ctx))
        if e[0] == 'call' and e[1] == '::pilota::OrderedFloat' and len(e[2]) == 1:
            pc = proto_call(e[2][0])
            if pc != ('read_double', []) or rt != ('k', 'KOrderedF64'):
                fail(ctx, 'OrderedFloat(read_double) at Rust type %r' % (rt,), e)
            return ('RK', 'KOrderedF64')
        if e[0] == 'try' or e[0] == 'await':
            inner = e
            while inner[0] in ('try', 'await'):
                inner = inner[1]
            if inner[0] == 'call' and inner[1] == '::pilota::thrift::Message::decode' and inner[2] == [PROTO]:
                return ('RPath', self.path_index(rt, ctx))
            m = re.match(r'^<(.*) as :: pilota::thrift::Message>::decode_async$', inner[1]) if inner[0] == 'call' else None
            if m and inner[2] == [PROTO]:
                want = rt[1].replace('::', ' :: ') if rt[0] == 'path' else None
                if rt[0] != 'path' or re.sub(r'\s+', '', m.group(1)) != rt[1]:
                    fail(ctx, 'decode_async of %s at declared Rust type %r' % (m.group(1), rt))
                return ('RPath', self.path_index(rt, ctx))
            pc = proto_call(e)
            if pc is None or not pc[0].startswith('read_') or pc[1]:
                fail(ctx, '`__protocol.read_<k>()?` expected', e)
            k = self.kind(pc[0][5:], rt, ctx)
            if k == 'KOrderedF64':
                fail(ctx, 'read_double without OrderedFloat at an ordered-float member', e)
            return ('RK', k)
        blk = e[1] if e[0] == 'unsafe' else e
        if blk[0] != 'block':
            fail(ctx, 'read expression not understood', e)
        stmts, tail = blk[1], blk[2]
        pcs = [proto_call(st[1]) if st[0] == 'expr' else None for st in stmts]
        if tail == ('tuple', []) and [p and p[0] for p in pcs] == ['read_struct_begin', 'read_struct_end']:
            if rt != ('unit',):
                fail(ctx, 'void read at Rust type %r' % (rt,))
            return ('RVoid',)
        if tail != ('path', 'val') or len(stmts) < 4 or stmts[0][0] != 'let':
            fail(ctx, 'container read block expected', e)
        begin = proto_call(stmts[0][2])
        if begin is None:
            fail(ctx, 'read_<c>_begin expected', stmts[0])
        loop = [st[1] for st in stmts if st[0] == 'expr' and st[1][0] == 'for']
        if len(loop) != 1:
            fail(ctx, 'one element loop expected', e)
        f = loop[0]
        body = f[3]
        if body[2] is not None or len(body[1]) != 1 or body[1][0][0] != 'expr':
            fail(ctx, 'loop body: one statement expected', body)
        call = body[1][0][1]
        endname = [p[0] for p in pcs if p and p[0].endswith('_end')]
        if begin[0] == 'read_list_begin':
            if rt[0] != 'vec' or endname != ['read_list_end'] or stmts[0][1] != 'list_ident':
                fail(ctx, 'list read at Rust type %r' % (rt,))
            if e[0] == 'unsafe':
                # val.as_mut_ptr().offset(i as isize).write(READ); then val.set_len(list_ident.size)
                if not (call[0] == 'mcall' and call[2] == 'write' and len(call[3]) == 1 and call[1][0] == 'mcall' and call[1][2] == 'offset'):
                    fail(ctx, 'raw element write expected', call)
                if not any(st[0] == 'expr' and st[1][0] == 'mcall' and st[1][2] == 'set_len' for st in stmts):
                    fail(ctx, 'set_len expected', e)
            else:
                if not (call[0] == 'mcall' and call[2] == 'push' and call[1] == ('path', 'val') and len(call[3]) == 1):
                    fail(ctx, 'val.push(read) expected', call)
            if f[2] != ('range', ('num', 0), ('field', ('path', 'list_ident'), 'size')):
                fail(ctx, 'loop over 0..list_ident.size expected', f[2])
            return ('RList', self.rop0(call[3][0], rt[1], ctx))
        if begin[0] == 'read_set_begin':
            if rt[0] != 'set' or endname != ['read_set_end'] or stmts[0][1] != 'list_ident':
                fail(ctx, 'set read at Rust type %r' % (rt,))
            if not (call[0] == 'mcall' and call[2] == 'insert' and call[1] == ('path', 'val') and len(call[3]) == 1):
                fail(ctx, 'val.insert(read) expected', call)
            if f[2] != ('range', ('num', 0), ('field', ('path', 'list_ident'), 'size')):
                fail(ctx, 'loop over 0..list_ident.size expected', f[2])
            return ('RSet', rt[1], self.rop0(call[3][0], rt[2], ctx))
        if begin[0] == 'read_map_begin':
            if rt[0] != 'map' or endname != ['read_map_end'] or stmts[0][1] != 'map_ident':
                fail(ctx, 'map read at Rust type %r' % (rt,))
            if not (call[0] == 'mcall' and call[2] == 'insert' and call[1] == ('path', 'val') and len(call[3]) == 2):
                fail(ctx, 'val.insert(key, value) expected', call)
            if f[2] != ('range', ('num', 0), ('field', ('path', 'map_ident'), 'size')):
                fail(ctx, 'loop over 0..map_ident.size expected', f[2])
            return ('RMap', rt[1], self.rop0(call[3][0], rt[2], ctx), self.rop0(call[3][1], rt[3], ctx))
        fail(ctx, 'container read not understood', e)


CONTROL = ('if', 'iflet', 'match', 'for', 'loop', 'while', 'unsafe')


def bstmts(b):
    """the statements of a block; a control expression in tail position (no `;` before the closing brace) counts as one"""
    if b is None or b[0] != 'block':
        return None
    st = list(b[1])
    if b[2] is not None:
        if b[2][0] not in CONTROL:
            return None
        st.append(('expr', b[2]))
    return st


def flatten_plus(e):
    if e[0] == 'bin' and e[1] == '+':
        return flatten_plus(e[2]) + flatten_plus(e[3])
    while e[0] == 'paren':
        e = e[1]
    return [e]


def len_form(st, name, ctx):
    """`__protocol.name(..);` -> LCall ; `__pilota_offset += __protocol.name(..);` -> LAdd"""
    if st[0] == 'expr':
        pc = proto_call(st[1])
        if pc and pc[0] == name:
            return 'LCall'
    if st[0] == 'assign' and st[1] == '+=' and st[2] == ('path', '__pilota_offset'):
        pc = proto_call(st[3])
        if pc and pc[0] == name:
            return 'LAdd'
    fail(ctx, '`%s` statement expected' % name, st)


def is_invalid_data_return(st):
    """return Err(new_protocol_exception(ProtocolExceptionKind::InvalidData, ..))"""
    e = st[1] if st[0] == 'expr' else st
    if e[0] != 'return' or e[1] is None:
        return False
    r = e[1]
    if not (r[0] == 'call' and r[1].endswith('Result::Err') and len(r[2]) == 1):
        return False
    x = r[2][0]
    return (x[0] == 'call' and x[1] == '::pilota::thrift::new_protocol_exception' and len(x[2]) >= 1
            and x[2][0] == ('path', '::pilota::thrift::ProtocolExceptionKind::InvalidData'))


def lower_struct(lw, name, decl, fns, ctx0):
    members = dict(decl[1])
    order = [n for n, _ in decl[1]]
    keep_member = '_unknown_fields' in members
    rts = {n: parse_rtype(t) for n, t in decl[1] if n != '_unknown_fields'}

    def member_rt(n, opt, ctx):
        if n not in rts:
            fail(ctx, 'member %s is not declared' % n)
        rt = rts[n]
        if opt != (rt[0] == 'opt'):
            fail(ctx, 'member %s: optional handling does not agree with its declared type' % n)
        return rt[1] if opt else rt

    # ---- encode
    ctx = ctx0 + ' encode'
    b = parse_body(fns['encode'])
    stmts = list(b[1])
    if not is_ok_unit(b[2]):
        fail(ctx, 'tail Ok(()) expected')
    if stmts and stmts[0][0] == 'let' and stmts[0][1] == 'struct_ident':
        stmts.pop(0)
    pcs = lambda st: proto_call(st[1]) if st[0] == 'expr' else None
    if not stmts or (pcs(stmts[0]) or ('',))[0] != 'write_struct_begin':
        fail(ctx, 'write_struct_begin first')
    if [(pcs(s) or ('',))[0] for s in stmts[-2:]] != ['write_field_stop', 'write_struct_end']:
        fail(ctx, 'write_field_stop; write_struct_end last')
    enc, enc_unk = [], False
    for st in stmts[1:-2]:
        e = st[1] if st[0] == 'expr' else None
        if e is not None and e[0] == 'for':
            # for bytes in self._unknown_fields.list.iter() { __protocol.write_bytes_without_len(bytes.clone()); }
            body = e[3]
            ok = (e[1] == 'bytes' and self_member(e[2]) == ['_unknown_fields'] and len(body[1]) == 1 and body[2] is None
                  and (proto_call(body[1][0][1]) or ('',))[0] == 'write_bytes_without_len')
            if not ok or enc_unk or st is not stmts[-3]:
                fail(ctx, 'retention loop not understood / not last', st)
            enc_unk = True
            continue
        if e is not None and e[0] == 'iflet':
            ms = self_member(e[2])
            if e[1] != 'Some ( value )' or len(ms) != 1 or e[4] is not None or not (e[2][0] == 'mcall' and e[2][2] == 'as_ref'):
                fail(ctx, '`if let Some(value) = self.<m>.as_ref()` expected', e)
            rt = member_rt(ms[0], True, ctx)
            blk = e[3]
            if blk[2] is not None or len(blk[1]) > 1:
                fail(ctx, 'one statement in the optional block expected', blk)
            if not blk[1]:
                if strip_wrap(rt) != ('unit',):
                    fail(ctx, 'empty optional block at a non-void member %s' % ms[0])
                continue
            fid, op = lw.wfield_stmt(blk[1][0], rt, ctx + ' member ' + ms[0])
            if self_member(blk[1][0]):
                fail(ctx, 'optional member %s: the statement must use `value`' % ms[0])
            enc.append((ms[0], fid, True, op))
            continue
        ms = self_member(st)
        if len(ms) != 1:
            fail(ctx, 'a statement must name exactly one member', st)
        rt = member_rt(ms[0], False, ctx)
        fid, op = lw.wfield_stmt(st, rt, ctx + ' member ' + ms[0])
        enc.append((ms[0], fid, False, op))
    # ---- size
    ctx = ctx0 + ' size'
    b = parse_body(fns['size'])
    if b[1] or b[2] is None:
        fail(ctx, 'one expression expected')
    terms = flatten_plus(b[2])
    names = [(proto_call(t) or ('',))[0] for t in terms]
    if names[0] != 'struct_begin_len' or names[-2:] != ['field_stop_len', 'struct_end_len']:
        fail(ctx, 'struct_begin_len + .. + field_stop_len + struct_end_len expected')
    size, size_unk = [], False
    for t in terms[1:-2]:
        if t == ('num', 0):
            continue                                            # a void member
        if t[0] == 'mcall' and t[2] == 'size' and self_member(t) == ['_unknown_fields']:
            if size_unk or t is not terms[-3]:
                fail(ctx, 'retention term not last')
            size_unk = True
            continue
        if t[0] == 'mcall' and t[2] == 'map_or':
            ms = self_member(t[1])
            if len(ms) != 1 or not (t[1][0] == 'mcall' and t[1][2] == 'as_ref') or len(t[3]) != 2 or t[3][0] != ('num', 0) or t[3][1][0] != 'closure':
                fail(ctx, '`self.<m>.as_ref().map_or(0, |value| ..)` expected', t)
            rt = member_rt(ms[0], True, ctx)
            body = t[3][1][1]
            if body[0] == 'block' and not body[1] and body[2] is not None:
                body = body[2]
            if body == ('num', 0):
                continue
            fid, op = lw.sfield(body, rt, ctx + ' member ' + ms[0])
            if self_member(body):
                fail(ctx, 'optional member %s: the term must use `value`' % ms[0])
            size.append((ms[0], fid, True, op))
            continue
        ms = self_member(t)
        if len(ms) != 1:
            fail(ctx, 'a term must name exactly one member', t)
        rt = member_rt(ms[0], False, ctx)
        fid, op = lw.sfield(t, rt, ctx + ' member ' + ms[0])
        size.append((ms[0], fid, False, op))
    # ---- decode
    dec = lower_struct_decode(lw, name, fns['decode'], rts, keep_member, ctx0 + ' decode', False)
    # a member of type () has no statement in encode / size: it is listed with FNone, under the id of the decoder's arm
    id_of_var = {a[2]: a[0] for a in dec[9]}
    id_of_member = {n: id_of_var.get(v) for n, v in dec[14]}

    def complete(lst, what):
        # the statements stay in the order of the TEXT (the comparison with the prescription is the table lemma's business);
        # a member without a statement is put where the declaration has it
        out = list(lst)
        have = {x[0] for x in lst}
        for k, n in enumerate(order):
            if n == '_unknown_fields' or n in have:
                continue
            rt = rts[n]
            opt = rt[0] == 'opt'
            if strip_wrap(rt[1] if opt else rt) != ('unit',) or id_of_member.get(n) is None:
                fail(ctx0 + ' ' + what, 'member %s has no statement' % n)
            later = set(order[k + 1:])
            pos = next((i for i, x in enumerate(out) if x[0] in later), len(out))
            out.insert(pos, (n, id_of_member[n], opt, ('FNone',)))
        return out
    adec = lower_struct_decode(lw, name, fns['decode_async'], rts, keep_member, ctx0 + ' decode_async', True)
    return ('EStruct', name.split('::')[-1], complete(enc, 'encode'), enc_unk, complete(size, 'size'), size_unk, dec), ('AStruct', adec)


def lower_struct_decode(lw, name, text, rts, keep_member, ctx, is_async):
    b = parse_body(text)
    if is_async:
        b = unpin(b, ctx)
    stmts = list(b[1])
    tail = b[2]
    count = False
    if stmts and stmts[0] == ('let', 'mut __pilota_fields_num', ('num', 0)):
        count = True
        stmts.pop(0)
    var_index, inits = {}, []
    while stmts and stmts[0][0] == 'let' and re.match(r'^mut var_\w+$', stmts[0][1]):
        v = stmts.pop(0)
        init = v[2]
        if init == ('path', 'None'):
            inits.append('INone')
        elif init[0] == 'call' and init[1] == 'Some' and len(init[2]) == 1:
            inits.append('(IConst true)')
        else:
            inits.append('(IConst false)')
        var_index[v[1][4:]] = len(var_index)
        if count:
            if not stmts or stmts[0] != ('assign', '+=', ('path', '__pilota_fields_num'), ('num', 1)):
                fail(ctx, '`__pilota_fields_num += 1;` expected after every variable')
            stmts.pop(0)
    unk = False
    if stmts and stmts[0][0] == 'let' and stmts[0][1] == 'mut _unknown_fields':
        unk = True
        stmts.pop(0)
    if not stmts or stmts[0] != ('let', 'mut __pilota_decoding_field_id', ('path', 'None')):
        fail(ctx, '`let mut __pilota_decoding_field_id = None;` expected', stmts[:1])
    stmts.pop(0)
    if (proto_call(stmts[0][1]) if stmts[0][0] == 'expr' else None) != ('read_struct_begin', []):
        fail(ctx, 'read_struct_begin expected', stmts[0])
    stmts.pop(0)
    st = stmts.pop(0)
    e = st[1] if st[0] == 'expr' else None
    if e is None or e[0] != 'iflet' or 'Err ( mut err )' not in e[1]:
        fail(ctx, '`if let Err(mut err) = <field loop> {..}` expected', st)
    # the error branch: prefix the message, return the error
    eb = e[3]
    if not (len(eb[1]) == 2 and eb[1][0][0] == 'expr' and eb[1][0][1][0] == 'iflet' and eb[1][1][0] == 'expr' and eb[1][1][1][0] == 'return'
            and eb[1][1][1][1] == ('call', '::std::result::Result::Err', [('path', 'err')])):
        fail(ctx, 'error branch: `if let Some(field_id) = .. { err.prepend_msg(..) } return Err(err);` expected', eb)
    cond = e[2]
    if is_async:
        if not (cond[0] == 'await' and cond[1][0] == 'async'):
            fail(ctx, 'async { .. }.await expected', cond)
        inner = cond[1][1]
    else:
        if not (cond[0] == 'callv' and cond[1][0] == 'paren' and cond[1][1][0] == 'closure' and not cond[2]):
            fail(ctx, '(|| { .. })() expected', cond)
        inner = cond[1][1][1]
    if inner[0] != 'block' or len(inner[1]) != 1 or inner[1][0][0] != 'expr' or inner[1][0][1][0] != 'loop' or not (
            inner[2] and inner[2][0] == 'call' and inner[2][1].startswith('::std::result::Result::Ok') and inner[2][2] == [('tuple', [])]):
        fail(ctx, '{ loop { .. }; Ok(()) } expected', inner)
    ls = list(inner[1][0][1][1][1])
    if inner[1][0][1][1][2] is not None:
        fail(ctx, 'loop body with a tail expression')
    skip_all = False
    if ls and ls[0][0] == 'expr' and ls[0][1][0] == 'if' and ls[0][1][1] == ('bin', '==', ('path', '__pilota_fields_num'), ('num', 0)):
        blk = ls[0][1][2]
        # let __pilota_remaining = __protocol.buf().remaining(); _unknown_fields.push_back(__protocol.get_bytes(None, __pilota_remaining - 2)?); break;
        ok = (len(blk[1]) == 3 and blk[1][0][0] == 'let' and blk[1][0][1] == '__pilota_remaining'
              and blk[1][0][2] == ('mcall', ('mcall', PROTO, 'buf', []), 'remaining', [])
              and blk[1][1] == ('expr', ('mcall', ('path', '_unknown_fields'), 'push_back',
                                         [('try', ('mcall', PROTO, 'get_bytes', [('path', 'None'), ('bin', '-', ('path', '__pilota_remaining'), ('num', 2))]))]))
              and blk[1][2] == ('expr', ('break',)) and ls[0][1][3] is None)
        if not ok:
            fail(ctx, 'the `__pilota_fields_num == 0` head is not the template\'s', ls[0])
        skip_all = True
        ls.pop(0)
    ptr = False
    if ls and ls[0] == ('let', 'mut __pilota_offset', ('num', 0)):
        if not (ls[1][0] == 'let' and ls[1][1] == '__pilota_begin_ptr'
                and ls[1][2] == ('mcall', ('mcall', ('mcall', PROTO, 'buf', []), 'chunk', []), 'as_ptr', [])):
            fail(ctx, '`let __pilota_begin_ptr = __protocol.buf().chunk().as_ptr();` expected', ls[1])
        ptr = True
        ls = ls[2:]
    if not (ls and ls[0][0] == 'let' and ls[0][1] == 'field_ident' and proto_call(ls[0][2]) == ('read_field_begin', [])):
        fail(ctx, '`let field_ident = __protocol.read_field_begin()?;` expected', ls[:1])
    ife = ls[1][1] if ls[1][0] == 'expr' else None
    stop_cond = ('bin', '==', ('field', ('path', 'field_ident'), 'field_type'), ('path', '::pilota::thrift::TType::Stop'))
    if ife is None or ife[0] != 'if' or ife[1] != stop_cond or ife[3] is None:
        fail(ctx, '`if field_ident.field_type == TType::Stop {..} else {..}` expected', ls[1])
    sb, eb2 = ife[2][1], ife[3][1]
    if not sb or sb[-1] != ('expr', ('break',)) or len(sb) > 2 or len(eb2) > 1:
        fail(ctx, 'stop branch / else branch not understood', ife)
    stop_len = len_form(sb[0], 'field_stop_len', ctx) if len(sb) == 2 else 'LNo'
    begin_len = 'LNo'
    if eb2:
        begin_len = len_form(eb2[0], 'field_begin_len', ctx)
        pc = proto_call(eb2[0][1] if eb2[0][0] == 'expr' else eb2[0][3])
        if pc[1] != [('field', ('path', 'field_ident'), 'field_type'), ('field', ('path', 'field_ident'), 'id')]:
            fail(ctx, 'field_begin_len(field_ident.field_type, field_ident.id) expected', eb2[0])
    if ls[2] != ('assign', '=', ('path', '__pilota_decoding_field_id'), ('field', ('path', 'field_ident'), 'id')):
        fail(ctx, '`__pilota_decoding_field_id = field_ident.id;` expected', ls[2])
    me = ls[3][1] if ls[3][0] == 'expr' else None
    if me is None or me[0] != 'match' or me[1] != ('field', ('path', 'field_ident'), 'id'):
        fail(ctx, '`match field_ident.id` expected', ls[3])
    arms, skip, push = [], None, False
    for pat, body in me[2]:
        if pat == '_':
            bs = bstmts(body)
            if bs is None or not (1 <= len(bs) <= 2):
                fail(ctx, 'default arm not understood', body)
            sk = bs[0]
            skc = sk[1] if sk[0] == 'expr' else (sk[3] if sk[0] == 'assign' and sk[1] == '+=' and sk[2] == ('path', '__pilota_offset') else None)
            if skc is None or proto_call(skc) != ('skip', [('field', ('path', 'field_ident'), 'field_type')]) or skc[0] not in ('try',):
                fail(ctx, 'skip(field_ident.field_type)? expected in the default arm', sk)
            skip = 'LCall' if sk[0] == 'expr' else 'LAdd'
            if len(bs) == 2:
                want = ('expr', ('mcall', ('path', '_unknown_fields'), 'push_back',
                                 [('try', ('mcall', PROTO, 'get_bytes', [('call', 'Some', [('path', '__pilota_begin_ptr')]), ('path', '__pilota_offset')]))]))
                if bs[1] != want:
                    fail(ctx, 'retention statement of the default arm is not the template\'s', bs[1])
                push = True
            continue
        if skip is not None:
            fail(ctx, 'an arm after the default arm')
        m = re.match(r'^Some \( (- )?(\d+) \) if field_ident \. field_type == :: pilota::thrift::TType::(\w+)$', pat)
        if not m or m.group(3) not in TTYPES:
            fail(ctx, 'arm pattern not understood: %s' % pat)
        fid = int(m.group(2)) * (-1 if m.group(1) else 1)
        bs = bstmts(body)
        if bs is None or not (1 <= len(bs) <= 2):
            fail(ctx, 'arm body not understood', body)
        a = bs[0]
        if not (a[0] == 'assign' and a[1] == '=' and a[2][0] == 'path' and a[2][1] in var_index):
            fail(ctx, 'arm: `var = ..;` expected', a)
        var = a[2][1]
        rhs = a[3]
        some = rhs[0] == 'call' and rhs[1] == 'Some' and len(rhs[2]) == 1
        if some:
            rhs = rhs[2][0]
        cnt = False
        if len(bs) == 2:
            if bs[1] != ('assign', '-=', ('path', '__pilota_fields_num'), ('num', 1)):
                fail(ctx, 'arm: second statement must be the countdown', bs[1])
            cnt = True
        arms.append([fid, 'T' + m.group(3), var, some, rhs, cnt])
    if skip is None:
        fail(ctx, 'no default arm')
    if (proto_call(ls[4][1]) if ls[4][0] == 'expr' else None) != ('read_field_end', []):
        fail(ctx, 'read_field_end expected after the match', ls[4])
    end_len = 'LNo'
    if len(ls) == 6:
        end_len = len_form(ls[5], 'field_end_len', ctx)
    elif len(ls) != 5:
        fail(ctx, 'statements after read_field_end', ls[5:])
    # after the loop
    if (proto_call(stmts[0][1]) if stmts[0][0] == 'expr' else None) != ('read_struct_end', []):
        fail(ctx, 'read_struct_end expected', stmts[0])
    stmts.pop(0)
    required, late = [], []
    while stmts and stmts[0][0] == 'letelse':
        st = stmts.pop(0)
        m = re.match(r'^Some \( (var_\w+) \)$', st[1])
        if not m or st[2] != ('path', m.group(1)) or m.group(1) not in var_index or late:
            fail(ctx, 'required check not understood', st)
        eb = st[3]
        if len(eb[1]) + (eb[2] is not None) != 1 or not is_invalid_data_return(eb[1][0] if eb[1] else eb[2]):
            fail(ctx, 'required check must return Err(InvalidData)', eb)
        required.append(var_index[m.group(1)])
    while stmts and not (stmts[0][0] == 'let' and stmts[0][1] == 'data'):
        st = stmts.pop(0)
        if st[0] == 'expr' and st[1][0] == 'if' and st[1][1][0] == 'mcall' and st[1][1][2] == 'is_none' and st[1][3] is None:
            v = st[1][1][1]
            bs = st[1][2][1]
            if not (v[0] == 'path' and v[1] in var_index and len(bs) == 1 and bs[0][0] == 'assign' and bs[0][1] == '=' and bs[0][2] == v
                    and bs[0][3][0] == 'call' and bs[0][3][1] == 'Some'):
                fail(ctx, 'late default (optional form) not understood', st)
            late.append((var_index[v[1]], True))
        elif st[0] == 'let' and st[1] in var_index and st[2][0] == 'mcall' and st[2][2] == 'unwrap_or_else' and st[2][1] == ('path', st[1]):
            late.append((var_index[st[1]], False))
        else:
            fail(ctx, 'statement after the loop not understood', st)
    if not stmts or stmts[0][2][0] != 'struct' or stmts[0][2][1] != 'Self':
        fail(ctx, '`let data = Self {..};` expected', stmts[:1])
    build, build_unk = [], False
    for fname, fe in stmts[0][2][2]:
        if fname == '_unknown_fields':
            if is_async:
                if fe != ('call', '::pilota::LinkedBytes::new', []):
                    fail(ctx, '_unknown_fields: LinkedBytes::new() expected in decode_async', fe)
            elif fe != ('path', '_unknown_fields'):
                fail(ctx, '_unknown_fields member must be the variable', fe)
            build_unk = True
            continue
        if fe[0] != 'path' or fe[1] not in var_index:
            fail(ctx, 'member %s is not built from a field variable' % fname, fe)
        build.append((fname, var_index[fe[1]]))
    if len(stmts) != 1 or not (tail and tail[0] == 'call' and tail[1].endswith('Result::Ok') and tail[2] == [('path', 'data')]):
        fail(ctx, 'Ok(data) expected')
    if build_unk != keep_member:
        fail(ctx, '_unknown_fields member declared but not built (or conversely)')
    # the reads, at the declared type of the member the variable goes to
    member_of = {i: n for n, i in build}
    out_arms = []
    for fid, tt, var, some, rhs, cnt in arms:
        i = var_index[var]
        if i not in member_of or member_of[i] not in rts:
            fail(ctx, 'variable %s is assigned but builds no member' % var)
        rt = rts[member_of[i]]
        if rt[0] == 'opt':
            rt = rt[1]
        out_arms.append((fid, tt, i, some, lw.rop(rhs, rt, ctx + ' arm %d' % fid, is_async), cnt))
    return ('mkDS', count, inits, unk, skip_all, ptr, stop_len, begin_len, end_len, out_arms, skip, push, required, late, build, build_unk)


def lower_union(lw, name, decl, fns, ctx0):
    short = name.split('::')[-1]
    variants = [(v, t) for v, t in decl[1]]
    rts = {v: parse_rtype(t) for v, t in variants if v != '_UnknownFields' and t is not None}
    keep_member = any(v == '_UnknownFields' for v, _ in variants)
    # ---- encode
    ctx = ctx0 + ' encode'
    b = parse_body(fns['encode'])
    stmts = list(b[1])
    pcs = lambda st: proto_call(st[1]) if st[0] == 'expr' else None
    if not is_ok_unit(b[2]) or len(stmts) != 4 or (pcs(stmts[0]) or ('',))[0] != 'write_struct_begin' or \
            [(pcs(s) or ('',))[0] for s in stmts[-2:]] != ['write_field_stop', 'write_struct_end']:
        fail(ctx, 'write_struct_begin; match self {..}; write_field_stop; write_struct_end; Ok(()) expected')
    me = stmts[1][1]
    if me[0] != 'match' or me[1] != ('path', 'self'):
        fail(ctx, '`match self` expected', me)
    enc, enc_unk = [], False
    for pat, body in me[2]:
        if pat == '_':
            if variants and [v for v, _ in variants] != []:
                fail(ctx, '`_` arm in a union with variants')
            continue
        m = re.match(r'^%s::(\w+) \( value \)$' % re.escape(short), pat)
        if not m:
            fail(ctx, 'arm pattern not understood: %s' % pat)
        v = m.group(1)
        bs = bstmts(body)
        if bs is None:
            fail(ctx, 'arm body not understood', body)
        if v == '_UnknownFields':
            ok = (len(bs) == 1 and bs[0][0] == 'expr' and bs[0][1][0] == 'for' and bs[0][1][1] == 'bytes'
                  and bs[0][1][2] == ('mcall', ('field', ('path', 'value'), 'list'), 'iter', [])
                  and len(bs[0][1][3][1]) == 1 and (proto_call(bs[0][1][3][1][0][1]) or ('',))[0] == 'write_bytes_without_len')
            if not ok:
                fail(ctx, 'retention arm not understood', body)
            enc_unk = True
            continue
        if v not in rts:
            fail(ctx, 'variant %s is not declared' % v)
        if not bs:
            if rts[v] != ('unit',):
                fail(ctx, 'empty arm at a non-void variant %s' % v)
            enc.append((v, 0, False, ('FNone',)))
            continue
        if len(bs) != 1:
            fail(ctx, 'one statement per arm expected', bs)
        fid, op = lw.wfield_stmt(bs[0], rts[v], ctx + ' variant ' + v)
        enc.append((v, fid, False, op))
    # ---- size
    ctx = ctx0 + ' size'
    b = parse_body(fns['size'])
    terms = flatten_plus(b[2]) if (not b[1] and b[2] is not None) else []
    names = [(proto_call(t) or ('',))[0] for t in terms]
    if len(terms) != 4 or names[0] != 'struct_begin_len' or names[-2:] != ['field_stop_len', 'struct_end_len'] or terms[1][0] != 'match' or terms[1][1] != ('path', 'self'):
        fail(ctx, 'struct_begin_len + match self {..} + field_stop_len + struct_end_len expected')
    size, size_unk = [], False
    for pat, body in terms[1][2]:
        if pat == '_':
            continue
        m = re.match(r'^%s::(\w+) \( value \)$' % re.escape(short), pat)
        if not m:
            fail(ctx, 'arm pattern not understood: %s' % pat)
        v = m.group(1)
        if body[0] == 'block' and not body[1] and body[2] is not None:
            body = body[2]
        if v == '_UnknownFields':
            if body != ('mcall', ('path', 'value'), 'size', []):
                fail(ctx, 'retention arm: value.size() expected', body)
            size_unk = True
            continue
        if v not in rts:
            fail(ctx, 'variant %s is not declared' % v)
        if body == ('num', 0):
            if rts[v] != ('unit',):
                fail(ctx, '0 at a non-void variant %s' % v)
            size.append((v, 0, False, ('FNone',)))
            continue
        fid, op = lw.sfield(body, rts[v], ctx + ' variant ' + v)
        size.append((v, fid, False, op))
    dec = lower_union_decode(lw, short, fns['decode'], rts, keep_member, ctx0 + ' decode', False)
    adec = lower_union_decode(lw, short, fns['decode_async'], rts, keep_member, ctx0 + ' decode_async', True)
    return ('EUnion', short, enc, enc_unk, size, size_unk, dec), ('AUnion', adec)


def unpin(b, ctx):
    """::std::boxed::Box::pin(async move { .. }) -> the inner block"""
    t = b[2]
    if b[1] or not (t and t[0] == 'call' and t[1] == '::std::boxed::Box::pin' and len(t[2]) == 1 and t[2][0][0] == 'async'):
        fail(ctx, 'Box::pin(async move {..}) expected')
    return t[2][0][1]


def lower_union_decode(lw, short, text, rts, keep_member, ctx, is_async):
    b = parse_body(text)
    if is_async:
        b = unpin(b, ctx)
    stmts, tail = list(b[1]), b[2]
    if not stmts or stmts[0] != ('let', 'mut ret', ('path', 'None')):
        fail(ctx, '`let mut ret = None;` expected')
    if (proto_call(stmts[1][1]) if stmts[1][0] == 'expr' else None) != ('read_struct_begin', []):
        fail(ctx, 'read_struct_begin expected')
    if stmts[2][0] != 'expr' or stmts[2][1][0] != 'loop':
        fail(ctx, 'loop expected', stmts[2])
    ls = list(stmts[2][1][1][1]) + ([('expr', stmts[2][1][1][2])] if stmts[2][1][1][2] is not None else [])
    ptr = False
    if ls and ls[0] == ('let', 'mut __pilota_offset', ('num', 0)):
        if not (ls[1][0] == 'let' and ls[1][1] == '__pilota_begin_ptr'
                and ls[1][2] == ('mcall', ('mcall', ('mcall', PROTO, 'buf', []), 'chunk', []), 'as_ptr', [])):
            fail(ctx, 'begin pointer statement expected', ls[1])
        ptr = True
        ls = ls[2:]
    if not (ls and ls[0][0] == 'let' and ls[0][1] == 'field_ident' and proto_call(ls[0][2]) == ('read_field_begin', [])):
        fail(ctx, 'read_field_begin expected', ls[:1])
    ife = ls[1][1] if ls[1][0] == 'expr' else None
    stop_cond = ('bin', '==', ('field', ('path', 'field_ident'), 'field_type'), ('path', '::pilota::thrift::TType::Stop'))
    if ife is None or ife[0] != 'if' or ife[1] != stop_cond or ife[3] is None:
        fail(ctx, 'stop test expected', ls[1])
    sb, eb2 = ife[2][1], ife[3][1]
    if not sb or sb[-1] != ('expr', ('break',)) or len(sb) > 2 or len(eb2) > 1:
        fail(ctx, 'stop branch / else branch not understood', ife)
    stop_len = len_form(sb[0], 'field_stop_len', ctx) if len(sb) == 2 else 'LNo'
    begin_len = len_form(eb2[0], 'field_begin_len', ctx) if eb2 else 'LNo'
    me = ls[2][1] if ls[2][0] == 'expr' else None
    if me is None or me[0] != 'match' or me[1] != ('field', ('path', 'field_ident'), 'id') or len(ls) != 3:
        fail(ctx, '`match field_ident.id` as the last statement of the loop expected', ls[2:])
    arms, skip, unknown = [], None, False
    multi = lambda blk: blk is not None and len(blk[1]) + (blk[2] is not None) == 1 and is_invalid_data_return(blk[1][0] if blk[1] else ('expr', blk[2]))
    for pat, body in me[2]:
        bs = bstmts(body)
        if pat == '_':
            if bs is None or not (1 <= len(bs) <= 2):
                fail(ctx, 'default arm not understood', body)
            sk = bs[0]
            skc = sk[1] if sk[0] == 'expr' else (sk[3] if sk[0] == 'assign' and sk[1] == '+=' and sk[2] == ('path', '__pilota_offset') else None)
            if skc is None or proto_call(skc) != ('skip', [('field', ('path', 'field_ident'), 'field_type')]):
                fail(ctx, 'skip expected in the default arm', sk)
            skip = 'LCall' if sk[0] == 'expr' else 'LAdd'
            if len(bs) == 2:
                ie = bs[1][1] if bs[1][0] == 'expr' else None
                if ie is None or ie[0] != 'if' or ie[1] != ('mcall', ('path', 'ret'), 'is_none', []) or not multi(ie[3]):
                    fail(ctx, 'retention of the default arm not understood', bs[1])
                ub = bstmts(ie[2])
                if not (ub is not None and len(ub) == 1 and ub[0][0] == 'expr' and ub[0][1][0] == 'unsafe'):
                    fail(ctx, 'retention block expected', ub)
                us = ub[0][1][1][1]
                want_push = ('expr', ('mcall', ('path', '__pilota_linked_bytes'), 'push_back',
                                      [('try', ('mcall', PROTO, 'get_bytes', [('call', 'Some', [('path', '__pilota_begin_ptr')]), ('path', '__pilota_offset')]))]))
                want_ret = ('assign', '=', ('path', 'ret'), ('call', 'Some', [('call', short + '::_UnknownFields', [('path', '__pilota_linked_bytes')])]))
                if not (len(us) == 3 and us[0][0] == 'let' and us[0][1] == 'mut __pilota_linked_bytes' and us[1] == want_push and us[2] == want_ret):
                    fail(ctx, 'retention block is not the template\'s', us)
                unknown = True
            continue
        m = re.match(r'^Some \( (- )?(\d+) \)$', pat)
        if not m or skip is not None:
            fail(ctx, 'arm pattern not understood: %s' % pat)
        fid = int(m.group(2)) * (-1 if m.group(1) else 1)
        ie = bs[0][1] if bs and len(bs) == 1 and bs[0][0] == 'expr' else None
        if ie is None or ie[0] != 'if' or ie[1] != ('mcall', ('path', 'ret'), 'is_none', []) or not multi(ie[3]):
            fail(ctx, 'arm: `if ret.is_none() {..} else { return Err(InvalidData) }` expected', body)
        ts = ie[2][1]
        if not (2 <= len(ts) <= 3 and ts[0][0] == 'let' and ts[0][1] == 'field_ident' and ts[-1][0] == 'assign' and ts[-1][2] == ('path', 'ret')):
            fail(ctx, 'arm: let field_ident = read; [len;] ret = Some(..) expected', ts)
        r = ts[-1][3]
        mm = re.match(r'^%s::(\w+)$' % re.escape(short), r[2][0][1]) if (r[0] == 'call' and r[1] == 'Some' and len(r[2]) == 1 and r[2][0][0] == 'call') else None
        if not mm or r[2][0][2] != [('path', 'field_ident')] or mm.group(1) not in rts:
            fail(ctx, 'arm: ret = Some(%s::<Variant>(field_ident)) expected' % short, r)
        v = mm.group(1)
        read = lw.rop(ts[0][2], rts[v], ctx + ' variant ' + v, is_async)
        lform, sz = 'LNo', None
        if len(ts) == 3:
            if ts[1][0] == 'expr':
                lform, se = 'LCall', ts[1][1]
            elif ts[1][0] == 'assign' and ts[1][1] == '+=' and ts[1][2] == ('path', '__pilota_offset'):
                lform, se = 'LAdd', ts[1][3]
            else:
                fail(ctx, 'arm: length statement not understood', ts[1])
            sz = lw.svop(se, rts[v], ctx + ' variant ' + v + ' length')
        arms.append((fid, v, read, lform, sz))
    if skip is None:
        fail(ctx, 'no default arm')
    rest = stmts[3:]
    if [(proto_call(s[1]) if s[0] == 'expr' else None) for s in rest] != [('read_field_end', []), ('read_struct_end', [])]:
        fail(ctx, 'read_field_end; read_struct_end expected after the loop', rest)
    if not (tail and tail[0] == 'iflet' and tail[1] == 'Some ( ret )' and tail[2] == ('path', 'ret') and tail[4] is not None):
        fail(ctx, '`if let Some(ret) = ret { Ok(ret) } else {..}` expected', tail)
    eb = tail[4]
    et = eb[2] if not eb[1] else None
    if et is None or et[0] != 'call':
        fail(ctx, 'empty-union branch not understood', eb)
    if et[1].endswith('Result::Ok') and et[2] == [('call', short + '::Ok', [('tuple', [])])]:
        void_ok = True
    elif et[1].endswith('Result::Err') and len(et[2]) == 1 and et[2][0][0] == 'call' and et[2][0][2][:1] == [('path', '::pilota::thrift::ProtocolExceptionKind::InvalidData')]:
        void_ok = False
    else:
        fail(ctx, 'empty-union branch not understood', et)
    if unknown and not keep_member:
        fail(ctx, 'retention without an _UnknownFields variant')
    return ('mkDU', ptr, stop_len, begin_len, arms, skip, unknown, void_ok)


def lower_tuple(lw, name, decl, fns, ctx0):
    short = name.split('::')[-1]
    enc = parse_body(fns['encode'])
    if not is_ok_unit(enc[2]):
        fail(ctx0 + ' encode', 'tail Ok(()) expected')
    inner = ('mcall', ('path', 'self'), 'inner', [])
    if len(enc[1]) == 1 and enc[1][0][0] == 'expr' and proto_call(enc[1][0][1]) == ('write_i32', [inner]):
        # i32 enum
        sz = parse_body(fns['size'])
        if sz[1] or proto_call(sz[2]) != ('i32_len', [inner]):
            fail(ctx0 + ' size', 'i32_len(self.inner()) expected')
        de = parse_body(fns['decode'])
        ok = (len(de[1]) == 1 and de[1][0][0] == 'let' and de[1][0][1] == 'value' and proto_call(de[1][0][2]) == ('read_i32', [])
              and de[2] and de[2][0] == 'call' and de[2][1].endswith('Result::Ok') and len(de[2][2]) == 1 and de[2][2][0][0] == 'try'
              and de[2][2][0][1][0] == 'mcall' and de[2][2][0][1][2] == 'map_err'
              and de[2][2][0][1][1] == ('call', '::std::convert::TryFrom::try_from', [('path', 'value')]))
        if not ok or decl[1] != ['i32']:
            fail(ctx0 + ' decode', 'let value = read_i32()?; Ok(TryFrom::try_from(value).map_err(..)?) expected')
        da = unpin(parse_body(fns['decode_async']), ctx0 + ' decode_async')
        ok = (len(da[1]) == 1 and da[1][0][0] == 'let' and da[1][0][1] == 'value' and proto_call(da[1][0][2]) == ('read_i32', [])
              and da[1][0][2][0] == 'try' and da[1][0][2][1][0] == 'await'
              and da[2] and da[2][0] == 'call' and da[2][1].endswith('Result::Ok') and len(da[2][2]) == 1 and da[2][2][0][0] == 'try'
              and da[2][2][0][1][0] == 'mcall' and da[2][2][0][1][2] == 'map_err'
              and da[2][2][0][1][1] == ('call', '::std::convert::TryFrom::try_from', [('path', 'value')]))
        if not ok:
            fail(ctx0 + ' decode_async', 'let value = read_i32().await?; Ok(TryFrom::try_from(value).map_err(..)?) expected')
        return ('EEnum', short), ('AEnum',)
    if len(decl[1]) != 1:
        fail(ctx0, 'newtype with %d members' % len(decl[1]))
    rt = parse_rtype(decl[1][0])
    e = lw.wvop_stmts(enc[1], rt, ctx0 + ' encode')
    sz = parse_body(fns['size'])
    if sz[1] or sz[2] is None:
        fail(ctx0 + ' size', 'one expression expected')
    s = lw.svop(sz[2], rt, ctx0 + ' size')
    de = parse_body(fns['decode'])
    t = de[2]
    if de[1] or not (t and t[0] == 'call' and t[1].endswith('Result::Ok') and len(t[2]) == 1 and t[2][0][0] == 'call' and t[2][0][1] == short and len(t[2][0][2]) == 1):
        fail(ctx0 + ' decode', 'Ok(%s(read)) expected' % short)
    r = lw.rop(t[2][0][2][0], rt, ctx0 + ' decode')
    da = unpin(parse_body(fns['decode_async']), ctx0 + ' decode_async')
    t = da[2]
    if da[1] or not (t and t[0] == 'call' and t[1].endswith('Result::Ok') and len(t[2]) == 1 and t[2][0][0] == 'call' and t[2][0][1] == short and len(t[2][0][2]) == 1):
        fail(ctx0 + ' decode_async', 'Ok(%s(read)) expected' % short)
    ra = lw.rop(t[2][0][2][0], rt, ctx0 + ' decode_async', True)
    return ('ENewtype', short, e, s, r), ('ANewtype', ra)


def lower_config(path, top, rust_of, order):
    """path: emitted file; top: its top module (= configuration name); rust_of: {schema name: rust path}; order: schema names in
    schema.txt order -> (names, rows, stats): names = the types of `order` this configuration emits, in that order (the
    configuration's schema is schema.txt restricted to them, indices renumbered); rows[i] is the row of names[i] (encode, size,
    decode), arows[i] its decode_async"""
    code = strip_text(open(path, encoding='utf-8').read())
    decls, impls = scan_items(code, top)
    names = [n for n in order if rust_of[n] in impls]
    index_of_path = {rust_of[n]: i for i, n in enumerate(names)}
    rows, arows, stats = [], [], dict(structs=0, unions=0, enums=0, newtypes=0, absent=len(order) - len(names), fields=0, arms=0)
    for n in names:
        rp = rust_of[n]
        if rp not in decls:
            raise LowerError('%s: Message impl without a declaration of %s' % (n, rp))
        d, fns = decls[rp], impls[rp]
        for f in ('encode', 'size', 'decode', 'decode_async'):
            if f not in fns:
                raise LowerError('%s: fn %s missing in the Message impl' % (n, f))
        lw = Lower(index_of_path, rp.split('::')[:-1])
        ctx = '%s (%s::%s)' % (n, top, rp)
        try:
            if d[0] == 'struct':
                r, ar = lower_struct(lw, rp, d, fns, ctx)
                stats['structs'] += 1
                stats['fields'] += len(r[2])
                stats['arms'] += len(r[6][9])
            elif d[0] == 'enum':
                r, ar = lower_union(lw, rp, d, fns, ctx)
                stats['unions'] += 1
                stats['arms'] += len(r[6][4])
            else:
                r, ar = lower_tuple(lw, rp, d, fns, ctx)
                stats['enums' if r[0] == 'EEnum' else 'newtypes'] += 1
        except ParseError as e:
            raise LowerError('%s: body not in the understood subset: %s' % (ctx, e))
        rows.append(r)
        arows.append(ar)
    extra = sorted(set(impls) - set(rust_of.values()))
    if extra:
        raise LowerError('Message impls of types that are not in the schema: %s' % ', '.join(extra[:5]))
    return names, rows, arows, stats


# ------------------------------------------------------------------ Coq text
def cz(n):
    return '(%d)' % n if n < 0 else str(n)


def cnat(n):
    return '%d%%nat' % n


def cbool(b):
    return 'true' if b else 'false'


def cstr(x):
    if '"' in x or not x.isascii():
        raise LowerError('name not printable as a Coq string: %r' % x)
    return '"%s"%%string' % x


def clist(xs):
    return '[' + '; '.join(xs) + ']'


def cbytes(b):
    return clist('x%02x' % c for c in b)


def coq_vop(e):
    k = e[0]
    if k == 'VK':
        return '(VK %s)' % e[1]
    if k == 'VVoid':
        return 'VVoid'
    if k == 'VList':
        return '(VList %s %s)' % (e[1], coq_vop(e[2]))
    if k == 'VSet':
        return '(VSet %s %s %s)' % (cbool(e[1]), e[2], coq_vop(e[3]))
    if k == 'VMap':
        return '(VMap %s %s %s %s %s)' % (cbool(e[1]), e[2], e[3], coq_vop(e[4]), coq_vop(e[5]))
    if k == 'VPath':
        return '(VPath %s)' % cnat(e[1])
    raise LowerError('vop %r' % (e,))


def coq_fop(e):
    k = e[0]
    if k == 'FK':
        return '(FK %s)' % e[1]
    if k == 'FEnum':
        return '(FEnum %s)' % cnat(e[1])
    if k == 'FList':
        return '(FList %s %s)' % (e[1], coq_vop(e[2]))
    if k == 'FSet':
        return '(FSet %s %s %s)' % (cbool(e[1]), e[2], coq_vop(e[3]))
    if k == 'FMap':
        return '(FMap %s %s %s %s %s)' % (cbool(e[1]), e[2], e[3], coq_vop(e[4]), coq_vop(e[5]))
    if k == 'FPath':
        return '(FPath %s %s)' % ('None' if e[1] is None else '(Some %s)' % e[1], cnat(e[2]))
    if k == 'FNone':
        return 'FNone'
    raise LowerError('fop %r' % (e,))


def coq_rop(e):
    k = e[0]
    if k == 'RK':
        return '(RK %s)' % e[1]
    if k == 'RVoid':
        return 'RVoid'
    if k == 'RList':
        return '(RList %s)' % coq_rop(e[1])
    if k == 'RSet':
        return '(RSet %s %s)' % (cbool(e[1]), coq_rop(e[2]))
    if k == 'RMap':
        return '(RMap %s %s %s)' % (cbool(e[1]), coq_rop(e[2]), coq_rop(e[3]))
    if k == 'RPath':
        return '(RPath %s)' % cnat(e[1])
    if k in ('RBox', 'RArc'):
        return '(%s %s)' % (k, coq_rop(e[1]))
    raise LowerError('rop %r' % (e,))


def coq_fields(fs):
    return clist('mkEF %s %s %s %s' % (cstr(n), cz(i), cbool(o), coq_fop(op)) for n, i, o, op in fs)


def coq_row(r):
    k = r[0]
    if k == 'ENone':
        return 'ENone'
    if k == 'EEnum':
        return 'EEnum %s' % cstr(r[1])
    if k == 'ENewtype':
        return 'ENewtype %s %s %s %s' % (cstr(r[1]), coq_vop(r[2]), coq_vop(r[3]), coq_rop(r[4]))
    if k == 'EStruct':
        d = r[6]
        arms = clist('mkArm %s %s %s %s %s %s' % (cz(a[0]), a[1], cnat(a[2]), cbool(a[3]), coq_rop(a[4]), cbool(a[5])) for a in d[9])
        ds = '(mkDS %s %s %s %s %s %s %s %s\n      %s\n      %s %s %s %s\n      %s %s)' % (
            cbool(d[1]), clist(d[2]), cbool(d[3]), cbool(d[4]), cbool(d[5]), d[6], d[7], d[8], arms, d[10], cbool(d[11]),
            clist(cnat(x) for x in d[12]), clist('(%s, %s)' % (cnat(v), cbool(o)) for v, o in d[13]),
            clist('(%s, %s)' % (cstr(n), cnat(v)) for n, v in d[14]), cbool(d[15]))
        return 'EStruct %s\n      %s %s\n      %s %s\n      %s' % (cstr(r[1]), coq_fields(r[2]), cbool(r[3]), coq_fields(r[4]), cbool(r[5]), ds)
    if k == 'EUnion':
        d = r[6]
        arms = clist('mkUArm %s %s %s %s %s' % (cz(a[0]), cstr(a[1]), coq_rop(a[2]), a[3], 'None' if a[4] is None else '(Some %s)' % coq_vop(a[4]))
                     for a in d[4])
        du = '(mkDU %s %s %s\n      %s\n      %s %s %s)' % (cbool(d[1]), d[2], d[3], arms, d[5], cbool(d[6]), cbool(d[7]))
        return 'EUnion %s\n      %s %s\n      %s %s\n      %s' % (cstr(r[1]), coq_fields(r[2]), cbool(r[3]), coq_fields(r[4]), cbool(r[5]), du)
    raise LowerError('row %r' % (r[:2],))


def coq_ds(d):
    arms = clist('mkArm %s %s %s %s %s %s' % (cz(a[0]), a[1], cnat(a[2]), cbool(a[3]), coq_rop(a[4]), cbool(a[5])) for a in d[9])
    return '(mkDS %s %s %s %s %s %s %s %s\n      %s\n      %s %s %s %s\n      %s %s)' % (
        cbool(d[1]), clist(d[2]), cbool(d[3]), cbool(d[4]), cbool(d[5]), d[6], d[7], d[8], arms, d[10], cbool(d[11]),
        clist(cnat(x) for x in d[12]), clist('(%s, %s)' % (cnat(v), cbool(o)) for v, o in d[13]),
        clist('(%s, %s)' % (cstr(n), cnat(v)) for n, v in d[14]), cbool(d[15]))


def coq_du(d):
    arms = clist('mkUArm %s %s %s %s %s' % (cz(a[0]), cstr(a[1]), coq_rop(a[2]), a[3], 'None' if a[4] is None else '(Some %s)' % coq_vop(a[4]))
                 for a in d[4])
    return '(mkDU %s %s %s\n      %s\n      %s %s %s)' % (cbool(d[1]), d[2], d[3], arms, d[5], cbool(d[6]), cbool(d[7]))


def coq_arow(r):
    k = r[0]
    if k == 'AEnum':
        return 'AEnum'
    if k == 'ANewtype':
        return 'ANewtype %s' % coq_rop(r[1])
    if k == 'AStruct':
        return 'AStruct\n      %s' % coq_ds(r[1])
    if k == 'AUnion':
        return 'AUnion\n      %s' % coq_du(r[1])
    raise LowerError('arow %r' % (r[:1],))


def coq_schema(schema_txt, only=None):
    """schema.txt -> (Coq declarations of a Gen.schema, names in order): the same reading as fam/gen/runner/main.ml load_schema;
    only: the lines of these names (a configuration's types; a reference out of the set is an error), indices renumbered"""
    lines = [l.strip() for l in schema_txt.split('\n') if l.strip()]
    if only is not None:
        keep = set(only)
        lines = [l for l in lines if l.split(' ')[1] in keep]
    names = {}
    for i, l in enumerate(lines):
        names[l.split(' ')[1]] = i

    class T:
        def __init__(self, toks):
            self.t = toks
        def next(self):
            return self.t.pop(0)

    def ty(t):
        k = t.next()
        prim = {'bool': 'TyBool', 'i8': 'TyI8', 'i16': 'TyI16', 'i32': 'TyI32', 'i64': 'TyI64', 'double': 'TyDouble', 'string': 'TyString',
                'binary': 'TyBinary', 'uuid': 'TyUuid', 'void': 'TyVoid'}
        if k in prim:
            return prim[k]
        if k in ('list', 'set'):
            return '(%s %s)' % ('TyList' if k == 'list' else 'TySet', ty(t))
        if k == 'map':
            a = ty(t)
            return '(TyMap %s %s)' % (a, ty(t))
        if k == 'ref':
            nm = t.next()
            if nm not in names:
                raise LowerError('schema.txt: %s refers to a type the configuration does not emit' % nm)
            return '(TyRef %s)' % cnat(names[nm])
        raise LowerError('schema.txt: bad type %s' % k)

    def hexb(a):
        return b'' if a in ('', '-') else bytes.fromhex(a)

    def val(t):
        tok = t.next()
        c, arg = tok[0], tok[1:]
        if c == 'b':
            return '(GBool %s)' % cbool(arg == '1')
        if c in 'yhild':
            return '(%s %s)' % ({'y': 'GI8', 'h': 'GI16', 'i': 'GI32', 'l': 'GI64', 'd': 'GDouble'}[c], cz(int(arg)))
        if c == 's':
            return '(GBytes %s)' % cbytes(hexb(arg))
        if c == 'u':
            return '(GUuid %s)' % cbytes(hexb(arg))
        if c == 'e':
            return '(GEnum %s)' % cz(int(arg))
        if c == 'V':
            return 'GVoid'
        if c in 'LT':
            return '(%s %s)' % ('GList' if c == 'L' else 'GSet', clist(val(t) for _ in range(int(arg))))
        if c == 'M':
            out = []
            for _ in range(int(arg)):
                a = val(t)
                out.append('(%s, %s)' % (a, val(t)))
            return '(GMap %s)' % clist(out)
        if c == 'S':
            fs = []
            for _ in range(int(arg)):
                f = t.next()
                if f[0] != 'f':
                    raise LowerError('schema.txt: field expected in a struct value')
                fs.append('(%s, %s)' % (cz(int(f[1:])), val(t)))
            unk = []
            if t.t and t.t[0][:1] == 'X':
                unk = [cbytes(hexb(t.next()[1:]))]
            return '(GStruct %s %s)' % (clist(fs), clist(unk))
        if c == 'U':
            if arg == '?':
                if t.t and t.t[0][:1] == 'X':
                    return '(GUnionUnknown %s)' % cbytes(hexb(t.next()[1:]))
                return '(GUnionUnknown [])'
            return '(GUnion %s %s)' % (cz(int(arg)), val(t))
        raise LowerError('schema.txt: bad value token %s' % tok)
    decls = []
    for l in lines:
        t = T(l.split(' '))
        kind = t.next()
        t.next()
        if kind == 'struct':
            fl, n = t.next(), int(t.next())
            fs = []
            for _ in range(n):
                fid = int(t.next())
                rq = {'req': 'Required', 'opt': 'Optional'}[t.next()]
                fty = ty(t)
                d = t.next()
                if d == '-':
                    df = 'None'
                else:
                    df = '(Some (%s, %s))' % (cbool(d[0] == 'C'), val(T(d[2:].split(','))))
                fs.append('mkField %s %s %s %s' % (cz(fid), rq, fty, df))
            decls.append('DStruct %s %s %s' % (clist(fs), cbool('k' not in fl), cbool('a' in fl)))
        elif kind == 'union':
            fl, n = t.next(), int(t.next())
            vs = []
            for _ in range(n):
                vid = int(t.next())
                vs.append('(%s, %s)' % (cz(vid), ty(t)))
            decls.append('DUnion %s %s %s' % (clist(vs), cbool('v' in fl), cbool('k' not in fl)))
        elif kind == 'enum':
            n = int(t.next())
            decls.append('DEnum %s' % clist(cz(int(t.next())) for _ in range(n)))
        elif kind == 'typedef':
            decls.append('DTypedef %s' % ty(t))
        else:
            raise LowerError('schema.txt: bad line kind %s' % kind)
    return decls, [l.split(' ')[1] for l in lines]


def coq_file(schema_txt, tables, digest):
    """tables: {cfg: (names, rows, arows)}"""
    out = ['(* GENERATED at check time by tools/emitted_ops.py from the code the real pilota-build emitted for the corpus',
           '   (.cache/gen_out*/<cfg>.rs) and from its lowered schema (schema.txt) -- do not edit.  digest: %s *)' % digest,
           'From Coq Require Import String.', 'From PVGen Require Import EmitOps.', 'Open Scope Z_scope.', '']
    for cfg in sorted(tables):
        names, rows, arows = tables[cfg]
        decls, names2 = coq_schema(schema_txt, only=names)
        if names2 != list(names):
            raise LowerError('schema.txt order and table order differ')
        out.append('(* schema.txt restricted to the types the configuration `%s` emits, read as fam/gen/runner/main.ml reads it *)' % cfg)
        out.append('Definition schema_%s : schema :=' % cfg)
        out.append('  [ ' + ';\n    '.join('(* %d %s *) %s' % (i, names[i], d) for i, d in enumerate(decls)) + ' ].')
        out.append('')
        out.append('Definition emitted_%s : list erow :=' % cfg)
        out.append('  [ ' + ';\n    '.join('(* %d %s *) %s' % (i, names[i], coq_row(r)) for i, r in enumerate(rows)) + ' ].')
        out.append('')
        out.append('(* decode_async of the same types *)')
        out.append('Definition emitted_%s_async : list arow :=' % cfg)
        out.append('  [ ' + ';\n    '.join('(* %d %s *) %s' % (i, names[i], coq_arow(r)) for i, r in enumerate(arows)) + ' ].')
        out.append('')
    return '\n'.join(out)


# ------------------------------------------------------------------ the Ext helpers of the runtime (pilota/src/thrift/mod.rs)
EXT_NAME_KIND = {'bool': 'KBool', 'i8': 'KI8', 'i16': 'KI16', 'i32': 'KI32', 'i64': 'KI64', 'double': 'KF64', 'bytes': 'KBytes',
                 'bytes_vec': 'KBytesVec', 'uuid': 'KUuid', 'string': 'KString', 'faststr': 'KFastStr', 'void': 'KVoid', 'byte': 'KU8'}


def ext_table(repo):
    """TOutputProtocolExt / TLengthProtocolExt: which TType each `write_<k>_field` / `<k>_field_len` helper announces, read from
    the macro invocation lists; the macro bodies are checked to be `field_begin(ttype, id); value; field_end`"""
    src = strip_text(open(os.path.join(repo, 'pilota', 'src', 'thrift', 'mod.rs'), encoding='utf-8').read())
    squeeze = lambda t: re.sub(r'\s+', '', t)

    def trait_body(name):
        m = re.search(r'pub trait %s\b[^{]*\{' % name, src)
        if not m:
            raise LowerError('runtime: trait %s not found' % name)
        return src[m.end():match_brace(src, m.end() - 1)]

    def macro_body(name):
        m = re.search(r'macro_rules!\s*%s\s*\{' % name, src)
        if not m:
            raise LowerError('runtime: macro %s not found' % name)
        return squeeze(src[m.end():match_brace(src, m.end() - 1)])

    def fn_body(trait, name):
        m = re.search(r'\bfn %s\b' % name, trait)
        if not m:
            raise LowerError('runtime: fn %s not found' % name)
        i = trait.index('{', trait.index(')', m.end()))
        # skip a where clause: the body is the first `{` after the signature whose matching `}` closes a block of statements
        return squeeze(trait[i + 1:match_brace(trait, i)])
    out_t, len_t = trait_body('TOutputProtocolExt'), trait_body('TLengthProtocolExt')
    need = {
        'write_field': 'self.write_field_begin($ttype,id)?;self.[<write_$name>]($($k),*)?;self.write_field_end()?;Ok(())',
        'field_len': 'self.field_begin_len($ttype,id)+self.[<$name_len>]($($k),*)+self.field_end_len()',
        'write_set_field': 'self.write_field_begin(TType::Set,id)?;self.[<write_$name>](el_ttype,els,encode)?;self.write_field_end()',
        'write_map_field': 'self.write_field_begin(TType::Map,id)?;self.[<write_$name>](key_ttype,val_ttype,els,key_encode,val_encode)?;self.write_field_end()',
        'set_field_len': 'self.field_begin_len(TType::Set,id)+self.[<$name_len>](el_ttype,els,el_len)+self.field_end_len()',
        'map_field_len': 'self.field_begin_len(TType::Map,id)+self.[<$name_len>](key_ttype,val_ttype,els,key_len,val_len)+self.field_end_len()',
    }
    for mname, frag in need.items():
        if frag not in macro_body(mname):
            raise LowerError('runtime: macro %s no longer has the shape field_begin; value; field_end' % mname)
    fns = {
        ('out', 'write_list_field'): 'self.write_field_begin(TType::List,id)?;self.write_list(el_ttype,els,encode)?;self.write_field_end()',
        ('out', 'write_struct_field'): 'self.write_field_begin(ty,id)?;self.write_struct(m)?;self.write_field_end()',
        ('out', 'write_struct'): 'm.encode(self)',
        ('len', 'list_field_len'): 'self.field_begin_len(TType::List,id)+self.list_len(el_ttype,els,el_len)+self.field_end_len()',
        ('len', 'struct_field_len'): 'self.field_begin_len(TType::Struct,id)+self.struct_len(m)+self.field_end_len()',
        ('len', 'struct_len'): 'm.size(self)',
    }
    for (tr, fname), frag in fns.items():
        if frag not in squeeze(out_t if tr == 'out' else len_t):
            raise LowerError('runtime: fn %s no longer has the expected body' % fname)
    rows = {}
    for what, body, macro in (('write', out_t, 'write_field'), ('len', len_t, 'field_len')):
        tab = {}
        for m in re.finditer(r'\b%s!\(\s*TType::(\w+)\s*,\s*(\w+)\s*\(' % macro, body):
            if m.group(2) not in EXT_NAME_KIND or m.group(1) not in TTYPES:
                raise LowerError('runtime: %s!(TType::%s, %s(..)) not understood' % (macro, m.group(1), m.group(2)))
            tab[EXT_NAME_KIND[m.group(2)]] = 'T' + m.group(1)
        if len(tab) < 12:
            raise LowerError('runtime: fewer %s! lines than expected' % macro)
        rows[what] = tab
    out = ['(* GENERATED by tools/emitted_ops.py from pilota/src/thrift/mod.rs (TOutputProtocolExt, TLengthProtocolExt: the',
           '   write_field! / field_len! lists; the bodies of the macros and of write_list_field / write_struct_field /',
           '   list_field_len / struct_field_len are checked to be  field_begin(ttype, id); value; field_end) -- do not edit *)',
           'From PVGen Require Import Kinds.', '']
    for what, nm in (('write', 'ext_write_field_ttype'), ('len', 'ext_field_len_ttype')):
        out.append('Definition %s (k : kind) : option ttype :=\n  match k with' % nm)
        for k in sorted(rows[what]):
            out.append('  | %s => Some %s' % (k, rows[what][k]))
        out.append('  | _ => None\n  end.\n')
    out += ['Definition ext_list_field_ttype : ttype := TList.', 'Definition ext_set_field_ttype : ttype := TSet.',
            'Definition ext_map_field_ttype : ttype := TMap.', 'Definition ext_struct_field_len_ttype : ttype := TStruct.', '']
    return '\n'.join(out)



if __name__ == '__main__':
    src = open(sys.argv[1], encoding='utf-8').read()
    code = strip_text(src)
    decls, impls = scan_items(code, sys.argv[2])
    print(len(decls), 'declarations', len(impls), 'Message impls')
    bad = 0
    for name, fns in impls.items():
        for fn, body in fns.items():
            try:
                parse_body(body)
            except (ParseError, LowerError) as e:
                bad += 1
                if bad < 8:
                    print('PARSE', name, fn, e)
    print('unparsed bodies:', bad)
