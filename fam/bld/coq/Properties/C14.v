(* C14 -- Every IDL in the supported grammar generates Rust that compiles.
   Only statements, each closed by [exact] of a lemma proved in Proofs/, with Print Assumptions beneath.

   PARTIAL BY NATURE: "the emitted text type-checks" is a statement about rustc, of which no formal model is
   available.  What is proved here are the decision procedures inside pilota-build on which compilability hinges
   (necessary conditions); the property itself is validated by compiling generated documents
   (pv/props/c14.py: real pilota-build in a child process, then `cargo check` of the emitted code).
   Where the faithful model violates a condition, the violation is stated as a [..._refuted] theorem with a
   witness that is replayed against the implementation (findings F-14b, F-14c, F-14e, F-14r); the witnesses of repaired
   findings (F-14d, F-14k, F-14n, F-14s) stay as regression statements. *)
From Coq Require Import String List Bool.
From PVBld Require Import Generated.Keywords Generated.DeriveTables Generated.NameSites Names Paths BoxCycle Derive Effective Pipeline
                          Proofs.NamesP Proofs.PathsP Proofs.BoxCycleP Proofs.DeriveP Proofs.EffectiveP Proofs.SplitNamesP.
Import ListNotations.
Open Scope string_scope.

(* ---- keyword escaping: Symbol's Display, over the REGENERATED KEYWORDS_SET ------------------------------ *)
(* for every name of the shape of a Rust identifier -- [A-Za-z_][A-Za-z0-9_]*, not the lone underscore -- what Display prints is lexically
   a legal Rust 2024 identifier token: never a strict or reserved keyword, never r# applied to crate/self/super/Self.
   [plain_ident] is the SPECIFICATION of "identifier" (it has a first-character test; the audit of 2026-10-02 found it missing).  The two
   decidable classes it excludes are exactly two open findings: the lone `_` (a Thrift identifier: F-14e, C14_underscore_refuted) and a
   digit head (never a Thrift identifier, but heck's conversion of service `_1` produces one: F-14p, C14_digit_head_refuted). *)
Theorem C14_no_keyword :
  forall s, plain_ident s = true ->
    ident_token_ok (display s) = true /\ ~ In (display s) rust_keywords.
Proof. exact (fun s P => conj (display_token_ok s P) (display_not_keyword s P)). Qed.
Print Assumptions C14_no_keyword.

(* the lone underscore is a Thrift identifier, is printed verbatim and is not a Rust identifier (finding F-14e) *)
Theorem C14_underscore_refuted : display "_" = "_" /\ ident_token_ok (display "_") = false.
Proof. exact underscore_refuted. Qed.
Print Assumptions C14_underscore_refuted.

(* finding F-14p against the strengthened specification: the helper items of service `_1` are named from "1" *)
Theorem C14_digit_head_refuted :
  let camel := fun s => if String.eqb s "_1" then "1" else s in
  let names := helper_items camel (camel "_1") [] (mkFunc "K" None false) in
  names = ["1KResultRecv"; "1KResultSend"; "1KArgsSend"; "1KArgsRecv"] /\
  forallb (fun n => negb (plain_ident n) && negb (ident_token_ok (display n))) names = true.
Proof. exact digit_head_refuted. Qed.
Print Assumptions C14_digit_head_refuted.

(* constants go through Display as well (fix F-14n): a const called like a keyword is escaped *)
Theorem C14_const_keyword_escaped :
  forall (conv : kind -> string -> string),
    let scope := [mkSib KConst "in" None] in
    emitted conv false scope (mkSib KConst "in" None) = "r#in" /\
    ident_token_ok (emitted conv false scope (mkSib KConst "in" None)) = true.
Proof. exact const_keyword_escaped. Qed.
Print Assumptions C14_const_keyword_escaped.

(* ---- collision rule: siblings whose converted names coincide keep their original spelling ---------------- *)
(* SCOPE (audit of 2026-10-02): this theorem covers a scope whose siblings are all of ONE kind and carry NO pilota.name annotation, and
   [conv] is an arbitrary function (never tied to heck; its only hypothesis is idempotence on the scope).  Real module scopes mix
   kinds (struct / enum / service / typedef / const live in one Rust module, in two namespaces: types and values) and tagged siblings; for
   those nothing is proved.  What covers them is the SAMPLED comparison of pv/props/c14.py: for every naming scope of every generated
   and directed document (module scopes with all kinds and tags, fields, variants, methods, arguments) the model `Names.emitted`, fed
   with heck's actual conversions obtained from the harness (`conv` lines), is compared with the identifiers of the emitted structs,
   a predicted duplicate is attributed to F-14c / F-14r, and rustc (E0428 / E0124) is the oracle for everything else.
   For ANY case conversion that is idempotent on the names of the scope, siblings of one kind with pairwise
   distinct original names get pairwise distinct emitted names -- provided the escape stage is injective on the
   names it is given ([escape_ok]: no k / k_ pair for a path-segment keyword k, no '#').  Both side conditions are
   decidable and are evaluated by the check on every naming scope of every generated document. *)
Theorem C14_names_injective :
  forall (conv : kind -> string -> string) cc k scope,
    (forall x, In x scope -> s_kind x = k /\ s_tag x = None) ->
    (forall x, In x scope -> conv (s_kind x) (conv (s_kind x) (s_orig x)) = conv (s_kind x) (s_orig x)) ->
    NoDup (map s_orig scope) ->
    escape_ok (map (rust_name conv cc scope) scope) = true ->
    NoDup (map (emitted conv cc scope) scope).
Proof. exact names_injective. Qed.
Print Assumptions C14_names_injective.

(* idempotence is necessary, and heck's conversion is not idempotent: aB -> AB -> Ab (finding F-14r) *)
Theorem C14_names_not_idempotent_refuted :
  NoDup (map s_orig ab_scope) /\
  (forall x, In x ab_scope -> s_kind x = KStruct /\ s_tag x = None) /\
  escape_ok (map (rust_name conv_heck_ab true ab_scope) ab_scope) = true /\
  map (emitted conv_heck_ab true ab_scope) ab_scope = ["AB"; "Ab"; "AB"].
Proof. exact names_not_idempotent_refuted. Qed.
Print Assumptions C14_names_not_idempotent_refuted.

(* the side condition is necessary: `self` beside `self_` (finding F-14c) *)
Theorem C14_names_escape_refuted :
  forall (conv : kind -> string -> string) cc,
    conv KField "self" = "self" ->
    (conv KField "self_" = "self" \/ conv KField "self_" = "self_") ->
    NoDup (map s_orig self_scope) /\
    (forall x, In x self_scope -> s_kind x = KField /\ s_tag x = None) /\
    ~ NoDup (map (emitted conv cc self_scope) self_scope).
Proof. exact names_escape_refuted. Qed.
Print Assumptions C14_names_escape_refuted.

(* ---- relative paths between modules -------------------------------------------------------------------------- *)
(* NOTE (audit): `exists r, related_path p1 p2 = Some r` is trivial -- the repaired DefaultPathResolver::related_path has no unwrap / index left
   (the `p2.last().unwrap()` branch went with F-14d; `i -= 1` is guarded by `i > 0`), so the model is total like the code; the content of the
   theorem is the second conjunct.  The panics of WorkspacePathResolver (`p1[0]`, `p2[0]` on empty paths) are the None of [wrelated_path].
   The text emitted for a reference from module p1 to the item with path p2, read by rustc inside module p1
   (emitted names), names exactly that item -- for EVERY pair of paths since the repair of finding F-14d (before it: only
   when p2 was not a prefix of p1; otherwise the text was a run of `super`s, or the raw last segment when p1 = p2) *)
Theorem C14_related_path :
  forall p1 p2, p2 <> [] ->
    exists r, related_path p1 p2 = Some r /\
              resolve_item (map display p1) r =
                option_map (fun it => (map display (removelast p2), display it)) (last_opt p2).
Proof. exact related_path_resolves. Qed.
Print Assumptions C14_related_path.

(* the witnesses of F-14d as regression cases: target path = current module path; target path a proper prefix of it *)
Theorem C14_related_path_prefix_fixed :
  related_path ["a"; "b"] ["a"; "b"] = Some ["super"; "b"] /\
  resolve_item (map display ["a"; "b"]) ["super"; "b"] = Some (["a"], "b") /\
  related_path ["a"; "b"; "c"] ["a"; "b"] = Some ["super"; "super"; "b"] /\
  resolve_item (map display ["a"; "b"; "c"]) ["super"; "super"; "b"] = Some (["a"], "b").
Proof. exact related_path_prefix_fixed. Qed.
Print Assumptions C14_related_path_prefix_fixed.

(* ---- Box insertion ----------------------------------------------------------------------------------------------- *)
(* no by-value cycle passes through a message: every struct field whose target reaches the struct is boxed *)
Theorem C14_box_breaks_cycles :
  forall g d fs, NoDup (map fst g) -> In (d, IMsg fs) g -> ~ on_cycle (residual_edges g) d.
Proof. exact box_breaks_cycles. Qed.
Print Assumptions C14_box_breaks_cycles.

(* hence every type has finite size unless there is a cycle made of union variants / typedefs only -- a
   decidable condition, evaluated by the check on every generated document *)
Theorem C14_box_finite :
  forall g, NoDup (map fst g) -> union_cycle_b g = false -> finite_size g.
Proof. exact box_finite_decided. Qed.
Print Assumptions C14_box_finite.

(* the complementary case is NOT broken (finding F-14b): two unions referring to each other by value *)
Theorem C14_box_union_cycle_refuted :
  NoDup (map fst union_cycle) /\ on_cycle (residual_edges union_cycle) 0 /\ ~ finite_size union_cycle.
Proof. exact box_union_cycle_refuted. Qed.
Print Assumptions C14_box_union_cycle_refuted.

(* ---- AutoDerivePlugin: who gets #[derive(PartialOrd)] / #[derive(Hash, Eq, Ord)] ------------------------------------------------- *)
(* forall graph order item, derives item -> supports graph item: for EVERY item graph (cycles included), every order of the
   codegen items and both trait bundles, every derived impl type-checks (each field / payload / target type implements the
   traits, given the set of items that carry the derive), and an item that carries the derive contains, transitively through
   fields, containers and typedefs, only items made of kinds that support the traits.
     closed_b     every path names a Message / Enum / NewType of the graph (holds for every resolved document)
   Two further side conditions were needed before the repairs of findings F-14s (every path PathCollector finds had to be an
   edge of the workspace graph, which the downgrade of delayed items consults: false below Arc / BTreeSet / BTreeMap) and
   F-14k (no btree container hiding an unsupported kind from the predicate closures); both hold of every graph now
   (DeriveP.ws_complete_all, DeriveP.pred_adequate).  The kinds the predicate closures reject, the containers they look
   through and the graph accessor of the downgrade are REGENERATED. *)
Theorem C14_derive_sound :
  forall tr g order m,
    run tr g order = Done m ->
    closed_b g = true ->
    consistent tr g (derives m) /\ forall d, derives m d = true -> supports tr g d.
Proof. exact derive_sound. Qed.
Print Assumptions C14_derive_sound.

(* the walk always ends normally (no panic, fuel = number of items + 1 is never exhausted) *)
Theorem C14_derive_terminates :
  forall tr g order,
    closed_b g = true -> (forall d, In d order -> In d (map fst g)) -> exists m, run tr g order = Done m.
Proof. exact derive_terminates. Qed.
Print Assumptions C14_derive_terminates.

(* #[derive(Ord)] needs a PartialOrd impl on the same item (rustc E0277 otherwise): whoever gets Hash/Eq/Ord from the second
   plugin instance got PartialOrd from the first -- every kind the PartialOrd predicate rejects the Hash/Eq/Ord predicate rejects too
   (REGENERATED tables), and an item is refused only if it contains a rejected kind *)
Theorem C14_derive_ord_implies_partialord :
  forall g order mp mh,
    NoDup (map fst g) -> closed_b g = true ->
    run PO g order = Done mp -> run HEO g order = Done mh ->
    forall d, In d order -> derives mh d = true -> derives mp d = true.
Proof. exact derive_ord_implies_partialord. Qed.
Print Assumptions C14_derive_ord_implies_partialord.

(* the witness of F-14k as a regression case: map<i32, double> with pilota.rust_type = "btree" no longer gets Hash/Eq/Ord *)
Theorem C14_derive_btree_fixed :
  decisions HEO btree_double [0] = Done [(0, No)] /\ decisions PO btree_double [0] = Done [(0, Yes)] /\
  verdict HEO btree_double [0] = Done true.
Proof. exact derive_btree_fixed. Qed.
Print Assumptions C14_derive_btree_fixed.

(* the witnesses of F-14s as regression cases: a cycle closed through Arc (or a btree container) whose other member loses the
   derive later -- both members lose it *)
Theorem C14_derive_cycle_edge_fixed :
  forall g, g = arc_cycle \/ g = btree_cycle ->
    decisions HEO g [0; 1; 2] = Done [(0, No); (1, No); (2, No)] /\
    decisions PO g [0; 1; 2] = Done [(0, Delay); (1, Delay); (2, Yes)] /\
    verdict HEO g [0; 1; 2] = Done true.
Proof. exact derive_cycle_edge_fixed. Qed.
Print Assumptions C14_derive_cycle_edge_fixed.

(* the tables the model reads are the ones it was written against: TyKind members, the shape of holds_kind, the workspace graph
   in the downgrade, and the text of holds_kind / can_derive / on_item / on_emit / PathCollector / walk_ty / the two graphs (by digest) *)
Theorem C14_derive_tables :
  ty_kind_names = (map base_name all_base ++ container_names)%list /\
  (pred_through1 = ["Vec"; "BTreeSet"; "Arc"] /\ pred_through2 = ["BTreeMap"] /\
   derive_instances = ["#[derive(PartialOrd)]"; "#[derive(Hash, Eq, Ord)]"]) /\
  downgrade_graph = "workspace_graph" /\
  map fst derive_source_digests =
    ["holds_kind"; "can_derive"; "on_item"; "on_emit"; "PathCollector"; "Visitor"; "walk_ty"; "WorkspaceGraph::from_items";
     "WorkspaceGraph::is_nested"; "TypeGraph::from_items"; "TypeGraph::is_nested"].
Proof.
  exact (conj ty_kinds_as_modelled (conj pred_shape_as_modelled (conj downgrade_uses_workspace_graph
         (f_equal (map fst) derive_sources_pinned)))).
Qed.
Print Assumptions C14_derive_tables.

(* ---- pilota.name: the site that defines an item and the sites that refer to it compute the same name -------------------------------
   NOTE (audit): once the regenerated read counts say that both sites start from the effective name, the statement below is an identity BY
   CONSTRUCTION of the model (both sides unfold to the same term); its content is the tie -- the counts are regenerated, and a site that
   reads the raw name makes [consumer_uses_tag] false and the proof fail.  It is not listed as proved content in the manifest.
   The helper items of a Thrift function ({Service}{Function}ResultRecv / ResultSend / Exception / ArgsSend / ArgsRecv) are created by
   lower_service and one of them, ...Exception, is looked up by the path lower_method builds; {Function} starts from the function's
   EFFECTIVE name (the pilota.name annotation if present).  For every case conversion, service, list of sibling functions and
   function: with a `throws` clause the path names one of the items created, without one there is no path.  Which site reads the
   annotation is REGENERATED (helper_name_sites: reads of the PilotaName tag per function); the model reads that table, so a site that
   starts from the raw IDL name (seeded change C14d) makes this statement false -- and its proof fail. *)
Theorem C14_effective_name_consistent :
  forall (camel : string -> string) service fs f,
    (f_throws f = true ->
       exists p, exception_path camel service (duplicates camel fs) f = Some p /\
                 In p (helper_items camel service (duplicates camel fs) f)) /\
    (f_throws f = false -> exception_path camel service (duplicates camel fs) f = None).
Proof. exact effective_name_consistent. Qed.
Print Assumptions C14_effective_name_consistent.

(* the consumer starting from the raw IDL name: `put (pilota.name = "upsert") throws ...` is created as StoreupsertException and looked
   up as StoreputException *)
Theorem C14_effective_name_raw_refuted :
  exists (camel : string -> string) service fs f p,
    In f fs /\ f_throws f = true /\ exception_path_raw camel service (duplicates camel fs) f = Some p /\
    ~ In p (helper_items camel service (duplicates camel fs) f).
Proof. exact effective_name_raw_refuted. Qed.
Print Assumptions C14_effective_name_raw_refuted.

(* every other reference to an item's Rust name goes through Context::rust_name -- the one remaining site that reads the annotation
   (regenerated list of read sites) -- whose answer for an annotated node is the annotation, in every scope and configuration *)
Theorem C14_effective_name_sites :
  (filter (fun s => String.eqb (snd s) "read") pilota_name_sites =
     [("middle/context.rs", "rust_name", "read"); ("parser/thrift/mod.rs", "lower_service", "read");
      ("parser/thrift/mod.rs", "lower_service", "read"); ("parser/thrift/mod.rs", "lower_method", "read")] /\
   helper_name_sites =
     [("lower_service", ["ResultRecv"; "ResultSend"; "Exception"; "ArgsSend"; "ArgsRecv"], 2); ("lower_method", ["Exception"], 1)]) /\
  forall (conv : kind -> string -> string) cc scope x t,
    s_tag x = Some t -> rust_name conv cc scope x = t /\ emitted conv cc scope x = display t.
Proof. exact (conj name_sites_as_modelled rust_name_is_tag). Qed.
Print Assumptions C14_effective_name_sites.

(* ---- split mode: distinct items of a module get distinct files ------------------------------------------------------------------------
   whatever the kinds and names of the items of a module group (case-colliding names, names that literally look like the suffixed
   forms X_2, x_3, X_2_2, ...): the file names write_split_mod creates are pairwise distinct IGNORING CASE, so no item's file is
   overwritten by another's and mod.rs includes every file once.  (generate_unique_name always finds a free candidate: among
   |taken| + 2 candidates whose lower-case forms are pairwise distinct one is not taken.) *)
Theorem C14_split_names_injective :
  forall (item : Type) (render kind_prefix item_name : item -> string) its,
    NoDup (map lower (map fst (fst (split_items item render kind_prefix item_name [] its)))).
Proof. exact split_file_names_injective. Qed.
Print Assumptions C14_split_names_injective.

(* recording the REQUESTED name instead of the one returned (seeded change C14e): ab, Ab, Ab_2 -> Ab and Ab_2 share message_Ab_2.rs *)
Theorem C14_split_names_requested_refuted :
  assigned_requested [] ["message_ab"; "message_Ab"; "message_Ab_2"] = ["message_ab"; "message_Ab_2"; "message_Ab_2"] /\
  assigned [] ["message_ab"; "message_Ab"; "message_Ab_2"] = ["message_ab"; "message_Ab_2"; "message_Ab_2_2"].
Proof. exact split_names_requested_refuted. Qed.
Print Assumptions C14_split_names_requested_refuted.
