(* C15, converse direction (every accepted text is the print of a concrete syntax tree): inversion of the nom combinators.
   Each lemma reads a successful run  p i = POk r a  backwards: which text was consumed, and what is known about the rest. *)
From PVIdl Require Import Comb Ast Parser Print Proofs.Total Proofs.RoundTok Proofs.RoundPath Proofs.RoundKit.
From Coq Require Import ZifyN ZifyNat ZifyBool.
From Coq Require String.
Import String.StringSyntax.
Open Scope nat_scope.

Lemma pbind_ok {A B} (x : pres A) (f : input -> A -> pres B) r b :
  pbind x f = POk r b -> exists i1 a, x = POk i1 a /\ f i1 a = POk r b.
Proof. destruct x; cbn [pbind]; intros H; try discriminate. eauto. Qed.

Lemma pmap_ok {A B} (f : A -> B) (p : parser A) i r b : pmap f p i = POk r b -> exists a, p i = POk r a /\ b = f a.
Proof. unfold pmap. intros H. apply pbind_ok in H. destruct H as [i1 [a [E H]]]. inversion H; subst. eauto. Qed.

Lemma opt_inv {A} (p : parser A) i r o : opt p i = POk r o ->
  (exists a, o = Some a /\ p i = POk r a) \/ (o = None /\ r = i /\ is_perr (p i)).
Proof.
  unfold opt. destruct (p i) eqn:E; intros H; inversion H; subst; [left; eauto|right; repeat split; exact I].
Qed.

Lemma tag_inv t i r a : tag t i = POk r a -> i = t ++ r /\ a = t.
Proof.
  unfold tag. destruct (strip_prefix t i) eqn:E; intros H; inversion H; subst. split; [|reflexivity].
  now apply strip_prefix_app.
Qed.

Lemma alt_cons_inv {A} (p q : parser A) ps i r a : alt (p :: q :: ps) i = POk r a ->
  p i = POk r a \/ (is_perr (p i) /\ alt (q :: ps) i = POk r a).
Proof. cbn [alt]. destruct (p i) eqn:E; intros H; try discriminate; [left; exact H|right; split; [exact I|exact H]]. Qed.

Lemma alt_one_inv {A} (p : parser A) i r a : alt [p] i = POk r a -> p i = POk r a.
Proof. auto. Qed.

Lemma span_inv cond i p r : span cond i = (p, r) -> i = p ++ r /\ forallb cond p = true /\ hd_sat (fun b => negb (cond b)) r = true.
Proof.
  revert p r. induction i as [|b i IH]; intros p r H; cbn [span] in H.
  - inversion H; subst. repeat split.
  - destruct (cond b) eqn:E.
    + destruct (span cond i) as [p' r'] eqn:E2. inversion H; subst. destruct (IH p' r eq_refl) as [-> [H1 H2]].
      repeat split; auto. cbn [forallb]. now rewrite E, H1.
    + inversion H; subst. repeat split. cbn. now rewrite E.
Qed.

Lemma take_while_inv cond i r p : take_while cond i = POk r p ->
  i = p ++ r /\ forallb cond p = true /\ hd_sat (fun b => negb (cond b)) r = true.
Proof. unfold take_while. destruct (span cond i) as [p' r'] eqn:E. intros H. inversion H; subst. now apply span_inv. Qed.

Lemma span1_inv cond k i r p : span1 cond k i = POk r p ->
  i = p ++ r /\ p <> [] /\ forallb cond p = true /\ hd_sat (fun b => negb (cond b)) r = true.
Proof.
  unfold span1. destruct (span cond i) as [p' r'] eqn:E. destruct (is_nil p') eqn:N; intros H; inversion H; subst.
  destruct (span_inv _ _ _ _ E) as [H1 [H2 H3]]. repeat split; auto. intros ->. discriminate.
Qed.

Lemma recognize_inv {A} (p : parser A) i r s : recognize p i = POk r s -> exists a, p i = POk r a /\ s = consumed i r.
Proof. unfold recognize. destruct (p i) eqn:E; intros H; inversion H; subst. eauto. Qed.

Lemma map_res_inv {A B} (p : parser A) (f : A -> option B) i r b : map_res p f i = POk r b ->
  exists a, p i = POk r a /\ f a = Some b.
Proof. unfold map_res. destruct (p i) eqn:E; intros H; try discriminate. destruct (f a) eqn:F; inversion H; subst. eauto. Qed.

Lemma one_of_inv set i r b : one_of set i = POk r b -> i = b :: r /\ bmem b set = true.
Proof. destruct i as [|c i]; cbn [one_of]; [discriminate|]. destruct (bmem c set) eqn:E; intros H; inversion H; subst. auto. Qed.

Lemma satisfy_b_inv cond i r b : satisfy_b cond i = POk r b -> i = b :: r /\ cond b = true.
Proof. destruct i as [|c i]; cbn [satisfy_b]; [discriminate|]. destruct (cond c) eqn:E; intros H; inversion H; subst. auto. Qed.

(* ---------- loops: the elements in order, each read backwards by [Hel]; the parser fails (recoverably) on the rest ---------- *)
Section Loops.
Context {A C : Type}.
Variable p : parser A.
Variable e : C -> A.
Variable pr : C -> list byte -> list byte.
Variable Q : C -> list byte -> Prop.
Hypothesis Hel : forall i r a, p i = POk r a -> exists c, i = pr c r /\ e c = a /\ Q c r.

Definition prl (cs : list C) (r : list byte) : list byte := fold_right pr r cs.
Fixpoint chain (cs : list C) (r : list byte) : Prop :=
  match cs with [] => True | c :: cs' => Q c (prl cs' r) /\ chain cs' r end.

Lemma many0_inv : forall fuel i r l, many0 fuel p i = POk r l ->
  exists cs, i = prl cs r /\ map e cs = l /\ chain cs r /\ is_perr (p r).
Proof.
  induction fuel as [|f IH]; intros i r l H; cbn [many0] in H; [discriminate|].
  destruct (p i) as [i1 a| | | |] eqn:E; try discriminate.
  - destruct (same_len i1 i); [discriminate|]. apply pbind_ok in H. destruct H as [r' [l' [E2 H]]]. inversion H; subst.
    destruct (Hel _ _ _ E) as [c [-> [<- Hq]]]. destruct (IH _ _ _ E2) as [cs [-> [<- [Hc Hp]]]].
    exists (c :: cs). repeat split; auto.
  - inversion H; subst. exists []. repeat split. rewrite E. exact I.
Qed.

Lemma many1_loop_inv : forall fuel i r l, many1_loop fuel p i = POk r l ->
  exists cs, i = prl cs r /\ map e cs = l /\ chain cs r /\ is_perr (p r).
Proof.
  induction fuel as [|f IH]; intros i r l H; cbn [many1_loop] in H; [discriminate|].
  destruct (p i) as [i1 a| | | |] eqn:E; try discriminate.
  - destruct (same_len i1 i); [discriminate|]. apply pbind_ok in H. destruct H as [r' [l' [E2 H]]]. inversion H; subst.
    destruct (Hel _ _ _ E) as [c [-> [<- Hq]]]. destruct (IH _ _ _ E2) as [cs [-> [<- [Hc Hp]]]].
    exists (c :: cs). repeat split; auto.
  - inversion H; subst. exists []. repeat split. rewrite E. exact I.
Qed.

Lemma many1_inv fuel i r l : many1 fuel p i = POk r l ->
  exists c cs, i = pr c (prl cs r) /\ e c :: map e cs = l /\ Q c (prl cs r) /\ chain cs r /\ is_perr (p r).
Proof.
  unfold many1. destruct (p i) as [i1 a| | | |] eqn:E; try discriminate. intros H.
  apply pbind_ok in H. destruct H as [r' [l' [E2 H]]]. inversion H; subst.
  destruct (Hel _ _ _ E) as [c [-> [<- Hq]]]. destruct (many1_loop_inv _ _ _ _ E2) as [cs [-> [<- [Hc Hp]]]].
  exists c, cs. repeat split; auto.
Qed.

Lemma many_till_inv {B} (g : parser B) : forall fuel i r l b, many_till fuel p g i = POk r (l, b) ->
  exists cs i', i = prl cs i' /\ map e cs = l /\ chain cs i' /\ g i' = POk r b.
Proof.
  induction fuel as [|f IH]; intros i r l b H; cbn [many_till] in H; [discriminate|].
  destruct (g i) as [i1 b1| | | |] eqn:G; try discriminate.
  - inversion H; subst. exists [], i. repeat split. exact G.
  - destruct (p i) as [i1 a| | | |] eqn:E; try discriminate. destruct (same_len i1 i); [discriminate|].
    apply pbind_ok in H. destruct H as [r' [[l' b'] [E2 H]]]. inversion H; subst. cbn [fst snd] in *.
    destruct (Hel _ _ _ E) as [c [-> [<- Hq]]]. destruct (IH _ _ _ _ E2) as [cs [i' [-> [<- [Hc Hg]]]]].
    exists (c :: cs), i'. repeat split; auto.
Qed.
End Loops.

Lemma many0_count_tag_inv t : forall fuel i r n, many0_count fuel (tag t) i = POk r n ->
  i = Nat.iter n (fun k => t ++ k) r /\ is_perr (tag t r).
Proof.
  induction fuel as [|f IH]; intros i r n H; cbn [many0_count] in H; [discriminate|].
  destruct (tag t i) as [i1 a| | | |] eqn:E; try discriminate.
  - destruct (same_len i1 i); [discriminate|]. apply pbind_ok in H. destruct H as [r' [n' [E2 H]]]. inversion H; subst.
    apply tag_inv in E. destruct E as [-> _]. destruct (IH _ _ _ E2) as [-> Hp]. split; [reflexivity|exact Hp].
  - inversion H; subst. split; [reflexivity|]. rewrite E. exact I.
Qed.

Lemma alt_app_inv {A} (ps : list (parser A)) q qs i r a : alt (ps ++ q :: qs) i = POk r a ->
  (exists p, In p ps /\ p i = POk r a) \/ alt (q :: qs) i = POk r a.
Proof.
  induction ps as [|p ps IH]; cbn [app]; intros H; [right; exact H|].
  destruct ps as [|p' ps']; cbn [app] in *.
  - apply alt_cons_inv in H. destruct H as [H|[_ H]]; [left; exists p; split; [left; reflexivity|exact H]|right; exact H].
  - apply alt_cons_inv in H. destruct H as [H|[_ H]]; [left; exists p; split; [left; reflexivity|exact H]|].
    destruct (IH H) as [[p0 [Hin Hp]]|Hq]; [left; exists p0; split; [right; exact Hin|exact Hp]|right; exact Hq].
Qed.

Lemma alt_app_inv_err {A} (ps : list (parser A)) q qs i r a : alt (ps ++ q :: qs) i = POk r a ->
  (exists p, In p ps /\ p i = POk r a) \/ (Forall (fun p => is_perr (p i)) ps /\ alt (q :: qs) i = POk r a).
Proof.
  induction ps as [|p ps IH]; cbn [app]; intros H; [right; split; [constructor|exact H]|].
  destruct ps as [|p' ps']; cbn [app] in *.
  - apply alt_cons_inv in H. destruct H as [H|[He H]]; [left; exists p; split; [left; reflexivity|exact H]|right; split; [repeat constructor; exact He|exact H]].
  - apply alt_cons_inv in H. destruct H as [H|[He H]]; [left; exists p; split; [left; reflexivity|exact H]|].
    destruct (IH H) as [[p0 [Hin Hp]]|[Hf Hq]]; [left; exists p0; split; [right; exact Hin|exact Hp]|right; split; [constructor; assumption|exact Hq]].
Qed.

Lemma pbind_ret_err {A B} (x : pres A) (v : B) : is_perr (pbind x (fun i _ => POk i v)) -> is_perr x.
Proof. destruct x; cbn; auto. Qed.

(* decompose a chain of binds *)
Ltac binv H :=
  repeat (let i := fresh "i" in let a := fresh "a" in let E := fresh "E" in
          apply pbind_ok in H; destruct H as [i [a [E H]]]).
