"""gen family -- correspondence: compares a driver result line (emitted Rust code) with the result line of
the extracted Coq model (fam/gen/runner) for the same case line.  Canonicalisation: Debug text -> value tokens
under the schema, hash containers sorted, NaN payloads not distinguished in Debug text, errors compared by
coarse outcome (ok / err / panic), re-encoded bytes compared after reference decoding (hash order)."""
import re
from . import gengen, genref, genrun


def _split_model(line):
    """model line -> dict(kind, val, rem, size, enc)"""
    d = dict(kind='bad')
    if line.startswith('ok '):
        m = re.match(r'ok (.*) REM (\d+)(?: SIZE (-?\d+) ENC ([0-9a-f-]+)| (ENCERR|ENCPANIC) (\w+))?$', line)
        if not m:
            return d
        d.update(kind='ok', val=m.group(1), rem=int(m.group(2)))
        if m.group(3) is not None:
            d.update(size=int(m.group(3)), enc=b'' if m.group(4) == '-' else bytes.fromhex(m.group(4)))
        elif m.group(5):
            d.update(encfail=m.group(5))
    elif line.startswith('err '):
        d.update(kind='err', cls=line.split(' ')[1])
    elif line.startswith('panic'):
        d.update(kind='panic')
    return d


def compare_dec(gb, cfg, tname, proto, impl, model):
    """impl: genrun.Res ; model: dict from _split_model.  -> None or text"""
    ty = ('ref', tname)
    ik = impl.kind
    if proto == 'unchecked' and ik == 'crash' and model['kind'] in ('err', 'panic'):
        # the unchecked reader has no bounds checks: where the checked codec (the model) reports an error on
        # a malformed continuation, the debug build's UB precondition check aborts the process
        return None
    if ik in ('crash', 'hang', 'bad', 'badcase'):
        return 'implementation: %s' % impl.line[:80]
    if ik == 'encerr':
        ik = 'ok'
    if model['kind'] == 'bad':
        return 'model output not understood'
    if ik != model['kind']:
        return 'outcome: implementation %s, model %s' % (impl.line[:60], model['kind'] + ' ' + model.get('cls', ''))
    if ik != 'ok':
        return None
    got, why = genrun.value_text(gb, cfg, ty, impl.debug)
    if why:
        return why
    want = genrun.canon_nan_text(model['val'])
    # sets/maps were sorted before NaN canonicalisation on the model side: compare as multisets of tokens when NaN occurs
    if got != want and not ('dNaN' in got and sorted(got.split(' ')) == sorted(want.split(' '))):
        return 'value: ' + genrun.diff_text(got, want)
    if impl.rem != model['rem']:
        return 'remaining bytes: implementation %d, model %d' % (impl.rem, model['rem'])
    if impl.size is not None:
        if 'size' not in model:
            return 'model could not size/encode the decoded value (%s)' % model.get('encfail')
        if impl.size != model['size']:
            return 'size(): implementation %d, model %d' % (impl.size, model['size'])
        if len(impl.enc) != len(model['enc']):
            return 'encoded length: implementation %d, model %d' % (len(impl.enc), len(model['enc']))
        if impl.enc != model['enc']:
            try:
                a = genref.decode(gb.schema, ty, impl.enc, genrun.ref_proto(proto))[0]
                b = genref.decode(gb.schema, ty, model['enc'], genrun.ref_proto(proto))[0]
                if gengen.show(gb.schema, ty, a) != gengen.show(gb.schema, ty, b):
                    return 'encoded bytes differ (beyond hash-container order)'
            except Exception:
                # messages with retained unknown fields do not decode under the reader schema: fall back to the
                # multiset of bytes (insensitive to the iteration order of hash containers)
                if sorted(impl.enc) != sorted(model['enc']):
                    return 'encoded bytes differ'
    return None


def compare(gb, case, impl_line, model_line):
    op = case['line'].split(' ')[0]
    cfg, tname, proto = case['cfg'], case['type'], case['proto']
    if model_line is None or model_line.startswith('CRASH') or model_line.startswith('BADCASE'):
        return 'model runner: %s' % (model_line or '')[:100]
    if op in ('dec', 'renc'):
        return compare_dec(gb, cfg, tname, proto, genrun.Res(impl_line), _split_model(model_line))
    if op == 'dflt':
        mi = re.match(r'DEF (.*?) (SIZE \d+ ENC [0-9a-f-]+|ENCERR \w+.*?)((?: NOTE .*?)?) EMPTY (.*)$', impl_line or '')
        mm = re.match(r'DEF (.*?) (SIZE -?\d+ ENC [0-9a-f-]+|ENCERR \w+|ENCPANIC \w+) EMPTY (.*)$', model_line)
        if not mi:
            return 'implementation: %s' % (impl_line or '')[:80]
        if not mm:
            return 'model output not understood: ' + model_line[:80]
        ty = ('ref', tname)
        got, why = genrun.value_text(gb, cfg, ty, mi.group(1))
        if why:
            return why
        if got != genrun.canon_nan_text(mm.group(1)):
            return 'Default value: ' + genrun.diff_text(got, genrun.canon_nan_text(mm.group(1)))
        si, sm = mi.group(2).split(' '), mm.group(2).split(' ')
        if si[0] != sm[0] or (si[0] == 'SIZE' and (si[1] != sm[1] or len(si[3]) != len(sm[3]))):
            return 'size/encoding of the default: implementation %s, model %s' % (' '.join(si[:2]), ' '.join(sm[:2]))
        if gb.schema.types[tname]['kind'] == 'struct':
            return compare_dec(gb, cfg, tname, proto, genrun.Res(mi.group(4)), _split_model(mm.group(3)))
        return None
    return None
