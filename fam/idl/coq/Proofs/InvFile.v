(* C15, converse direction, the file level: every text the parser accepts is the print of a WELL-FORMED concrete syntax
   tree that erases to the parsed document. *)
From PVIdl Require Import Comb Ast Parser Print Proofs.Total Proofs.RoundTok Proofs.RoundPath Proofs.RoundAnn Proofs.RoundTy
  Proofs.RoundKit Proofs.Lex Proofs.RoundNum Proofs.RoundConst Proofs.RoundDecl Proofs.RoundField Proofs.RoundStruct Proofs.RoundFn Proofs.RoundFile
  Proofs.InvKit Proofs.InvTok Proofs.InvTy Proofs.InvNum Proofs.InvConst Proofs.InvDecl Proofs.InvItems.
From Coq Require Import ZifyN ZifyNat ZifyBool.
From Coq Require String.
Import String.StringSyntax.
Open Scope nat_scope.

Definition fiel : Type := (blank * citem * blank)%type.
Definition pr_fiel (e : fiel) (r : list byte) : list byte :=
  match e with (bl, it, b) => pr_blank bl (pr_item it (pr_blank b r)) end.
Definition fiQ (e : fiel) (r : list byte) : Prop :=
  match e with (bl, it, b) =>
    itemP it (pr_blank b r) /\ blank_ok b r /\ noblank r /\ (item_open it = true -> b = []) /\ (noblank (pr_fiel e r) -> bl = [])
  end.
Definition drop_lead (es : list fiel) : list (citem * blank) := map (fun e : fiel => (snd (fst e), snd e)) es.
Definition fihdnil (es : list fiel) : Prop := match es with [] => True | (bl, _, _) :: _ => bl = [] end.

Lemma ahead_nonnil x : ahead x -> x <> [].
Proof. intros [b0 [rest [-> _]]]. discriminate. Qed.

Lemma pr_items_nil l : pr_items l [] = [] -> l = [].
Proof.
  destruct l as [|[it b] l]; [reflexivity|]. cbn [pr_items]. intros E. exfalso.
  pose proof (RoundFile.len_item 1 [] ltac:(cbn; lia) 1 ltac:(cbn; lia) it (pr_blank b (pr_items l []))) as L. rewrite E in L. cbn in L. lia.
Qed.

Lemma is_nil_pr_blank b R : blank_ok b R -> is_nil (pr_blank b R) = is_nil b && is_nil R.
Proof.
  intros Hok. destruct b as [|a b]; [reflexivity|]. cbn [is_nil andb pr_blank].
  assert (Wa : wf_atom a = true) by (destruct Hok as [H|[_ H]]; cbn [wf_blank wf_blank_eof] in H; bsplit H; assumption).
  pose proof (lt_len_atom a (pr_blank b R) Wa) as L. destruct (pr_atom a (pr_blank b R)); [cbn in L; lia|reflexivity].
Qed.

Lemma erase_drop_lead es : erase_items (drop_lead es) = map (fun e : fiel => erase_item (snd (fst e))) es.
Proof. unfold erase_items, drop_lead. rewrite map_map. reflexivity. Qed.

Section File.
Variable lf : nat.
Variable df : nat.

Lemma elem_inv i r a : elem lf df i = POk r a -> exists e : fiel, i = pr_fiel e r /\ erase_item (snd (fst e)) = a /\ fiQ e r.
Proof.
  unfold elem. intros H. apply pbind_ok in H. destruct H as [i1 [o1 [E1 H]]]. apply pbind_ok in H. destruct H as [i2 [it [E2 H]]].
  apply pbind_ok in H. destruct H as [i3 [o3 [E3 H]]]. inversion H; subst.
  destruct (oblank_inv _ _ _ _ E1) as [bl [Ei [_ [_ Hnone1]]]]. destruct (item_inv _ _ _ _ _ E2) as [c [Ec [<- Pc]]].
  destruct (oblank_inv _ _ _ _ E3) as [b [Eb [Kb [Nb Hnone3]]]]. subst i2. subst i1.
  exists (bl, c, b). cbn [pr_fiel fiQ fst snd]. split; [exact Ei|]. split; [reflexivity|]. split; [exact Pc|].
  split; [exact Kb|]. split; [exact Nb|]. split.
  - intros Ho. destruct Pc as [_ [Hop _]]. specialize (Hop Ho). destruct (noblank_oblank _ _ _ _ Hop E3) as [_ Eo]. auto.
  - intros Hn. rewrite <- Ei in Hn. destruct (noblank_oblank _ _ _ _ Hn E1) as [_ Eo]. auto.
Qed.

Lemma chain_items : forall es, chain pr_fiel fiQ es [] -> fihdnil es ->
  prl pr_fiel es [] = pr_items (drop_lead es) [] /\ wf_items (drop_lead es) = true.
Proof.
  induction es as [|[[bl it] b] es IH]; cbn [chain prl fold_right drop_lead map pr_items fihdnil fst snd]; intros Hc Hh.
  - split; reflexivity.
  - subst bl. destruct Hc as [[Pit [Kb [Nb [Hopb _]]]] Hc]. fold (prl pr_fiel es []) in *. fold (drop_lead es) in *.
    assert (Hh' : fihdnil es).
    { destruct es as [|[[bl' it'] b'] es']; [exact I|]. cbn [chain] in Hc. destruct Hc as [[_ [_ [_ [_ Hx]]]] _]. apply Hx. exact Nb. }
    assert (Hd' : es <> [] -> ahead (prl pr_fiel es [])).
    { destruct es as [|[[bl' it'] b'] es']; [contradiction|]. intros _. cbn [fihdnil] in Hh'. subst bl'. cbn [chain] in Hc.
      destruct Hc as [[[_ [_ [_ Ha]]] _] _]. cbn [prl fold_right pr_fiel pr_blank]. exact Ha. }
    destruct (IH Hc Hh') as [E Wr]. rewrite E in *. cbn [pr_blank]. split; [reflexivity|].
    cbn [wf_items].
    set (R := pr_items (drop_lead es) []) in *.
    assert (AR : hd_ascii R = true).
    { destruct es as [|e0 es0]; [reflexivity|]. destruct (Hd' ltac:(discriminate)) as [c0 [rest [Ec0 Hc0]]]. rewrite Ec0.
      unfold hd_ascii. cbn [hd_sat]. apply idh_ascii. now rewrite Hc0. }
    assert (EnR : is_nil R = is_nil (drop_lead es)).
    { destruct (drop_lead es) as [|x l'] eqn:El; [reflexivity|]. cbn [is_nil]. destruct R eqn:ER; [|reflexivity].
      unfold R in ER. apply pr_items_nil in ER. try rewrite El in ER. discriminate. }
    destruct Pit as [Wit [Hop [Hnid Hah]]].
    rewrite (is_nil_pr_blank b R Kb) in Wit. rewrite EnR in Wit. rewrite andb_comm in Wit.
    rewrite (Wit (blank_ok_ascii _ _ Kb AR)), Wr.
    pose proof (blank_ok_wfb b R Kb) as Wb. rewrite EnR in Wb. rewrite Wb. cbn [andb]. rewrite andb_true_r.
    assert (A1 : negb (item_open it) || is_nil b = true).
    { destruct (item_open it) eqn:Eo; [|reflexivity]. rewrite (Hopb eq_refl). reflexivity. }
    rewrite A1. cbn [andb].
    destruct (drop_lead es) as [|[it' b'] l'] eqn:El; [reflexivity|]. cbn [is_nil orb] in *.
    destruct b as [|a0 b]; [|reflexivity]. cbn [is_nil negb orb]. unfold item_glue.
    destruct (item_ends_word it) eqn:Ew; [|reflexivity]. cbn [negb orb].
    specialize (Hnid eq_refl). cbn [pr_blank] in Hnid.
    (* the next item begins with a letter *)
    assert (Hne : es <> []) by (intros ->; discriminate El).
    destruct (Hd' Hne) as [c0 [rest [Ec0 Hc0]]].
    assert (Hi : identch c0 = true) by (unfold identch, is_alnum, is_alpha in *; now rewrite Hc0).
    assert (Hfalse : nid R = true -> False).
    { intros Hx. rewrite Ec0 in Hx. unfold nid in Hx. cbn [hd_sat] in Hx. rewrite Hi in Hx. discriminate. }
    destruct it as [? ? ?|? ? ?|?|?|c|?|? ? ?|?]; try (exfalso; exact (Hfalse Hnid)).
    (* a constant whose value is directly followed by the keyword of the next item *)
    cbn [wf_items] in Wr. bsplit Wr.
    destruct (item_kw_split _ it' (pr_blank b' (pr_items l' [])) ltac:(eassumption)) as [bb [X' [EX [Wbb Nbb]]]].
    assert (ER : R = item_word it' ++ pr_blank bb X') by (unfold R; cbn [pr_items]; exact EX).
    assert (LX : lstopk (pr_blank bb X') = true).
    { unfold lstopk. apply blank_then; [exact Wbb|exact lstopc_bs|intros ->; contradiction]. }
    rewrite ER in Hnid. now rewrite (cont_ok_local (ck_val c) (item_word it') _ LX) in Hnid.
Qed.

Theorem file_inv s doc : p_file lf df s = POk [] doc ->
  exists c, pr_file c [] = s /\ erase_file c = doc /\ wf_file c = true.
Proof.
  rewrite p_file_eq. intros H. apply pbind_ok in H. destruct H as [i1 [o1 [E1 H]]]. apply pbind_ok in H. destruct H as [i2 [[items e] [E2 H]]].
  inversion H; subst. cbn [fst] in *.
  destruct (oblank_inv _ _ _ _ E1) as [b0 [-> [K0 [N0 _]]]].
  apply (many_till_inv (elem lf df) (fun e : fiel => erase_item (snd (fst e))) pr_fiel fiQ elem_inv) in E2.
  destruct E2 as [es [i' [-> [<- [Hc Hg]]]]]. unfold eof in Hg. destruct i'; [|discriminate].
  assert (Hh : fihdnil es).
  { destruct es as [|[[bl it] b] es]; [exact I|]. cbn [chain] in Hc. destruct Hc as [[_ [_ [_ [_ Hx]]]] _]. apply Hx. exact N0. }
  destruct (chain_items es Hc Hh) as [E Wl]. rewrite E in *.
  exists (mkCFile b0 (drop_lead es)). unfold pr_file, erase_file, wf_file. cbn [fl_b0 fl_items].
  split; [reflexivity|]. split.
  - rewrite erase_drop_lead. rewrite <- package_of_eq. reflexivity.
  - rewrite Wl, andb_true_r.
    pose proof (blank_ok_wfb b0 _ K0) as Wb. replace (is_nil (pr_items (drop_lead es) [])) with (is_nil (drop_lead es)) in Wb; [exact Wb|].
    destruct (drop_lead es) as [|x l'] eqn:El; [reflexivity|]. cbn [is_nil]. destruct (pr_items (x :: l') []) eqn:ER; [|reflexivity].
    apply pr_items_nil in ER. discriminate.
Qed.

End File.

(* ---------- C15, the converse ---------- *)
Theorem accepted_is_printed s doc : parse_file s = POk [] doc ->
  exists c, pr_file c [] = s /\ erase_file c = doc /\ wf_file c = true.
Proof. unfold parse_file. apply file_inv. Qed.

(* both directions: the texts the parser accepts are exactly the prints of well-formed concrete syntax trees, and the
   document it returns is the one the tree denotes *)
Theorem accepted_iff_printed s doc :
  parse_file s = POk [] doc <-> exists c, wf_file c = true /\ pr_file c [] = s /\ erase_file c = doc.
Proof.
  split.
  - intros H. destruct (accepted_is_printed s doc H) as [c [E1 [E2 W]]]. exists c. auto.
  - intros [c [W [<- <-]]]. now apply roundtrip_file.
Qed.

(* layout independence as a statement about every pair of accepted texts: if they are prints of concrete syntax trees
   that denote the same document (the same tokens modulo layout), they parse to the same document *)
Theorem layout_free_texts s1 s2 d1 d2 : parse_file s1 = POk [] d1 -> parse_file s2 = POk [] d2 ->
  exists c1 c2, pr_file c1 [] = s1 /\ pr_file c2 [] = s2 /\ erase_file c1 = d1 /\ erase_file c2 = d2 /\
                (erase_file c1 = erase_file c2 -> d1 = d2).
Proof.
  intros H1 H2. destruct (accepted_is_printed _ _ H1) as [c1 [P1 [E1 _]]]. destruct (accepted_is_printed _ _ H2) as [c2 [P2 [E2 _]]].
  exists c1, c2. repeat split; auto. intros E. now rewrite <- E1, <- E2.
Qed.

(* ---------- non-vacuity ---------- *)
(* an accepted text with an unusual layout (no blank where none is needed, all comment styles, an unterminated final line
   comment) and a concrete syntax tree of it: well-formed, not in the exclusion, printing exactly the text *)
Definition unusual_text : list byte :=
  txt "/**/struct S{1:optionalFoo x=[1,0x2;-.5e1'a'""b""{}]#c" ++ x0a :: txt "2:list<i8>y(k='v')}const i8 c=1;//end".

Definition unusual_cst : cfile :=
  let ty s := CType (CTPath (mkCPath s [])) None in
  let lit dq s := CCLit (mkLit dq s) in
  let num m h ds := CCInt (mkCInt m h ds) in
  let lst := CCList [] (CLCons (num 0 false (txt "1")) [] (SepSome false [])
                       (CLCons (num 0 true (txt "2")) [] (SepSome true [])
                       (CLCons (CCDbl (mkCDbl true false (DBodyB (txt "5") (Some (mkCExp false (mkCInt 0 false (txt "1"))))))) [] SepNone
                       (CLCons (lit false (txt "a")) [] SepNone (CLCons (lit true (txt "b")) [] SepNone (CLCons (CCMap [] CMNil) [] SepNone CLNil)))))) in
  let f1 := mkCField (txt "1") [] [] None (ty (txt "optionalFoo")) [BWs (txt " ")] (txt "x") [] (Some ([], lst, [BHash (txt "c"); BWs [x0a]])) None SepNone in
  let f2 := mkCField (txt "2") [] [] None (CType (CTList [] [] (CType (CTBase BI8) None) [] None) None) [] (txt "y") []
                     None (Some ([mkCAnn [] (txt "k") [] [] (mkLit false (txt "v")) [] SepNone], [])) SepNone in
  mkCFile [BBlock []]
    [ (CIStruct SKStruct [BWs (txt " ")] (mkCStruct (txt "S") [] [] [f1; f2] (mkTail [] None SepNone)), []);
      (CIConst (mkCConstant [BWs (txt " ")] (CType (CTBase BI8) None) [BWs (txt " ")] (txt "c") [] [] (CCInt (mkCInt 0 false (txt "1")))
                 (mkTail [] None (SepSome true [BLine (txt "end")]))), []) ].

Example accepted_is_printed_example :
  pr_file unusual_cst [] = unusual_text /\ wf_file unusual_cst = true /\
  parse_file unusual_text = POk [] (erase_file unusual_cst).
Proof. vm_compute. repeat split. Qed.

(* layouts that used to lie outside the well-formed trees and are admitted now: container words as type names, result
   types that begin with the words oneway / throws, constant values, enum values and constant items that touch *)
Definition touching_text : list byte :=
  txt "typedef list T typedef set(a='b') U const i8 c=[5x true.5 a.5 0xfffffffffffffffffffff 5e99999999999999999999 --1.5 1..5]" ++
  txt "enum E{A=5B=0x1fg}const i8 d=5struct S{}service V{oneway.x f()throws g()throws(a='b') h()oneway(a='b') k()}".

Definition touching_cst : cfile :=
  let sp := [BWs (txt " ")] in
  let pt s := CType (CTPath (mkCPath s [])) None in
  let num m h ds := CCInt (mkCInt m h ds) in
  let pth s := CCPath (mkCPath s []) in
  let dbl b := CCDbl (mkCDbl false false b) in
  let ann := [mkCAnn [] (txt "a") [] [] (mkLit false (txt "b")) [] SepNone] in
  let el v b r := CLCons v b SepNone r in
  let lst := CCList []
    (el (num 0 false (txt "5")) [] (el (pth (txt "x")) sp (el (CCBool true) [] (el (dbl (DBodyB (txt "5") None)) sp
    (el (pth (txt "a")) [] (el (dbl (DBodyB (txt "5") None)) sp (el (num 0 false (txt "0")) [] (el (pth (txt "xfffffffffffffffffffff")) sp
    (el (num 0 false (txt "5")) [] (el (pth (txt "e99999999999999999999")) sp (el (num 2 false (txt "1")) [] (el (dbl (DBodyB (txt "5") None)) sp
    (el (dbl (DBodyA (txt "1") [] None)) [] (el (dbl (DBodyB (txt "5") None)) [] CLNil)))))))))))))) in
  let fn t name := mkCFunction None t sp name [] [] [] [] None None SepNone in
  mkCFile []
    [ (CITypedef (mkCTypedef sp (pt (txt "list")) sp (txt "T") (mkTail sp None SepNone)), []);
      (CITypedef (mkCTypedef sp (CType (CTPath (mkCPath (txt "set") [])) (Some ([], ann))) sp (txt "U") (mkTail sp None SepNone)), []);
      (CIConst (mkCConstant sp (CType (CTBase BI8) None) sp (txt "c") [] [] lst (mkTail [] None SepNone)), []);
      (CIEnum (mkCEnum sp (txt "E") [] [] [mkCEnumVal (txt "A") [] (Some ([], mkCInt 0 false (txt "5"), [])) None SepNone [];
                                            mkCEnumVal (txt "B") [] (Some ([], mkCInt 0 true (txt "1f"), [])) None SepNone [];
                                            mkCEnumVal (txt "g") [] None None SepNone []] [] None), []);
      (CIConst (mkCConstant sp (CType (CTBase BI8) None) sp (txt "d") [] [] (num 0 false (txt "5")) (mkTail [] None SepNone)), []);
      (CIStruct SKStruct sp (mkCStruct (txt "S") [] [] [] (mkTail [] None SepNone)), []);
      (CIService (mkCService sp (txt "V") None [] [
          ([], fn (CType (CTPath (mkCPath (txt "oneway") [([], [], txt "x")])) None) (txt "f"));
          ([], fn (pt (txt "throws")) (txt "g"));
          ([], fn (CType (CTPath (mkCPath (txt "throws") [])) (Some ([], ann))) (txt "h"));
          ([], fn (CType (CTPath (mkCPath (txt "oneway") [])) (Some ([], ann))) (txt "k")) ] [] (mkTail [] None SepNone)), []) ].

Example touching_example :
  pr_file touching_cst [] = touching_text /\ wf_file touching_cst = true /\
  parse_file touching_text = POk [] (erase_file touching_cst).
Proof. vm_compute. repeat split. Qed.

(* ... and what stays outside because it is a different document: a blank-less 5e5 is one double, not 5 and e5 *)
Example fusing_example :
  let c v1 v2 := mkCFile [] [(CIConst (mkCConstant [BWs (txt " ")] (CType (CTBase BI8) None) [BWs (txt " ")] (txt "c") [] []
                     (CCList [] (CLCons v1 [] SepNone (CLCons v2 [] SepNone CLNil))) (mkTail [] None SepNone)), [])] in
  let five := CCInt (mkCInt 0 false (txt "5")) in let zero := CCInt (mkCInt 0 false (txt "0")) in
  let pth s := CCPath (mkCPath s []) in
  wf_file (c five (pth (txt "e5"))) = false /\ wf_file (c zero (pth (txt "x1f"))) = false /\ wf_file (c five (CCDbl (mkCDbl false false (DBodyB (txt "5") None)))) = false /\
  wf_file (c (CCBool true) (pth (txt "x"))) = false /\ wf_file (c five (pth (txt "e"))) = true.
Proof. vm_compute. repeat split. Qed.
