(* Lemmas about Pipeline.v (C17): the emitted output does not depend on any of the permutation
   parameters (hash-map iteration orders, the order in which the rayon workers run).

   Shape of the argument:
     1. every worker writes one entry of `pkgs` (and, in split mode, one directory) under its own key; the
        keys of different workers are distinct, so the map reached after all of them have run is the sorted
        association list of (key, text of that group) -- whatever the order they ran in        (wi_fold)
     2. the package tree is rebuilt from the key set; write_stream sorts the children of every node by path
        before it walks them, the paths of siblings are pairwise distinct, and sorting a list with
        pairwise distinct keys forgets the order it came in (ListAux.isort_unique)        (from_pkgs_sorted_inv)
     3. workspace mode: crates are written under pairwise distinct names; `members` is sorted after a
        `dedup` that is the identity on pairwise distinct names                             (workspace_inv)
     4. protobuf nested messages: emitted in declaration order; the AHashMap is only looked up, and a
        look-up in a table with pairwise distinct keys does not depend on the order of the table
                                                                                              (lower_message_inv) *)
From Coq Require Import String List Bool Arith Ascii Lia Permutation Sorted.
From PVBld Require Import Names Pipeline Proofs.ListAux.
Import ListNotations.
Open Scope list_scope.

(* ---- a fold of sorted insertions is a sort ------------------------------------------------------- *)
Section FoldInsert.
  Context {A K : Type} (key : A -> K) (cmp : K -> K -> comparison) (ok : cmp_ok cmp).

  Lemma fold_insert_gen l r :
    fold_left (fun m x => insert key cmp x m) l (isort key cmp r) = isort key cmp (rev l ++ r).
  Proof.
    revert r. induction l as [|x l IH]; intros r; cbn [fold_left rev app]; [reflexivity|].
    change (insert key cmp x (isort key cmp r)) with (isort key cmp (x :: r)).
    rewrite IH. now rewrite <- app_assoc.
  Qed.

  Lemma fold_insert_isort l :
    fold_left (fun m x => insert key cmp x m) l [] = isort key cmp (rev l).
  Proof. rewrite <- (app_nil_r (rev l)). exact (fold_insert_gen l []). Qed.

  Lemma insert_keys x m k : In k (map key (insert key cmp x m)) <-> k = key x \/ In k (map key m).
  Proof.
    pose proof (Permutation_map key (insert_perm key cmp x m)) as P. cbn [map] in P. split; intros H.
    - apply (Permutation_in _ P) in H. destruct H as [H|H]; [left; now symmetry|now right].
    - apply (Permutation_in _ (Permutation_sym P)). destruct H as [H|H]; [left; now symmetry|now right].
  Qed.

  (* any update function that behaves like a sorted insertion on absent keys *)
  Lemma fold_ins_canon {B : Type} (F : B -> A) (f : list A -> B -> list A) :
    (forall m b, ~ In (key (F b)) (map key m) -> f m b = insert key cmp (F b) m) ->
    forall l, NoDup (map (fun b => key (F b)) l) ->
    fold_left f l [] = isort key cmp (rev (map F l)).
  Proof.
    intros Hf l N. rewrite <- fold_insert_isort.
    assert (G : forall m, (forall b, In b l -> ~ In (key (F b)) (map key m)) ->
                     fold_left f l m = fold_left (fun m x => insert key cmp x m) (map F l) m).
    { induction l as [|b l IH]; intros m Hm; cbn [fold_left map]; [reflexivity|].
      inversion N as [|? ? N1 N2]; subst.
      rewrite (Hf m b) by (apply Hm; now left). apply IH; [assumption|].
      intros b' Hb'. rewrite insert_keys. intros [E|I].
      - apply N1. rewrite <- E. apply (in_map (fun b => key (F b)) l b' Hb').
      - apply (Hm b'); [now right|assumption]. }
    apply G. intros b _ [].
  Qed.

  (* the result does not depend on the order in which the (pairwise distinct) keys arrive *)
  Lemma fold_ins_perm {B : Type} (F : B -> A) (f : list A -> B -> list A) :
    (forall m b, ~ In (key (F b)) (map key m) -> f m b = insert key cmp (F b) m) ->
    forall l l', Permutation l l' -> NoDup (map (fun b => key (F b)) l) ->
    fold_left f l [] = isort key cmp (map F l').
  Proof.
    intros Hf l l' P N. rewrite (fold_ins_canon F f Hf l N).
    apply (isort_unique key cmp ok).
    - rewrite <- Permutation_rev. now apply Permutation_map.
    - rewrite map_rev. apply NoDup_rev. rewrite map_map. exact N.
  Qed.
End FoldInsert.

Lemma fmap_push_absent m k s :
  ~ In k (map fst m) -> fmap_push m k s = insert fst path_cmp (k, s) m.
Proof.
  induction m as [|[k' s'] r IH]; intros N; cbn [fmap_push insert fst]; [reflexivity|].
  unfold leb. cbn [fst]. destruct (path_cmp k k') eqn:E.
  - exfalso. apply N. left. symmetry. now apply (cmp_eq _ path_cmp_ok).
  - reflexivity.
  - f_equal. apply IH. intros I. apply N. now right.
Qed.

Lemma fmap_put_absent {K V} (cmp : K -> K -> comparison) (ok : cmp_ok cmp) (m : list (K * V)) k v :
  ~ In k (map fst m) -> fmap_put cmp m k v = insert fst cmp (k, v) m.
Proof.
  induction m as [|[k' v'] r IH]; intros N; cbn [fmap_put insert fst]; [reflexivity|].
  unfold leb. cbn [fst]. destruct (cmp k k') eqn:E.
  - exfalso. apply N. left. symmetry. now apply (cmp_eq _ ok).
  - reflexivity.
  - f_equal. apply IH. intros I. apply N. now right.
Qed.

(* ---- 1. the workers ---------------------------------------------------------------------------------- *)
Section Workers.
  Variable item : Type.
  Variable mod_path : item -> path.
  Variable render : item -> string.
  Variable kind_prefix : item -> string.
  Variable item_name : item -> string.

  (* text pushed to the DashMap entry of group g, directory log written for group g *)
  Definition txt (split : bool) (g : path * list item) : string :=
    if split then snd (split_group item render kind_prefix item_name (fst g) (snd g))
    else render_group item render (snd g).
  Definition logf (g : path * list item) : dir_log :=
    fst (split_group item render kind_prefix item_name (fst g) (snd g)).

  Definition wi_step (split : bool) (st : list (path * string) * fs) (g : path * list item) :=
    let '(pkgs, files) := st in
    if split then
      let '(log, s) := split_group item render kind_prefix item_name (fst g) (snd g) in
      (fmap_push pkgs (fst g) s, fmap_put path_cmp files (fst g) log)
    else (fmap_push pkgs (fst g) (render_group item render (snd g)), files).

  (* the state is a pair of maps updated componentwise *)
  Lemma wi_step_split split work pk fl :
    fold_left (wi_step split) work (pk, fl) =
    (fold_left (fun m g => fmap_push m (fst g) (txt split g)) work pk,
     if split then fold_left (fun m g => fmap_put path_cmp m (fst g) (logf g)) work fl else fl).
  Proof.
    revert pk fl. induction work as [|g work IH]; intros pk fl; cbn [fold_left].
    - now destruct split.
    - unfold wi_step at 2. unfold txt, logf. destruct split.
      + destruct (split_group item render kind_prefix item_name (fst g) (snd g)) as [log s] eqn:E.
        rewrite IH. cbn [fst snd]. reflexivity.
      + rewrite IH. reflexivity.
  Qed.

  Definition groups (items : list item) : list (path * list item) := group_by mod_path path_eqb items.

  Definition canon_pkgs (split : bool) (items : list item) : list (path * string) :=
    isort fst path_cmp (map (fun g => (fst g, txt split g)) (groups items)).
  Definition canon_files (split : bool) (items : list item) : fs :=
    if split then isort fst path_cmp (map (fun g => (fst g, logf g)) (groups items)) else [].

  Lemma groups_nodup items : NoDup (map fst (groups items)).
  Proof. apply group_by_nodup. apply path_eqb_eq. Qed.

  Lemma wi_fold split items work :
    Permutation work (groups items) ->
    fold_left (wi_step split) work ([], []) = (canon_pkgs split items, canon_files split items).
  Proof.
    intros P. rewrite wi_step_split.
    assert (N : NoDup (map fst work)).
    { eapply Permutation_NoDup; [apply Permutation_map, Permutation_sym, P|apply groups_nodup]. }
    f_equal.
    - unfold canon_pkgs.
      apply (fold_ins_perm fst path_cmp path_cmp_ok (fun g => (fst g, txt split g))
               (fun m g => fmap_push m (fst g) (txt split g))); try assumption.
      intros m b H. now apply fmap_push_absent.
    - unfold canon_files. destruct split; [|reflexivity].
      apply (fold_ins_perm fst path_cmp path_cmp_ok (fun g => (fst g, logf g))
               (fun m g => fmap_put path_cmp m (fst g) (logf g))); try assumption.
      intros m b H. apply fmap_put_absent; [apply path_cmp_ok|assumption].
  Qed.
End Workers.

(* ---- 2. the package tree ------------------------------------------------------------------------------- *)
Lemma sort_tree_node p cs : sort_tree (Node p cs) = Node p (isort node_path path_cmp (map sort_tree cs)).
Proof. reflexivity. Qed.

Lemma in_group_by_snd {A K} (f : A -> K) (eqb : K -> K -> bool) l kv :
  In kv (group_by f eqb l) -> snd kv = filter (fun x => eqb (f x) (fst kv)) l.
Proof.
  unfold group_by. intros H. apply in_map_iff in H. destruct H as [k [E _]]. subst kv. reflexivity.
Qed.

Lemma tails_perm l l' : Permutation l l' -> Permutation (tails l) (tails l').
Proof. intros P. unfold tails. apply Permutation_map. now apply filter_perm'. Qed.

Lemma max_len_perm l l' : Permutation l l' -> max_len l = max_len l'.
Proof. induction 1; cbn [max_len]; lia. Qed.

Lemma app_one_inj {A} (base : list A) a b : base ++ [a] = base ++ [b] -> a = b.
Proof. intros H. apply app_inv_head in H. now injection H. Qed.

Lemma NoDup_map_inj {A B} (f : A -> B) l : (forall a b, f a = f b -> a = b) -> NoDup l -> NoDup (map f l).
Proof.
  intros I. induction 1 as [|x l N1 N2 IH]; cbn [map]; constructor; [|assumption].
  intros H. apply in_map_iff in H. destruct H as [y [E Hy]]. apply I in E. now subst.
Qed.

Lemma from_pkgs_sorted_inv pi pi' :
  perm_fun pi -> perm_fun pi' ->
  forall fuel base l l', Permutation l l' ->
    isort node_path path_cmp (map sort_tree (from_pkgs pi fuel base l)) =
    isort node_path path_cmp (map sort_tree (from_pkgs pi' fuel base l')).
Proof.
  intros Hpi Hpi'. induction fuel as [|f IH]; intros base l l' P; cbn [from_pkgs]; [reflexivity|].
  destruct l as [|x r].
  - apply Permutation_nil in P. now subst.
  - destruct l' as [|x' r']; [apply Permutation_sym, Permutation_nil in P; discriminate|].
    pose proof (filter_perm' nonempty _ _ P) as PF.
    remember (filter nonempty (x :: r)) as ne eqn:Ene.
    remember (filter nonempty (x' :: r')) as ne' eqn:Ene'.
    clear Ene Ene' P x r x' r'.
    destruct ne as [|y ne0].
    + apply Permutation_nil in PF. subst ne'. reflexivity.
    + destruct ne' as [|y' ne0']; [apply Permutation_sym, Permutation_nil in PF; discriminate|].
      set (ne := y :: ne0) in *. set (ne' := y' :: ne0') in *.
      set (Gk := fun (q : string -> list path -> list pkg_node) (src : list path) (k : string) =>
                   sort_tree (Node (base ++ [k])
                     (q k (tails (filter (fun x => String.eqb (head_seg x) k) src))))).
      assert (S1 : forall (q : (string -> list path -> list pkg_node)) (rho : list (string * list path) -> list (string * list path)) src,
                 perm_fun rho ->
                 Permutation
                   (map sort_tree
                      (map (fun kv => let p := base ++ [fst kv] in Node p (q (fst kv) (tails (snd kv))))
                           (rho (group_by head_seg String.eqb src))))
                   (map (Gk q src) (first_keys head_seg String.eqb [] src))).
      { intros q rho src Hrho. rewrite map_map.
        rewrite (map_ext_in _ (fun kv => Gk q src (fst kv))).
        - rewrite <- (map_map fst (Gk q src)). apply Permutation_map.
          rewrite <- (group_by_keys head_seg String.eqb src). apply Permutation_map. apply Hrho.
        - intros kv Hkv. apply (Permutation_in _ (Hrho _)) in Hkv.
          apply in_group_by_snd in Hkv. unfold Gk. cbn zeta. now rewrite Hkv. }
      pose proof (S1 (fun k v => from_pkgs pi f (base ++ [k]) v) pi ne Hpi) as L1.
      pose proof (S1 (fun k v => from_pkgs pi' f (base ++ [k]) v) pi' ne' Hpi') as L2.
      cbn zeta in L1, L2.
      apply (isort_unique node_path path_cmp path_cmp_ok).
      * rewrite L1, L2.
        rewrite (map_ext (Gk (fun k v => from_pkgs pi f (base ++ [k]) v) ne)
                         (Gk (fun k v => from_pkgs pi' f (base ++ [k]) v) ne')).
        -- apply Permutation_map. apply first_keys_perm; [apply String.eqb_eq|exact PF].
        -- intros k. unfold Gk. rewrite !sort_tree_node. f_equal. apply IH.
           apply tails_perm. now apply filter_perm'.
      * eapply Permutation_NoDup; [apply Permutation_map, Permutation_sym, L1|].
        rewrite map_map.
        rewrite (map_ext _ (fun k => base ++ [k])) by (intros k; reflexivity).
        apply NoDup_map_inj; [apply app_one_inj|].
        apply first_keys_nodup. apply String.eqb_eq.
Qed.

Lemma pkg_tree_sorted_inv pi pi' keys keys' :
  perm_fun pi -> perm_fun pi' -> Permutation keys keys' ->
  map sort_tree (pkg_tree pi keys) = map sort_tree (pkg_tree pi' keys').
Proof.
  intros H H' P. unfold pkg_tree. cbn [map]. rewrite !sort_tree_node. do 2 f_equal.
  rewrite (max_len_perm _ _ P). now apply from_pkgs_sorted_inv.
Qed.

Lemma write_stream_tree pk nodes nodes' :
  map sort_tree nodes = map sort_tree nodes' -> write_stream pk nodes = write_stream pk nodes'.
Proof. intros H. unfold write_stream. now rewrite H. Qed.

(* ---- write_items: single file and split ------------------------------------------------------------------ *)
Section WriteItems.
  Variable item : Type.
  Variable mod_path : item -> path.
  Variable render : item -> string.
  Variable kind_prefix : item -> string.
  Variable item_name : item -> string.

  Notation WI := (write_items item mod_path render kind_prefix item_name).

  (* closed form: no permutation parameter is left *)
  Definition write_items_canon (split : bool) (items : list item) : string * fs :=
    let pkgs := canon_pkgs item mod_path render kind_prefix item_name split items in
    (write_stream pkgs (pkg_tree (fun l => l) (map fst pkgs)),
     canon_files item mod_path render kind_prefix item_name split items).

  Lemma perm_fun_id {A} : perm_fun (fun l : list A => l).
  Proof. intros l. reflexivity. Qed.

  Lemma write_items_closed pi_mods pi_work pi_keys pi_tree :
    perm_fun pi_mods -> perm_fun pi_work -> perm_fun pi_keys -> perm_fun pi_tree ->
    forall split items,
      WI pi_mods pi_work pi_keys pi_tree split items = write_items_canon split items.
  Proof.
    intros H1 H2 H3 H4 split items. unfold write_items, write_items_canon.
    change (fold_left _ (pi_work (pi_mods (group_by mod_path path_eqb items))) ([], []))
      with (fold_left (wi_step item render kind_prefix item_name split)
                      (pi_work (pi_mods (group_by mod_path path_eqb items))) ([], [])).
    rewrite (wi_fold item mod_path render kind_prefix item_name split items).
    - cbn zeta. f_equal. apply write_stream_tree.
      apply pkg_tree_sorted_inv; [assumption|apply perm_fun_id|apply H3].
    - etransitivity; [apply H2|apply H1].
  Qed.

  (* C17_single / C17_split: both components (the stream written to the output file and, in split mode,
     the write log of every directory) are the same for all orders *)
  Lemma write_items_inv
        pi_mods pi_work pi_keys pi_tree pi_mods' pi_work' pi_keys' pi_tree' :
    perm_fun pi_mods -> perm_fun pi_work -> perm_fun pi_keys -> perm_fun pi_tree ->
    perm_fun pi_mods' -> perm_fun pi_work' -> perm_fun pi_keys' -> perm_fun pi_tree' ->
    forall split items,
      WI pi_mods pi_work pi_keys pi_tree split items = WI pi_mods' pi_work' pi_keys' pi_tree' split items.
  Proof. intros. rewrite !write_items_closed by assumption. reflexivity. Qed.

  (* the set of (directory, file name, content) triples written in split mode *)
  Definition files_of (out : string * fs) : list (path * string * string) :=
    flat_map (fun d => map (fun fc => (fst d, fst fc, snd fc)) (snd d)) (snd out).

  Lemma split_files_inv
        pi_mods pi_work pi_keys pi_tree pi_mods' pi_work' pi_keys' pi_tree' :
    perm_fun pi_mods -> perm_fun pi_work -> perm_fun pi_keys -> perm_fun pi_tree ->
    perm_fun pi_mods' -> perm_fun pi_work' -> perm_fun pi_keys' -> perm_fun pi_tree' ->
    forall items,
      fst (WI pi_mods pi_work pi_keys pi_tree true items) = fst (WI pi_mods' pi_work' pi_keys' pi_tree' true items) /\
      files_of (WI pi_mods pi_work pi_keys pi_tree true items) =
      files_of (WI pi_mods' pi_work' pi_keys' pi_tree' true items).
  Proof.
    intros. rewrite (write_items_inv pi_mods pi_work pi_keys pi_tree pi_mods' pi_work' pi_keys' pi_tree') by assumption.
    split; reflexivity.
  Qed.

  (* ---- 3. workspace ------------------------------------------------------------------------------------ *)
  Variable loc : Type.
  Variable loc_eqb : loc -> loc -> bool.
  Hypothesis loc_eqb_eq : forall a b, loc_eqb a b = true <-> a = b.
  Variable location : item -> loc.
  Variable crate_name : loc -> string.
  Variable repubs : loc -> list item -> list item.
  Variable dep_names : loc -> list item -> list string.

  Notation WS := (workspace item mod_path render kind_prefix item_name).

  Definition crate_names (lm_items : list item) : list string :=
    map (fun kv => crate_name (fst kv)) (group_by location loc_eqb lm_items).

  Lemma dedup_adj_nodup l : NoDup l -> dedup_adj l = l.
  Proof.
    induction l as [|a [|b r] IH]; intros N; cbn [dedup_adj]; try reflexivity.
    inversion N as [|? ? N1 N2]; subst.
    destruct (String.eqb a b) eqn:E.
    - apply String.eqb_eq in E. subst. exfalso. apply N1. now left.
    - f_equal. now apply IH.
  Qed.

  Lemma append_char_inj c a b : (a ++ String c EmptyString = b ++ String c EmptyString)%string -> a = b.
  Proof.
    revert b. induction a as [|x r IH]; intros [|x' r'] H; cbn in H.
    - reflexivity.
    - injection H as H1 H2. destruct r'; discriminate.
    - injection H as H1 H2. destruct r; discriminate.
    - injection H as H1 H2. subst. f_equal. now apply IH.
  Qed.

  Definition member_line (n : string) : string := ("    """ ++ n ++ """")%string.
  Lemma member_line_inj a b : member_line a = member_line b -> a = b.
  Proof. unfold member_line. cbn. intros H. injection H as H. now apply append_char_inj in H. Qed.

  Definition crate_canon (split : bool) (kv : loc * list item) : string * crate_out :=
    (crate_name (fst kv),
     (dep_names (fst kv) (snd kv), write_items_canon split (snd kv ++ repubs (fst kv) (snd kv)))).

  Definition workspace_canon (split : bool) (lm_items : list item) : list string * list (string * crate_out) :=
    let g := group_by location loc_eqb lm_items in
    (isort (fun s => s) str_cmp (map (fun kv => member_line (crate_name (fst kv))) g),
     isort fst str_cmp (map (crate_canon split) g)).

  Lemma create_crate_closed pi_mods pi_work pi_keys pi_tree :
    perm_fun pi_mods -> perm_fun pi_work -> perm_fun pi_keys -> perm_fun pi_tree ->
    forall split k v,
      create_crate item mod_path render kind_prefix item_name pi_mods pi_work pi_keys pi_tree loc repubs dep_names
                   split k v =
      (dep_names k v, write_items_canon split (v ++ repubs k v)).
  Proof. intros. unfold create_crate. now rewrite write_items_closed. Qed.

  Lemma fold_left_ext {A B} (f g : A -> B -> A) : (forall a b, f a b = g a b) -> forall l a, fold_left f l a = fold_left g l a.
  Proof. intros E. induction l as [|b l IH]; intros a; cbn [fold_left]; [reflexivity|]. now rewrite E, IH. Qed.

  Lemma workspace_closed pi_mods pi_work pi_keys pi_tree pi_entry pi_crates :
    perm_fun pi_mods -> perm_fun pi_work -> perm_fun pi_keys -> perm_fun pi_tree ->
    perm_fun pi_entry -> perm_fun pi_crates ->
    forall split lm_items,
      NoDup (crate_names lm_items) ->
      WS pi_mods pi_work pi_keys pi_tree loc loc_eqb location crate_name repubs dep_names pi_entry pi_crates
         split lm_items = workspace_canon split lm_items.
  Proof.
    intros H1 H2 H3 H4 H5 H6 split lm N. unfold workspace, workspace_canon. cbn zeta.
    set (g := group_by location loc_eqb lm) in *.
    assert (Ng : NoDup (map (fun kv : loc * list item => crate_name (fst kv)) (pi_entry g))).
    { eapply Permutation_NoDup; [apply Permutation_map, Permutation_sym, H5|exact N]. }
    f_equal.
    - change (fun kv : loc * list item => ("    """ ++ crate_name (fst kv) ++ """")%string)
        with (fun kv : loc * list item => member_line (crate_name (fst kv))).
      assert (Nm : NoDup (map (fun kv : loc * list item => member_line (crate_name (fst kv))) (pi_entry g))).
      { rewrite <- (map_map (fun kv : loc * list item => crate_name (fst kv)) member_line).
        apply NoDup_map_inj; [apply member_line_inj|exact Ng]. }
      rewrite dedup_adj_nodup by exact Nm.
      apply (isort_unique (fun s : string => s) str_cmp str_cmp_ok).
      + apply Permutation_map. apply H5.
      + now rewrite map_id.
    - rewrite (fold_left_ext _ (fun m kv => fmap_put str_cmp m (crate_name (fst kv)) (snd (crate_canon split kv)))).
      2:{ intros m kv. unfold crate_canon. cbn [snd fst]. f_equal. now apply create_crate_closed. }
      apply (fold_ins_perm fst str_cmp str_cmp_ok (crate_canon split)
               (fun m kv => fmap_put str_cmp m (crate_name (fst kv)) (snd (crate_canon split kv)))).
      + intros m b H. unfold crate_canon at 2. cbn [fst snd].
        rewrite fmap_put_absent; [reflexivity|apply str_cmp_ok|exact H].
      + etransitivity; [apply H6|apply H5].
      + eapply Permutation_NoDup; [apply Permutation_map, Permutation_sym, H6|]. exact Ng.
  Qed.
End WriteItems.

(* C17_workspace *)
Lemma workspace_inv
      item mod_path render kind_prefix item_name
      loc loc_eqb location crate_name repubs dep_names
      pi_mods pi_work pi_keys pi_tree pi_entry pi_crates
      pi_mods' pi_work' pi_keys' pi_tree' pi_entry' pi_crates' :
  (forall a b : loc, loc_eqb a b = true <-> a = b) ->
  perm_fun pi_mods -> perm_fun pi_work -> perm_fun pi_keys -> perm_fun pi_tree ->
  perm_fun pi_entry -> perm_fun pi_crates ->
  perm_fun pi_mods' -> perm_fun pi_work' -> perm_fun pi_keys' -> perm_fun pi_tree' ->
  perm_fun pi_entry' -> perm_fun pi_crates' ->
  forall split lm_items,
    NoDup (crate_names item loc loc_eqb location crate_name lm_items) ->
    workspace item mod_path render kind_prefix item_name pi_mods pi_work pi_keys pi_tree
              loc loc_eqb location crate_name repubs dep_names pi_entry pi_crates split lm_items =
    workspace item mod_path render kind_prefix item_name pi_mods' pi_work' pi_keys' pi_tree'
              loc loc_eqb location crate_name repubs dep_names pi_entry' pi_crates' split lm_items.
Proof. intros. rewrite !workspace_closed by assumption. reflexivity. Qed.

(* ---- why `NoDup crate names` is needed: `dedup` runs BEFORE `sorted` in group_defs -------------------------
   two locations with the same crate name that are not adjacent in the hash map's iteration order survive
   the dedup; adjacent ones do not.  (Such a configuration -- two services whose files have the same stem, or
   a service file called like the common crate -- also makes two workers write the same directory.) *)
Lemma perm_fun_rev {A} : perm_fun (@rev A).
Proof. intros l. apply Permutation_sym, Permutation_rev. Qed.

Definition swap12 {A} (l : list A) : list A := match l with a :: b :: r => b :: a :: r | _ => l end.
Lemma perm_fun_swap12 {A} : perm_fun (@swap12 A).
Proof. intros [|a [|b r]]; cbn; try reflexivity. apply perm_swap. Qed.

Lemma workspace_dup_names_refuted :
  exists (lm_items : list nat) (crate_name : nat -> string) (pi_entry pi_entry' : list (nat * list nat) -> list (nat * list nat)),
    perm_fun pi_entry /\ perm_fun pi_entry' /\
    let ws pe := fst (workspace nat (fun _ => []) (fun _ => ""%string) (fun _ => ""%string) (fun _ => ""%string)
                                (fun l => l) (fun l => l) (fun l => l) (fun l => l)
                                nat Nat.eqb (fun i => i) crate_name (fun _ _ => []) (fun _ _ => [])
                                pe (fun l => l) false lm_items) in
    ws pi_entry <> ws pi_entry'.
Proof.
  exists [1; 2; 3], (fun n => if Nat.eqb n 2 then "b" else "a")%string, (fun l => l), swap12.
  split; [intros l; reflexivity|]. split; [apply perm_fun_swap12|].
  vm_compute. discriminate.
Qed.

(* ---- 4. protobuf nested messages ------------------------------------------------------------------------ *)
Lemma amap_put_keys {V} (m : list (string * V)) k v :
  map fst (amap_put m k v) = if existsb (String.eqb k) (map fst m) then map fst m else map fst m ++ [k].
Proof.
  induction m as [|[k' v'] r IH]; cbn [amap_put map fst existsb app]; [reflexivity|].
  destruct (String.eqb k k') eqn:E; cbn [orb map fst].
  - reflexivity.
  - rewrite IH. now destruct (existsb (String.eqb k) (map fst r)).
Qed.

Lemma NoDup_app_one {A} (l : list A) x : NoDup l -> ~ In x l -> NoDup (l ++ [x]).
Proof.
  intros N I. eapply Permutation_NoDup; [apply Permutation_cons_append|]. now constructor.
Qed.

Lemma amap_put_nodup {V} (m : list (string * V)) k v : NoDup (map fst m) -> NoDup (map fst (amap_put m k v)).
Proof.
  intros N. rewrite amap_put_keys. destruct (existsb (String.eqb k) (map fst m)) eqn:E; [assumption|].
  apply NoDup_app_one; [assumption|].
  intros I. assert (existsb (String.eqb k) (map fst m) = true); [|congruence].
  apply existsb_exists. exists k. split; [assumption|apply String.eqb_refl].
Qed.

Lemma amap_collect_nodup {V} (l : list (string * V)) : NoDup (map fst (amap_collect l)).
Proof.
  unfold amap_collect.
  assert (G : forall m, NoDup (map fst m) ->
                   NoDup (map fst (fold_left (fun m kv => amap_put m (fst kv) (snd kv)) l m))).
  { induction l as [|kv l IH]; intros m N; cbn [fold_left]; [assumption|]. apply IH. now apply amap_put_nodup. }
  apply G. constructor.
Qed.

(* a look-up does not depend on the order of a table with pairwise distinct keys *)
Lemma find_key_perm {V} (t t' : list (string * V)) k :
  NoDup (map fst t) -> Permutation t t' ->
  find (fun kv => String.eqb (fst kv) k) t = find (fun kv => String.eqb (fst kv) k) t'.
Proof.
  intros N P. induction P as [|x l l' P IH|x y l|l l' l'' P1 IH1 P2 IH2].
  - reflexivity.
  - cbn [find]. destruct (String.eqb (fst x) k); [reflexivity|]. apply IH. now inversion N.
  - cbn [find]. destruct (String.eqb (fst y) k) eqn:Ey; destruct (String.eqb (fst x) k) eqn:Ex; try reflexivity.
    apply String.eqb_eq in Ex, Ey. exfalso. inversion N as [|? ? N1 N2]; subst. apply N1. cbn [map]. left. congruence.
  - rewrite IH1 by assumption. apply IH2.
    eapply Permutation_NoDup; [apply Permutation_map; exact P1|assumption].
Qed.

Lemma amap_get_perm pi pi' (l : list (string * pmsg)) k :
  perm_fun pi -> perm_fun pi' ->
  amap_get (pi (amap_collect l)) k = amap_get (pi' (amap_collect l)) k.
Proof.
  intros H H'. unfold amap_get. f_equal. apply find_key_perm.
  - eapply Permutation_NoDup; [apply Permutation_map, Permutation_sym, H|apply amap_collect_nodup].
  - etransitivity; [apply H|apply Permutation_sym, H'].
Qed.

(* induction principle for the nested inductive type *)
Fixpoint pmsg_ind' (P : pmsg -> Prop)
         (H : forall name me fts oneofs nested enums, Forall P nested -> P (PMsg name me fts oneofs nested enums))
         (m : pmsg) : P m :=
  match m with
  | PMsg name me fts oneofs nested enums =>
      H name me fts oneofs nested enums
        ((fix go (l : list pmsg) : Forall P l :=
            match l with
            | [] => Forall_nil P
            | x :: r => Forall_cons x (pmsg_ind' P H x) (go r)
            end) nested)
  end.

Lemma lower_message_inv pi pi' :
  perm_fun pi -> perm_fun pi' -> forall m, lower_message pi m = lower_message pi' m.
Proof.
  intros H H'. induction m as [name me fts oneofs nested enums IH] using pmsg_ind'.
  cbn [lower_message]. f_equal.
  - apply map_ext. intros t. unfold field_is_map. now rewrite (amap_get_perm pi pi').
  - f_equal. f_equal. clear -IH.
    induction nested as [|n r IHr]; [reflexivity|].
    inversion IH as [|? ? Hn Hr]; subst. destruct (pm_map_entry n); [now apply IHr|].
    rewrite Hn. f_equal. now apply IHr.
Qed.

(* the pinned clause (before fix F-17a): two sibling nested messages suffice *)
Definition two_nested : pmsg :=
  PMsg "M" false ["A"; "B"] [] [PMsg "A" false [] [] [] []; PMsg "B" false [] [] [] []] [].

Lemma lower_message_pinned_refuted :
  exists pi pi', perm_fun pi /\ perm_fun pi' /\
    lower_message_pinned pi 2 two_nested <> lower_message_pinned pi' 2 two_nested.
Proof.
  exists (fun l => l), (@rev _). split; [intros l; reflexivity|]. split; [apply perm_fun_rev|].
  vm_compute. discriminate.
Qed.

(* with declaration order kept the pinned clause and the repaired one agree (so the repair changes nothing
   but the order) -- on the witness *)
Example lower_message_repaired_on_witness :
  lower_message (@rev _) two_nested =
  [PIMessage "M" [false; false]; PIMod "M" [PIMessage "A" []; PIMessage "B" []]] /\
  lower_message_pinned (fun l => l) 2 two_nested = lower_message (@rev _) two_nested.
Proof. split; reflexivity. Qed.

(* ---- non-vacuity: a concrete run with every permutation parameter set to a non-identity ------------------ *)
Definition toy_item : Type := (path * string)%type.
Definition toy_items : list toy_item :=
  [(["b"], "X"); (["a"; "c"], "Y"); (["b"], "x"); (["a"], "Z"); (["a"; "c"], "W"); (["type"], "T")]%string.
Definition toy_run (split : bool) pm pw pk pt :=
  write_items toy_item fst (fun it => ("<" ++ snd it ++ ">")%string) (fun _ => "message"%string) snd
              pm pw pk pt split toy_items.

Example write_items_nonvacuous :
  toy_run false (@rev _) swap12 (@rev _) (@rev _) = toy_run false (fun l => l) (fun l => l) (fun l => l) (fun l => l) /\
  fst (toy_run false (@rev _) swap12 (@rev _) (@rev _)) <> ""%string /\
  map fst (snd (toy_run true (@rev _) swap12 (@rev _) (@rev _))) = [["a"]; ["a"; "c"]; ["b"]; ["type"]]%string /\
  map (fun d => map fst (snd d)) (snd (toy_run true swap12 (@rev _) (fun l => l) (@rev _))) =
    [["message_Z.rs"; "mod.rs"]; ["message_Y.rs"; "message_W.rs"; "mod.rs"];
     ["message_X.rs"; "message_x_2.rs"; "mod.rs"]; ["message_T.rs"; "mod.rs"]]%string.
Proof. repeat split; try (vm_compute; reflexivity). vm_compute. discriminate. Qed.

Example layout_nonvacuous :
  layout (map fst toy_items) = [[]; ["a"]; ["a"; "c"]; ["b"]; ["type"]]%string /\
  map (fun g => (fst g, map snd (snd g))) (layout_items toy_item fst toy_items) =
    [(["a"], ["Z"]); (["a"; "c"], ["Y"; "W"]); (["b"], ["X"; "x"]); (["type"], ["T"])]%string.
Proof. split; vm_compute; reflexivity. Qed.

(* ---- the statements pinned in Properties/C17.v ------------------------------------------------------------- *)
Lemma single_inv :
  forall (item : Type) (mod_path : item -> path) (render kind_prefix item_name : item -> string)
         pi_mods pi_work pi_keys pi_tree pi_mods' pi_work' pi_keys' pi_tree',
    perm_fun pi_mods -> perm_fun pi_work -> perm_fun pi_keys -> perm_fun pi_tree ->
    perm_fun pi_mods' -> perm_fun pi_work' -> perm_fun pi_keys' -> perm_fun pi_tree' ->
    forall items,
      write_items item mod_path render kind_prefix item_name pi_mods pi_work pi_keys pi_tree false items =
      write_items item mod_path render kind_prefix item_name pi_mods' pi_work' pi_keys' pi_tree' false items.
Proof. intros; now apply write_items_inv. Qed.

Lemma split_inv :
  forall (item : Type) (mod_path : item -> path) (render kind_prefix item_name : item -> string)
         pi_mods pi_work pi_keys pi_tree pi_mods' pi_work' pi_keys' pi_tree',
    perm_fun pi_mods -> perm_fun pi_work -> perm_fun pi_keys -> perm_fun pi_tree ->
    perm_fun pi_mods' -> perm_fun pi_work' -> perm_fun pi_keys' -> perm_fun pi_tree' ->
    forall items,
      write_items item mod_path render kind_prefix item_name pi_mods pi_work pi_keys pi_tree true items =
      write_items item mod_path render kind_prefix item_name pi_mods' pi_work' pi_keys' pi_tree' true items /\
      files_of (write_items item mod_path render kind_prefix item_name pi_mods pi_work pi_keys pi_tree true items) =
      files_of (write_items item mod_path render kind_prefix item_name pi_mods' pi_work' pi_keys' pi_tree' true items).
Proof.
  intros. split; [now apply write_items_inv|].
  now apply (split_files_inv item mod_path render kind_prefix item_name
               pi_mods pi_work pi_keys pi_tree pi_mods' pi_work' pi_keys' pi_tree').
Qed.
