(* C18_unknown at every nesting level: an unknown record inserted at a record boundary of the body of an embedded
   message -- reached through any chain of singular / optional / repeated / oneof message fields, with arbitrary
   records before and after at every level -- does not change the outcome of Message::decode, provided the
   recursion budget left at that level covers the record (F-18a is the failure of exactly this side condition).
   The insertion changes the length prefixes of all enclosing records; the proof lifts an interchangeability
   relation on record sequences through one enclosing record at a time. *)
From PVPb Require Import Msg Proofs.BitsP Proofs.VarintP Proofs.WireP Proofs.CastP Proofs.CodecP Proofs.TotalP Proofs.DepthP
  Proofs.ShapeP Proofs.MergeP Proofs.MergeCor.
From Coq Require Import ZifyN ZifyNat ZifyBool.
Open Scope Z_scope.

(* equal outcomes: same value and same reader state, or the same error class (the state an error leaves behind
   is where it was detected, which differs when bytes were inserted), or the same panic site *)
Definition oeq {A} (r r' : out A) : Prop :=
  match r, r' with
  | OOk v s, OOk v' s' => v = v' /\ s = s'
  | OErr e _, OErr e' _ => e = e'
  | OPanic p, OPanic p' => p = p'
  | _, _ => False
  end.

Lemma oeq_refl {A} (r : out A) : oeq r r.
Proof. destruct r; cbn; auto. Qed.

Lemma oeq_of_eq {A} (r r' : out A) : r = r' -> oeq r r'.
Proof. intros ->. apply oeq_refl. Qed.

Lemma oeq_trans {A} (r1 r2 r3 : out A) : oeq r1 r2 -> oeq r2 r3 -> oeq r1 r3.
Proof. destruct r1, r2, r3; cbn; try tauto; try congruence. intros [-> ->] [-> ->]. auto. Qed.

Lemma oeq_bind_same {A B} (m m' : M A) (f : A -> M B) s s' : oeq (m s) (m' s') -> oeq (bind m f s) (bind m' f s').
Proof.
  unfold bind. destruct (m s) as [v s1|e s1|p], (m' s') as [v' s1'|e' s1'|p']; cbn; try tauto.
  intros [-> ->]. apply oeq_refl.
Qed.

(* a version of the left-fold lemma for record loops that stop at a limit *)
Lemma while_remaining_concat_lim {T} (body : T -> M T) :
  (forall v, framed (body v)) -> (forall v s, sound_prog s (body v s)) ->
  forall f v b a x s1 e limit f' f'',
    while_remaining f 0 body v (mkR b a) = OOk x s1 -> (limit <= length e)%nat ->
    (length (b ++ e) < f')%nat -> (length e < f'')%nat ->
    while_remaining f' limit body v (mkR (b ++ e) a) = while_remaining f'' limit body x (mkR e (ra s1)).
Proof.
  intros Hfr Hb. induction f as [|f IH]; intros v b a x s1 e limit f' f'' H Hl H1 H2.
  - cbn [while_remaining rb] in H. destruct (Nat.ltb_spec 0 (length b)); [discriminate H|]. inversion H; subst.
    destruct b; [|cbn in *; lia]. cbn [app ra]. apply while_remaining_fuel; auto.
  - cbn [while_remaining rb] in H. destruct (Nat.ltb_spec 0 (length b)).
    + destruct f' as [|f']; [lia|]. cbn [while_remaining rb]. rewrite app_length in *.
      replace (Nat.ltb limit (length b + length e)) with true by (symmetry; apply Nat.ltb_lt; lia).
      unfold bind in H |- *. destruct (body v (mkR b a)) as [v1 s2|e1 s2|p] eqn:E; try discriminate H.
      pose proof (Hb v (mkR b a)) as Hp. rewrite E in Hp. cbn in Hp. unfold st_lt in Hp. cbn [rb] in Hp.
      rewrite (rd_eta s2) in E, H. rewrite (Hfr v _ _ _ _ _ e E).
      apply (IH v1 (rb s2) (ra s2) x s1 e limit f' f'' H Hl); [rewrite app_length; lia|exact H2].
    + inversion H; subst. destruct b; [|cbn in *; lia]. cbn [app ra]. apply while_remaining_fuel; auto.
Qed.

Section Nested.
  Variable sc : schema.
  Hypothesis Hs : schema_ok sc = true.

  (* the body of the record loop of message #j at depth budget d and recursion budget c *)
  Definition rbody (d : nat) (j : nat) (c : Z) : val -> M val :=
    fun x => let+ (tag, wt) := decode_key in merge_field d sc j x tag wt c.

  Lemma rbody_framed d j c x : framed (rbody d j c x).
  Proof. unfold rbody. apply framed_bind; [apply framed_decode_key|]. intros [tag wt]. apply framed_merge_field. Qed.

  Lemma rbody_prog d j c x s : 0 <= c <= recursion_limit -> c < Z.of_nat d -> sound_prog s (rbody d j c x s).
  Proof.
    intros Hc Hd. unfold rbody. apply sound_prog_bind_l; [apply sound_prog_decode_key|]. intros [tag wt] s' _.
    apply merge_field_sound; assumption.
  Qed.

  Lemma rbody_shaped d j c x s : shaped sc j x -> nit (shaped sc j) (rbody d j c x s).
  Proof.
    intros Hx. unfold rbody. eapply nit_bind; [apply nit_decode_key|]. intros [tag wt] s' _.
    apply merge_field_shaped; assumption.
  Qed.

  (* b and b' are interchangeable as a stretch of the body of message #j *)
  Definition seq_eq (d : nat) (j : nat) (c : Z) (b b' : list byte) : Prop :=
    forall x tail a limit f f', shaped sc j x -> (limit <= length tail)%nat ->
      (length (b ++ tail) < f)%nat -> (length (b' ++ tail) < f')%nat ->
      oeq (while_remaining f limit (rbody d j c) x (mkR (b ++ tail) a))
          (while_remaining f' limit (rbody d j c) x (mkR (b' ++ tail) a)).

  (* R and R' are interchangeable as one record of message #j *)
  Definition rec_eq (d : nat) (j : nat) (c : Z) (R R' : list byte) : Prop :=
    forall x tail a, shaped sc j x -> oeq (rbody d j c x (mkR (R ++ tail) a)) (rbody d j c x (mkR (R' ++ tail) a)).

  (* b1 is a sequence of complete records of message #j that merge successfully into every value of that message *)
  Definition runs (d : nat) (j : nat) (c : Z) (b1 : list byte) : Prop :=
    forall x a, shaped sc j x -> exists x' a', while_remaining (S (length b1)) 0 (rbody d j c) x (mkR b1 a) = OOk x' (mkR [] a').

  Lemma runs_shaped d j c b1 x a x' s' : shaped sc j x ->
    while_remaining (S (length b1)) 0 (rbody d j c) x (mkR b1 a) = OOk x' s' -> shaped sc j x'.
  Proof.
    intros Hx H. pose proof (nit_while (shaped sc j) (rbody d j c) 0 (fun v s Hv => rbody_shaped d j c v s Hv) (S (length b1)) x (mkR b1 a) Hx) as N.
    rewrite H in N. exact N.
  Qed.

  (* ---------------------------------------------------------------- base: the unknown record itself *)
  Lemma seq_eq_unknown d j (fs : msgdesc) c b1 b2 t u :
    nth_error sc j = Some fs -> find_field fs t = None -> tag_ok t -> uwf u -> ulevels u <= c <= recursion_limit ->
    c < Z.of_nat (S d) -> runs (S d) j c b1 ->
    seq_eq (S d) j c (b1 ++ urecord t u ++ b2) (b1 ++ b2).
  Proof.
    intros Hn Hf Ht Hu Hc Hd Hr x tail a limit f f' Hx Hl H1 H2.
    destruct (Hr x a Hx) as (x' & a' & E). pose proof (runs_shaped _ _ _ _ _ _ _ _ Hx E) as Hx'.
    pose proof (ulevels_pos u) as Hpos.
    assert (Hprog : forall v s, sound_prog s (rbody (S d) j c v s)) by (intros; apply rbody_prog; [lia|exact Hd]).
    rewrite <- !app_assoc in *.
    rewrite (while_remaining_concat_lim (rbody (S d) j c) (rbody_framed _ _ _) Hprog
               _ _ _ _ _ _ (urecord t u ++ b2 ++ tail) limit f (S (length (urecord t u ++ b2 ++ tail))) E);
      [|rewrite !app_length; lia|exact H1|lia].
    rewrite (while_remaining_concat_lim (rbody (S d) j c) (rbody_framed _ _ _) Hprog
               _ _ _ _ _ _ (b2 ++ tail) limit f' (S (length (b2 ++ tail))) E);
      [|rewrite !app_length; lia|exact H2|lia].
    cbn [ra]. inversion Hx' as [j0 fs' xs Hn' Hsf]; subst. rewrite Hn in Hn'. inversion Hn'; subst fs'.
    apply oeq_of_eq. unfold rbody.
    apply (record_loop_unknown d sc j fs xs t u c (b2 ++ tail) a' limit); auto; rewrite ?app_length in *; lia.
  Qed.

  (* ---------------------------------------------------------------- a record replaced inside a sequence *)
  Lemma seq_eq_record d j c b1 b2 R R' :
    0 <= c <= recursion_limit -> c < Z.of_nat d -> R <> [] -> R' <> [] ->
    runs d j c b1 -> rec_eq d j c R R' -> seq_eq d j c (b1 ++ R ++ b2) (b1 ++ R' ++ b2).
  Proof.
    intros Hc Hd HR HR' Hr Heq x tail a limit f f' Hx Hl H1 H2.
    destruct (Hr x a Hx) as (x' & a' & E). pose proof (runs_shaped _ _ _ _ _ _ _ _ Hx E) as Hx'.
    assert (Hprog : forall v s, sound_prog s (rbody d j c v s)) by (intros; apply rbody_prog; assumption).
    rewrite <- !app_assoc in *.
    rewrite (while_remaining_concat_lim (rbody d j c) (rbody_framed _ _ _) Hprog
               _ _ _ _ _ _ (R ++ b2 ++ tail) limit f (S (length (R ++ b2 ++ tail))) E);
      [|rewrite !app_length; lia|exact H1|lia].
    rewrite (while_remaining_concat_lim (rbody d j c) (rbody_framed _ _ _) Hprog
               _ _ _ _ _ _ (R' ++ b2 ++ tail) limit f' (S (length (R' ++ b2 ++ tail))) E);
      [|rewrite !app_length; lia|exact H2|lia].
    cbn [ra while_remaining rb]. rewrite !app_length.
    replace (Nat.ltb limit (length R + (length b2 + length tail))) with true
      by (symmetry; apply Nat.ltb_lt; destruct R; [congruence|cbn [length]; lia]).
    replace (Nat.ltb limit (length R' + (length b2 + length tail))) with true
      by (symmetry; apply Nat.ltb_lt; destruct R'; [congruence|cbn [length]; lia]).
    specialize (Heq x' (b2 ++ tail) a' Hx').
    pose proof (rbody_prog d j c x' (mkR (R ++ b2 ++ tail) a') Hc Hd) as P1.
    pose proof (rbody_prog d j c x' (mkR (R' ++ b2 ++ tail) a') Hc Hd) as P2.
    unfold bind.
    destruct (rbody d j c x' (mkR (R ++ b2 ++ tail) a')) as [v s2|e s2|p],
             (rbody d j c x' (mkR (R' ++ b2 ++ tail) a')) as [v' s2'|e' s2'|p']; cbn in Heq; try tauto; try (cbn; exact Heq).
    destruct Heq as [-> ->]. apply oeq_of_eq.
    cbn in P1, P2. unfold st_lt in P1, P2. cbn [rb] in P1, P2. rewrite !app_length in P1, P2.
    apply while_remaining_fuel; [intros; apply rbody_prog; assumption|lia|lia].
  Qed.

  (* ---------------------------------------------------------------- lifting through one enclosing record *)
  Lemma message_merge_seq d k c B B' cur tail a :
    1 <= c -> zlen B < two64 -> zlen B' < two64 -> shaped sc k cur -> seq_eq d k (c - 1) B B' ->
    oeq (message_merge (merge_field d sc k) LengthDelimited cur c (mkR (encode_varint (zlen B) ++ B ++ tail) a))
        (message_merge (merge_field d sc k) LengthDelimited cur c (mkR (encode_varint (zlen B') ++ B' ++ tail) a)).
  Proof.
    intros Hc HB HB' Hcur Hseq. unfold message_merge.
    rewrite !(bind_ok _ _ _ _ _ (check_wire_type_same _ _)).
    rewrite !(bind_ok _ _ _ _ _ (limit_ok c _ ltac:(lia))).
    rewrite !(bind_ok _ _ _ _ _ (enter_ok c _ Hc)).
    unfold merge_loop. pose proof (zlen_nonneg B). pose proof (zlen_nonneg B').
    rewrite (bind_ok _ _ _ _ _ (decode_varint_rt (zlen B) _ a ltac:(lia))).
    rewrite (bind_ok _ _ _ _ _ (decode_varint_rt (zlen B') _ a ltac:(lia))).
    rewrite !(bind_ok _ _ _ _ _ (remaining_eq _)). cbn [rb]. rewrite !app_length.
    replace (Z.of_nat (length B + length tail) <? zlen B) with false by (unfold zlen; lia).
    replace (Z.of_nat (length B' + length tail) <? zlen B') with false by (unfold zlen; lia).
    replace (length B + length tail - Z.to_nat (zlen B))%nat with (length tail) by (unfold zlen; lia).
    replace (length B' + length tail - Z.to_nat (zlen B'))%nat with (length tail) by (unfold zlen; lia).
    apply oeq_bind_same. unfold while_rem. rewrite !(bind_ok _ _ _ _ _ (remaining_eq _)). cbn [rb].
    apply (Hseq cur tail a (length tail)); [exact Hcur|lia|lia|lia].
  Qed.

  Lemma locate_find_field : forall fs xs t f xf kk, locate fs xs t = Some (f, xf, kk) -> find_field fs t = Some f.
  Proof.
    induction fs as [|f0 fs IH]; intros xs t f xf kk H; cbn [locate] in H; [discriminate|].
    destruct xs as [|x0 xs]; [discriminate|]. cbn [find_field].
    destruct (existsb (Z.eqb t) (field_tags f0)); [inversion H; reflexivity|].
    destruct (locate fs xs t) as [[[f' x1] k']|] eqn:E; [|discriminate]. inversion H; subst. eapply IH; eauto.
  Qed.

  Lemma locate_shaped : forall fs xs t f xf kk, shaped_fields sc fs xs -> locate fs xs t = Some (f, xf, kk) ->
    shaped_field sc f xf /\ In f fs.
  Proof.
    induction fs as [|f0 fs IH]; intros xs t f xf kk Hsf H; cbn [locate] in H; [discriminate|].
    destruct xs as [|x0 xs]; [discriminate|]. inversion Hsf; subst.
    destruct (existsb (Z.eqb t) (field_tags f0)); [inversion H; subst; split; [assumption|left; reflexivity]|].
    destruct (locate fs xs t) as [[[f' x1] k']|] eqn:E; [|discriminate]. inversion H; subst.
    destruct (IH _ _ _ _ _ H5 E). split; [assumption|right; assumption].
  Qed.

  Lemma merge_in_fields_unlocated rec dflt tag wt ctx s : forall fs xs, locate fs xs tag = None ->
    merge_in_fields rec dflt fs xs tag wt ctx s = (let+ _ := skip_field depth_fuel wt tag ctx in ret xs) s.
  Proof.
    induction fs as [|f fs IH]; intros xs H; cbn [locate] in H; cbn [merge_in_fields]; [reflexivity|].
    destruct xs as [|x xs]; [reflexivity|]. destruct (existsb (Z.eqb tag) (field_tags f)); [discriminate|].
    destruct (locate fs xs tag) as [[[f' x1] k']|] eqn:E; [discriminate|].
    unfold bind at 1. rewrite IH by exact E. unfold bind. destruct (skip_field depth_fuel wt tag ctx s); reflexivity.
  Qed.

  Definition embed (t : Z) (B : list byte) : list byte := encode_key t LengthDelimited ++ encode_varint (zlen B) ++ B.

  Lemma embed_nonempty t B : embed t B <> [].
  Proof. unfold embed. intros H. apply app_eq_nil in H. destruct H as [H _]. exact (encode_key_nonempty _ _ H). Qed.

  Lemma rec_eq_embed d j (fs : msgdesc) f k c t B B' :
    nth_error sc j = Some fs -> find_field fs t = Some f -> child_msg f t = Some k -> tag_ok t ->
    1 <= c <= recursion_limit -> zlen B < two64 -> zlen B' < two64 ->
    seq_eq d k (c - 1) B B' -> rec_eq (S d) j c (embed t B) (embed t B').
  Proof.
    intros Hn Hff Hch Ht Hc HB HB' Hseq x tail a Hx. unfold rbody, embed. rewrite <- !app_assoc.
    rewrite !(bind_ok _ _ _ _ _ (decode_key_rt t LengthDelimited _ a Ht)).
    inversion Hx as [j0 fs' xs Hn' Hsf]; subst. rewrite Hn in Hn'. inversion Hn'; subst fs'.
    cbn [merge_field]. rewrite Hn. apply oeq_bind_same.
    destruct (locate fs xs t) as [[[f' xf] kk]|] eqn:El.
    - pose proof (locate_find_field _ _ _ _ _ _ El) as Hff'. rewrite Hff in Hff'. inversion Hff'; subst f'.
      destruct (locate_shaped _ _ _ _ _ _ Hsf El) as [Hxf Hin].
      rewrite !(merge_in_fields_located _ _ _ _ _ _ _ _ _ _ _ El). apply oeq_bind_same.
      assert (Hfok : field_ok sc f = true).
      { pose proof (schema_ok_fields sc j fs Hs Hn) as Hall. rewrite forallb_forall in Hall. apply Hall; exact Hin. }
      assert (Hd : forall ty, ty_ok sc ty = true -> shaped_ty sc ty (default_ty d sc ty)) by (intros; apply default_ty_shaped; assumption).
      destruct f as [t0 ty|t0 ty|t0 ty|t0 kp vt|ms]; cbn [child_msg] in Hch; try discriminate Hch.
      + destruct ty as [p|k']; [discriminate|]. inversion Hch; subst k'. cbn [merge_fieldval merge_ty].
        inversion Hxf as [? ? ? Hty| | | | |]; subst. inversion Hty; subst.
        apply message_merge_seq; auto; lia.
      + destruct ty as [p|k']; [discriminate|]. inversion Hch; subst k'. cbn [merge_fieldval merge_ty]. cbn [field_ok] in Hfok.
        apply oeq_bind_same.
        assert (Hcur : shaped sc k (match xf with VL NSome [v] => v | _ => default_ty d sc (TMsg k) end)).
        { pose proof (Hd _ Hfok) as Hdf. inversion Hdf; subst.
          inversion Hxf as [|? ? ? Hty|? ? ? Hno| | |]; subst; [inversion Hty; subst; assumption|].
          destruct xf as [z|l|kd l]; try assumption. destruct kd; try assumption.
          destruct l as [|v [|w l]]; try assumption. exfalso. eapply Hno; reflexivity. }
        apply message_merge_seq; auto; lia.
      + destruct ty as [p|k']; [discriminate|]. inversion Hch; subst k'. cbn [merge_fieldval]. cbn [field_ok] in Hfok.
        inversion Hxf; subst. apply oeq_bind_same. cbn [merge_rep].
        rewrite !(bind_ok _ _ _ _ _ (check_wire_type_same _ _)). apply oeq_bind_same.
        pose proof (Hd _ Hfok) as Hdf. inversion Hdf; subst.
        apply message_merge_seq; auto; lia.
      + cbn [merge_fieldval]. unfold merge_oneof. cbn [field_ok] in Hfok.
        destruct (find_member ms t 0) as [[idx ty]|] eqn:Ef; [|discriminate]. destruct ty as [p|k']; [discriminate|].
        inversion Hch; subst k'. apply oeq_bind_same. cbn [merge_ty].
        assert (Hty : ty_ok sc (TMsg k) = true).
        { clear -Hfok Ef. revert Ef. generalize 0%nat. induction ms as [|[t0 ty0] ms IH]; intros k0 Ef; cbn [find_member] in Ef; [discriminate|].
          cbn [forallb] in Hfok. apply andb_prop in Hfok. destruct Hfok as [H0 H1]. destruct (t0 =? t).
          - inversion Ef; subst. exact H0.
          - eapply IH; eauto. }
        assert (Hcur : shaped sc k (match xf with VL (NOne j1) [v] => if Nat.eqb j1 idx then v else default_ty d sc (TMsg k) | _ => default_ty d sc (TMsg k) end)).
        { pose proof (Hd _ Hty) as Hdf. inversion Hdf; subst. inversion Hxf as [| | | | |? ? Hone]; subst.
          destruct xf as [z|l|kd l]; try assumption. destruct kd; try assumption.
          destruct l as [|v [|w l]]; try assumption.
          destruct (Nat.eqb_spec idx0 idx); [|assumption]. subst.
          pose proof (Hone idx v t (TMsg k) eq_refl Ef) as Hv. inversion Hv; subst. assumption. }
        apply message_merge_seq; auto; lia.
    - (* the value has fewer slots than the struct (never the case for decoded values): the record is skipped *)
      rewrite !(merge_in_fields_unlocated _ _ _ _ _ _ _ _ El).
      pose proof (skip_field_exact (ULen B) t c depth_fuel tail a) as S1.
      pose proof (skip_field_exact (ULen B') t c depth_fuel tail a) as S2.
      cbn [uwf wt_of enc_upay ulevels] in S1, S2. rewrite <- !app_assoc in S1, S2.
      rewrite (bind_ok _ _ _ _ _ (S1 HB Ht ltac:(lia) ltac:(unfold depth_fuel; lia))).
      rewrite (bind_ok _ _ _ _ _ (S2 HB' Ht ltac:(lia) ltac:(unfold depth_fuel; lia))).
      apply oeq_refl.
  Qed.

  (* ---------------------------------------------------------------- any number of enclosing records *)
  (* one enclosing level: the records before, the field number of the embedded message, the records after *)
  Definition level : Type := (list byte * Z * list byte)%type.

  Fixpoint wrap (ls : list level) (inner : list byte) : list byte :=
    match ls with
    | [] => inner
    | (pre, t, post) :: more => pre ++ embed t (wrap more inner) ++ post
    end.

  (* the schema allows the chain, and at every level the records before the embedded one are complete and merge *)
  Fixpoint chain (d : nat) (j : nat) (c : Z) (ls : list level) (jn : nat) {struct ls} : Prop :=
    match ls with
    | [] => jn = j
    | (pre, t, post) :: more =>
        match d with
        | O => False
        | S d' => tag_ok t /\ runs (S d') j c pre /\
                  exists fs f k, nth_error sc j = Some fs /\ find_field fs t = Some f /\ child_msg f t = Some k /\
                                 chain d' k (c - 1) more jn
        end
    end.

  Fixpoint sizes_ok (ls : list level) (inner : list byte) : Prop :=
    match ls with
    | [] => True
    | (_, _, _) :: more => zlen (wrap more inner) < two64 /\ sizes_ok more inner
    end.

  Theorem seq_eq_wrap : forall ls d j c jn B B',
    chain d j c ls jn -> Z.of_nat (length ls) <= c <= recursion_limit -> c < Z.of_nat d ->
    sizes_ok ls B -> sizes_ok ls B' ->
    seq_eq (d - length ls) jn (c - Z.of_nat (length ls)) B B' -> seq_eq d j c (wrap ls B) (wrap ls B').
  Proof.
    induction ls as [|[[pre t] post] ls IH]; intros d j c jn B B' Hch Hc Hd Hz Hz' Hseq.
    - cbn [chain] in Hch. subst jn. cbn [wrap length] in *. rewrite Nat.sub_0_r, Z.sub_0_r in Hseq. exact Hseq.
    - cbn [chain] in Hch. destruct d as [|d]; [contradiction|].
      destruct Hch as (Ht & Hr & fs & f & k & Hn & Hff & Hck & Hrest). cbn [length] in *. cbn [sizes_ok] in Hz, Hz'.
      cbn [wrap]. apply seq_eq_record; [lia|exact Hd|apply embed_nonempty|apply embed_nonempty|exact Hr|].
      eapply rec_eq_embed; eauto; try tauto; try lia.
      apply (IH d k (c - 1) jn B B' Hrest); [lia|lia|tauto|tauto|].
      replace (S d - S (length ls))%nat with (d - length ls)%nat in Hseq by lia.
      replace (c - 1 - Z.of_nat (length ls)) with (c - Z.of_nat (S (length ls))) by lia. exact Hseq.
  Qed.

  (* C18_unknown at every nesting level *)
  Theorem unknown_insert_nested i ls jn (fs : msgdesc) b1 b2 t u a :
    chain depth_fuel i ctx_default ls jn -> nth_error sc jn = Some fs -> find_field fs t = None -> tag_ok t -> uwf u ->
    ulevels u <= recursion_limit - Z.of_nat (length ls) ->
    runs (depth_fuel - length ls) jn (ctx_default - Z.of_nat (length ls)) b1 ->
    sizes_ok ls (b1 ++ urecord t u ++ b2) -> sizes_ok ls (b1 ++ b2) -> (i < length sc)%nat ->
    oeq (msg_decode sc i (mkR (wrap ls (b1 ++ urecord t u ++ b2)) a)) (msg_decode sc i (mkR (wrap ls (b1 ++ b2)) a)).
  Proof.
    intros Hch Hn Hf Ht Hu Hlv Hr Hz Hz' Hi. destruct ctx_default_range as [[H1 H2] H3]. pose proof (ulevels_pos u) as Hpos.
    assert (Hlen : Z.of_nat (length ls) < Z.of_nat depth_fuel) by (unfold ctx_default in *; lia).
    assert (Hseq : seq_eq depth_fuel i ctx_default (wrap ls (b1 ++ urecord t u ++ b2)) (wrap ls (b1 ++ b2))).
    { apply (seq_eq_wrap ls depth_fuel i ctx_default jn); auto; [unfold ctx_default in *; lia|].
      destruct (depth_fuel - length ls)%nat as [|d0] eqn:Ed; [lia|].
      eapply seq_eq_unknown; eauto; unfold ctx_default in *; lia. }
    unfold msg_decode. rewrite !msg_merge_unfold. cbn [rb].
    pose proof (Hseq (default_msg depth_fuel sc i) [] a 0%nat
                  (S (length (wrap ls (b1 ++ urecord t u ++ b2)))) (S (length (wrap ls (b1 ++ b2))))
                  (default_msg_shaped sc Hs _ i Hi) ltac:(cbn; lia)) as G.
    rewrite !app_nil_r in G. apply G; lia.
  Qed.
End Nested.

(* ------------------------------------------------------------------ non-vacuity *)
Lemma tree_schema_ok : schema_ok tree_schema = true.
Proof. vm_compute. reflexivity. Qed.

Lemma runs_nil sc d j c : runs sc d j c [].
Proof. intros x a Hx. exists x, a. reflexivity. Qed.

Example unknown_nested_nonvacuous :
  (* Tree { int32 v = 1; optional Tree t = 2; map<string, Tree> m = 4 }: two levels down, records before and after at
     the outer levels, an unknown group with a nested group and a length-delimited field in the innermost body *)
  let g := UGroup [(5, UVarint 300); (6, UGroup [(7, ULen [x01; x02])])] in
  let ls := [([x08; x07], 2, [x08; x09]); ([], 2, [x08; x01])] in
  oeq (msg_decode tree_schema 0 (mkR (wrap ls ([] ++ urecord 9 g ++ [x08; x03])) 0))
      (msg_decode tree_schema 0 (mkR (wrap ls ([] ++ [x08; x03])) 0)) /\
  is_ok (msg_decode tree_schema 0 (mkR (wrap ls ([] ++ [x08; x03])) 0)) = true.
Proof. cbv zeta. split; vm_compute; auto. Qed.

(* the hypotheses of the nested theorem are satisfiable: two levels below Tree, records behind the embedded ones *)
Example unknown_nested_hypotheses :
  let ls := [([], 2, [x08; x09]); ([], 2, [x08; x01])] in
  let g := UGroup [(5, UVarint 300); (6, UGroup [(7, ULen [x01; x02])])] in
  oeq (msg_decode tree_schema 0 (mkR (wrap ls ([] ++ urecord 9 g ++ [x08; x03])) 0))
      (msg_decode tree_schema 0 (mkR (wrap ls ([] ++ [x08; x03])) 0)).
Proof.
  cbv zeta.
  apply (unknown_insert_nested tree_schema tree_schema_ok 0 _ 0%nat
           [FSingular 1 (TScalar TYPE_INT32); FOptional 2 (TMsg 0); FMap 4 TYPE_STRING (TMsg 0)]).
  - unfold depth_fuel. change (Z.to_nat recursion_limit) with 100%nat. cbn [chain].
    assert (T2 : tag_ok 2) by (unfold tag_ok; vm_compute; split; congruence).
    split; [exact T2|]. split; [apply runs_nil|].
    exists [FSingular 1 (TScalar TYPE_INT32); FOptional 2 (TMsg 0); FMap 4 TYPE_STRING (TMsg 0)], (FOptional 2 (TMsg 0)), 0%nat.
    split; [reflexivity|]. split; [reflexivity|]. split; [reflexivity|].
    split; [exact T2|]. split; [apply runs_nil|].
    exists [FSingular 1 (TScalar TYPE_INT32); FOptional 2 (TMsg 0); FMap 4 TYPE_STRING (TMsg 0)], (FOptional 2 (TMsg 0)), 0%nat.
    repeat split; reflexivity.
  - reflexivity.
  - reflexivity.
  - unfold tag_ok; vm_compute; split; congruence.
  - vm_compute. repeat split; congruence.
  - vm_compute. congruence.
  - apply runs_nil.
  - vm_compute. repeat split; reflexivity.
  - vm_compute. repeat split; reflexivity.
  - vm_compute. lia.
Qed.
