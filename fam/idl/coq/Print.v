(* Layout-parametric printer of Thrift IDL documents (the specification side of C15).

   A *layout* supplies every choice the IDL grammar leaves free.  It is represented as a concrete syntax tree
   (CST): the descriptor AST of Ast.v with, at every slot where the grammar allows it, the blank chosen there (any
   sequence of white space and comments in the three styles), the list separator chosen there (',' ';' or none)
   and the quote style of every literal.  [erase_* c] is the document a CST denotes (forget the choices);
   [pr_* c k] is its text followed by the text k (printers are written in continuation style so that the text is a
   right-nested concatenation).  "print λ d" of DESIGN.md is [pr c] for a CST c with [erase c = d]; the layouts of a
   document d are exactly the CSTs c with [erase c = d].

   Every keyword and symbol is spelled out HERE, independently of Generated/IdlConsts.v (which is regenerated from
   the parser source): the printer is the specification of the concrete syntax, so a changed tag in the Rust source
   breaks the round-trip proofs instead of silently changing both sides. *)
From PVIdl Require Import Comb Ast.
From Coq Require Import String Ascii.
Open Scope Z_scope.

Definition txt (s : string) : list byte := list_byte_of_string s.

(* ---------- blanks ---------- *)
Inductive batom :=
| BWs (ws : list byte)         (* a maximal run of ' ' \t \r \n *)
| BLine (body : list byte)     (* // body   (up to, not including, the newline) *)
| BHash (body : list byte)     (* # body *)
| BBlock (body : list byte).   (* /* body */ *)
Definition blank := list batom.

Definition pr_atom (a : batom) (k : list byte) : list byte :=
  match a with
  | BWs ws => ws ++ k
  | BLine body => txt "//" ++ body ++ k
  | BHash body => txt "#" ++ body ++ k
  | BBlock body => txt "/*" ++ body ++ txt "*/" ++ k
  end.

Fixpoint pr_blank (bl : blank) (k : list byte) : list byte :=
  match bl with
  | [] => k
  | a :: bl' => pr_atom a (pr_blank bl' k)
  end.

Definition is_nl (b : byte) : bool := Byte.eqb b x0a.

(* body of a block comment: "*/" does not occur in it *)
Fixpoint no_star_slash (l : list byte) : bool :=
  match l with
  | [] => true
  | b :: l' => negb (Byte.eqb b x2a && match l' with c :: _ => Byte.eqb c x2f | [] => false end) && no_star_slash l'
  end.

Definition wf_atom (a : batom) : bool :=
  match a with
  | BWs ws => negb (is_nil ws) && forallb is_space ws
  | BLine body | BHash body => forallb (fun b => negb (is_nl b)) body
  | BBlock body => no_star_slash body
  end.

(* what the grammar demands of a sequence of atoms: white-space runs are maximal, a line comment is ended by a
   newline (which begins the following white-space run) *)
Definition adj_ok (a : batom) (rest : blank) : bool :=
  match a with
  | BWs _ => match rest with BWs _ :: _ => false | _ => true end
  | BLine _ | BHash _ => match rest with BWs (b :: _) :: _ => is_nl b | _ => false end
  | BBlock _ => true
  end.

Fixpoint wf_blank (bl : blank) : bool :=
  match bl with
  | [] => true
  | a :: bl' => wf_atom a && adj_ok a bl' && wf_blank bl'
  end.

(* ---------- tokens ---------- *)
Definition is_ident (s : list byte) : bool :=
  match s with
  | [] => false
  | h :: t => (is_alpha h || is_underscore h) && forallb (fun c => is_alnum c || is_underscore c) t
  end.

(* annotation keys may contain dots after the first character *)
Definition is_annkey (s : list byte) : bool :=
  match s with
  | [] => false
  | h :: t => (is_alpha h || is_underscore h) && forallb (fun c => is_alnum c || is_underscore c || is_dot c) t
  end.

(* literal: quote style + raw body (escape sequences are kept as written, as the parser keeps them) *)
Record clit := mkLit { l_dq : bool; l_body : list byte }.
Definition quote_of (dq : bool) : byte := if dq then x22 else x27.
Definition pr_lit (l : clit) (k : list byte) : list byte := quote_of (l_dq l) :: l_body l ++ quote_of (l_dq l) :: k.
Definition erase_lit (l : clit) : Literal := l_body l.

(* a literal body: bytes other than the backslash and the delimiting quote, or a backslash followed by one of
   the four escapable bytes (single quote, double quote, n, backslash) *)
Fixpoint lit_body_ok (q : byte) (l : list byte) : bool :=
  match l with
  | [] => true
  | b :: l' =>
    if Byte.eqb b x5c then
      match l' with
      | c :: l'' => bmem c [x27; x22; x6e; x5c] && lit_body_ok q l''
      | [] => false
      end
    else negb (Byte.eqb b q) && lit_body_ok q l'
  end.
Definition wf_lit (l : clit) : bool := lit_body_ok (quote_of (l_dq l)) (l_body l).

(* optional list separator: none, or ',' / ';' followed by an optional blank *)
Inductive csep := SepNone | SepSome (semi : bool) (after : blank).
Definition sep_byte (semi : bool) : byte := if semi then x3b else x2c.
Definition pr_sep (s : csep) (k : list byte) : list byte :=
  match s with
  | SepNone => k
  | SepSome semi bl => sep_byte semi :: pr_blank bl k
  end.
Definition wf_sep (s : csep) : bool := match s with SepNone => true | SepSome _ bl => wf_blank bl end.

(* ---------- paths ---------- *)
Record cpath := mkCPath { cp_head : Ident; cp_tail : list (blank * blank * Ident) }.   (* a  [bl . bl b]* *)
Fixpoint pr_path_tail (t : list (blank * blank * Ident)) (k : list byte) : list byte :=
  match t with
  | [] => k
  | (b1, b2, s) :: t' => pr_blank b1 (txt "." ++ pr_blank b2 (s ++ pr_path_tail t' k))
  end.
Definition pr_path (p : cpath) (k : list byte) : list byte := cp_head p ++ pr_path_tail (cp_tail p) k.
Definition erase_path (p : cpath) : Path := cp_head p :: map (fun x => snd x) (cp_tail p).
Definition wf_path (p : cpath) : bool :=
  is_ident (cp_head p) &&
  forallb (fun x => wf_blank (fst (fst x)) && wf_blank (snd (fst x)) && is_ident (snd x)) (cp_tail p).

(* ---------- annotations:  ( [bl key bl = bl lit bl sep]+ ) ---------- *)
Record cann := mkCAnn { ca_b1 : blank; ca_key : list byte; ca_b2 : blank; ca_b3 : blank; ca_lit : clit;
                        ca_b4 : blank; ca_sep : csep }.
Definition pr_ann (a : cann) (k : list byte) : list byte :=
  pr_blank (ca_b1 a) (ca_key a ++ pr_blank (ca_b2 a) (txt "=" ++ pr_blank (ca_b3 a)
    (pr_lit (ca_lit a) (pr_blank (ca_b4 a) (pr_sep (ca_sep a) k))))).
Fixpoint pr_ann_list (l : list cann) (k : list byte) : list byte :=
  match l with [] => k | a :: l' => pr_ann a (pr_ann_list l' k) end.
Definition pr_anns (l : list cann) (k : list byte) : list byte := txt "(" ++ pr_ann_list l (txt ")" ++ k).
Definition erase_ann (a : cann) : Annotation := mkAnnotation (ca_key a) (erase_lit (ca_lit a)).
Definition erase_anns (l : list cann) : Annotations := map erase_ann l.

(* two optional blank slots are adjacent between annotations (the trailing blank or the separator's blank of one and
   the leading blank of the next): the layout puts the blank in the first of them, so only the first annotation of a
   list may have a leading blank *)
Definition wf_ann (a : cann) : bool :=
  wf_blank (ca_b1 a) && is_annkey (ca_key a) && wf_blank (ca_b2 a) && wf_blank (ca_b3 a) && wf_lit (ca_lit a) &&
  wf_blank (ca_b4 a) && wf_sep (ca_sep a).
Fixpoint wf_ann_list (l : list cann) : bool :=
  match l with
  | [] => true
  | a :: l' => wf_ann a && match l' with [] => true | a' :: _ => is_nil (ca_b1 a') end && wf_ann_list l'
  end.
Definition wf_anns (l : list cann) : bool := negb (is_nil l) && wf_ann_list l.

(* ---------- types ---------- *)
Inductive base_ty := BString | BVoid | BByte | BBool | BBinary | BI8 | BI16 | BI32 | BI64 | BDouble | BUuid.
Definition base_kw (b : base_ty) : list byte :=
  match b with
  | BString => txt "string" | BVoid => txt "void" | BByte => txt "byte" | BBool => txt "bool"
  | BBinary => txt "binary" | BI8 => txt "i8" | BI16 => txt "i16" | BI32 => txt "i32" | BI64 => txt "i64"
  | BDouble => txt "double" | BUuid => txt "uuid"
  end.
Definition base_ast (b : base_ty) : Ty :=
  match b with
  | BString => TString | BVoid => TVoid | BByte => TByte | BBool => TBool | BBinary => TBinary | BI8 => TI8
  | BI16 => TI16 | BI32 => TI32 | BI64 => TI64 | BDouble => TDouble | BUuid => TUuid
  end.

(* cpp_type clause:  <mandatory blank> cpp_type <mandatory blank> literal *)
Record ccpp := mkCCpp { cc_b1 : blank; cc_b2 : blank; cc_lit : clit }.
Definition pr_cpp (c : ccpp) (k : list byte) : list byte :=
  pr_blank (cc_b1 c) (txt "cpp_type" ++ pr_blank (cc_b2 c) (pr_lit (cc_lit c) k)).
Definition pr_ocpp (c : option ccpp) (k : list byte) : list byte := match c with Some c => pr_cpp c k | None => k end.
Definition erase_ocpp (c : option ccpp) : option Literal := option_map (fun c => erase_lit (cc_lit c)) c.
Definition wf_cpp (c : ccpp) : bool :=
  wf_blank (cc_b1 c) && negb (is_nil (cc_b1 c)) && wf_blank (cc_b2 c) && negb (is_nil (cc_b2 c)) && wf_lit (cc_lit c).
Definition wf_ocpp (c : option ccpp) : bool := match c with Some c => wf_cpp c | None => true end.

Inductive cty :=
| CTBase (b : base_ty)
| CTList (b1 b2 : blank) (inner : ctype) (b3 : blank) (cpp : option ccpp)          (* list b1 < b2 T b3 > cpp *)
| CTSet (cpp : option ccpp) (b1 b2 : blank) (inner : ctype) (b3 : blank)           (* set cpp b1 < b2 T b3 > *)
| CTMap (cpp : option ccpp) (b1 b2 : blank) (key : ctype) (b3 : blank) (semi : bool) (b4 : blank)
        (value : ctype) (b5 : blank)                                               (* map cpp b1 < b2 K b3 , b4 V b5 > *)
| CTPath (p : cpath)
with ctype :=
| CType (t : cty) (anns : option (blank * list cann)).                            (* T [bl (annotations)] *)

Fixpoint pr_ty (t : cty) (k : list byte) : list byte :=
  match t with
  | CTBase b => base_kw b ++ k
  | CTList b1 b2 inner b3 cpp =>
    txt "list" ++ pr_blank b1 (txt "<" ++ pr_blank b2 (pr_type inner (pr_blank b3 (txt ">" ++ pr_ocpp cpp k))))
  | CTSet cpp b1 b2 inner b3 =>
    txt "set" ++ pr_ocpp cpp (pr_blank b1 (txt "<" ++ pr_blank b2 (pr_type inner (pr_blank b3 (txt ">" ++ k)))))
  | CTMap cpp b1 b2 key b3 semi b4 value b5 =>
    txt "map" ++ pr_ocpp cpp (pr_blank b1 (txt "<" ++ pr_blank b2 (pr_type key (pr_blank b3
      (sep_byte semi :: pr_blank b4 (pr_type value (pr_blank b5 (txt ">" ++ k))))))))
  | CTPath p => pr_path p k
  end
with pr_type (t : ctype) (k : list byte) : list byte :=
  match t with
  | CType t None => pr_ty t k
  | CType t (Some (bl, anns)) => pr_ty t (pr_blank bl (pr_anns anns k))
  end.

Fixpoint erase_ty (t : cty) : Ty :=
  match t with
  | CTBase b => base_ast b
  | CTList _ _ inner _ cpp => TList (erase_type inner) (erase_ocpp cpp)
  | CTSet cpp _ _ inner _ => TSet (erase_type inner) (erase_ocpp cpp)
  | CTMap cpp _ _ key _ _ _ value _ => TMap (erase_type key) (erase_type value) (erase_ocpp cpp)
  | CTPath p => TPath (erase_path p)
  end
with erase_type (t : ctype) : Type_ :=
  match t with
  | CType t None => MkType (erase_ty t) []
  | CType t (Some (_, anns)) => MkType (erase_ty t) (erase_anns anns)
  end.

(* the words a type name must not be, because the grammar reads them as something else in type position *)
Definition type_words : list (list byte) :=
  [txt "string"; txt "void"; txt "byte"; txt "bool"; txt "binary"; txt "i8"; txt "i16"; txt "i32"; txt "i64";
   txt "double"; txt "uuid"; txt "list"; txt "set"; txt "map"].

Fixpoint bytes_eq (a b : list byte) : bool :=
  match a, b with
  | [], [] => true
  | x :: a', y :: b' => Byte.eqb x y && bytes_eq a' b'
  | _, _ => false
  end.
Fixpoint bytes_in (s : list byte) (l : list (list byte)) : bool :=
  match l with [] => false | x :: l' => bytes_eq s x || bytes_in s l' end.

(* does the text of the type end with a word character (so that a following word needs a blank)? *)
Definition ty_ends_word (t : cty) : bool :=
  match t with
  | CTBase _ | CTPath _ => true
  | _ => false
  end.
Definition type_ends_word (t : ctype) : bool :=
  match t with CType t None => ty_ends_word t | CType _ (Some _) => false end.

Fixpoint wf_ty (t : cty) : bool :=
  match t with
  | CTBase _ => true
  | CTList b1 b2 inner b3 cpp => wf_blank b1 && wf_blank b2 && wf_type inner && wf_blank b3 && wf_ocpp cpp
  | CTSet cpp b1 b2 inner b3 =>
    wf_ocpp cpp && wf_blank b1 && wf_blank b2 && wf_type inner && wf_blank b3
  | CTMap cpp b1 b2 key b3 semi b4 value b5 =>
    wf_ocpp cpp && wf_blank b1 && wf_blank b2 && wf_type key && wf_blank b3 && wf_blank b4 && wf_type value && wf_blank b5
  | CTPath p => wf_path p && negb (bytes_in (cp_head p) type_words)
  end
with wf_type (t : ctype) : bool :=
  match t with
  | CType t None => wf_ty t
  | CType t (Some (bl, anns)) => wf_ty t && wf_blank bl && wf_anns anns
  end.

(* ---------- integer constants:  '-'*  [0x] digits  ---------- *)
(* the value is spelled out here independently of the parser's conversion: plain positional notation *)
Definition digits_value (radix : Z) (ds : list byte) : Z := fold_left (fun acc d => acc * radix + digit_val d) ds 0.
Record cint := mkCInt { ci_minus : nat; ci_hex : bool; ci_digits : list byte }.
Fixpoint minus_run (n : nat) (k : list byte) : list byte := match n with O => k | S n' => x2d :: minus_run n' k end.
Definition pr_int (i : cint) (k : list byte) : list byte :=
  minus_run (ci_minus i) ((if ci_hex i then txt "0x" else []) ++ ci_digits i ++ k).
Definition int_abs (i : cint) : Z := digits_value (if ci_hex i then 16 else 10) (ci_digits i).
Definition erase_int (i : cint) : Z := if Nat.odd (ci_minus i) then - int_abs i else int_abs i.
(* digits of the right radix, at least one, magnitude within i64 *)
Definition wf_int (i : cint) : bool :=
  negb (is_nil (ci_digits i)) && forallb (if ci_hex i then is_hexdigit else is_digit) (ci_digits i) &&
  (int_abs i <=? 9223372036854775807).

(* ---------- double constants (the parser keeps the text):  [-] [+] body,  body = d+ . d* [exp] | . d+ [exp] | d+ exp,
   exp = e|E followed by an integer constant ---------- *)
Record cexp := mkCExp { ce_upper : bool; ce_int : cint }.
Inductive cdbody :=
| DBodyA (ip fp : list byte) (ex : option cexp)
| DBodyB (fp : list byte) (ex : option cexp)
| DBodyC (ip : list byte) (ex : cexp).
Record cdbl := mkCDbl { cd_minus : bool; cd_plus : bool; cd_body : cdbody }.
Definition pr_exp (e : cexp) (k : list byte) : list byte := (if ce_upper e then x45 else x65) :: pr_int (ce_int e) k.
Definition pr_oexp (e : option cexp) (k : list byte) : list byte := match e with Some e => pr_exp e k | None => k end.
Definition pr_dbody (b : cdbody) (k : list byte) : list byte :=
  match b with
  | DBodyA ip fp ex => ip ++ x2e :: fp ++ pr_oexp ex k
  | DBodyB fp ex => x2e :: fp ++ pr_oexp ex k
  | DBodyC ip ex => ip ++ pr_exp ex k
  end.
Definition pr_dbl (d : cdbl) (k : list byte) : list byte :=
  (if cd_minus d then [x2d] else []) ++ (if cd_plus d then [x2b] else []) ++ pr_dbody (cd_body d) k.
Definition erase_dbl (d : cdbl) : str := pr_dbl d [].
Definition is_digits (ds : list byte) : bool := forallb is_digit ds.
Definition wf_exp (e : cexp) : bool := wf_int (ce_int e).
Definition wf_oexp (e : option cexp) : bool := match e with Some e => wf_exp e | None => true end.
Definition wf_dbody (b : cdbody) : bool :=
  match b with
  | DBodyA ip fp ex => negb (is_nil ip) && is_digits ip && is_digits fp && wf_oexp ex
  | DBodyB fp ex => negb (is_nil fp) && is_digits fp && wf_oexp ex
  | DBodyC ip ex => negb (is_nil ip) && is_digits ip && wf_exp ex
  end.
Definition wf_dbl (d : cdbl) : bool := wf_dbody (cd_body d).

(* ---------- constant values ---------- *)
Inductive cconst :=
| CCLit (l : clit)
| CCBool (b : bool)
| CCPath (p : cpath)
| CCDbl (d : cdbl)
| CCInt (i : cint)
| CCList (b0 : blank) (els : clist)            (* [ b0 (v b sep)* ] *)
| CCMap (b0 : blank) (els : cmapl)             (* { b0 (k b1 : b2 v b3 sep)* } *)
with clist := CLNil | CLCons (v : cconst) (b : blank) (s : csep) (rest : clist)
with cmapl := CMNil | CMCons (k : cconst) (b1 b2 : blank) (v : cconst) (b3 : blank) (s : csep) (rest : cmapl).

Fixpoint pr_const (v : cconst) (k : list byte) : list byte :=
  match v with
  | CCLit l => pr_lit l k
  | CCBool b => (if b then txt "true" else txt "false") ++ k
  | CCPath p => pr_path p k
  | CCDbl d => pr_dbl d k
  | CCInt i => pr_int i k
  | CCList b0 els => txt "[" ++ pr_blank b0 (pr_clist els (txt "]" ++ k))
  | CCMap b0 els => txt "{" ++ pr_blank b0 (pr_cmapl els (txt "}" ++ k))
  end
with pr_clist (l : clist) (k : list byte) : list byte :=
  match l with
  | CLNil => k
  | CLCons v b s rest => pr_const v (pr_blank b (pr_sep s (pr_clist rest k)))
  end
with pr_cmapl (l : cmapl) (k : list byte) : list byte :=
  match l with
  | CMNil => k
  | CMCons key b1 b2 v b3 s rest =>
    pr_const key (pr_blank b1 (txt ":" ++ pr_blank b2 (pr_const v (pr_blank b3 (pr_sep s (pr_cmapl rest k))))))
  end.

Fixpoint erase_const (v : cconst) : ConstValue :=
  match v with
  | CCLit l => CString (erase_lit l)
  | CCBool b => CBool b
  | CCPath p => CPath (erase_path p)
  | CCDbl d => CDouble (erase_dbl d)
  | CCInt i => CInt (erase_int i)
  | CCList _ els => CList (erase_clist els)
  | CCMap _ els => CMap (erase_cmapl els)
  end
with erase_clist (l : clist) : list ConstValue :=
  match l with CLNil => [] | CLCons v _ _ rest => erase_const v :: erase_clist rest end
with erase_cmapl (l : cmapl) : list (ConstValue * ConstValue) :=
  match l with CMNil => [] | CMCons key _ _ v _ _ rest => (erase_const key, erase_const v) :: erase_cmapl rest end.

(* does the text of the value end with a word character (a word or a number)? *)
Definition const_ends_word (v : cconst) : bool :=
  match v with CCBool _ | CCPath _ | CCDbl _ | CCInt _ => true | _ => false end.
(* does the text of the value begin with a word character or a '.' (so that it would continue a preceding word or
   number)?  Signs, quotes and brackets do not. *)
Definition const_starts_word (v : cconst) : bool :=
  match v with
  | CCBool _ | CCPath _ => true
  | CCDbl d => negb (cd_minus d) && negb (cd_plus d)
  | CCInt i => match ci_minus i with O => true | S _ => false end
  | _ => false
  end.
Definition const_starts_dot (v : cconst) : bool :=
  match v with
  | CCDbl d => negb (cd_minus d) && negb (cd_plus d) && match cd_body d with DBodyB _ _ => true | _ => false end
  | _ => false
  end.
Definition clist_starts_word (l : clist) : bool := match l with CLNil => false | CLCons v _ _ _ => const_starts_word v end.
Definition clist_starts_dot (l : clist) : bool := match l with CLNil => false | CLCons v _ _ _ => const_starts_dot v end.
Definition cmapl_starts_word (l : cmapl) : bool := match l with CMNil => false | CMCons k _ _ _ _ _ _ => const_starts_word k end.
Definition cmapl_starts_dot (l : cmapl) : bool := match l with CMNil => false | CMCons k _ _ _ _ _ _ => const_starts_dot k end.

(* what the grammar demands between a value and the next one when no separator is written: a value that ends with a
   word or a number is set off by a blank from a following word, number or '.', and a path is not followed, even
   after a blank, by a '.' (which would continue the path) *)
Definition const_is_path (v : cconst) : bool := match v with CCPath _ => true | _ => false end.
Definition glue_ok (v : cconst) (b : blank) (s : csep) (next_word next_dot : bool) : bool :=
  match s with
  | SepSome _ _ => true
  | SepNone =>
    negb (const_ends_word v && is_nil b && (next_word || next_dot)) && negb (const_is_path v && next_dot)
  end.

Fixpoint wf_const (v : cconst) : bool :=
  match v with
  | CCLit l => wf_lit l
  | CCBool _ => true
  | CCPath p => wf_path p && negb (bytes_in (cp_head p) [txt "true"; txt "false"])
  | CCDbl d => wf_dbl d
  | CCInt i => wf_int i
  | CCList b0 els => wf_blank b0 && wf_clist els
  | CCMap b0 els => wf_blank b0 && wf_cmapl els
  end
with wf_clist (l : clist) : bool :=
  match l with
  | CLNil => true
  | CLCons v b s rest =>
    wf_const v && wf_blank b && wf_sep s && glue_ok v b s (clist_starts_word rest) (clist_starts_dot rest) && wf_clist rest
  end
with wf_cmapl (l : cmapl) : bool :=
  match l with
  | CMNil => true
  | CMCons key b1 b2 v b3 s rest =>
    wf_const key && wf_blank b1 && wf_blank b2 && wf_const v && wf_blank b3 && wf_sep s &&
    glue_ok v b3 s (cmapl_starts_word rest) (cmapl_starts_dot rest) && wf_cmapl rest
  end.

(* ---------- optional pieces shared by the declarations ---------- *)
Definition pr_oanns (a : option (list cann)) (k : list byte) : list byte :=
  match a with Some l => pr_anns l k | None => k end.
Definition erase_oanns (a : option (list cann)) : Annotations := match a with Some l => erase_anns l | None => [] end.
Definition wf_oanns (a : option (list cann)) : bool := match a with Some l => wf_anns l | None => true end.
Definition sep_none (s : csep) : bool := match s with SepNone => true | SepSome _ _ => false end.
Definition is_none {A} (o : option A) : bool := match o with None => true | Some _ => false end.

(* ---------- typedef:  typedef <blank> T <blank> alias [blank] [annotations] [separator] ---------- *)
Record ctypedef := mkCTypedef { ctd_b1 : blank; ctd_type : ctype; ctd_b2 : blank; ctd_alias : Ident; ctd_b3 : blank;
                                ctd_anns : option (list cann); ctd_sep : csep }.
Definition pr_typedef (c : ctypedef) (k : list byte) : list byte :=
  txt "typedef" ++ pr_blank (ctd_b1 c) (pr_type (ctd_type c) (pr_blank (ctd_b2 c) (ctd_alias c ++ pr_blank (ctd_b3 c)
    (pr_oanns (ctd_anns c) (pr_sep (ctd_sep c) k))))).
Definition erase_typedef (c : ctypedef) : Typedef :=
  mkTypedef (erase_type (ctd_type c)) (ctd_alias c) (erase_oanns (ctd_anns c)).
Definition wf_typedef (c : ctypedef) : bool :=
  wf_blank (ctd_b1 c) && negb (is_nil (ctd_b1 c)) && wf_type (ctd_type c) && wf_blank (ctd_b2 c) && negb (is_nil (ctd_b2 c)) &&
  is_ident (ctd_alias c) && wf_blank (ctd_b3 c) && wf_oanns (ctd_anns c) && wf_sep (ctd_sep c).
(* does the text of the declaration end with a word character (so that a following word must be set off)? *)
Definition typedef_ends_word (c : ctypedef) : bool := is_nil (ctd_b3 c) && is_none (ctd_anns c) && sep_none (ctd_sep c).
