(* C12, delivery schedules at the primitive level.  Thrift/Async.v models a stream by the bytes it
   delivers.  Here a stream is a list of EVENTS -- chunks of bytes (a poll hands out at most one chunk,
   cut to the room offered), empty chunks and Pending tokens (nothing now), end of list = EOF -- and the
   primitive reads of the asynchronous protocols are written THROUGH [poll_read] as tokio / rw_ext.rs
   write them (read_exact keeps what has arrived across Pending; read_varint_async goes byte by byte;
   read_exact_to_vec has its two paths: read_exact into a zeroed vector up to PREALLOC_LIMIT, beyond it
   Take<R>::read_to_end polling with the spare capacity -- any positive step -- and never more than
   the limit).  The stream definitions are those of fam/gen/coq/GenEvents.v (gen-builder-c, commit
   d3a5ab3), repeated here verbatim because the main family cannot import a family that imports it;
   fam/gen can replace its copy by `From PV Require Export Thrift.AsyncEv`.  No proofs in this file. *)
From PV Require Export Thrift.Async Generated.ReaderSites.
Open Scope Z_scope.

Inductive event := Chunk (c : list byte) | Pend.
Definition stream := list event.

Fixpoint bytes_of (es : stream) : list byte :=
  match es with
  | [] => []
  | Chunk c :: r => c ++ bytes_of r
  | Pend :: r => bytes_of r
  end.

(* AsyncRead::poll_read with room for [cap] bytes *)
Inductive polled := Ready (got : list byte) (rest : stream) | NotReady (rest : stream) | Eof.
Definition poll_read (cap : nat) (es : stream) : polled :=
  match es with
  | [] => Eof
  | Pend :: r => NotReady r
  | Chunk [] :: r => NotReady r
  | Chunk c :: r => if Nat.leb (length c) cap then Ready c r else Ready (firstn cap c) (Chunk (skipn cap c) :: r)
  end.

(* read_exact: the bytes that have arrived stay in the buffer across Pending *)
Fixpoint ev_read_exact (fuel n : nat) (acc : list byte) (es : stream) {struct fuel} : option (list byte * stream) :=
  match n with
  | O => Some (acc, es)
  | Datatypes.S _ =>
      match fuel with
      | O => None
      | Datatypes.S f =>
          match poll_read n es with
          | Eof => None
          | NotReady r => ev_read_exact f n acc r
          | Ready got r => ev_read_exact f (n - length got) (acc ++ got) r
          end
      end
  end.
Definition ev_fuel (n : nat) (es : stream) : nat := Datatypes.S (length es + n).
Definition ev_take (n : nat) (es : stream) : option (list byte * stream) := ev_read_exact (ev_fuel n es) n [] es.

(* read_varint_async: rd_var with every byte fetched by read_u8 *)
Fixpoint ev_rd_var (k : nat) (shift acc : Z) (es : stream) : res (Z * stream) :=
  match k with
  | O => match ev_take 1 es with None => Err EInvalidData | Some _ => Err ETransport end
  | Datatypes.S k' =>
      match ev_take 1 es with
      | None => Err EInvalidData
      | Some ([b], rest) =>
          let d := b2z b in
          let acc' := acc + (d mod 128) * 2 ^ shift in
          if d <? 128 then Ok (acc' mod two64, rest) else ev_rd_var k' (shift + 7) acc' rest
      | Some _ => Err EOther
      end
  end.
Definition ev_varint (maxsize : nat) (es : stream) : res (Z * stream) :=
  match ev_rd_var maxsize 0 0 es with
  | Ok r => Ok r
  | Err _ => Err ETransport
  | Panic st => Panic st
  end.

(* Take<R>::read_to_end: polls with room min(step(bytes so far), what is left of the limit) until the limit is used up or EOF *)
Fixpoint ev_read_to_end (fuel : nat) (step : nat -> nat) (limit : nat) (acc : list byte) (es : stream) {struct fuel}
  : list byte * stream :=
  match limit with
  | O => (acc, es)
  | Datatypes.S _ =>
      match fuel with
      | O => (acc, es)
      | Datatypes.S f =>
          match poll_read (Nat.min (Datatypes.S (step (length acc))) limit) es with
          | Eof => (acc, es)
          | NotReady r => ev_read_to_end f step limit acc r
          | Ready got r => ev_read_to_end f step (limit - length got) (acc ++ got) r
          end
      end
  end.

Definition prealloc_n : nat := Z.to_nat prealloc_limit.        (* regenerated: rw_ext.rs PREALLOC_LIMIT *)
Definition ev_read_exact_to_vec (step : nat -> nat) (len : nat) (es : stream) : option (list byte * stream) :=
  if Nat.leb len prealloc_n then ev_take len es
  else let '(v, es') := ev_read_to_end (ev_fuel len es) step len [] es in
       if Nat.eqb (length v) len then Some (v, es') else None.


(* ---- the reader primitives of Thrift/Async.v over an event stream ---- *)
Record est := mkE { ebuf : stream; erc : rctx }.
Definition em (A : Type) := est -> res (A * est).
(* the state of Thrift/Async.v this one stands for: the bytes the remaining events will deliver *)
Definition abs (s : est) : rst := mkS (bytes_of (ebuf s)) (erc s).

Definition e_take (n : nat) : em (list byte) := fun s =>
  match ev_take n (ebuf s) with
  | Some (a, r) => Ok (a, mkE r (erc s))
  | None => Err ETransport
  end.
Definition e_byte : em Z := fun s => let* (a, s) := e_take 1 s in Ok (of_le a, s).
Definition e_i8 : em Z := fun s => let* (a, s) := e_take 1 s in Ok (wrap_s 8 (of_le a), s).
Definition e_varint (maxsize : nat) : em Z := fun s =>
  match ev_varint maxsize (ebuf s) with
  | Ok (n, r) => Ok (n, mkE r (erc s))
  | Err e => Err e
  | Panic st => Panic st
  end.
Definition e_fixed (p : pk) (n : nat) (bits : Z) : em Z := fun s =>
  let* (a, s) := e_take n s in Ok (wrap_s bits (unfx p a), s).
Definition e_i16 (p : pk) : em Z :=
  match p with
  | PCompact => fun s => let* (n, s) := e_varint maxsize_16 s in Ok (wrap_s 16 (unzigzag n), s)
  | _ => e_fixed p 2 16
  end.
Definition e_i32 (p : pk) : em Z :=
  match p with
  | PCompact => fun s => let* (n, s) := e_varint maxsize_32 s in Ok (wrap_s 32 (unzigzag n), s)
  | _ => e_fixed p 4 32
  end.
Definition e_i64 (p : pk) : em Z :=
  match p with
  | PCompact => fun s => let* (n, s) := e_varint maxsize_64 s in Ok (wrap_s 64 (unzigzag n), s)
  | _ => e_fixed p 8 64
  end.
Definition e_double (p : pk) : em Z := fun s =>
  let* (a, s) := e_take 8 s in
  Ok (match p with PBinary => of_be a | _ => of_le a end, s).
Definition e_uuid : em (list byte) := e_take 16.
(* read_exact_to_vec: the reader cannot know what remains, it starts reading *)
Definition e_vec (step : nat -> nat) (n : nat) : em (list byte) := fun s =>
  match ev_read_exact_to_vec step n (ebuf s) with
  | Some (a, r) => Ok (a, mkE r (erc s))
  | None => Err ETransport
  end.
Definition e_bytes (step : nat -> nat) (p : pk) : em (list byte) :=
  match p with
  | PCompact => fun s =>
      let* (n, s) := e_varint maxsize_32 s in
      e_vec step (Z.to_nat (wrap_u 32 n)) s
  | _ => fun s =>
      let* (n, s) := e_i32 p s in
      if n <? 0 then Err ENegativeSize else e_vec step (Z.to_nat n) s
  end.
