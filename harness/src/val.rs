//! Value trees and the text syntax shared with the model runner.
use std::fmt::Write;

#[derive(Clone, Debug, PartialEq)]
pub enum TVal {
    Bool(bool),
    I8(i8),
    I16(i16),
    I32(i32),
    I64(i64),
    Double(u64),
    Binary(Vec<u8>),
    Uuid([u8; 16]),
    Struct(Vec<(i16, TVal)>),
    List(u8, Vec<TVal>),
    Set(u8, Vec<TVal>),
    Map(u8, u8, Vec<(TVal, TVal)>),
}

pub struct Toks<'a> {
    it: std::str::Split<'a, char>,
}

impl<'a> Toks<'a> {
    pub fn new(s: &'a str) -> Self {
        Toks { it: s.split(' ') }
    }
    pub fn next(&mut self) -> Result<&'a str, String> {
        self.it.next().ok_or_else(|| "unexpected end of line".to_string())
    }
    pub fn next_usize(&mut self) -> Result<usize, String> {
        self.next()?.parse::<usize>().map_err(|e| e.to_string())
    }
}

pub fn unhex(s: &str) -> Result<Vec<u8>, String> {
    if s == "-" {
        return Ok(vec![]);
    }
    if s.len() % 2 != 0 {
        return Err("odd hex".into());
    }
    (0..s.len())
        .step_by(2)
        .map(|i| u8::from_str_radix(&s[i..i + 2], 16).map_err(|e| e.to_string()))
        .collect()
}

pub fn hex(b: &[u8]) -> String {
    if b.is_empty() {
        return "-".into();
    }
    let mut s = String::with_capacity(b.len() * 2);
    for x in b {
        write!(s, "{:02x}", x).unwrap();
    }
    s
}

pub fn parse_val(t: &mut Toks) -> Result<TVal, String> {
    let tok = t.next()?;
    if tok.is_empty() {
        return Err("empty token".into());
    }
    let (c, arg) = tok.split_at(1);
    let ints = |a: &str| -> Result<Vec<usize>, String> {
        a.split(',').map(|x| x.parse::<usize>().map_err(|e| e.to_string())).collect()
    };
    Ok(match c {
        "b" => TVal::Bool(arg == "1"),
        "y" => TVal::I8(arg.parse().map_err(|e| format!("{e}"))?),
        "h" => TVal::I16(arg.parse().map_err(|e| format!("{e}"))?),
        "i" => TVal::I32(arg.parse().map_err(|e| format!("{e}"))?),
        "l" => TVal::I64(arg.parse().map_err(|e| format!("{e}"))?),
        "d" => TVal::Double(arg.parse().map_err(|e| format!("{e}"))?),
        "s" => TVal::Binary(unhex(arg)?),
        "u" => {
            let v = unhex(arg)?;
            TVal::Uuid(v.try_into().map_err(|_| "uuid length".to_string())?)
        }
        "S" => {
            let n: usize = arg.parse().map_err(|e| format!("{e}"))?;
            let mut fs = Vec::with_capacity(n);
            for _ in 0..n {
                let f = t.next()?;
                if !f.starts_with('f') {
                    return Err("expected field".into());
                }
                let id: i16 = f[1..].parse().map_err(|e| format!("{e}"))?;
                fs.push((id, parse_val(t)?));
            }
            TVal::Struct(fs)
        }
        "L" | "T" => {
            let a = ints(arg)?;
            if a.len() != 2 {
                return Err("bad L/T".into());
            }
            let mut l = Vec::with_capacity(a[1]);
            for _ in 0..a[1] {
                l.push(parse_val(t)?);
            }
            if c == "L" { TVal::List(a[0] as u8, l) } else { TVal::Set(a[0] as u8, l) }
        }
        "M" => {
            let a = ints(arg)?;
            if a.len() != 3 {
                return Err("bad M".into());
            }
            let mut l = Vec::with_capacity(a[2]);
            for _ in 0..a[2] {
                let k = parse_val(t)?;
                let v = parse_val(t)?;
                l.push((k, v));
            }
            TVal::Map(a[0] as u8, a[1] as u8, l)
        }
        _ => return Err(format!("bad value token {tok}")),
    })
}

pub fn show_val(s: &mut String, v: &TVal) {
    match v {
        TVal::Bool(b) => s.push_str(if *b { "b1" } else { "b0" }),
        TVal::I8(z) => write!(s, "y{z}").unwrap(),
        TVal::I16(z) => write!(s, "h{z}").unwrap(),
        TVal::I32(z) => write!(s, "i{z}").unwrap(),
        TVal::I64(z) => write!(s, "l{z}").unwrap(),
        TVal::Double(z) => write!(s, "d{z}").unwrap(),
        TVal::Binary(b) => write!(s, "s{}", hex(b)).unwrap(),
        TVal::Uuid(b) => write!(s, "u{}", hex(b)).unwrap(),
        TVal::Struct(fs) => {
            write!(s, "S{}", fs.len()).unwrap();
            for (id, x) in fs {
                write!(s, " f{id} ").unwrap();
                show_val(s, x);
            }
        }
        TVal::List(et, l) => {
            write!(s, "L{},{}", et, l.len()).unwrap();
            for x in l {
                s.push(' ');
                show_val(s, x);
            }
        }
        TVal::Set(et, l) => {
            write!(s, "T{},{}", et, l.len()).unwrap();
            for x in l {
                s.push(' ');
                show_val(s, x);
            }
        }
        TVal::Map(kt, vt, l) => {
            write!(s, "M{},{},{}", kt, vt, l.len()).unwrap();
            for (k, x) in l {
                s.push(' ');
                show_val(s, k);
                s.push(' ');
                show_val(s, x);
            }
        }
    }
}

pub fn ttype_code(v: &TVal) -> u8 {
    match v {
        TVal::Bool(_) => 2,
        TVal::I8(_) => 3,
        TVal::Double(_) => 4,
        TVal::I16(_) => 6,
        TVal::I32(_) => 8,
        TVal::I64(_) => 10,
        TVal::Binary(_) => 11,
        TVal::Struct(_) => 12,
        TVal::Map(..) => 13,
        TVal::Set(..) => 14,
        TVal::List(..) => 15,
        TVal::Uuid(_) => 16,
    }
}
