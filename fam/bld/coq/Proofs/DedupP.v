(* Lemmas about Dedup.v (C17): with one scratch map per module group, an item survives iff it is the first of its class (same name,
   structurally equal) in the group's own order; groups do not interact.  With one map shared by the groups a worker processes the
   result depends on the processing order (seeded change C17c). *)
From Coq Require Import String List Bool Arith Permutation.
From PVBld Require Import Names Dedup Pipeline.
Import ListNotations.

Section DedupP.
  Variable item : Type.
  Variable name : item -> string.
  Variable equal : item -> item -> bool.
  Variable dedups : list string.
  (* dedup.rs def_id_equal is a structural comparison; reflexivity and transitivity are what the argument needs *)
  Hypothesis equal_refl : forall a, equal a a = true.
  Hypothesis equal_trans : forall a b c, equal a b = true -> equal b c = true -> equal a c = true.

  Notation written := (written item name equal dedups).
  Notation duplicate := (duplicate item name equal dedups).

  Lemma dm_get_push m k x k' :
    dm_get item (dm_push item m k x) k' = if String.eqb k' k then (dm_get item m k ++ [x])%list else dm_get item m k'.
  Proof.
    induction m as [|[k0 v] m IH]; cbn [dm_push dm_get].
    - destruct (String.eqb k' k); reflexivity.
    - destruct (String.eqb k k0) eqn:Q0; cbn [dm_get].
      + apply String.eqb_eq in Q0. subst k0. destruct (String.eqb k' k); reflexivity.
      + destruct (String.eqb k' k0) eqn:Q1.
        * apply String.eqb_eq in Q1. subst k0. rewrite String.eqb_sym in Q0. now rewrite Q0.
        * apply IH.
  Qed.

  (* specification: x is dropped iff its name is listed and an EARLIER item of the sequence has the same name and is equal to it *)
  Definition dropped_by (earlier : list item) (x : item) : bool :=
    mem (name x) dedups && existsb (fun y => String.eqb (name y) (name x) && equal y x) earlier.
  Fixpoint first_of_class (earlier its : list item) : list item :=
    match its with
    | [] => []
    | x :: r => (if dropped_by earlier x then [] else [x]) ++ first_of_class (earlier ++ [x]) r
    end.

  (* the map represents the survivors among the earlier items: every earlier listed item is equal to a survivor of its name, and
     every entry is an earlier item of that name *)
  Definition represents (m : dupmap item) (earlier : list item) : Prop :=
    (forall y, In y earlier -> mem (name y) dedups = true -> exists z, In z (dm_get item m (name y)) /\ equal z y = true) /\
    (forall k z, In z (dm_get item m k) -> In z earlier /\ name z = k).

  Lemma written_spec its :
    forall m earlier, represents m earlier -> fst (written m its) = first_of_class earlier its.
  Proof.
    induction its as [|x r IH]; intros m earlier [R1 R2]; cbn [Dedup.written first_of_class]; [reflexivity|].
    unfold Dedup.duplicate, dropped_by.
    destruct (mem (name x) dedups) eqn:Md; cbn [negb andb].
    - destruct (existsb (fun y => equal y x) (dm_get item m (name x))) eqn:Ex.
      + (* a survivor equals x: dropped; that survivor is an earlier item of the same name *)
        destruct (Dedup.written item name equal dedups m r) as [w m2] eqn:W. cbn [fst].
        apply existsb_exists in Ex. destruct Ex as [z [Hz Ez]]. destruct (R2 _ _ Hz) as [Iz Nz].
        assert (E : existsb (fun y => String.eqb (name y) (name x) && equal y x) earlier = true).
        { apply existsb_exists. exists z. split; [assumption|]. rewrite Nz, String.eqb_refl. exact Ez. }
        rewrite E. cbn [app]. change w with (fst (w, m2)). rewrite <- W. apply IH. split.
        * intros y Hy My. apply in_app_or in Hy. destruct Hy as [Hy|[<-|[]]]; [now apply R1|]. exists z. split; assumption.
        * intros k z' Hz'. destruct (R2 _ _ Hz') as [A B]. split; [apply in_or_app; now left|assumption].
      + (* nobody equals x: it survives and is pushed *)
        destruct (Dedup.written item name equal dedups (dm_push item m (name x) x) r) as [w m2] eqn:W. cbn [fst].
        assert (E : existsb (fun y => String.eqb (name y) (name x) && equal y x) earlier = false).
        { destruct (existsb _ earlier) eqn:Q; [|reflexivity]. exfalso.
          apply existsb_exists in Q. destruct Q as [y [Hy Q]]. apply andb_true_iff in Q. destruct Q as [Qn Qe].
          apply String.eqb_eq in Qn. destruct (R1 y Hy) as [z [Hz Ezy]]; [now rewrite Qn|].
          rewrite Qn in Hz.
          assert (existsb (fun y0 => equal y0 x) (dm_get item m (name x)) = true); [|congruence].
          apply existsb_exists. exists z. split; [assumption|]. eapply equal_trans; eauto. }
        rewrite E. cbn [app]. f_equal. change w with (fst (w, m2)). rewrite <- W. apply IH. split.
        * intros y Hy My. apply in_app_or in Hy. destruct Hy as [Hy|[<-|[]]].
          { destruct (R1 y Hy My) as [z [Hz Ez]]. exists z. split; [|assumption]. rewrite dm_get_push.
            destruct (String.eqb (name y) (name x)) eqn:Q; [|assumption].
            apply String.eqb_eq in Q. rewrite <- Q. apply in_or_app. now left. }
          { exists x. split.
            - rewrite dm_get_push, String.eqb_refl. apply in_or_app. right. now left.
            - apply equal_refl. }
        * intros k z' Hz'. rewrite dm_get_push in Hz'. destruct (String.eqb k (name x)) eqn:Q.
          { apply String.eqb_eq in Q. subst k. apply in_app_or in Hz'. destruct Hz' as [Hz'|[<-|[]]].
            - destruct (R2 _ _ Hz') as [A B]. split; [apply in_or_app; now left|assumption].
            - split; [apply in_or_app; right; now left|reflexivity]. }
          { destruct (R2 _ _ Hz') as [A B]. split; [apply in_or_app; now left|assumption]. }
    - (* the name is not listed: always written, the map is untouched *)
      destruct (Dedup.written item name equal dedups m r) as [w m2] eqn:W. cbn [fst app]. f_equal.
      change w with (fst (w, m2)). rewrite <- W. apply IH. split.
      + intros y Hy My. apply in_app_or in Hy. destruct Hy as [Hy|[<-|[]]]; [now apply R1|congruence].
      + intros k z' Hz'. destruct (R2 _ _ Hz') as [A B]. split; [apply in_or_app; now left|assumption].
  Qed.

  (* C17_dedup_per_module, part 1: the survivors of a module group are the first items of their classes, in the group's order *)
  Theorem written_group_first_of_class its :
    written_group item name equal dedups its = first_of_class [] its.
  Proof.
    unfold written_group. apply written_spec. split; [intros y []|]. intros k z H. destruct H.
  Qed.

  (* part 2: groups do not interact -- whatever order the groups are processed in, every group yields its own survivors *)
  Theorem written_groups_schedule_free (pi : list (list item) -> list (list item)) groups :
    perm_fun pi ->
    Permutation (written_groups item name equal dedups (pi groups)) (written_groups item name equal dedups groups) /\
    forall g, In g groups -> In (first_of_class [] g) (written_groups item name equal dedups (pi groups)).
  Proof.
    intros P. unfold written_groups. split; [apply Permutation_map; apply P|].
    intros g Hg. rewrite <- written_group_first_of_class. apply in_map. eapply Permutation_in; [apply Permutation_sym; apply P|exact Hg].
  Qed.
End DedupP.

(* ---- one map shared by the groups a worker processes: the survivor depends on the processing order (seeded change C17c) ------------ *)
(* two modules, each with its own BaseResp (item = (module, field-name tag); equal ignores field names) *)
Definition br_name (x : nat * nat) : string := "BaseResp"%string.
Definition br_equal (a b : nat * nat) : bool := true.

Lemma dedup_shared_map_refuted :
  let g1 := [(1, 0)] in let g2 := [(2, 0)] in
  written_shared (nat * nat) br_name br_equal ["BaseResp"%string] [] [g1; g2] = [[(1, 0)]; []] /\
  written_shared (nat * nat) br_name br_equal ["BaseResp"%string] [] [g2; g1] = [[(2, 0)]; []] /\
  written_groups (nat * nat) br_name br_equal ["BaseResp"%string] [g1; g2] = [[(1, 0)]; [(2, 0)]].
Proof. repeat split; reflexivity. Qed.

(* non-vacuity: two listed names, an unlisted one, a non-equal item of a listed name *)
Example dedup_nonvacuous :
  let name := fun x : nat * nat => if Nat.eqb (fst x) 0 then "BaseResp"%string else if Nat.eqb (fst x) 1 then "Empty"%string else "Other"%string in
  let equal := fun a b : nat * nat => Nat.eqb (snd a) (snd b) in
  written_group (nat * nat) name equal ["BaseResp"%string; "Empty"%string] [(0, 7); (1, 7); (0, 8); (0, 7); (2, 7); (2, 7); (1, 7)] =
    [(0, 7); (1, 7); (0, 8); (2, 7); (2, 7)].
Proof. reflexivity. Qed.
