(* C13: the statements of the property assembled from KeepP (decode), KeepViewP (known fields unchanged, uuids),
   KeepSizeP (size), EvoTopP (C08 for the plain build). *)
From PVGen Require Import Gen GenKeep GenSpec EvoSpec KeepSpec Proofs.GenBase Proofs.EncP Proofs.EvoBase Proofs.EvoP
  Proofs.EvoErrP Proofs.EvoTopP Proofs.KeepBase Proofs.KeepP Proofs.KeepSizeP Proofs.KeepTopP Proofs.KeepViewP Proofs.KeepRetP Proofs.KeepWtP.
From PV Require Import Proofs.TablesP Proofs.PrimP Proofs.HeaderP Proofs.RoundtripP.
Open Scope Z_scope.

(* the keep build and the plain build on the same message: same outcome, same end position, and the decoded values
   differ only by the retained chunks *)
Theorem keep_known_unchanged : forall S p k T tv,
  wf_schema S = true -> arg_free S T tv = true -> p <> PCompact ->
  wt tv = true -> ttype_of tv = ttype_of_ty S T ->
  evo_dom S T tv = true -> no_retyped_variant S T tv = true -> unions_single S T tv = true ->
  forall c, w_pend c = None ->
  exists ss, write_val p k tv c = Ok (ss, c) /\
    forall fuel r rcx, (vsize tv <= fuel)%nat -> idle rcx ->
      gen_decode S p fuel T (mkS (flat ss ++ r) rcx) =
      match gen_decode_keep S p fuel T (mkS (flat ss ++ r) rcx) with
      | Ok (g, s) => Ok (strip g, s)
      | Err e => Err e
      | Panic q => Panic q
      end.
Proof.
  intros S p k T tv Hwf Hnka Hbin Hwt Hty Hd Hn Hu c Hc.
  destruct (keep_decode S p k T tv Hbin Hwt Hty Hd Hn Hnka c Hc) as (ss & Hw & Hk).
  destruct (evo_tolerant S p k T tv Hwt Hty Hd Hn c Hc) as (ss' & Hw' & Hv).
  rewrite Hw in Hw'. injection Hw' as <-.
  exists ss. split; [exact Hw|]. intros fuel r rcx Hf Hi.
  rewrite (Hk fuel r rcx Hf Hi), (Hv fuel r rcx Hf Hi), (viewk_strip S p k c tv T Hwf Hn Hu). unfold rmap.
  destruct (viewk S p k c T tv); reflexivity.
Qed.

(* size() of whatever the keep decoder returned is the number of bytes encode() writes for it *)
Theorem keep_decoded_size : forall S p k c T tv g b,
  wf_schema S = true -> p <> PCompact -> wt tv = true ->
  viewk S p k c T tv = Ok g -> gen_encode S p k T g = Ok b -> gen_size S p T g = Ok (Z.of_nat (length b)).
Proof.
  intros S p k c T tv g b Hwf Hbin Hwt Hv He.
  exact (keep_size_exact S p k T g b Hbin (viewk_uuids S p k c tv T g Hwf Hwt Hv) He).
Qed.

(* decode with retention, re-encode, read back with the self-describing reader: the whole trip *)
Theorem keep_retain_trip : forall S p k T tv g,
  wf_schema S = true -> arg_free S T tv = true -> p <> PCompact ->
  wt tv = true -> ttype_of tv = ttype_of_ty S T ->
  evo_dom S T tv = true -> no_retyped_variant S T tv = true ->
  forall c, w_pend c = None ->
  viewk S p k c T tv = Ok g -> empty_elems_ok S T tv = true ->
  exists ss b,
    write_val p k tv c = Ok (ss, c) /\
    (forall fuel r rcx, (vsize tv <= fuel)%nat -> idle rcx ->
       gen_decode_keep S p fuel T (mkS (flat ss ++ r) rcx) = Ok (g, mkS r rcx)) /\
    enc_ty S p k T g c = Ok (b, c) /\
    size_ty S p T g c = Ok (Z.of_nat (length (flat b)), c) /\
    wt (reenc S T tv) = true /\
    (forall fuel r rcx, (vsize (reenc S T tv) <= fuel)%nat -> idle rcx ->
       read_val p fuel (ttype_of tv) (mkS (flat b ++ r) rcx) = Ok (reenc S T tv, mkS r rcx)).
Proof.
  intros S p k T tv g Hwf Hnka Hbin Hwt Hty Hd Hn c Hc Hv Hee.
  pose proof (reenc_wt S tv T Hwf Hwt Hty Hd Hn Hee) as Hwr.
  destruct (keep_decode S p k T tv Hbin Hwt Hty Hd Hn Hnka c Hc) as (ss & Hw & Hk).
  destruct (keep_retain S p k c T tv g Hwf Hbin Hc Hn Hv Hwr) as (b & He & Hr).
  exists ss, b. split; [exact Hw|]. split.
  { intros fuel r rcx Hf Hi. rewrite (Hk fuel r rcx Hf Hi), Hv. reflexivity. }
  split; [exact He|]. split; [|split; [exact Hwr|exact Hr]].
  exact (size_keep_all S p Hbin k g (viewk_uuids S p k c tv T g Hwf Hwt Hv) T c b c He).
Qed.

(* non-vacuity: the reader / message of KeepTopP.keep_decode_nonvacuous, all the way round *)
Example keep_retain_nonvacuous :
  reenc Rk (TyRef 0) tvk =
    VStruct [ (1, VI32 7); (3, VStruct [(1, VBool true); (8, VDouble 0)]); (5, VStruct [(4, VList TI8 [VI8 1])]);
              (9, VBinary [x61; x62]); (2, VI64 5) ] /\
  forall p, p <> PCompact -> exists g ss b,
    viewk Rk p BContig w0 (TyRef 0) tvk = Ok g /\
    write_val p BContig tvk w0 = Ok (ss, w0) /\
    gen_decode_keep Rk p 40 (TyRef 0) (mkS (flat ss) r0) = Ok (g, mkS [] r0) /\
    enc_ty Rk p BContig (TyRef 0) g w0 = Ok (b, w0) /\
    read_val p 40 TStruct (mkS (flat b) r0) = Ok (reenc Rk (TyRef 0) tvk, mkS [] r0).
Proof.
  split; [vm_compute; reflexivity|]. intros p Hp.
  assert (Hv : exists g, viewk Rk p BContig w0 (TyRef 0) tvk = Ok g) by (destruct p; try congruence; eexists; vm_compute; reflexivity).
  destruct Hv as (g & Hv).
  destruct (keep_retain_trip Rk p BContig (TyRef 0) tvk g eq_refl eq_refl Hp eq_refl eq_refl eq_refl eq_refl w0 eq_refl Hv eq_refl)
    as (ss & b & Hw & Hd & He & _ & _ & Hr).
  exists g, ss, b. split; [exact Hv|]. split; [exact Hw|]. split.
  { specialize (Hd 40%nat [] r0 ltac:(vm_compute; lia) idle_r0). rewrite app_nil_r in Hd. exact Hd. }
  split; [exact He|].
  specialize (Hr 40%nat [] r0 ltac:(vm_compute; lia) idle_r0). rewrite app_nil_r in Hr. exact Hr.
Qed.
