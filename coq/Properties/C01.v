(* C01 -- Thrift runtime round trip on every protocol and buffer kind.
   Only statements, each closed by [exact] of a lemma proved in Proofs/, with
   Print Assumptions beneath. *)
From PV Require Import Thrift.Interp Proofs.PrimP.
Open Scope Z_scope.

(* primitive integers survive a write/read on every protocol, with arbitrary trailing bytes
   and arbitrary reader context *)
Theorem C01_prim_i32 : forall p z c, exists l, w_i32 p z c = Ok ([Copy l], c) /\
  (in_s 32 z -> forall r rcx, r_i32 p (mkS (l ++ r) rcx) = Ok (z, mkS r rcx)).
Proof. exact w_i32_ok. Qed.
Print Assumptions C01_prim_i32.
