(* pilota::prost::encoding, codec level: one model per codec module.
     varint! instances      bool int64 uint32 uint64 sint32 sint64  (to_uint64 / from_uint64 with the
                            wrapping casts and the shift/xor expressions of the macro calls)
     mod int32              hand-written: sign extension to 64 bits on encode (10-byte varints for
                            negative values), truncation `as i32` on decode
     fixed_width! instances float double fixed32 fixed64 sfixed32 sfixed64 (little endian)
     string / faststr / bytes  (bytes::merge and merge_one_copy: `len > remaining` is tested BEFORE
                            copy_to_bytes / reserve; string validates UTF-8, faststr does not)
     message / group / hash_map / btree_map  generic over the field-merge function
     repeated and packed forms, encoded_len_* .
   Model only -- lemmas live in Proofs/.

   Values: integers are mathematical integers in the range of their Rust type (bool = 0/1, f32/f64 =
   their IEEE bit pattern as an unsigned integer), byte strings are lists of bytes.  [val] is the
   one value type of the whole family (a rose tree; Msg.v builds messages from it). *)
From PVPb Require Export Wire.
Open Scope Z_scope.

Inductive vkind := NMsg | NNone | NSome | NRep | NMap | NPair | NOne (idx : nat).
Inductive val := VI (z : Z) | VB (l : list byte) | VL (k : vkind) (l : list val).

Definition vint (v : val) : Z := match v with VI z => z | _ => 0 end.
Definition vbytes (v : val) : list byte := match v with VB l => l | _ => [] end.

(* ---------------------------------------------------------------- Rust casts *)
Definition as_u64 (z : Z) : Z := z mod two64.       (* iN as u64: sign extension, then reinterpretation *)
Definition as_u32 (z : Z) : Z := z mod two32.
Definition as_i32 (z : Z) : Z := wrap_s 32 z.       (* u64 as i32 / u32 as i32: truncation, two's complement *)
Definition as_i64 (z : Z) : Z := wrap_s 64 z.

(* ---------------------------------------------------------------- families *)
Definition is_varint_mod (m : codec_module) : bool :=
  match m with MBool | MInt32 | MInt64 | MUInt32 | MUInt64 | MSInt32 | MSInt64 => true | _ => false end.

(* row of the regenerated fixed_width! table *)
Fixpoint fixed_row (rows : list (codec_module * rust_num * Z * wire_type)) (m : codec_module)
  : option (rust_num * Z * wire_type) :=
  match rows with
  | [] => None
  | (m', t, w, wt) :: more => if codec_module_eqb m' m then Some (t, w, wt) else fixed_row more m
  end.
Definition fixed_of (m : codec_module) := fixed_row fixed_instances m.

Definition is_len_mod (m : codec_module) : bool :=
  match m with MString | MFastStr | MBytes => true | _ => false end.

(* the wire type a module writes / expects for a single value *)
Definition mod_wire_type (m : codec_module) : wire_type :=
  if is_varint_mod m then Varint
  else match fixed_of m with
       | Some (_, _, wt) => wt
       | None => LengthDelimited
       end.

(* ---------------------------------------------------------------- varint family *)
(* to_uint64 of each instance; [z] is the value of the Rust type *)
Definition to_uint64 (m : codec_module) (z : Z) : Z :=
  match m with
  | MBool => z                                        (* u64::from(bool) *)
  | MInt32 => as_u64 z                                (* let value: i32 = ..; value as u64 *)
  | MInt64 => as_u64 z                                (* *value as u64 *)
  | MUInt32 => z
  | MUInt64 => z
  | MSInt32 =>                                        (* ((value << 1) ^ (value >> 31)) as u32 as u64 *)
      let '(shl, sar, _, _) := zz32 in
      as_u32 (Z.lxor (as_i32 (Z.shiftl z shl)) (Z.shiftr z sar))
  | MSInt64 =>                                        (* ((value << 1) ^ (value >> 63)) as u64 *)
      let '(shl, sar, _, _) := zz64 in
      as_u64 (Z.lxor (as_i64 (Z.shiftl z shl)) (Z.shiftr z sar))
  | _ => 0
  end.

Definition from_uint64 (m : codec_module) (u : Z) : Z :=
  match m with
  | MBool => if u =? 0 then 0 else 1                  (* value != 0 *)
  | MInt32 => as_i32 u                                (* from_value as i32 *)
  | MInt64 => as_i64 u
  | MUInt32 => as_u32 u
  | MUInt64 => u
  | MSInt32 =>                                        (* let value = value as u32; ((value >> 1) as i32) ^ (-((value & 1) as i32)) *)
      let '(_, _, shr, mask) := zz32 in
      let value := as_u32 u in
      Z.lxor (as_i32 (Z.shiftr value shr)) (- as_i32 (Z.land value mask))
  | MSInt64 =>                                        (* ((value >> 1) as i64) ^ (-((value & 1) as i64)) *)
      let '(_, _, shr, mask) := zz64 in
      Z.lxor (as_i64 (Z.shiftr u shr)) (- as_i64 (Z.land u mask))
  | _ => 0
  end.

(* ---------------------------------------------------------------- fixed family *)
Definition is_signed (t : rust_num) : bool := match t with RI32 | RI64 => true | _ => false end.

(* buf.put_<ty>_le(value) *)
Definition fixed_payload (w : Z) (z : Z) : list byte := le_bytes (Z.to_nat w) (z mod 2 ^ (8 * w)).
(* buf.get_<ty>_le() on the next w bytes *)
Definition fixed_value (t : rust_num) (w : Z) (bs : list byte) : Z :=
  if is_signed t then wrap_s (8 * w) (of_le bs) else of_le bs.

(* ---------------------------------------------------------------- UTF-8 (core::str::from_utf8) *)
Definition cont_b (b : byte) : bool := (128 <=? b2z b) && (b2z b <=? 191).
Definition in_b (lo hi : Z) (b : byte) : bool := (lo <=? b2z b) && (b2z b <=? hi).

Fixpoint utf8_valid (l : list byte) : bool :=
  match l with
  | [] => true
  | b0 :: t =>
      let x := b2z b0 in
      if x <? 128 then utf8_valid t
      else if (194 <=? x) && (x <=? 223) then
        match t with b1 :: t' => cont_b b1 && utf8_valid t' | _ => false end
      else if x =? 224 then
        match t with b1 :: b2 :: t' => in_b 160 191 b1 && cont_b b2 && utf8_valid t' | _ => false end
      else if ((225 <=? x) && (x <=? 236)) || ((238 <=? x) && (x <=? 239)) then
        match t with b1 :: b2 :: t' => cont_b b1 && cont_b b2 && utf8_valid t' | _ => false end
      else if x =? 237 then
        match t with b1 :: b2 :: t' => in_b 128 159 b1 && cont_b b2 && utf8_valid t' | _ => false end
      else if x =? 240 then
        match t with b1 :: b2 :: b3 :: t' => in_b 144 191 b1 && cont_b b2 && cont_b b3 && utf8_valid t' | _ => false end
      else if (241 <=? x) && (x <=? 243) then
        match t with b1 :: b2 :: b3 :: t' => cont_b b1 && cont_b b2 && cont_b b3 && utf8_valid t' | _ => false end
      else if x =? 244 then
        match t with b1 :: b2 :: b3 :: t' => in_b 128 143 b1 && cont_b b2 && cont_b b3 && utf8_valid t' | _ => false end
      else false
  end.

(* ---------------------------------------------------------------- encoders (pure) *)
Definition zlen (l : list byte) : Z := Z.of_nat (length l).

(* what follows the key for one value of a scalar module *)
Definition payload (m : codec_module) (v : val) : list byte :=
  if is_varint_mod m then encode_varint (to_uint64 m (vint v))
  else match fixed_of m with
       | Some (_, w, _) => fixed_payload w (vint v)
       | None => encode_varint (zlen (vbytes v)) ++ vbytes v        (* value.len() as u64, then the bytes *)
       end.

Definition payload_len (m : codec_module) (v : val) : Z :=
  if is_varint_mod m then encoded_len_varint (to_uint64 m (vint v))
  else match fixed_of m with
       | Some (_, w, _) => w
       | None => encoded_len_varint (zlen (vbytes v)) + zlen (vbytes v)
       end.

(* <module>::encode(tag, value, buf) *)
Definition encode_scalar (m : codec_module) (tag : Z) (v : val) : list byte :=
  encode_key tag (mod_wire_type m) ++ payload m v.
(* <module>::encoded_len(tag, value) *)
Definition encoded_len_scalar (m : codec_module) (tag : Z) (v : val) : Z :=
  key_len tag + payload_len m v.

(* encode_repeated: for value in values { encode(tag, value, buf) } *)
Definition encode_repeated (m : codec_module) (tag : Z) (vs : list val) : list byte :=
  flat_map (encode_scalar m tag) vs.
Definition sumZ (l : list Z) : Z := fold_right Z.add 0 l.
(* key_len(tag) * values.len() + sum of payload lengths   (fixed: (key_len(tag) + width) * len) *)
Definition encoded_len_repeated (m : codec_module) (tag : Z) (vs : list val) : Z :=
  match fixed_of m with
  | Some (_, w, _) => (key_len tag + w) * Z.of_nat (length vs)
  | None => key_len tag * Z.of_nat (length vs) + sumZ (map (payload_len m) vs)
  end.

(* encode_packed (numeric modules only): nothing for an empty slice; else key, total length, payloads *)
Definition packed_body_len (m : codec_module) (vs : list val) : Z :=
  match fixed_of m with
  | Some (_, w, _) => Z.of_nat (length vs) * w
  | None => sumZ (map (payload_len m) vs)
  end.
Definition encode_packed (m : codec_module) (tag : Z) (vs : list val) : list byte :=
  match vs with
  | [] => []
  | _ => encode_key tag LengthDelimited ++ encode_varint (packed_body_len m vs) ++ flat_map (payload m) vs
  end.
Definition encoded_len_packed (m : codec_module) (tag : Z) (vs : list val) : Z :=
  match vs with
  | [] => 0
  | _ => let len := packed_body_len m vs in key_len tag + encoded_len_varint len + len
  end.

(* ---------------------------------------------------------------- decoders *)
(* one value of a varint-family module, after the wire type check *)
Definition merge_varint_value (m : codec_module) : M val :=
  let+ u := decode_varint in ret (VI (from_uint64 m u)).

Definition merge_fixed_value (t : rust_num) (w : Z) : M val :=
  let+ rem := remaining in
  if Z.of_nat rem <? w then fail PUnderflow else
  let+ bs := take_bytes (Z.to_nat w) in
  ret (VI (fixed_value t w bs)).

(* bytes::merge: check, length, `len > remaining` test, then copy_to_bytes(len) (one allocation of len
   bytes; zero-copy when both sides are Bytes -- the ghost counter is an upper bound) *)
Definition bytes_merge (wt : wire_type) : M val :=
  let+ _ := check_wire_type LengthDelimited wt in
  let+ len := decode_varint in
  let+ rem := remaining in
  if Z.of_nat rem <? len then fail PUnderflow else
  let+ _ := charge len in
  let+ bs := take_bytes (Z.to_nat len) in
  ret (VB bs).

(* bytes::merge_one_copy: same checks, then value.replace_with(buf.take(len)): Vec clear + reserve(len) + put,
   or Bytes copy_to_bytes(len) *)
Definition bytes_merge_one_copy (wt : wire_type) : M val :=
  let+ _ := check_wire_type LengthDelimited wt in
  let+ len := decode_varint in
  let+ rem := remaining in
  if Z.of_nat rem <? len then fail PUnderflow else
  let+ _ := charge len in
  let+ bs := take_bytes (Z.to_nat len) in
  ret (VB bs).

(* string::merge: merge_one_copy into an empty String's Vec, then str::from_utf8 *)
Definition string_merge (wt : wire_type) : M val :=
  let+ v := bytes_merge_one_copy wt in
  if utf8_valid (vbytes v) then ret v else fail PUtf8.

(* faststr::merge: merge_one_copy into Bytes, then FastStr::from_bytes (checked: str::from_utf8 over the bytes; an invalid
   sequence is "invalid string value: data is not UTF-8 encoded" -- the repair of finding F-10b; before it the bytes went
   through from_bytes_unchecked).  tools/extract_pb.py pins the body (faststr_validates). *)
Definition faststr_merge (wt : wire_type) : M val :=
  let+ v := bytes_merge_one_copy wt in
  if utf8_valid (vbytes v) then ret v else fail PUtf8.

(* <module>::merge(wire_type, value, buf, ctx): the new content of *value *)
Definition merge_scalar (m : codec_module) (wt : wire_type) : M val :=
  if is_varint_mod m then
    let+ _ := check_wire_type Varint wt in merge_varint_value m
  else match fixed_of m with
       | Some (t, w, fwt) => let+ _ := check_wire_type fwt wt in merge_fixed_value t w
       | None =>
           match m with
           | MString => string_merge wt
           | MFastStr => faststr_merge wt
           | MBytes => bytes_merge wt
           | _ => fail PIllTyped
           end
       end.

(* Vec::push: one ghost unit per element *)
Definition push (vs : list val) (v : val) : M (list val) := let+ _ := charge 1 in ret (vs ++ [v]).

(* merge_repeated: numeric modules accept the packed form (LengthDelimited) and the unpacked one;
   length-delimited modules only their own wire type *)
Definition merge_repeated (m : codec_module) (wt : wire_type) (vs : list val) : M (list val) :=
  if is_len_mod m then
    let+ _ := check_wire_type LengthDelimited wt in
    let+ v := merge_scalar m wt in push vs v
  else
    match wt with
    | LengthDelimited =>
        merge_loop (fun vs => let+ v := merge_scalar m (mod_wire_type m) in push vs v) vs
    | _ =>
        let+ _ := check_wire_type (mod_wire_type m) wt in
        let+ v := merge_scalar m wt in push vs v
    end.

(* ---------------------------------------------------------------- message, group *)
(* generic over the message representation T and its merge_field (tag, wire type, ctx) *)
Definition message_merge {T} (mf : T -> Z -> wire_type -> Z -> M T) (wt : wire_type) (msg : T) (ctx : Z) : M T :=
  let+ _ := check_wire_type LengthDelimited wt in
  let+ _ := limit_reached ctx in
  let+ ctx' := enter_recursion ctx in
  merge_loop (fun msg => let+ (tag, fwt) := decode_key in mf msg tag fwt ctx') msg.

Definition group_merge {T} (mf : T -> Z -> wire_type -> Z -> M T) (tag : Z) (wt : wire_type) (msg : T) (ctx : Z) : M T :=
  let+ _ := check_wire_type StartGroup wt in
  let+ _ := limit_reached ctx in
  group_loop tag (fun msg ftag fwt => let+ ctx' := enter_recursion ctx in mf msg ftag fwt ctx') msg.

(* message::encode / encoded_len given the raw encoding and the reported length of the message *)
Definition message_encode (tag : Z) (reported_len : Z) (raw : list byte) : list byte :=
  encode_key tag LengthDelimited ++ encode_varint reported_len ++ raw.
Definition message_encoded_len (tag : Z) (len : Z) : Z := key_len tag + encoded_len_varint len + len.
Definition group_encode (tag : Z) (raw : list byte) : list byte :=
  encode_key tag StartGroup ++ raw ++ encode_key tag EndGroup.
Definition group_encoded_len (tag : Z) (len : Z) : Z := 2 * key_len tag + len.

(* ---------------------------------------------------------------- maps (hash_map / btree_map: same macro) *)
(* [edv] = feature pb-encode-default-value.  key_eq_default / val_eq_default are `key == &K::default()`
   and `val == val_default` (PartialEq of the Rust type: for f32/f64 values +0.0 == -0.0 and NaN != NaN) *)
Definition map_entry_len (edv : bool) (kdef vdef : bool) (klen vlen : Z) : Z :=
  (if kdef && negb edv then 0 else klen) + (if vdef && negb edv then 0 else vlen).
Definition map_entry_encode (edv : bool) (tag : Z) (kdef vdef : bool) (klen vlen : Z) (kenc venc : list byte) : list byte :=
  encode_key tag LengthDelimited ++ encode_varint (map_entry_len edv kdef vdef klen vlen)
  ++ (if kdef && negb edv then [] else kenc) ++ (if vdef && negb edv then [] else venc).
Definition map_entry_encoded_len (edv : bool) (kdef vdef : bool) (klen vlen : Z) : Z :=
  let len := map_entry_len edv kdef vdef klen vlen in encoded_len_varint len + len.

(* merge_with_default: no wire type check (merge_loop reads a length whatever the key said);
   returns the (key, value) pair to insert *)
Definition map_entry_merge {K V} (km : wire_type -> K -> Z -> M K) (vm : wire_type -> V -> Z -> M V)
           (kd : K) (vd : V) (ctx : Z) : M (K * V) :=
  let+ _ := limit_reached ctx in
  let+ ctx' := enter_recursion ctx in
  merge_loop (fun kv : K * V =>
                let+ (tag, wt) := decode_key in
                if tag =? 1 then let+ k' := km wt (fst kv) ctx' in ret (k', snd kv)
                else if tag =? 2 then let+ v' := vm wt (snd kv) ctx' in ret (fst kv, v')
                else let+ _ := skip_field depth_fuel wt tag ctx' in ret kv) (kd, vd).

(* ---------------------------------------------------------------- ranges of the Rust types *)
Definition mod_value_okb (m : codec_module) (v : val) : bool :=
  match m, v with
  | MBool, VI z => (0 <=? z) && (z <=? 1)
  | (MInt32 | MSInt32 | MSFixed32), VI z => in_sb 32 z
  | (MInt64 | MSInt64 | MSFixed64), VI z => in_sb 64 z
  | (MUInt32 | MFixed32 | MFloat), VI z => (0 <=? z) && (z <? two32)
  | (MUInt64 | MFixed64 | MDouble), VI z => (0 <=? z) && (z <? two64)
  | (MString | MFastStr), VB l => (zlen l <? two64) && utf8_valid l
  | MBytes, VB l => zlen l <? two64
  | _, _ => false
  end.

(* ---------------------------------------------------------------- vocabulary of the theorem statements *)
Definition is_fixed_mod (m : codec_module) : bool := match fixed_of m with Some _ => true | None => false end.
Definition scalar_mod (m : codec_module) : bool := is_varint_mod m || is_fixed_mod m || is_len_mod m.

Definition numeric_mod (m : codec_module) : bool := is_varint_mod m || is_fixed_mod m.

(* ghost units charged when the payload of [v] is decoded *)
Definition payload_cost (m : codec_module) (v : val) : Z := if is_len_mod m then zlen (vbytes v) else 0.

(* the loop a message's merge performs on the records of one repeated field *)
Fixpoint merge_records (m : codec_module) (n : nat) (vs : list val) : M (list val) :=
  match n with
  | O => ret vs
  | S n' => let+ k := decode_key in let+ vs' := merge_repeated m (snd k) vs in merge_records m n' vs'
  end.

