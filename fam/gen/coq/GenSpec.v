(* Specification-side definitions for the theorems about Gen.v: typing of values under a schema,
   well-formed schemas, the permitted round-trip difference (fill_defaults), the translation of a typed value
   to the self-describing value tree of PV.Thrift.Value (to_tval), the decidable class of finding F-04a.
   Executable Gallina only (no proofs). *)
From PVGen Require Export Gen.
Open Scope Z_scope.

Section Spec.
  Variable S : schema.

  Definition ttype_ok (t : ty) : bool := elem_ttype_ok (ttype_of_ty S t).

  (* drop leading OPTIONAL declarations until the one with this id: (skipped, found, rest) *)
  Fixpoint split_at (dfs : list field) (id : Z) : option (list field * field * list field) :=
    match dfs with
    | [] => None
    | f :: r =>
        if f_id f =? id then Some ([], f, r)
        else match f_req f with
             | Required => None
             | Optional => match split_at r id with
                           | Some (pre, g, rest) => Some (f :: pre, g, rest)
                           | None => None
                           end
             end
    end.

  Definition all_optional (dfs : list field) : bool :=
    forallb (fun f => match f_req f with Optional => true | Required => false end) dfs.

  (* has_type: ints in range, sizes representable, ids declared; a struct value lists its present fields in
     declaration order, every required field is present, no retained chunks; a union value names a declared variant *)
  Fixpoint has_type (t : ty) (v : gval) {struct v} : bool :=
    match v with
    | GBool _ => match resolve S t with TyBool => true | _ => false end
    | GI8 z => match resolve S t with TyI8 => in_sb 8 z | _ => false end
    | GI16 z => match resolve S t with TyI16 => in_sb 16 z | _ => false end
    | GI32 z => match resolve S t with TyI32 => in_sb 32 z | _ => false end
    | GI64 z => match resolve S t with TyI64 => in_sb 64 z | _ => false end
    | GDouble b => match resolve S t with TyDouble => (0 <=? b) && (b <? 2 ^ 64) | _ => false end
    | GBytes l => match resolve S t with TyString | TyBinary => len_ok (length l) | _ => false end
    | GUuid l => match resolve S t with TyUuid => Nat.eqb (length l) 16 | _ => false end
    | GVoid => false            (* void only occurs as the payload of a void union variant, see GUnion *)
    | GEnum z =>
        match resolve S t with
        | TyRef n => match lookup S n with Some (DEnum _) => in_sb 32 z | _ => false end
        | _ => false
        end
    | GList l =>
        match resolve S t with
        | TyList et => ttype_ok et && len_ok (length l) &&
                       (fix go (l : list gval) : bool := match l with [] => true | x :: r => has_type et x && go r end) l
        | _ => false
        end
    | GSet l =>
        match resolve S t with
        | TySet et => ttype_ok et && len_ok (length l) &&
                      (fix go (l : list gval) : bool := match l with [] => true | x :: r => has_type et x && go r end) l
        | _ => false
        end
    | GMap l =>
        match resolve S t with
        | TyMap kt vt => ttype_ok kt && ttype_ok vt && len_ok (length l) &&
                         (fix go (l : list (gval * gval)) : bool :=
                            match l with [] => true | (a, b) :: r => has_type kt a && has_type vt b && go r end) l
        | _ => false
        end
    | GStruct fs unk =>
        match unk, resolve S t with
        | [], TyRef n =>
            match lookup S n with
            | Some (DStruct dfs _ _) =>
                (fix go (fs : list (Z * gval)) (dfs : list field) {struct fs} : bool :=
                   match fs with
                   | [] => all_optional dfs
                   | (id, x) :: r =>
                       match split_at dfs id with
                       | Some (_, f, rest) => has_type (f_ty f) x && go r rest
                       | None => false
                       end
                   end) fs dfs
            | _ => false
            end
        | _, _ => false
        end
    | GUnion id x =>
        match resolve S t with
        | TyRef n =>
            match lookup S n with
            | Some (DUnion vs _ _) =>
                match find_variant vs id with
                | Some vt => if is_void (resolve S vt)
                             then match x with GVoid => true | _ => false end
                             else has_type vt x
                | None => false
                end
            | _ => false
            end
        | _ => false
        end
    | GUnionUnknown _ => false
    end.

  (* ---------- well-formed schema ---------- *)
  Fixpoint ty_closed (t : ty) : bool :=
    match t with
    | TyList a | TySet a => ty_closed a
    | TyMap a b => ty_closed a && ty_closed b
    | TyRef n => match lookup S n with
                 | Some _ => match resolve S t with
                             | TyRef m => match lookup S m with Some (DTypedef _) | None => false | _ => true end
                             | _ => true
                             end
                 | None => false
                 end
    | _ => true
    end.

  Fixpoint nodup_ids (l : list Z) : bool :=
    match l with
    | [] => true
    | x :: r => negb (existsb (Z.eqb x) r) && nodup_ids r
    end.

  Definition field_ok (f : field) : bool :=
    in_sb 16 (f_id f) && ty_closed (f_ty f) && ttype_ok (f_ty f) &&
    match f_dflt f with Some (_, d) => has_type (f_ty f) d | None => true end.

  Definition decl_ok (d : decl) : bool :=
    match d with
    | DStruct fs _ _ => nodup_ids (map f_id fs) && forallb field_ok fs
    | DUnion vs void_ok _ =>
        nodup_ids (map fst vs) &&
        forallb (fun '(i, t) => in_sb 16 i && ty_closed t) vs &&
        match vs with
        | (_, t0) :: r => Bool.eqb void_ok (is_void (resolve S t0)) &&
                          forallb (fun '(_, t) => ttype_ok t) r && (is_void (resolve S t0) || ttype_ok t0)
        | [] => negb void_ok
        end
    | DEnum _ => true
    | DTypedef t => ty_closed t && negb (is_void (resolve S t))
    end.

  Definition wf_schema : bool := forallb decl_ok S.

  (* ---------- the permitted difference: absent optional fields with an IDL default come back holding it ---------- *)
  Definition defaults_of (dfs : list field) : list (Z * gval) :=
    flat_map (fun f => match f_dflt f with Some (_, d) => [(f_id f, d)] | None => [] end) dfs.

  Fixpoint fill_defaults (t : ty) (v : gval) {struct v} : gval :=
    match v with
    | GList l => match resolve S t with
                 | TyList et => GList ((fix go (l : list gval) := match l with [] => [] | x :: r => fill_defaults et x :: go r end) l)
                 | _ => v
                 end
    | GSet l => match resolve S t with
                | TySet et => GSet ((fix go (l : list gval) := match l with [] => [] | x :: r => fill_defaults et x :: go r end) l)
                | _ => v
                end
    | GMap l => match resolve S t with
                | TyMap kt vt => GMap ((fix go (l : list (gval * gval)) :=
                                          match l with [] => [] | (a, b) :: r => (fill_defaults kt a, fill_defaults vt b) :: go r end) l)
                | _ => v
                end
    | GStruct fs unk =>
        match resolve S t with
        | TyRef n =>
            match lookup S n with
            | Some (DStruct dfs _ _) =>
                GStruct ((fix go (fs : list (Z * gval)) (dfs : list field) {struct fs} : list (Z * gval) :=
                            match fs with
                            | [] => defaults_of dfs
                            | (id, x) :: r =>
                                match split_at dfs id with
                                | Some (pre, f, rest) => defaults_of pre ++ (id, fill_defaults (f_ty f) x) :: go r rest
                                | None => (id, x) :: go r dfs
                                end
                            end) fs dfs) unk
            | _ => v
            end
        | _ => v
        end
    | GUnion id x =>
        match resolve S t with
        | TyRef n =>
            match lookup S n with
            | Some (DUnion vs _ _) =>
                match find_variant vs id with
                | Some vt => GUnion id (fill_defaults vt x)
                | None => v
                end
            | _ => v
            end
        | _ => v
        end
    | _ => v
    end.

  (* ---------- typed value -> self-describing value tree (what the emitted encoder writes) ---------- *)
  Fixpoint to_tval (t : ty) (v : gval) {struct v} : tval :=
    match v with
    | GBool b => VBool b
    | GI8 z => VI8 z | GI16 z => VI16 z | GI32 z => VI32 z | GI64 z => VI64 z
    | GDouble b => VDouble b
    | GBytes l => VBinary l
    | GUuid l => VUuid l
    | GVoid => VStruct []
    | GEnum z => VI32 z
    | GList l =>
        match resolve S t with
        | TyList et => VList (ttype_of_ty S et) ((fix go (l : list gval) := match l with [] => [] | x :: r => to_tval et x :: go r end) l)
        | _ => VStruct []
        end
    | GSet l =>
        match resolve S t with
        | TySet et => VSet (ttype_of_ty S et) ((fix go (l : list gval) := match l with [] => [] | x :: r => to_tval et x :: go r end) l)
        | _ => VStruct []
        end
    | GMap l =>
        match resolve S t with
        | TyMap kt vt => VMap (ttype_of_ty S kt) (ttype_of_ty S vt)
                           ((fix go (l : list (gval * gval)) :=
                               match l with [] => [] | (a, b) :: r => (to_tval kt a, to_tval vt b) :: go r end) l)
        | _ => VStruct []
        end
    | GStruct fs _ =>
        match resolve S t with
        | TyRef n =>
            match lookup S n with
            | Some (DStruct dfs _ _) =>
                VStruct ((fix go (fs : list (Z * gval)) :=
                            match fs with
                            | [] => []
                            | (id, x) :: r =>
                                match find_field dfs id with
                                | Some f => (id, to_tval (f_ty f) x) :: go r
                                | None => go r
                                end
                            end) fs)
            | _ => VStruct []
            end
        | _ => VStruct []
        end
    | GUnion id x =>
        match resolve S t with
        | TyRef n =>
            match lookup S n with
            | Some (DUnion vs _ _) =>
                match find_variant vs id with
                | Some vt => if is_void (resolve S vt) then VStruct [] else VStruct [(id, to_tval vt x)]
                | None => VStruct []
                end
            | _ => VStruct []
            end
        | _ => VStruct []
        end
    | GUnionUnknown _ => VStruct []
    end.

  (* ---------- the class of finding F-04a ---------- *)
  (* a struct field / union variant whose DECLARED type is a typedef (a non-enum Path) that resolves to bool:
     encode announces TType::Bool (the bool rides in the compact field header), size() announces TType::Struct
     through struct_field_len and counts the bool as a separate byte *)
  Definition tdbool_field (t : ty) : bool :=
    is_nonenum_path S t && ttype_eqb (ttype_of_ty S t) TBool.

  Definition decl_no_tdbool (d : decl) : bool :=
    match d with
    | DStruct fs _ _ => forallb (fun f => negb (tdbool_field (f_ty f))) fs
    | DUnion vs _ _ => forallb (fun '(_, t) => negb (tdbool_field t)) vs
    | _ => true
    end.
  Definition no_tdbool : bool := forallb decl_no_tdbool S.
End Spec.
