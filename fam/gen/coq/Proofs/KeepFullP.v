(* C13, last clause: a reader with the FULL schema W recovers from the re-encoded message what it recovers from the
   original one.  Pure (no bytes): [reenc S T tv] is the tree the re-encoded message carries (KeepRetP / KeepMainP); here

     full_view :  S ⊑ W  ->  viewk S .. T tv = Ok g  ->  view W T tv = Ok gw  ->
                  exists gw', view W T (reenc S T tv) = Ok gw' /\ dfill W T gw gw'

   by induction on the value tree.  The struct case characterises every fold over the wire fields (the reader's, the full
   reader's, reenc's) by "the LAST wire field that carries the declaration" ([lastm]). *)
From PVGen Require Import Gen GenKeep GenSpec EvoSpec KeepSpec FullSpec Proofs.GenBase Proofs.EncP Proofs.FinishP Proofs.EvoBase
  Proofs.EvoErrP Proofs.EvoTopP Proofs.KeepBase Proofs.KeepP Proofs.KeepViewP Proofs.KeepRetP Proofs.KeepWtP Proofs.RoundP.
From PV Require Import Proofs.TablesP Proofs.HeaderP.
From Coq Require Import Strings.Byte ZifyN ZifyNat ZifyBool.
Open Scope Z_scope.

(* ---------- the boolean equalities decide equality ---------- *)
Lemma ty_eqb_eq a : forall b, ty_eqb a b = true -> a = b.
Proof.
  induction a as [| | | | | | | | | |a IH|a IH|a1 IH1 a2 IH2|n]; intros [| | | | | | | | | |b|b|b1 b2|m] H; cbn [ty_eqb] in H;
    try discriminate; try reflexivity.
  - f_equal; auto.
  - f_equal; auto.
  - apply andb_prop in H as [H1 H2]. f_equal; auto.
  - apply Nat.eqb_eq in H. congruence.
Qed.

Lemma bytes_eqb_eq a : forall b, bytes_eqb a b = true -> a = b.
Proof.
  induction a as [|x a IH]; intros [|y b] H; cbn [bytes_eqb] in H; try discriminate; [reflexivity|].
  apply andb_prop in H as [H1 H2]. f_equal; [apply Byte.byte_dec_bl; exact H1|auto].
Qed.

Lemma chunks_eqb_eq a : forall b, chunks_eqb a b = true -> a = b.
Proof.
  induction a as [|x a IH]; intros [|y b] H; cbn [chunks_eqb] in H; try discriminate; [reflexivity|].
  apply andb_prop in H as [H1 H2]. f_equal; [apply bytes_eqb_eq; exact H1|auto].
Qed.

Lemma gval_eqb_eq a : forall w, gval_eqb a w = true -> a = w.
Proof.
  induction a as [b|z|z|z|z|z|l|l| |z|l HF|l HF|l HF|fs unk HF|id x IH|u] using gval_ind'; intros w Hb; destruct w;
    cbn [gval_eqb] in Hb; try discriminate Hb;
    try (f_equal; lia); try (f_equal; apply bytes_eqb_eq; exact Hb); try reflexivity.
  - f_equal. match goal with |- _ = ?m => revert m Hb end.
    induction HF as [|x l Hx HF IH]; intros [|y m] Hb; try discriminate; [reflexivity|].
    apply andb_prop in Hb as [H1 H2]. f_equal; auto.
  - f_equal. match goal with |- _ = ?m => revert m Hb end.
    induction HF as [|x l Hx HF IH]; intros [|y m] Hb; try discriminate; [reflexivity|].
    apply andb_prop in Hb as [H1 H2]. f_equal; auto.
  - f_equal. match goal with |- _ = ?m => revert m Hb end.
    induction HF as [|[x1 x2] l [Hx1 Hx2] HF IH]; intros [|[y1 y2] m] Hb; try discriminate; [reflexivity|].
    apply andb_prop in Hb as [H1 H3]. apply andb_prop in H1 as [H1 H2]. cbn [fst snd] in *. f_equal; [f_equal|]; auto.
  - apply andb_prop in Hb as [Hb Hu]. f_equal; [|apply chunks_eqb_eq; exact Hu].
    match goal with |- _ = ?m => revert m Hb end.
    induction HF as [|[i x] l Hx HF IH]; intros [|[j y] m] Hb; try discriminate; [reflexivity|].
    apply andb_prop in Hb as [H1 H3]. apply andb_prop in H1 as [H1 H2]. cbn [snd] in *. f_equal; [f_equal; [lia|auto]|auto].
  - apply andb_prop in Hb as [H1 H2]. f_equal; [lia|auto].
Qed.

Lemma field_sub_inv f g : field_sub f g = true ->
  f_id f = f_id g /\ f_ty f = f_ty g /\
  match f_dflt f, f_dflt g with
  | None, None => True
  | Some (_, x), Some (_, y) => x = y
  | _, _ => False
  end.
Proof.
  unfold field_sub. intros H. apply andb_prop in H as [H H3]. apply andb_prop in H as [H1 H2].
  split; [lia|]. split; [apply ty_eqb_eq; exact H2|].
  unfold dflt_eqb in H3. destruct (f_dflt f) as [[? x]|], (f_dflt g) as [[? y]|]; try discriminate; auto.
  apply gval_eqb_eq. exact H3.
Qed.

(* ---------- S ⊑ W: same names, same kinds, same typedefs ---------- *)
Lemma sub_lookup : forall S W, sub_schema S W = true -> forall n,
  match lookup S n, lookup W n with
  | Some a, Some b => sub_decl a b = true
  | None, None => True
  | _, _ => False
  end.
Proof.
  unfold lookup. induction S as [|a S IH]; intros [|b W] H n; cbn [sub_schema] in H; try discriminate.
  - destruct n; exact I.
  - apply andb_prop in H as [H1 H2]. destruct n as [|n]; cbn [nth_error]; [exact H1|apply IH; exact H2].
Qed.

Lemma sub_length : forall S W, sub_schema S W = true -> length S = length W.
Proof.
  induction S as [|a S IH]; intros [|b W] H; cbn [sub_schema] in H; try discriminate; [reflexivity|].
  apply andb_prop in H as [_ H]. cbn [length]. f_equal. auto.
Qed.

Section Sub.
  Variables S W : schema.
  Hypothesis Hsub : sub_schema S W = true.

  Lemma sub_resolve_n : forall fuel t, resolve_n S fuel t = resolve_n W fuel t.
  Proof.
    induction fuel as [|fuel IH]; intros t; [reflexivity|]. cbn [resolve_n]. destruct t; try reflexivity.
    pose proof (sub_lookup S W Hsub n) as Hl.
    destruct (lookup S n) as [a|], (lookup W n) as [b|]; try contradiction; [|reflexivity].
    destruct a, b; cbn [sub_decl] in Hl; try discriminate; try reflexivity.
    apply ty_eqb_eq in Hl. subst. apply IH.
  Qed.

  Lemma sub_resolve t : resolve S t = resolve W t.
  Proof. unfold resolve. rewrite (sub_length S W Hsub). apply sub_resolve_n. Qed.

  Lemma sub_ttype t : ttype_of_ty S t = ttype_of_ty W t.
  Proof.
    unfold ttype_of_ty. rewrite sub_resolve. destruct (resolve W t); try reflexivity.
    pose proof (sub_lookup S W Hsub n) as Hl.
    destruct (lookup S n) as [a|], (lookup W n) as [b|]; try contradiction; [|reflexivity].
    destruct a, b; cbn [sub_decl] in Hl; try discriminate; reflexivity.
  Qed.

  Lemma sub_struct n dfs kp ia : lookup S n = Some (DStruct dfs kp ia) ->
    exists dfw kpw iaw, lookup W n = Some (DStruct dfw kpw iaw) /\
      (forall f, In f dfs -> exists g, In g dfw /\ field_sub f g = true) /\
      (kp = false -> forall g, In g dfw -> exists f, In f dfs /\ f_id f = f_id g).
  Proof.
    intros El. pose proof (sub_lookup S W Hsub n) as Hl. rewrite El in Hl.
    destruct (lookup W n) as [[dfw kpw iaw| | |]|]; try contradiction; cbn [sub_decl] in Hl; try discriminate.
    apply andb_prop in Hl as [H1 H2]. exists dfw, kpw, iaw. split; [reflexivity|]. split.
    - intros f Hf. rewrite forallb_forall in H1. specialize (H1 f Hf). apply existsb_exists in H1. exact H1.
    - intros -> g Hg. cbn [orb] in H2. rewrite forallb_forall in H2. specialize (H2 g Hg).
      apply existsb_exists in H2 as (f & Hf & E). exists f. split; [exact Hf|lia].
  Qed.

  Lemma sub_union n vs vo kp : lookup S n = Some (DUnion vs vo kp) ->
    exists vw vow kpw, lookup W n = Some (DUnion vw vow kpw) /\
      (forall id t, In (id, t) vs -> In (id, t) vw) /\
      (kp = false -> forall id t, In (id, t) vw -> exists t', In (id, t') vs).
  Proof.
    intros El. pose proof (sub_lookup S W Hsub n) as Hl. rewrite El in Hl.
    destruct (lookup W n) as [[| vw vow kpw | |]|]; try contradiction; cbn [sub_decl] in Hl; try discriminate.
    apply andb_prop in Hl as [H1 H2]. exists vw, vow, kpw. split; [reflexivity|]. split.
    - intros id t Hv. rewrite forallb_forall in H1. specialize (H1 _ Hv). apply existsb_exists in H1 as ([j u] & Hw & E).
      unfold variant_sub in E. cbn [fst snd] in E. apply andb_prop in E as [E1 E2]. apply ty_eqb_eq in E2.
      replace id with j by lia. subst. exact Hw.
    - intros -> id t Hw. cbn [orb] in H2. rewrite forallb_forall in H2. specialize (H2 _ Hw).
      apply existsb_exists in H2 as ([j u] & Hv & E). cbn [fst] in E. exists u. replace id with j by lia. exact Hv.
  Qed.

  Lemma sub_enum n ms : lookup S n = Some (DEnum ms) -> exists mw, lookup W n = Some (DEnum mw).
  Proof.
    intros El. pose proof (sub_lookup S W Hsub n) as Hl. rewrite El in Hl.
    destruct (lookup W n) as [[| | mw |]|]; try contradiction; cbn [sub_decl] in Hl; try discriminate. eauto.
  Qed.
End Sub.

(* ---------- the view of an encoded well-typed value is the value, defaults filled (pure form of C02) ---------- *)
Section ViewTv.
  Variable W : schema.
  Hypothesis Hwf : wf_schema W = true.

  Lemma view_fields_tv dfs : nodup_ids (map f_id dfs) = true ->
    forall fs, Forall (fun q => forall t, has_type W t (snd q) = true ->
                                view W t (to_tval W t (snd q)) = Ok (fill_defaults W t (snd q))) fs ->
    Forall (fun q => exists f, find_field dfs (fst q) = Some f /\ field_ok W f = true /\
                               has_type W (f_ty f) (snd q) = true) fs ->
    forall vars, view_fields W dfs (tv_fields W dfs fs) vars = Ok (apply_fields W dfs fs vars).
  Proof.
    intros Hnd. induction fs as [|[id x] r IH]; intros HF HT vars; [reflexivity|].
    inversion HF as [|? ? Hx Hr]; subst. inversion HT as [|? ? (f & Hf & Hok & Hty) HTr]; subst. cbn [fst snd] in *.
    rewrite tv_fields_cons. cbn [apply_fields]. rewrite Hf. rewrite view_fields_cons.
    rewrite (to_tval_ttype W _ _ Hty), (match_field_found W dfs 0 id f Hf). cbn [Nat.add].
    rewrite (Hx _ Hty). cbn [bind]. apply IH; assumption.
  Qed.

  Theorem view_to_tval v : forall t, has_type W t v = true -> view W t (to_tval W t v) = Ok (fill_defaults W t v).
  Proof.
    induction v as [b|z|z|z|z|z|l|l| |z|l HF|l HF|l HF|fs unk HF|id x IH|u] using gval_ind'; intros t Ht.
    1-10: cbn [has_type to_tval view fill_defaults] in *; res_cases W t; try reflexivity.
    - decl_cases W n. reflexivity.
    - rewrite has_type_list in Ht. rewrite to_tval_list, fill_defaults_list. res_cases W t. rewrite view_list, Eres.
      apply andb_prop in Ht as [_ He].
      assert (E : view_elems W et (tv_elems W et l) = Ok (fd_elems W et l)).
      { induction HF as [|x r Hx Hr IHr]; [reflexivity|]. cbn [ht_elems] in He. apply andb_prop in He as [H1 H2].
        cbn [tv_elems fd_elems]. rewrite view_elems_cons, (Hx _ H1), (IHr H2). reflexivity. }
      rewrite E. reflexivity.
    - rewrite has_type_set in Ht. rewrite to_tval_set, fill_defaults_set. res_cases W t. rewrite view_set, Eres.
      apply andb_prop in Ht as [_ He].
      assert (E : view_elems W et (tv_elems W et l) = Ok (fd_elems W et l)).
      { induction HF as [|x r Hx Hr IHr]; [reflexivity|]. cbn [ht_elems] in He. apply andb_prop in He as [H1 H2].
        cbn [tv_elems fd_elems]. rewrite view_elems_cons, (Hx _ H1), (IHr H2). reflexivity. }
      rewrite E. reflexivity.
    - rewrite has_type_map in Ht. rewrite to_tval_map, fill_defaults_map. res_cases W t. rewrite view_map, Eres.
      apply andb_prop in Ht as [_ He].
      assert (E : view_pairs W kt vt (tv_pairs W kt vt l) = Ok (fd_pairs W kt vt l)).
      { induction HF as [|[a b] r [Ha Hb] Hr IHr]; [reflexivity|]. cbn [ht_pairs] in He. cbn [fst snd] in *.
        apply andb_prop in He as [H1 H3]. apply andb_prop in H1 as [H1 H2].
        cbn [tv_pairs fd_pairs]. rewrite view_pairs_cons, (Ha _ H1), (Hb _ H2), (IHr H3). reflexivity. }
      rewrite E. reflexivity.
    - rewrite has_type_struct in Ht. rewrite to_tval_struct, fill_defaults_struct. destruct unk; [|discriminate].
      res_cases W t. decl_cases W n. rewrite view_struct, Eres, Elk.
      destruct (wf_struct W Hwf _ _ _ _ Elk) as [Hnd Hok].
      rewrite (view_fields_tv dfs Hnd fs HF (ht_struct_inv W Hwf _ _ _ _ _ Elk Ht)). cbn [bind].
      rewrite (finish_apply_top W dfs fs Hnd Ht). reflexivity.
    - rewrite has_type_union in Ht. rewrite to_tval_union, fill_defaults_union. res_cases W t. decl_cases W n.
      destruct (find_variant vs id) as [vt|] eqn:Ev; [|discriminate].
      destruct (is_void (resolve W vt)) eqn:Evoid.
      + destruct x; try discriminate Ht.
        destruct (RoundP.void_variant_first W Hwf _ _ _ _ _ _ Elk Ev Evoid) as (-> & t0 & rest & ->).
        rewrite view_struct, Eres, Elk. reflexivity.
      + rewrite view_struct, Eres, Elk. rewrite view_variants_cons. unfold known_variant. rewrite Ev, Evoid.
        rewrite (to_tval_ttype W _ _ Ht), ttype_eqb_refl, (IH _ Ht). reflexivity.
    - discriminate.
  Qed.
End ViewTv.

Lemma find_variant_nodup vs : nodup_ids (map fst vs) = true -> forall id t, In (id, t) vs -> find_variant vs id = Some t.
Proof.
  induction vs as [|[i u] r IH]; intros Hnd id t Hin; [destruct Hin|].
  cbn [map fst nodup_ids] in Hnd. apply andb_prop in Hnd as [H1 H2]. apply negb_true_iff in H1.
  cbn [find_variant]. destruct Hin as [E|Hin].
  - injection E as -> ->. rewrite Z.eqb_refl. reflexivity.
  - destruct (Z.eqb_spec i id) as [->|Hne]; [|auto].
    exfalso. apply (existsb_eqb_false _ _ H1 id); [|reflexivity]. apply (in_map fst) in Hin. exact Hin.
Qed.

Lemma find_variant_none vs id : find_variant vs id = None -> forall t, ~ In (id, t) vs.
Proof.
  induction vs as [|[i u] r IH]; intros H t Hin; [destruct Hin|]. cbn [find_variant] in H.
  destruct (Z.eqb_spec i id) as [->|Hne]; [discriminate|]. destruct Hin as [E|Hin]; [congruence|]. eapply IH; eauto.
Qed.

Lemma wf_union_nodup W : wf_schema W = true -> forall n vs vo kp, lookup W n = Some (DUnion vs vo kp) ->
  nodup_ids (map fst vs) = true.
Proof.
  intros Hwf n vs vo kp Hl. apply (wf_lookup W Hwf) in Hl. cbn [decl_ok] in Hl.
  apply andb_prop in Hl as [Hl _]. apply andb_prop in Hl as [Hl _]. exact Hl.
Qed.

(* ---------- the two schemas write a value both type to the same tree ---------- *)
Section SubTv.
  Variables S W : schema.
  Hypothesis HwfS : wf_schema S = true.
  Hypothesis HwfW : wf_schema W = true.
  Hypothesis Hsub : sub_schema S W = true.

  (* the full schema's declaration of a reader's field *)
  Lemma sub_field n dfs kp ia dfw kpw iaw f : lookup S n = Some (DStruct dfs kp ia) -> lookup W n = Some (DStruct dfw kpw iaw) ->
    In f dfs -> exists g, In g dfw /\ find_field dfw (f_id f) = Some g /\ field_sub f g = true.
  Proof.
    intros ElS ElW Hf. destruct (sub_struct S W Hsub _ _ _ _ ElS) as (dfw' & kpw' & iaw' & ElW' & Hall & _).
    rewrite ElW in ElW'. injection ElW' as <- <- <-.
    destruct (Hall f Hf) as (g & Hg & Hfg). exists g. split; [exact Hg|]. split; [|exact Hfg].
    destruct (field_sub_inv _ _ Hfg) as (-> & _). apply find_field_nodup; [|exact Hg].
    apply (wf_struct W HwfW _ _ _ _ ElW).
  Qed.

  Lemma to_tval_sub v : forall t, has_type S t v = true -> has_type W t v = true -> to_tval S t v = to_tval W t v.
  Proof.
    induction v as [b|z|z|z|z|z|l|l| |z|l HF|l HF|l HF|fs unk HF|id x IH|u] using gval_ind'; intros t HS HW; try reflexivity.
    - rewrite has_type_list in HS, HW. rewrite !to_tval_list. rewrite <- (sub_resolve S W Hsub) in *. res_cases S t.
      rewrite (sub_ttype S W Hsub). f_equal.
      apply andb_prop in HS as [_ HS]. apply andb_prop in HW as [_ HW].
      induction HF as [|x r Hx Hr IHr]; [reflexivity|]. cbn [ht_elems] in HS, HW.
      apply andb_prop in HS as [S1 S2]. apply andb_prop in HW as [W1 W2]. cbn [tv_elems]. f_equal; auto.
    - rewrite has_type_set in HS, HW. rewrite !to_tval_set. rewrite <- (sub_resolve S W Hsub) in *. res_cases S t.
      rewrite (sub_ttype S W Hsub). f_equal.
      apply andb_prop in HS as [_ HS]. apply andb_prop in HW as [_ HW].
      induction HF as [|x r Hx Hr IHr]; [reflexivity|]. cbn [ht_elems] in HS, HW.
      apply andb_prop in HS as [S1 S2]. apply andb_prop in HW as [W1 W2]. cbn [tv_elems]. f_equal; auto.
    - rewrite has_type_map in HS, HW. rewrite !to_tval_map. rewrite <- (sub_resolve S W Hsub) in *. res_cases S t.
      rewrite !(sub_ttype S W Hsub). f_equal.
      apply andb_prop in HS as [_ HS]. apply andb_prop in HW as [_ HW].
      induction HF as [|[a b] r [Ha Hb] Hr IHr]; [reflexivity|]. cbn [ht_pairs] in HS, HW. cbn [fst snd] in *.
      apply andb_prop in HS as [S1 S3]. apply andb_prop in S1 as [S1 S2].
      apply andb_prop in HW as [W1 W3]. apply andb_prop in W1 as [W1 W2]. cbn [tv_pairs]. f_equal; [f_equal|]; auto.
    - rewrite has_type_struct in HS, HW. rewrite !to_tval_struct. destruct unk; [|discriminate].
      rewrite <- (sub_resolve S W Hsub) in *. res_cases S t.
      destruct (lookup S n) as [[dfs kp ia| | |]|] eqn:ElS; try discriminate.
      destruct (lookup W n) as [[dfw kpw iaw| | |]|] eqn:ElW; try discriminate. f_equal.
      pose proof (ht_struct_inv S HwfS _ _ _ _ _ ElS HS) as TS. pose proof (ht_struct_inv W HwfW _ _ _ _ _ ElW HW) as TW.
      clear HS HW. induction HF as [|[id x] r Hx Hr IHr]; [reflexivity|].
      inversion TS as [|? ? (f & Hf & _ & Hty) TSr]; subst. inversion TW as [|? ? (g & Hg & _ & Htyw) TWr]; subst.
      cbn [fst snd] in *. rewrite !tv_fields_cons, Hf, Hg.
      destruct (find_field_in _ _ _ Hf) as [Hfin Hfid].
      destruct (sub_field _ _ _ _ _ _ _ _ ElS ElW Hfin) as (g' & _ & Hg' & Hfg). rewrite Hfid, Hg in Hg'. injection Hg' as <-.
      destruct (field_sub_inv _ _ Hfg) as (_ & Ety & _). rewrite <- Ety in *. f_equal; [f_equal|]; auto.
    - rewrite has_type_union in HS, HW. rewrite !to_tval_union. rewrite <- (sub_resolve S W Hsub) in *. res_cases S t.
      destruct (lookup S n) as [[|vs vo kp| |]|] eqn:ElS; try discriminate.
      destruct (lookup W n) as [[|vw vow kpw| |]|] eqn:ElW; try discriminate.
      destruct (find_variant vs id) as [vt|] eqn:Ev; [|discriminate].
      destruct (sub_union S W Hsub _ _ _ _ ElS) as (vw' & vow' & kpw' & ElW' & Hall & _).
      rewrite ElW in ElW'. injection ElW' as <- <- <-.
      rewrite (find_variant_nodup vw (wf_union_nodup W HwfW _ _ _ _ ElW) id vt (Hall _ _ (find_variant_in _ _ _ Ev))) in *.
      rewrite <- (sub_resolve S W Hsub) in *. destruct (is_void (resolve S vt)); [reflexivity|]. f_equal. f_equal. f_equal. auto.
  Qed.
End SubTv.

(* ---------- the last wire field that satisfies h ---------- *)
Fixpoint lastp (h : Z * tval -> bool) (fs : list (Z * tval)) : option tval :=
  match fs with
  | [] => None
  | q :: r => match lastp h r with
              | Some y => Some y
              | None => if h q then Some (snd q) else None
              end
  end.

Lemma lastp_in h fs x : lastp h fs = Some x -> exists id, In (id, x) fs /\ h (id, x) = true.
Proof.
  induction fs as [|[id y] r IH]; cbn [lastp]; [discriminate|].
  destruct (lastp h r) as [z|].
  - intros E. injection E as ->. destruct (IH eq_refl) as (i & Hi & Hh). exists i. split; [right; exact Hi|exact Hh].
  - destruct (h (id, y)) eqn:Eh; [|discriminate]. cbn [snd]. intros E. injection E as ->. exists id. split; [left; reflexivity|exact Eh].
Qed.

Lemma lastp_ext h h' fs : (forall q, In q fs -> h q = h' q) -> lastp h fs = lastp h' fs.
Proof.
  induction fs as [|q r IH]; intros H; [reflexivity|]. cbn [lastp].
  rewrite IH by (intros q' Hq; apply H; right; exact Hq). rewrite (H q (or_introl eq_refl)). reflexivity.
Qed.

Lemma lastp_app h a b : lastp h (a ++ b) = match lastp h b with Some y => Some y | None => lastp h a end.
Proof.
  induction a as [|q a IH]; cbn [app lastp]; [destruct (lastp h b); reflexivity|].
  rewrite IH. destruct (lastp h b); reflexivity.
Qed.

Lemma lastp_none h fs : (forall q, In q fs -> h q = false) -> lastp h fs = None.
Proof.
  induction fs as [|q r IH]; intros H; [reflexivity|]. cbn [lastp].
  rewrite IH by (intros q' Hq; apply H; right; exact Hq). rewrite (H q (or_introl eq_refl)). reflexivity.
Qed.

Lemma lastp_filter h P fs : (forall q, In q fs -> h q = true -> P q = true) -> lastp h (filter P fs) = lastp h fs.
Proof.
  induction fs as [|q r IH]; intros H; [reflexivity|]. cbn [filter lastp].
  assert (IH' : lastp h (filter P r) = lastp h r) by (apply IH; intros q' Hq; apply H; right; exact Hq).
  destruct (P q) eqn:EP.
  - cbn [lastp]. rewrite IH'. reflexivity.
  - rewrite IH'. destruct (h q) eqn:Eh; [|destruct (lastp h r); reflexivity].
    rewrite (H q (or_introl eq_refl) Eh) in EP. discriminate.
Qed.

Definition unmatched (S : schema) (dfs : list field) (q : Z * tval) : bool :=
  match match_field S dfs 0 (Some (fst q)) (ttype_of (snd q)) with Some _ => false | None => true end.

(* ---------- the reader's fold over the wire fields, variable by variable ---------- *)
Section Folds.
  Variable R : schema.
  Variable dfs : list field.
  Hypothesis Hnd : nodup_ids (map f_id dfs) = true.

  Lemma carried_matched j g id x : nth_error dfs j = Some g -> carries R g (id, x) = true ->
    match_field R dfs 0 (Some id) (ttype_of x) = Some (j, g).
  Proof. intros Hj Hc. exact (match_field_carrier R dfs Hnd j g (id, x) Hj Hc). Qed.

  Lemma matched_carried i f id x : match_field R dfs 0 (Some id) (ttype_of x) = Some (i, f) ->
    nth_error dfs i = Some f /\ carries R f (id, x) = true.
  Proof.
    intros Em. destruct (match_field_nth _ _ _ _ _ _ _ Em) as (k & -> & Hk & Hid & Ht). cbn [Nat.add].
    split; [exact Hk|]. unfold carries. cbn [fst snd]. rewrite Ht. replace (f_id f =? id) with true by lia. reflexivity.
  Qed.

  Lemma vf_char : forall fs vars vars', view_fields R dfs fs vars = Ok vars' ->
    forall j g, nth_error dfs j = Some g -> (j < length vars)%nat ->
    match lastp (carries R g) fs with
    | Some x => exists y, view R (f_ty g) x = Ok y /\ nth_error vars' j = Some (Some y)
    | None => nth_error vars' j = nth_error vars j
    end.
  Proof.
    induction fs as [|[id x] r IH]; intros vars vars' H j g Hj Hl; [injection H as <-; reflexivity|].
    rewrite view_fields_cons in H. cbn [lastp].
    destruct (match_field R dfs 0 (Some id) (ttype_of x)) as [[i f]|] eqn:Em.
    - apply bind_ok_inv in H as (y0 & Hy0 & H).
      specialize (IH _ _ H j g Hj ltac:(rewrite set_nth_length; exact Hl)).
      destruct (lastp (carries R g) r) as [x'|]; [exact IH|].
      destruct (carries R g (id, x)) eqn:Ec.
      + rewrite (carried_matched _ _ _ _ Hj Ec) in Em. injection Em as <- <-. cbn [snd].
        exists y0. split; [exact Hy0|]. rewrite IH. apply set_nth_same. exact Hl.
      + rewrite IH. apply set_nth_other. intros ->.
        destruct (matched_carried _ _ _ _ Em) as [Hi Hc]. rewrite Hj in Hi. injection Hi as <-. congruence.
    - specialize (IH _ _ H j g Hj Hl).
      destruct (lastp (carries R g) r) as [x'|]; [exact IH|].
      pose proof (match_field_none _ _ _ _ _ Em g (nth_error_In _ _ Hj)) as Hc.
      unfold carries. cbn [fst snd]. rewrite Hc. exact IH.
  Qed.

  Lemma vf_build : forall fs vars,
    (forall id x i f, In (id, x) fs -> match_field R dfs 0 (Some id) (ttype_of x) = Some (i, f) ->
                      exists y, view R (f_ty f) x = Ok y) ->
    exists vars', view_fields R dfs fs vars = Ok vars'.
  Proof.
    induction fs as [|[id x] r IH]; intros vars H; [eexists; reflexivity|].
    rewrite view_fields_cons.
    destruct (match_field R dfs 0 (Some id) (ttype_of x)) as [[i f]|] eqn:Em.
    - destruct (H id x i f (or_introl eq_refl) Em) as (y & Hy). rewrite Hy. cbn [bind].
      apply IH. intros id' x' i' f' Hin. apply H. right. exact Hin.
    - apply IH. intros id' x' i' f' Hin. apply H. right. exact Hin.
  Qed.

  Lemma vf_all_ok : forall fs vars vars', view_fields R dfs fs vars = Ok vars' ->
    forall id x i f, In (id, x) fs -> match_field R dfs 0 (Some id) (ttype_of x) = Some (i, f) ->
    exists y, view R (f_ty f) x = Ok y.
  Proof.
    induction fs as [|[id0 x0] r IH]; intros vars vars' H id x i f Hin Em; [destruct Hin|].
    rewrite view_fields_cons in H. destruct Hin as [E|Hin].
    - injection E as -> ->. rewrite Em in H. apply bind_ok_inv in H as (y & Hy & _). eauto.
    - destruct (match_field R dfs 0 (Some id0) (ttype_of x0)) as [[i0 f0]|].
      + apply bind_ok_inv in H as (y & _ & H). eapply IH; eauto.
      + eapply IH; eauto.
  Qed.
End Folds.

Section KFolds.
  Variable S : schema.
  Variables (p : pk) (k : bk) (c : wctx).
  Variable dfs : list field.

  Lemma vkf_all_ok keep : forall fs vars unk r, viewk_fields S p k c dfs keep fs vars unk = Ok r ->
    forall id x i f, In (id, x) fs -> match_field S dfs 0 (Some id) (ttype_of x) = Some (i, f) ->
    exists y, viewk S p k c (f_ty f) x = Ok y.
  Proof.
    induction fs as [|[id0 x0] r0 IH]; intros vars unk r H id x i f Hin Em; [destruct Hin|].
    rewrite viewk_fields_cons in H. destruct Hin as [E|Hin].
    - injection E as -> ->. rewrite Em in H. apply bind_ok_inv in H as (y & Hy & _). eauto.
    - destruct (match_field S dfs 0 (Some id0) (ttype_of x0)) as [[i0 f0]|].
      + apply bind_ok_inv in H as (y & _ & H). eapply IH; eauto.
      + eapply IH; eauto.
  Qed.

  Hypothesis Hnd : nodup_ids (map f_id dfs) = true.

  Lemma rf_char keep : forall fs tvars U,
    (forall j f, nth_error dfs j = Some f -> (j < length tvars)%nat ->
       nth_error (fst (reenc_fields S dfs keep fs tvars U)) j =
       match lastp (carries S f) fs with
       | Some x => Some (Some (reenc S (f_ty f) x))
       | None => nth_error tvars j
       end) /\
    snd (reenc_fields S dfs keep fs tvars U) = U ++ (if keep then filter (unmatched S dfs) fs else []) /\
    length (fst (reenc_fields S dfs keep fs tvars U)) = length tvars.
  Proof.
    induction fs as [|[id x] r IH]; intros tvars U.
    - cbn [reenc_fields fst snd lastp filter]. split; [reflexivity|]. split; [destruct keep; rewrite app_nil_r; reflexivity|reflexivity].
    - rewrite reenc_fields_cons. cbn [lastp filter]. unfold unmatched at 1. cbn [fst snd].
      destruct (match_field S dfs 0 (Some id) (ttype_of x)) as [[i f0]|] eqn:Em.
      + destruct (IH (set_nth i (Some (reenc S (f_ty f0) x)) tvars) U) as (IH1 & IH2 & IH3).
        split; [|split; [exact IH2|rewrite IH3; apply set_nth_length]].
        intros j f Hj Hl. rewrite (IH1 j f Hj ltac:(rewrite set_nth_length; exact Hl)).
        destruct (lastp (carries S f) r) as [x'|]; [reflexivity|].
        destruct (carries S f (id, x)) eqn:Ec.
        * rewrite (carried_matched S dfs Hnd _ _ _ _ Hj Ec) in Em. injection Em as <- <-. cbn [snd].
          apply set_nth_same. exact Hl.
        * apply set_nth_other. intros ->.
          destruct (matched_carried S dfs Hnd _ _ _ _ Em) as [Hi Hc]. rewrite Hj in Hi. injection Hi as <-. congruence.
      + destruct (IH tvars (if keep then U ++ [(id, x)] else U)) as (IH1 & IH2 & IH3).
        split; [|split; [|exact IH3]].
        * intros j f Hj Hl. rewrite (IH1 j f Hj Hl).
          destruct (lastp (carries S f) r) as [x'|]; [reflexivity|].
          pose proof (match_field_none _ _ _ _ _ Em f (nth_error_In _ _ Hj)) as Hc.
          unfold carries. cbn [fst snd]. rewrite Hc. reflexivity.
        * rewrite IH2. destruct keep; [rewrite <- app_assoc; reflexivity|reflexivity].
  Qed.
End KFolds.

(* ---------- what reenc emits for one declared field ---------- *)
Definition entry (S : schema) (f : field) (o : option tval) : option tval :=
  match o with
  | Some t => Some t
  | None => match f_dflt f with Some (_, d) => Some (to_tval S (f_ty f) d) | None => None end
  end.

Lemma finish_tv_cons S f r o tvs : finish_tv S (f :: r) (o :: tvs) =
  match entry S f o with Some t => [(f_id f, t)] | None => [] end ++ finish_tv S r tvs.
Proof. cbn [finish_tv]. unfold entry. destruct o; [reflexivity|]. destruct (f_dflt f) as [[? d]|]; reflexivity. Qed.

Lemma finish_tv_in S : forall dfs tvars id t, In (id, t) (finish_tv S dfs tvars) ->
  exists i f o, nth_error dfs i = Some f /\ nth_error tvars i = Some o /\ id = f_id f /\ entry S f o = Some t.
Proof.
  induction dfs as [|f r IH]; intros [|o tvs] id t Hin; try (cbn [finish_tv] in Hin; destruct Hin; fail).
  rewrite finish_tv_cons in Hin. apply in_app_or in Hin as [Hin|Hin].
  - destruct (entry S f o) as [t0|] eqn:Ee; [|destruct Hin]. destruct Hin as [E|[]]. injection E as <- <-.
    exists O, f, o. auto.
  - destruct (IH _ _ _ Hin) as (i & f' & o' & H1 & H2 & H3 & H4). exists (Datatypes.S i), f', o'. auto.
Qed.

Lemma finish_tv_last S h : forall dfs tvars i f o, nodup_ids (map f_id dfs) = true ->
  nth_error dfs i = Some f -> nth_error tvars i = Some o ->
  (forall q, h q = true -> fst q = f_id f) ->
  lastp h (finish_tv S dfs tvars) =
  match entry S f o with Some t => if h (f_id f, t) then Some t else None | None => None end.
Proof.
  induction dfs as [|f0 r IH]; intros [|o0 tvs] i f o Hnd Hi Ho Hh; try (destruct i; discriminate).
  cbn [map nodup_ids] in Hnd. apply andb_prop in Hnd as [H1 H2]. apply negb_true_iff in H1.
  rewrite finish_tv_cons, lastp_app. destruct i as [|i]; cbn [nth_error] in Hi, Ho.
  - injection Hi as ->. injection Ho as ->.
    rewrite (lastp_none h (finish_tv S r tvs)).
    + destruct (entry S f o) as [t|]; [|reflexivity]. cbn [lastp snd]. reflexivity.
    + intros [id t] Hin. destruct (h (id, t)) eqn:E; [|reflexivity]. exfalso.
      apply Hh in E. cbn [fst] in E. destruct (finish_tv_in _ _ _ _ _ Hin) as (j & f' & _ & Hj & _ & Hid & _).
      apply (existsb_eqb_false _ _ H1 (f_id f')); [apply in_map; eapply nth_error_In; eauto|congruence].
  - rewrite (IH tvs i f o H2 Hi Ho Hh).
    destruct (match entry S f o with Some t => if h (f_id f, t) then Some t else None | None => None end); [reflexivity|].
    destruct (entry S f0 o0) as [t0|]; [|reflexivity]. cbn [lastp snd].
    destruct (h (f_id f0, t0)) eqn:E; [|reflexivity]. exfalso. apply Hh in E. cbn [fst] in E.
    apply (existsb_eqb_false _ _ H1 (f_id f)); [apply in_map; eapply nth_error_In; eauto|exact E].
Qed.

Lemma find_field_none dfs id : find_field dfs id = None -> forall f, In f dfs -> f_id f <> id.
Proof.
  induction dfs as [|g r IH]; intros H f Hin; [destruct Hin|]. cbn [find_field] in H.
  destruct (Z.eqb_spec (f_id g) id) as [E|Hne]; [discriminate|]. destruct Hin as [<-|Hin]; [exact Hne|auto].
Qed.

Lemma nodup_same_id dfs f g : nodup_ids (map f_id dfs) = true -> In f dfs -> In g dfs -> f_id f = f_id g -> f = g.
Proof.
  intros Hnd Hf Hg E. pose proof (find_field_nodup dfs f Hnd Hf) as H1. pose proof (find_field_nodup dfs g Hnd Hg) as H2.
  rewrite E in H1. congruence.
Qed.

Lemma walk_fields_in S od ro dfs fs id x : walk_fields S od ro dfs fs = true -> In (id, x) fs -> walk_field S od ro dfs id x = true.
Proof.
  induction fs as [|[i y] r IH]; intros H Hin; [destruct Hin|]. rewrite walk_fields_cons in H. apply andb_prop in H as [H1 H2].
  destruct Hin as [E|Hin]; [injection E as -> ->; exact H1|auto].
Qed.

Lemma carries_inv R f q : carries R f q = true -> f_id f = fst q /\ ttype_of_ty R (f_ty f) = ttype_of (snd q).
Proof.
  unfold carries. intros H. apply andb_prop in H as [H1 H2]. split; [lia|].
  destruct (ttype_eqb_spec (ttype_of_ty R (f_ty f)) (ttype_of (snd q))); [assumption|discriminate].
Qed.

Lemma carries_intro R f q : f_id f = fst q -> ttype_of_ty R (f_ty f) = ttype_of (snd q) -> carries R f q = true.
Proof. unfold carries. intros -> ->. rewrite Z.eqb_refl, ttype_eqb_refl. reflexivity. Qed.

(* ---------- the main induction ---------- *)
Section Full.
  Variables S W : schema.
  Hypothesis HwfS : wf_schema S = true.
  Hypothesis HwfW : wf_schema W = true.
  Hypothesis Hsub : sub_schema S W = true.
  Variables (p : pk) (k : bk) (c : wctx).

  (* any relation that is reflexive, relates an IDL default to its filling, and is a congruence *)
  Variable R : ty -> gval -> gval -> Prop.
  Hypothesis R_refl : forall t g, R t g g.
  Hypothesis R_dflt : forall n dfs kp ia f b d, lookup W n = Some (DStruct dfs kp ia) -> In f dfs -> f_dflt f = Some (b, d) ->
    R (f_ty f) d (fill_defaults W (f_ty f) d).
  Hypothesis R_list : forall t et l l', resolve W t = TyList et -> Forall2 (R et) l l' -> R t (GList l) (GList l').
  Hypothesis R_set : forall t et l l', resolve W t = TySet et -> Forall2 (R et) l l' -> R t (GSet l) (GSet l').
  Hypothesis R_map : forall t kt vt l l', resolve W t = TyMap kt vt ->
    Forall2 (fun a b => R kt (fst a) (fst b) /\ R vt (snd a) (snd b)) l l' -> R t (GMap l) (GMap l').
  Hypothesis R_struct : forall t n dfs kp ia fs fs', resolve W t = TyRef n -> lookup W n = Some (DStruct dfs kp ia) ->
    Forall2 (fun a b => fst a = fst b /\ exists f, In f dfs /\ f_id f = fst a /\ R (f_ty f) (snd a) (snd b)) fs fs' ->
    R t (GStruct fs []) (GStruct fs' []).
  Hypothesis R_union : forall t n vs vo kp id vt x x', resolve W t = TyRef n -> lookup W n = Some (DUnion vs vo kp) ->
    find_variant vs id = Some vt -> R vt x x' -> R t (GUnion id x) (GUnion id x').

  Definition FR (v : tval) : Prop := forall t g gw,
    no_retyped_variant S t v = true -> viewk S p k c t v = Ok g -> view W t v = Ok gw ->
    exists gw', view W t (reenc S t v) = Ok gw' /\ R t gw gw'.

  Lemma fr_leaf v : leaf v = true -> FR v.
  Proof.
    intros Hl t g gw _ _ Hw. exists gw. split; [|apply R_refl].
    destruct v; try discriminate Hl; exact Hw.
  Qed.

  Lemma fr_elems et l : Forall FR l -> walk_elems S (fun _ => true) false et l = true ->
    forall ys yw, viewk_elems S p k c et l = Ok ys -> view_elems W et l = Ok yw ->
    exists yw', view_elems W et (reenc_elems S et l) = Ok yw' /\ Forall2 (R et) yw yw'.
  Proof.
    induction l as [|x r IH]; intros HF Hn ys yw Hk Hw.
    - injection Hw as <-. exists []. split; [reflexivity|constructor].
    - inversion HF as [|? ? Hx Hr]; subst. rewrite walk_elems_cons in Hn. apply andb_prop in Hn as [Hn1 Hn2].
      rewrite viewk_elems_cons in Hk. apply bind_ok_inv in Hk as (y & Hy & Hk). apply bind_ok_inv in Hk as (ys' & Hys & _).
      rewrite view_elems_cons in Hw. apply bind_ok_inv in Hw as (w & Hw1 & Hw). apply bind_ok_inv in Hw as (ws & Hws & Hw).
      injection Hw as <-.
      destruct (Hx et y w Hn1 Hy Hw1) as (w' & Hw' & HR). destruct (IH Hr Hn2 ys' ws Hys Hws) as (ws' & Hws' & HRs).
      exists (w' :: ws'). split; [|constructor; assumption].
      cbn [reenc_elems]. rewrite view_elems_cons, Hw', Hws'. reflexivity.
  Qed.

  Lemma fr_pairs kt vt l : Forall (fun q => FR (fst q) /\ FR (snd q)) l ->
    walk_pairs S (fun _ => true) false kt vt l = true ->
    forall ys yw, viewk_pairs S p k c kt vt l = Ok ys -> view_pairs W kt vt l = Ok yw ->
    exists yw', view_pairs W kt vt (reenc_pairs S kt vt l) = Ok yw' /\
                Forall2 (fun a b => R kt (fst a) (fst b) /\ R vt (snd a) (snd b)) yw yw'.
  Proof.
    induction l as [|[a b] r IH]; intros HF Hn ys yw Hk Hw.
    - injection Hw as <-. exists []. split; [reflexivity|constructor].
    - inversion HF as [|? ? [Ha Hb] Hr]; subst. cbn [fst snd] in *.
      rewrite walk_pairs_cons in Hn. apply andb_prop in Hn as [Hn Hn3]. apply andb_prop in Hn as [Hn1 Hn2].
      rewrite viewk_pairs_cons in Hk. apply bind_ok_inv in Hk as (ya & Hya & Hk). apply bind_ok_inv in Hk as (yb & Hyb & Hk).
      apply bind_ok_inv in Hk as (ys' & Hys & _).
      rewrite view_pairs_cons in Hw. apply bind_ok_inv in Hw as (wa & Hwa & Hw). apply bind_ok_inv in Hw as (wb & Hwb & Hw).
      apply bind_ok_inv in Hw as (ws & Hws & Hw). injection Hw as <-.
      destruct (Ha kt ya wa Hn1 Hya Hwa) as (wa' & Hwa' & HRa). destruct (Hb vt yb wb Hn2 Hyb Hwb) as (wb' & Hwb' & HRb).
      destruct (IH Hr Hn3 ys' ws Hys Hws) as (ws' & Hws' & HRs).
      exists ((wa', wb') :: ws'). split; [|constructor; [split; assumption|assumption]].
      cbn [reenc_pairs]. rewrite view_pairs_cons, Hwa', Hwb', Hws'. reflexivity.
  Qed.

  Lemma FR_list a l : Forall FR l -> FR (VList a l).
  Proof.
    intros HF t g gw Hn Hk Hw. unfold no_retyped_variant in Hn. rewrite walk_list in Hn. rewrite viewk_list in Hk.
    rewrite view_list in Hw. rewrite reenc_list. rewrite <- (sub_resolve S W Hsub) in Hw.
    destruct (resolve S t) eqn:Er; try discriminate Hk. apply andb_prop in Hn as [_ Hn].
    apply bind_ok_inv in Hk as (ys & Hys & _). apply bind_ok_inv in Hw as (yw & Hyw & Hw). injection Hw as <-.
    destruct (fr_elems _ l HF Hn ys yw Hys Hyw) as (yw' & Hyw' & HR).
    exists (GList yw'). rewrite view_list, <- (sub_resolve S W Hsub), Er, Hyw'. split; [reflexivity|].
    eapply R_list; [rewrite <- (sub_resolve S W Hsub); exact Er|exact HR].
  Qed.

  Lemma FR_set a l : Forall FR l -> FR (VSet a l).
  Proof.
    intros HF t g gw Hn Hk Hw. unfold no_retyped_variant in Hn. rewrite walk_set in Hn. rewrite viewk_set in Hk.
    rewrite view_set in Hw. rewrite reenc_set. rewrite <- (sub_resolve S W Hsub) in Hw.
    destruct (resolve S t) eqn:Er; try discriminate Hk. apply andb_prop in Hn as [_ Hn].
    apply bind_ok_inv in Hk as (ys & Hys & _). apply bind_ok_inv in Hw as (yw & Hyw & Hw). injection Hw as <-.
    destruct (fr_elems _ l HF Hn ys yw Hys Hyw) as (yw' & Hyw' & HR).
    exists (GSet yw'). rewrite view_set, <- (sub_resolve S W Hsub), Er, Hyw'. split; [reflexivity|].
    eapply R_set; [rewrite <- (sub_resolve S W Hsub); exact Er|exact HR].
  Qed.

  Lemma FR_map ka va l : Forall (fun q => FR (fst q) /\ FR (snd q)) l -> FR (VMap ka va l).
  Proof.
    intros HF t g gw Hn Hk Hw. unfold no_retyped_variant in Hn. rewrite walk_map in Hn. rewrite viewk_map in Hk.
    rewrite view_map in Hw. rewrite reenc_map. rewrite <- (sub_resolve S W Hsub) in Hw.
    destruct (resolve S t) eqn:Er; try discriminate Hk. apply andb_prop in Hn as [_ Hn].
    apply bind_ok_inv in Hk as (ys & Hys & _). apply bind_ok_inv in Hw as (yw & Hyw & Hw). injection Hw as <-.
    destruct (fr_pairs _ _ l HF Hn ys yw Hys Hyw) as (yw' & Hyw' & HR).
    exists (GMap yw'). rewrite view_map, <- (sub_resolve S W Hsub), Er, Hyw'. split; [reflexivity|].
    eapply R_map; [rewrite <- (sub_resolve S W Hsub); exact Er|exact HR].
  Qed.

  (* ----- struct fields ----- *)
  Definition PR (g : field) (o o' : option gval) : Prop :=
    match o, o' with
    | None, None => True
    | Some y, Some y' => R (f_ty g) y y'
    | None, Some y' => exists b d, f_dflt g = Some (b, d) /\ R (f_ty g) d y'
    | Some _, None => False
    end.

  Lemma PR_refl g o : PR g o o.
  Proof. destruct o; cbn [PR]; auto. Qed.

  Lemma finish_rel DFS : forall dfs0 vs vs', incl dfs0 DFS ->
    (forall j g, nth_error dfs0 j = Some g ->
       exists o o', nth_error vs j = Some o /\ nth_error vs' j = Some o' /\ PR g o o') ->
    forall out, finish_fields dfs0 vs = Ok out ->
    exists out', finish_fields dfs0 vs' = Ok out' /\
      Forall2 (fun a b => fst a = fst b /\ exists f, In f DFS /\ f_id f = fst a /\ R (f_ty f) (snd a) (snd b)) out out'.
  Proof.
    induction dfs0 as [|g r IH]; intros vs vs' Hincl Hp out Hf.
    - cbn [finish_fields] in Hf. injection Hf as <-. exists []. split; [reflexivity|constructor].
    - destruct (Hp O g eq_refl) as (o & o' & Ho & Ho' & Hpr).
      destruct vs as [|v vs]; [discriminate|]. destruct vs' as [|v' vs']; [discriminate|].
      cbn [nth_error] in Ho, Ho'. injection Ho as ->. injection Ho' as ->.
      cbn [finish_fields] in Hf |- *. apply bind_ok_inv in Hf as (rest & Hrest & Hf).
      destruct (IH vs vs' (fun f Hf => Hincl f (or_intror Hf)) (fun j g' Hj => Hp (Datatypes.S j) g' Hj) rest Hrest)
        as (rest' & Hrest' & HF2).
      rewrite Hrest'. cbn [bind].
      assert (Hg : In g DFS) by (apply Hincl; left; reflexivity).
      destruct o as [y|], o' as [y'|]; cbn [PR] in Hpr; try contradiction.
      + injection Hf as <-. eexists. split; [reflexivity|]. constructor; [|exact HF2]. cbn [fst snd]. split; [reflexivity|].
        exists g. auto.
      + destruct Hpr as (b & d & Ed & HR). rewrite Ed in Hf. injection Hf as <-.
        eexists. split; [reflexivity|]. constructor; [|exact HF2]. cbn [fst snd]. split; [reflexivity|]. exists g. auto.
      + destruct (f_dflt g) as [[b d]|].
        * injection Hf as <-. eexists. split; [reflexivity|]. constructor; [|exact HF2]. cbn [fst snd]. split; [reflexivity|].
          exists g. auto.
        * destruct (f_req g); [discriminate|]. injection Hf as <-. exists rest'. auto.
  Qed.

  Lemma fr_fields dfs kp dfw fs rS varsW :
    nodup_ids (map f_id dfs) = true -> nodup_ids (map f_id dfw) = true ->
    (forall f, In f dfs -> field_ok S f = true) -> (forall g, In g dfw -> field_ok W g = true) ->
    (forall f, In f dfs -> exists g, In g dfw /\ field_sub f g = true) ->
    (kp = false -> forall g, In g dfw -> exists f, In f dfs /\ f_id f = f_id g) ->
    (forall g b d, In g dfw -> f_dflt g = Some (b, d) -> R (f_ty g) d (fill_defaults W (f_ty g) d)) ->
    Forall (fun q => FR (snd q)) fs ->
    walk_fields S (fun _ => true) false dfs fs = true ->
    viewk_fields S p k c dfs kp fs (map init_var dfs) [] = Ok rS ->
    view_fields W dfw fs (map init_var dfw) = Ok varsW ->
    let RR := reenc_fields S dfs kp fs (map (init_tvar S) dfs) [] in
    exists varsW', view_fields W dfw (finish_tv S dfs (fst RR) ++ snd RR) (map init_var dfw) = Ok varsW' /\
      forall j g, nth_error dfw j = Some g ->
        exists o o', nth_error varsW j = Some o /\ nth_error varsW' j = Some o' /\ PR g o o'.
  Proof.
    intros HndS HndW HokS HokW Hall Hnk HRd HF Hn Hk Hw RR.
    destruct (rf_char S dfs HndS kp fs (map (init_tvar S) dfs) []) as (Rf1 & Rf2 & Rf3). fold RR in Rf1, Rf2, Rf3.
    cbn [app] in Rf2. rewrite map_length in Rf3.
    (* the full schema's declaration of a reader's field *)
    assert (Hcount : forall f g, In f dfs -> In g dfw -> f_id f = f_id g -> field_sub f g = true).
    { intros f g Hf Hg E. destruct (Hall f Hf) as (g' & Hg' & Hs). destruct (field_sub_inv _ _ Hs) as (E' & _).
      rewrite (nodup_same_id dfw g g' HndW Hg Hg' ltac:(congruence)). exact Hs. }
    assert (Hcar : forall f g q, field_sub f g = true -> carries S f q = carries W g q).
    { intros f g q Hs. destruct (field_sub_inv _ _ Hs) as (E1 & E2 & _). unfold carries.
      rewrite E1, E2, (sub_ttype S W Hsub). reflexivity. }
    (* a wire field the reader knows: the full reader's view of its re-encoding *)
    assert (HX : forall id x i f, In (id, x) fs -> match_field S dfs 0 (Some id) (ttype_of x) = Some (i, f) ->
               forall y, view W (f_ty f) x = Ok y ->
               exists y', view W (f_ty f) (reenc S (f_ty f) x) = Ok y' /\ R (f_ty f) y y').
    { intros id x i f Hin Em y Hy. rewrite Forall_forall in HF. specialize (HF _ Hin). cbn [snd] in HF.
      destruct (vkf_all_ok S p k c dfs kp fs _ _ _ Hk id x i f Hin Em) as (yk & Hyk).
      pose proof (walk_fields_in _ _ _ _ _ _ _ Hn Hin) as Hwf. unfold walk_field in Hwf. rewrite Em in Hwf.
      exact (HF _ _ _ Hwf Hyk Hy). }
    (* a default the reader fills in *)
    assert (HD : forall f g b d, In f dfs -> In g dfw -> field_sub f g = true -> f_dflt f = Some (b, d) ->
               ttype_of (to_tval S (f_ty f) d) = ttype_of_ty W (f_ty g) /\
               view W (f_ty g) (to_tval S (f_ty f) d) = Ok (fill_defaults W (f_ty g) d)).
    { intros f g b d Hf Hg Hs Ed. destruct (field_sub_inv _ _ Hs) as (_ & Ety & Edf). rewrite Ed in Edf.
      destruct (f_dflt g) as [[b' d']|] eqn:Edg; [|contradiction]. subst d'.
      destruct (field_ok_inv _ _ (HokS f Hf)) as (_ & _ & _ & HtS). rewrite Ed in HtS.
      destruct (field_ok_inv _ _ (HokW g Hg)) as (_ & _ & _ & HtW). rewrite Edg in HtW.
      rewrite Ety in *. split.
      - rewrite (to_tval_ttype S _ _ HtS). apply (sub_ttype S W Hsub).
      - rewrite (to_tval_sub S W HwfS HwfW Hsub d _ HtS HtW). apply (view_to_tval W HwfW _ _ HtW). }
    assert (Hinit : forall i f, nth_error dfs i = Some f -> nth_error (map (init_tvar S) dfs) i = Some (init_tvar S f)).
    { intros i f Hi. rewrite nth_error_map, Hi. reflexivity. }
    assert (Hentry0 : forall f, entry S f (init_tvar S f) =
               match f_dflt f with Some (_, d) => Some (to_tval S (f_ty f) d) | None => None end).
    { intros f. unfold entry, init_tvar, init_var. destruct (f_dflt f) as [[[|] d]|]; reflexivity. }
    (* step 1: the full reader accepts the re-encoded field list *)
    assert (H1 : exists varsW', view_fields W dfw (finish_tv S dfs (fst RR) ++ snd RR) (map init_var dfw) = Ok varsW').
    { apply vf_build. intros id t j g Hin Em. apply in_app_or in Hin as [Hin|Hin].
      - destruct (finish_tv_in _ _ _ _ _ Hin) as (i & f & o & Hi & Ho & -> & He).
        pose proof (nth_error_In _ _ Hi) as Hf.
        destruct (matched_carried W dfw HndW _ _ _ _ Em) as [Hj Hc]. destruct (carries_inv _ _ _ Hc) as [Eid _]. cbn [fst] in Eid.
        pose proof (nth_error_In _ _ Hj) as Hg.
        pose proof (Hcount f g Hf Hg (eq_sym Eid)) as Hs. destruct (field_sub_inv _ _ Hs) as (_ & Ety & _).
        assert (Hli : (i < length (map (init_tvar S) dfs))%nat) by (rewrite map_length; apply nth_error_Some; congruence).
        rewrite (Rf1 i f Hi Hli) in Ho.
        destruct (lastp (carries S f) fs) as [x|] eqn:El.
        + injection Ho as <-. cbn [entry] in He. injection He as <-.
          destruct (lastp_in _ _ _ El) as (id' & Hin' & Hc').
          pose proof (carried_matched S dfs HndS _ _ _ _ Hi Hc') as EmS.
          rewrite (Hcar f g _ Hs) in Hc'. pose proof (carried_matched W dfw HndW _ _ _ _ Hj Hc') as EmW.
          destruct (vf_all_ok W dfw fs _ _ Hw _ _ _ _ Hin' EmW) as (y & Hy). rewrite <- Ety in *.
          destruct (HX _ _ _ _ Hin' EmS y Hy) as (y' & Hy' & _). eauto.
        + rewrite (Hinit _ _ Hi) in Ho. injection Ho as <-. rewrite Hentry0 in He.
          destruct (f_dflt f) as [[b d]|] eqn:Ed; [|discriminate]. injection He as <-.
          destruct (HD f g b d Hf Hg Hs Ed) as [_ Hv]. eauto.
      - rewrite Rf2 in Hin. destruct kp; [|destruct Hin]. apply filter_In in Hin as [Hin _].
        exact (vf_all_ok W dfw fs _ _ Hw _ _ _ _ Hin Em). }
    destruct H1 as (varsW' & Hw'). exists varsW'. split; [exact Hw'|].
    (* step 2: variable by variable *)
    intros j g Hj. pose proof (nth_error_In _ _ Hj) as Hg.
    assert (Hlj : (j < length (map init_var dfw))%nat) by (rewrite map_length; apply nth_error_Some; congruence).
    pose proof (vf_char W dfw HndW _ _ _ Hw j g Hj Hlj) as A1.
    pose proof (vf_char W dfw HndW _ _ _ Hw' j g Hj Hlj) as A2.
    rewrite (init_var_nth _ _ _ Hj) in A1, A2. rewrite lastp_app in A2.
    destruct (find_field dfs (f_id g)) as [f|] eqn:Eff.
    - destruct (find_field_in _ _ _ Eff) as [Hf Eid].
      pose proof (Hcount f g Hf Hg Eid) as Hs. destruct (field_sub_inv _ _ Hs) as (_ & Ety & Edf).
      destruct (In_nth_error _ _ Hf) as (i & Hi).
      assert (Hli : (i < length (map (init_tvar S) dfs))%nat) by (rewrite map_length; apply nth_error_Some; congruence).
      assert (EU : lastp (carries W g) (snd RR) = None).
      { apply lastp_none. intros q Hq. rewrite Rf2 in Hq. destruct kp; [|destruct Hq]. apply filter_In in Hq as [Hq Hu].
        destruct (carries W g q) eqn:Ec; [|reflexivity]. rewrite <- (Hcar f g q Hs) in Ec. destruct q as [id x].
        unfold unmatched in Hu. cbn [fst snd] in Hu. rewrite (carried_matched S dfs HndS _ _ _ _ Hi Ec) in Hu. discriminate. }
      rewrite EU in A2.
      assert (Eo : exists o, nth_error (fst RR) i = Some o).
      { destruct (nth_error (fst RR) i) eqn:E; [eauto|]. apply nth_error_None in E. rewrite Rf3 in E.
        assert (i < length dfs)%nat by (apply nth_error_Some; congruence). lia. }
      destruct Eo as (o & Ho).
      rewrite (finish_tv_last S (carries W g) dfs (fst RR) i f o HndS Hi Ho) in A2
        by (intros q Hq; destruct (carries_inv _ _ _ Hq) as [E _]; congruence).
      rewrite (Rf1 i f Hi Hli) in Ho.
      rewrite (lastp_ext (carries W g) (carries S f) fs (fun q _ => eq_sym (Hcar f g q Hs))) in A1.
      destruct (lastp (carries S f) fs) as [x|] eqn:El.
      + injection Ho as <-. cbn [entry] in A2.
        destruct (lastp_in _ _ _ El) as (id' & Hin' & Hc').
        assert (Hc2 : carries W g (f_id f, reenc S (f_ty f) x) = true).
        { rewrite (Hcar f g _ Hs) in Hc'. destruct (carries_inv _ _ _ Hc') as [_ Et]. cbn [snd] in Et.
          apply carries_intro; [exact (eq_sym Eid)|]. cbn [snd]. rewrite reenc_ttype. exact Et. }
        rewrite Hc2 in A2. destruct A1 as (y & Hy & Hv). destruct A2 as (y' & Hy' & Hv').
        pose proof (carried_matched S dfs HndS _ _ _ _ Hi Hc') as EmS. rewrite <- Ety in *.
        destruct (HX _ _ _ _ Hin' EmS y Hy) as (y'' & Hy'' & HR). rewrite Hy' in Hy''. injection Hy'' as <-.
        exists (Some y), (Some y'). split; [exact Hv|]. split; [exact Hv'|]. cbn [PR]. rewrite <- Ety. exact HR.
      + rewrite (Hinit _ _ Hi) in Ho. injection Ho as <-. rewrite Hentry0 in A2.
        destruct (f_dflt f) as [[b d]|] eqn:Ed.
        * destruct (f_dflt g) as [[b' d']|] eqn:Edg; [|contradiction]. subst d'.
          destruct (HD f g b d Hf Hg Hs Ed) as [Et Hv].
          assert (Hc2 : carries W g (f_id f, to_tval S (f_ty f) d) = true)
            by (apply carries_intro; [exact (eq_sym Eid)|cbn [snd]; symmetry; exact Et]).
          rewrite Hc2 in A2. destruct A2 as (y' & Hy' & Hv'). rewrite Hv in Hy'. injection Hy' as <-.
          exists (init_var g), (Some (fill_defaults W (f_ty g) d)). split; [exact A1|]. split; [exact Hv'|].
          unfold init_var. rewrite Edg. destruct b'; cbn [PR].
          -- exact (HRd g _ _ Hg Edg).
          -- exists false, d. split; [exact Edg|exact (HRd g _ _ Hg Edg)].
        * exists (init_var g), (init_var g). split; [exact A1|]. split; [exact A2|apply PR_refl].
    - pose proof (find_field_none _ _ Eff) as Hno.
      assert (Ekp : kp = true).
      { destruct kp; [reflexivity|]. destruct (Hnk eq_refl g Hg) as (f & Hf & E). exfalso. exact (Hno f Hf E). }
      assert (EK : lastp (carries W g) (finish_tv S dfs (fst RR)) = None).
      { apply lastp_none. intros [id t] Hq. destruct (carries W g (id, t)) eqn:Ec; [|reflexivity]. exfalso.
        destruct (finish_tv_in _ _ _ _ _ Hq) as (i & f & _ & Hi & _ & -> & _).
        destruct (carries_inv _ _ _ Ec) as [E _]. cbn [fst] in E. exact (Hno f (nth_error_In _ _ Hi) (eq_sym E)). }
      rewrite EK in A2. rewrite Rf2, Ekp in A2.
      rewrite lastp_filter in A2.
      2:{ intros [id x] Hq Hc. unfold unmatched. cbn [fst snd].
          destruct (match_field S dfs 0 (Some id) (ttype_of x)) as [[i f]|] eqn:Em; [|reflexivity]. exfalso.
          destruct (matched_carried S dfs HndS _ _ _ _ Em) as [Hi Hc'].
          destruct (carries_inv _ _ _ Hc) as [E1 _]. destruct (carries_inv _ _ _ Hc') as [E2 _]. cbn [fst] in E1, E2.
          apply (Hno f (nth_error_In _ _ Hi)). congruence. }
      destruct (lastp (carries W g) fs) as [x|].
      + destruct A1 as (y & Hy & Hv). destruct A2 as (y' & Hy' & Hv'). rewrite Hy in Hy'. injection Hy' as <-.
        exists (Some y), (Some y). split; [exact Hv|]. split; [exact Hv'|apply PR_refl].
      + exists (init_var g), (init_var g). split; [exact A1|]. split; [exact A2|apply PR_refl].
  Qed.

  (* ----- unions ----- *)
  Lemma vv_after vs : forall r r0 ret, view_variants W vs r (Some r0) = Ok ret -> ret = Some r0.
  Proof.
    induction r as [|[id x] r IH]; intros r0 ret H; [injection H as <-; reflexivity|].
    rewrite view_variants_cons in H. destruct (known_variant W vs id (ttype_of x)); [discriminate|eauto].
  Qed.

  Lemma vkk_after vs r ret0 ret : ret0 <> UNone -> viewk_variantsk S p k c vs r ret0 = Ok ret -> r = [] /\ ret = ret0.
  Proof.
    intros Hne H. destruct r as [|[id x] r]; [injection H as <-; auto|]. rewrite viewk_variantsk_cons in H.
    destruct (variant_by_id S vs id); destruct ret0; try discriminate; congruence.
  Qed.

  (* a variant the reader knows by id, arriving with its declared wire type, is the same variant for the full reader *)
  Lemma known_sub vs vw id x vt : nodup_ids (map fst vw) = true -> (forall i t, In (i, t) vs -> In (i, t) vw) ->
    walk_variant S (fun _ => true) false vs id x = true -> variant_by_id S vs id = Some vt ->
    known_variant W vw id (ttype_of x) = Some vt /\ find_variant vw id = Some vt /\ ttype_of x = ttype_of_ty W vt.
  Proof.
    intros Hnd Hall Hwk Hv. destruct (variant_typed S vs id x vt Hwk Hv) as (Hty & Hf & Hnv).
    pose proof (find_variant_nodup vw Hnd id vt (Hall _ _ (find_variant_in _ _ _ Hf))) as Hfw.
    unfold known_variant. rewrite Hfw, <- (sub_resolve S W Hsub), Hnv, <- (sub_ttype S W Hsub), <- Hty, ttype_eqb_refl.
    rewrite (sub_ttype S W Hsub) in Hty. auto.
  Qed.

  Lemma fr_variants vs vw : nodup_ids (map fst vw) = true ->
    (forall i t, In (i, t) vs -> In (i, t) vw) -> (forall i t, In (i, t) vw -> exists t', In (i, t') vs) ->
    forall fs, Forall (fun q => FR (snd q)) fs -> walk_variants S (fun _ => true) false vs fs = true ->
    forall retk retw, viewk_variants S p k c vs fs None = Ok retk -> view_variants W vw fs None = Ok retw ->
    match retw with
    | None => reenc_variants S vs fs = []
    | Some (id, yw) => exists vt x yw', reenc_variants S vs fs = [(id, reenc S vt x)] /\
        find_variant vw id = Some vt /\ known_variant W vw id (ttype_of x) = Some vt /\
        view W vt (reenc S vt x) = Ok yw' /\ R vt yw yw'
    end.
  Proof.
    intros Hnd Hall Hback. induction fs as [|[id x] r IH]; intros HF Hn retk retw Hk Hw.
    - injection Hw as <-. reflexivity.
    - inversion HF as [|? ? Hx Hr]; subst. cbn [snd] in Hx.
      rewrite walk_variants_cons in Hn. apply andb_prop in Hn as [Hn1 Hn2].
      rewrite viewk_variants_cons in Hk. rewrite view_variants_cons in Hw. cbn [reenc_variants].
      destruct (variant_by_id S vs id) as [vt|] eqn:Ev.
      + destruct (known_sub vs vw id x vt Hnd Hall Hn1 Ev) as (Hkn & Hfw & Hty). rewrite Hkn in Hw.
        apply bind_ok_inv in Hk as (y & Hy & _). apply bind_ok_inv in Hw as (yw & Hyw & Hw).
        apply vv_after in Hw. subst retw.
        destruct (Hx vt y yw (variant_walk2 S vs id x vt Hn1 Ev) Hy Hyw) as (yw' & Hyw' & HR).
        exists vt, x, yw'. auto.
      + assert (Hkn : known_variant W vw id (ttype_of x) = None).
        { unfold known_variant. destruct (find_variant vw id) as [t'|] eqn:Efw; [|reflexivity].
          destruct (Hback _ _ (find_variant_in _ _ _ Efw)) as (t'' & Hin).
          unfold variant_by_id in Ev. destruct (find_variant vs id) as [t3|] eqn:Efs.
          - pose proof (find_variant_nodup vw Hnd id t3 (Hall _ _ (find_variant_in _ _ _ Efs))) as E. rewrite Efw in E.
            injection E as ->. rewrite <- (sub_resolve S W Hsub). destruct (is_void (resolve S t3)); [reflexivity|discriminate].
          - exfalso. exact (find_variant_none _ _ Efs _ Hin). }
        rewrite Hkn in Hw. exact (IH Hr Hn2 retk retw Hk Hw).
  Qed.

  Lemma FR_struct fs : Forall (fun q => FR (snd q)) fs -> FR (VStruct fs).
  Proof.
    intros HF t g gw Hn Hk Hw. unfold no_retyped_variant in Hn. rewrite walk_struct in Hn. rewrite viewk_struct in Hk.
    rewrite view_struct in Hw. rewrite reenc_struct. rewrite <- (sub_resolve S W Hsub) in Hw.
    destruct (resolve S t) eqn:Er; try discriminate Hk.
    assert (ErW : resolve W t = TyRef n) by (rewrite <- (sub_resolve S W Hsub); exact Er).
    destruct (lookup S n) as [[dfs kp ia|vs vok kp| |]|] eqn:ElS; try discriminate Hk.
    - (* struct *)
      destruct (sub_struct S W Hsub _ _ _ _ ElS) as (dfw & kpw & iaw & ElW & Hall & Hnk). rewrite ElW in Hw.
      destruct (wf_struct S HwfS _ _ _ _ ElS) as [HndS HokS]. destruct (wf_struct W HwfW _ _ _ _ ElW) as [HndW HokW].
      apply bind_ok_inv in Hk as (rS & HkS & _).
      apply bind_ok_inv in Hw as (varsW & HwW & Hw). apply bind_ok_inv in Hw as (outW & Hfin & Hw). injection Hw as <-.
      destruct (fr_fields dfs kp dfw fs rS varsW HndS HndW HokS HokW Hall Hnk
                  (fun g b d Hg Ed => R_dflt _ _ _ _ g b d ElW Hg Ed) HF Hn HkS HwW) as (varsW' & Hw' & Hrel).
      destruct (finish_rel dfw dfw varsW varsW' (incl_refl _) Hrel outW Hfin) as (outW' & Hfin' & HF2).
      cbv zeta. exists (GStruct outW' []). rewrite view_struct, ErW, ElW, Hw'. cbn [bind]. rewrite Hfin'.
      split; [reflexivity|]. eapply R_struct; [exact ErW|exact ElW|exact HF2].
    - (* union *)
      destruct (sub_union S W Hsub _ _ _ _ ElS) as (vw & vow & kpw & ElW & Hall & Hnk). rewrite ElW in Hw.
      pose proof (wf_union_nodup W HwfW _ _ _ _ ElW) as HndW.
      apply bind_ok_inv in Hw as (retw & Hvw & Hw).
      destruct kp.
      + apply bind_ok_inv in Hk as (retk & Hvk & _). destruct fs as [|[id x] r].
        * exists gw. split; [|apply R_refl]. rewrite view_struct, ErW, ElW, Hvw. exact Hw.
        * inversion HF as [|? ? Hx Hr]; subst. cbn [snd] in Hx.
          rewrite walk_variants_cons in Hn. apply andb_prop in Hn as [Hn1 _].
          rewrite viewk_variantsk_cons in Hvk. destruct (variant_by_id S vs id) as [vt|] eqn:Ev.
          -- apply bind_ok_inv in Hvk as (y & Hy & Hvk). apply vkk_after in Hvk as [-> _]; [|discriminate].
             destruct (known_sub vs vw id x vt HndW Hall Hn1 Ev) as (Hkn & Hfw & Hty).
             rewrite view_variants_cons, Hkn in Hvw. apply bind_ok_inv in Hvw as (yw & Hyw & Hvw). injection Hvw as <-.
             unfold union_result in Hw. injection Hw as <-.
             destruct (Hx vt y yw (variant_walk2 S vs id x vt Hn1 Ev) Hy Hyw) as (yw' & Hyw' & HR).
             exists (GUnion id yw'). rewrite view_struct, ErW, ElW, view_variants_cons, reenc_ttype, Hkn, Hyw'.
             split; [reflexivity|]. eapply R_union; eauto.
          -- apply vkk_after in Hvk as [-> _]; [|discriminate].
             exists gw. split; [|apply R_refl]. rewrite view_struct, ErW, ElW, Hvw. exact Hw.
      + apply bind_ok_inv in Hk as (retk & Hvk & _).
        pose proof (fr_variants vs vw HndW Hall (Hnk eq_refl) fs HF Hn retk retw Hvk Hvw) as Hv.
        rewrite view_struct, ErW, ElW. destruct retw as [[id yw]|].
        * destruct Hv as (vt & x & yw' & -> & Hfw & Hkn & Hyw' & HR). unfold union_result in Hw. injection Hw as <-.
          exists (GUnion id yw'). rewrite view_variants_cons, reenc_ttype, Hkn, Hyw'. split; [reflexivity|].
          eapply R_union; eauto.
        * rewrite Hv. exists gw. split; [exact Hw|apply R_refl].
  Qed.

  Theorem FR_all v : FR v.
  Proof.
    induction v using tval_ind'; try (apply fr_leaf; reflexivity).
    - apply FR_struct; assumption.
    - apply FR_list; assumption.
    - apply FR_set; assumption.
    - apply FR_map; assumption.
  Qed.
End Full.

(* ---------- the two instances ---------- *)
Theorem full_view : forall S W p k c T tv g gw,
  wf_schema S = true -> wf_schema W = true -> sub_schema S W = true ->
  no_retyped_variant S T tv = true ->
  viewk S p k c T tv = Ok g -> view W T tv = Ok gw ->
  exists gw', view W T (reenc S T tv) = Ok gw' /\ dfill W T gw gw'.
Proof.
  intros S W p k c T tv g gw HwfS HwfW Hsub Hn Hk Hw.
  refine (FR_all S W HwfS HwfW Hsub p k c (dfill W) _ _ _ _ _ _ _ tv T g gw Hn Hk Hw).
  - apply df_refl.
  - intros; eapply df_dflt; eauto.
  - intros; eapply df_list; eauto.
  - intros; eapply df_set; eauto.
  - intros; eapply df_map; eauto.
  - intros; eapply df_struct; eauto.
  - intros; eapply df_union; eauto.
Qed.

Lemma Forall2_eq {A} (l l' : list A) : Forall2 eq l l' -> l = l'.
Proof. induction 1; congruence. Qed.

Lemma defaults_closed_inv W : defaults_closed W = true ->
  forall n dfs kp ia f b d, lookup W n = Some (DStruct dfs kp ia) -> In f dfs -> f_dflt f = Some (b, d) ->
  fill_defaults W (f_ty f) d = d.
Proof.
  unfold defaults_closed. intros H n dfs kp ia f b d Hl Hf Ed. rewrite forallb_forall in H.
  specialize (H _ (nth_error_In _ _ Hl)). cbn beta iota in H. rewrite forallb_forall in H. specialize (H f Hf).
  rewrite Ed in H. apply gval_eqb_eq. exact H.
Qed.

(* when the IDL defaults of the full schema are already filled, nothing differs *)
Theorem full_view_exact : forall S W p k c T tv g gw,
  wf_schema S = true -> wf_schema W = true -> sub_schema S W = true -> defaults_closed W = true ->
  no_retyped_variant S T tv = true ->
  viewk S p k c T tv = Ok g -> view W T tv = Ok gw ->
  view W T (reenc S T tv) = Ok gw.
Proof.
  intros S W p k c T tv g gw HwfS HwfW Hsub Hdc Hn Hk Hw.
  destruct (FR_all S W HwfS HwfW Hsub p k c (fun _ a b => a = b)) with (v := tv) (t := T) (g := g) (gw := gw)
    as (gw' & Hv & <-); auto.
  - intros n dfs kp ia f b d Hl Hf Ed. symmetry. eapply defaults_closed_inv; eauto.
  - intros t et l l' _ HF. f_equal. apply Forall2_eq. exact HF.
  - intros t et l l' _ HF. f_equal. apply Forall2_eq. exact HF.
  - intros t kt vt l l' _ HF. f_equal. induction HF as [|[a1 a2] [b1 b2] l l' [E1 E2] _ IH]; [reflexivity|].
    cbn [fst snd] in *. congruence.
  - intros t n dfs kp ia fs fs' _ _ HF. f_equal. induction HF as [|[i a] [j b] l l' [E1 (f & _ & _ & E2)] _ IH]; [reflexivity|].
    cbn [fst snd] in *. congruence.
  - intros; congruence.
Qed.

(* ---------- non-vacuity ---------- *)
(* reader (keeps):  struct Top { 1: required i32 a; 3: optional Sub s; 4: optional Sub d = {}; 5: optional U u }
                    struct Sub { 1: optional i32 n = 5 }     union U { 1: i64 n }
   full schema:     Top also has 9: optional binary, 2: optional i64;  Sub also has 8: optional double;
                    U also has 4: list<i8> *)
Definition Sub_S : decl := DStruct [mkField 1 Optional TyI32 (Some (true, GI32 5))] true false.
Definition Sub_W : decl := DStruct [mkField 1 Optional TyI32 (Some (true, GI32 5)); mkField 8 Optional TyDouble None] true false.
Definition Sr : schema :=
  [ DStruct [mkField 1 Required TyI32 None; mkField 3 Optional (TyRef 1) None;
             mkField 4 Optional (TyRef 1) (Some (false, GStruct [] [])); mkField 5 Optional (TyRef 2) None] true false;
    Sub_S;
    DUnion [(1, TyI64)] false true ].
Definition Wf : schema :=
  [ DStruct [mkField 9 Optional TyBinary None; mkField 1 Required TyI32 None; mkField 2 Optional TyI64 None;
             mkField 3 Optional (TyRef 1) None;
             mkField 4 Optional (TyRef 1) (Some (false, GStruct [] [])); mkField 5 Optional (TyRef 2) None] true false;
    Sub_W;
    DUnion [(1, TyI64); (4, TyList TyI8)] false true ].
Definition tvf : tval :=
  VStruct [ (9, VBinary [x61; x62]); (1, VI32 7);
            (3, VStruct [(8, VDouble 0)]);
            (5, VStruct [(4, VList TI8 [VI8 1])]);
            (2, VI64 5) ].

Example full_view_nonvacuous :
  wf_schema Sr = true /\ wf_schema Wf = true /\ sub_schema Sr Wf = true /\ defaults_closed Wf = false /\
  (* the full reader on the original message: field 4 holds the raw IDL default, an empty Sub *)
  view Wf (TyRef 0) tvf =
    Ok (GStruct [(9, GBytes [x61; x62]); (1, GI32 7); (2, GI64 5); (3, GStruct [(1, GI32 5); (8, GDouble 0)] []);
                 (4, GStruct [] []); (5, GUnion 4 (GList [GI8 1]))] []) /\
  (* on the re-encoded message: everything the reader ignored is back (fields 9, 2, 3.8, variant 4); field 4 was written
     out as an empty struct and comes back with Sub's own default filled *)
  view Wf (TyRef 0) (reenc Sr (TyRef 0) tvf) =
    Ok (GStruct [(9, GBytes [x61; x62]); (1, GI32 7); (2, GI64 5); (3, GStruct [(1, GI32 5); (8, GDouble 0)] []);
                 (4, GStruct [(1, GI32 5)] []); (5, GUnion 4 (GList [GI8 1]))] []) /\
  (* through the theorem *)
  exists gw gw', view Wf (TyRef 0) tvf = Ok gw /\ view Wf (TyRef 0) (reenc Sr (TyRef 0) tvf) = Ok gw' /\
                 dfill Wf (TyRef 0) gw gw'.
Proof.
  split; [vm_compute; reflexivity|]. split; [vm_compute; reflexivity|]. split; [vm_compute; reflexivity|].
  split; [vm_compute; reflexivity|]. split; [vm_compute; reflexivity|]. split; [vm_compute; reflexivity|].
  assert (Hk : exists g, viewk Sr PBinary BContig w0 (TyRef 0) tvf = Ok g) by (eexists; vm_compute; reflexivity).
  destruct Hk as (g & Hk).
  assert (Hw : exists gw, view Wf (TyRef 0) tvf = Ok gw) by (eexists; vm_compute; reflexivity).
  destruct Hw as (gw & Hw).
  destruct (full_view Sr Wf PBinary BContig w0 (TyRef 0) tvf g gw eq_refl eq_refl eq_refl eq_refl Hk Hw) as (gw' & Hv & Hd).
  exists gw, gw'. auto.
Qed.

(* ---------- the re-encoded tree stays in the domain of the full reader ---------- *)
Lemma walk_fields_all S od ro dfs fs :
  walk_fields S od ro dfs fs = true <-> (forall id x, In (id, x) fs -> walk_field S od ro dfs id x = true).
Proof.
  induction fs as [|[i y] r IH]; [split; [intros _ id x []|reflexivity]|]. rewrite walk_fields_cons, andb_true_iff, IH. split.
  - intros [H1 H2] id x [E|Hin]; [injection E as <- <-; exact H1|auto].
  - intros H. split; [apply H; left; reflexivity|]. intros id x Hin. apply H. right. exact Hin.
Qed.

Section WalkTv.
  Variable W : schema.
  Hypothesis Hwf : wf_schema W = true.
  Variable od : tval -> bool.
  Variable ro : bool.

  (* what the encoder writes for a typed value has no ignored field and announces the declared element types *)
  Lemma walk_to_tval v : forall t, has_type W t v = true -> walk W od ro t (to_tval W t v) = true.
  Proof.
    induction v as [b|z|z|z|z|z|l|l| |z|l HF|l HF|l HF|fs unk HF|id x IH|u] using gval_ind'; intros t Ht; try reflexivity;
      try discriminate Ht.
    - rewrite has_type_list in Ht. rewrite to_tval_list. res_cases W t. rewrite walk_list, Eres.
      apply andb_prop in Ht as [_ He]. apply andb_true_intro. split; [destruct l; [reflexivity|cbn [tv_elems nonempty_is]; apply ttype_eqb_refl]|].
      induction HF as [|x r Hx Hr IHr]; [reflexivity|]. cbn [ht_elems] in He. apply andb_prop in He as [H1 H2].
      cbn [tv_elems]. rewrite walk_elems_cons, (Hx _ H1), (IHr H2). reflexivity.
    - rewrite has_type_set in Ht. rewrite to_tval_set. res_cases W t. rewrite walk_set, Eres.
      apply andb_prop in Ht as [_ He]. apply andb_true_intro. split; [destruct l; [reflexivity|cbn [tv_elems nonempty_is]; apply ttype_eqb_refl]|].
      induction HF as [|x r Hx Hr IHr]; [reflexivity|]. cbn [ht_elems] in He. apply andb_prop in He as [H1 H2].
      cbn [tv_elems]. rewrite walk_elems_cons, (Hx _ H1), (IHr H2). reflexivity.
    - rewrite has_type_map in Ht. rewrite to_tval_map. res_cases W t. rewrite walk_map, Eres.
      apply andb_prop in Ht as [_ He]. apply andb_true_intro.
      split; [destruct l as [|[a b] r]; [reflexivity|cbn [tv_pairs nonempty_is]; rewrite !ttype_eqb_refl; reflexivity]|].
      induction HF as [|[a b] r [Ha Hb] Hr IHr]; [reflexivity|]. cbn [ht_pairs] in He. cbn [fst snd] in *.
      apply andb_prop in He as [H1 H3]. apply andb_prop in H1 as [H1 H2].
      cbn [tv_pairs]. rewrite walk_pairs_cons, (Ha _ H1), (Hb _ H2), (IHr H3). reflexivity.
    - rewrite has_type_struct in Ht. rewrite to_tval_struct. destruct unk; [|discriminate]. res_cases W t. decl_cases W n.
      rewrite walk_struct, Eres, Elk. destruct (wf_struct W Hwf _ _ _ _ Elk) as [Hnd Hok].
      pose proof (ht_struct_inv W Hwf _ _ _ _ _ Elk Ht) as HT. clear Ht.
      induction HF as [|[id x] r Hx Hr IHr]; [reflexivity|]. inversion HT as [|? ? (f & Hf & _ & Hty) HTr]; subst. cbn [fst snd] in *.
      rewrite tv_fields_cons, Hf, walk_fields_cons. unfold walk_field.
      rewrite (to_tval_ttype W _ _ Hty), (match_field_found W dfs 0 id f Hf), (Hx _ Hty), (IHr HTr). reflexivity.
    - rewrite has_type_union in Ht. rewrite to_tval_union. res_cases W t. decl_cases W n.
      destruct (find_variant vs id) as [vt|] eqn:Ev; [|discriminate].
      destruct (is_void (resolve W vt)) eqn:Evoid; [rewrite walk_struct, Eres, Elk; reflexivity|].
      rewrite walk_struct, Eres, Elk, walk_variants_cons. unfold walk_variant.
      rewrite Ev, Evoid, (to_tval_ttype W _ _ Ht), ttype_eqb_refl, (IH _ Ht). reflexivity.
  Qed.
End WalkTv.

Section WalkReenc.
  Variables S W : schema.
  Hypothesis HwfS : wf_schema S = true.
  Hypothesis HwfW : wf_schema W = true.
  Hypothesis Hsub : sub_schema S W = true.
  Variables (p : pk) (k : bk) (c : wctx).
  Variable od : tval -> bool.
  Variable ro : bool.

  Definition WR (v : tval) : Prop := forall t g,
    no_retyped_variant S t v = true -> viewk S p k c t v = Ok g -> walk W od ro t v = true ->
    walk W od ro t (reenc S t v) = true.

  Lemma wr_leaf v : leaf v = true -> WR v.
  Proof. intros Hl t g _ _ Hw. destruct v; try discriminate Hl; exact Hw. Qed.

  Lemma wr_elems et l : Forall WR l -> walk_elems S (fun _ => true) false et l = true ->
    forall ys, viewk_elems S p k c et l = Ok ys -> walk_elems W od ro et l = true ->
    walk_elems W od ro et (reenc_elems S et l) = true.
  Proof.
    induction l as [|x r IH]; intros HF Hn ys Hk Hw; [reflexivity|].
    inversion HF as [|? ? Hx Hr]; subst. rewrite walk_elems_cons in Hn, Hw. apply andb_prop in Hn as [Hn1 Hn2]. apply andb_prop in Hw as [Hw1 Hw2].
    rewrite viewk_elems_cons in Hk. apply bind_ok_inv in Hk as (y & Hy & Hk). apply bind_ok_inv in Hk as (ys' & Hys & _).
    cbn [reenc_elems]. rewrite walk_elems_cons, (Hx et y Hn1 Hy Hw1), (IH Hr Hn2 ys' Hys Hw2). reflexivity.
  Qed.

  Lemma wr_pairs kt vt l : Forall (fun q => WR (fst q) /\ WR (snd q)) l ->
    walk_pairs S (fun _ => true) false kt vt l = true ->
    forall ys, viewk_pairs S p k c kt vt l = Ok ys -> walk_pairs W od ro kt vt l = true ->
    walk_pairs W od ro kt vt (reenc_pairs S kt vt l) = true.
  Proof.
    induction l as [|[a b] r IH]; intros HF Hn ys Hk Hw; [reflexivity|].
    inversion HF as [|? ? [Ha Hb] Hr]; subst. cbn [fst snd] in *.
    rewrite walk_pairs_cons in Hn, Hw. apply andb_prop in Hn as [Hn Hn3]. apply andb_prop in Hn as [Hn1 Hn2].
    apply andb_prop in Hw as [Hw Hw3]. apply andb_prop in Hw as [Hw1 Hw2].
    rewrite viewk_pairs_cons in Hk. apply bind_ok_inv in Hk as (ya & Hya & Hk). apply bind_ok_inv in Hk as (yb & Hyb & Hk).
    apply bind_ok_inv in Hk as (ys' & Hys & _).
    cbn [reenc_pairs]. rewrite walk_pairs_cons, (Ha kt ya Hn1 Hya Hw1), (Hb vt yb Hn2 Hyb Hw2), (IH Hr Hn3 ys' Hys Hw3). reflexivity.
  Qed.

  Lemma WR_list a l : Forall WR l -> WR (VList a l).
  Proof.
    intros HF t g Hn Hk Hw. unfold no_retyped_variant in Hn. rewrite walk_list in Hn, Hw. rewrite viewk_list in Hk. rewrite reenc_list.
    rewrite <- (sub_resolve S W Hsub) in Hw. destruct (resolve S t) eqn:Er; try discriminate Hk.
    apply andb_prop in Hn as [_ Hn]. apply andb_prop in Hw as [_ Hw]. apply bind_ok_inv in Hk as (ys & Hys & _).
    rewrite walk_list, <- (sub_resolve S W Hsub), Er, (sub_ttype S W Hsub).
    rewrite (wr_elems _ l HF Hn ys Hys Hw), andb_true_r. destruct (reenc_elems S t0 l); [reflexivity|apply ttype_eqb_refl].
  Qed.
  Lemma WR_set a l : Forall WR l -> WR (VSet a l).
  Proof.
    intros HF t g Hn Hk Hw. unfold no_retyped_variant in Hn. rewrite walk_set in Hn, Hw. rewrite viewk_set in Hk. rewrite reenc_set.
    rewrite <- (sub_resolve S W Hsub) in Hw. destruct (resolve S t) eqn:Er; try discriminate Hk.
    apply andb_prop in Hn as [_ Hn]. apply andb_prop in Hw as [_ Hw]. apply bind_ok_inv in Hk as (ys & Hys & _).
    rewrite walk_set, <- (sub_resolve S W Hsub), Er, (sub_ttype S W Hsub).
    rewrite (wr_elems _ l HF Hn ys Hys Hw), andb_true_r. destruct (reenc_elems S t0 l); [reflexivity|apply ttype_eqb_refl].
  Qed.
  Lemma WR_map ka va l : Forall (fun q => WR (fst q) /\ WR (snd q)) l -> WR (VMap ka va l).
  Proof.
    intros HF t g Hn Hk Hw. unfold no_retyped_variant in Hn. rewrite walk_map in Hn, Hw. rewrite viewk_map in Hk. rewrite reenc_map.
    rewrite <- (sub_resolve S W Hsub) in Hw. destruct (resolve S t) eqn:Er; try discriminate Hk.
    apply andb_prop in Hn as [_ Hn]. apply andb_prop in Hw as [_ Hw]. apply bind_ok_inv in Hk as (ys & Hys & _).
    rewrite walk_map, <- (sub_resolve S W Hsub), Er, !(sub_ttype S W Hsub).
    rewrite (wr_pairs _ _ l HF Hn ys Hys Hw), andb_true_r. destruct (reenc_pairs S t0_1 t0_2 l); [reflexivity|rewrite !ttype_eqb_refl; reflexivity].
  Qed.

  (* every entry of the re-encoded field list: a known field re-encoded, a default written out, or an ignored field as it was *)
  Lemma reenc_entries dfs kp fs : nodup_ids (map f_id dfs) = true ->
    let RR := reenc_fields S dfs kp fs (map (init_tvar S) dfs) [] in
    forall id t, In (id, t) (finish_tv S dfs (fst RR) ++ snd RR) ->
      (exists i f x id', nth_error dfs i = Some f /\ id = f_id f /\ t = reenc S (f_ty f) x /\ In (id', x) fs /\
                         match_field S dfs 0 (Some id') (ttype_of x) = Some (i, f)) \/
      (exists f b d, In f dfs /\ id = f_id f /\ f_dflt f = Some (b, d) /\ t = to_tval S (f_ty f) d) \/
      (In (id, t) fs /\ match_field S dfs 0 (Some id) (ttype_of t) = None).
  Proof.
    intros HndS RR id t Hin.
    destruct (rf_char S dfs HndS kp fs (map (init_tvar S) dfs) []) as (Rf1 & Rf2 & Rf3). fold RR in Rf1, Rf2, Rf3. cbn [app] in Rf2.
    apply in_app_or in Hin as [Hin|Hin].
    - destruct (finish_tv_in _ _ _ _ _ Hin) as (i & f & o & Hi & Ho & -> & He).
      assert (Hli : (i < length (map (init_tvar S) dfs))%nat) by (rewrite map_length; apply nth_error_Some; congruence).
      rewrite (Rf1 i f Hi Hli) in Ho. destruct (lastp (carries S f) fs) as [x|] eqn:El.
      + injection Ho as <-. cbn [entry] in He. injection He as <-. destruct (lastp_in _ _ _ El) as (id' & Hin' & Hc').
        left. exists i, f, x, id'. repeat split; auto. exact (carried_matched S dfs HndS _ _ _ _ Hi Hc').
      + rewrite nth_error_map, Hi in Ho. cbn [option_map] in Ho. injection Ho as <-.
        right. left. unfold entry, init_tvar, init_var in He. destruct (f_dflt f) as [[bb d]|] eqn:Ed.
        * exists f, bb, d. split; [eapply nth_error_In; eauto|]. split; [reflexivity|]. split; [exact Ed|].
          destruct bb; cbn [option_map] in He; injection He as <-; reflexivity.
        * cbn [option_map] in He. discriminate.
    - rewrite Rf2 in Hin. destruct kp; [|destruct Hin]. apply filter_In in Hin as [Hin Hu].
      right. right. split; [exact Hin|]. unfold unmatched in Hu. cbn [fst snd] in Hu.
      destruct (match_field S dfs 0 (Some id) (ttype_of t)); [discriminate|reflexivity].
  Qed.

  Lemma WR_struct fs : Forall (fun q => WR (snd q)) fs -> WR (VStruct fs).
  Proof.
    intros HF t g0 Hn Hk Hw. unfold no_retyped_variant in Hn. rewrite walk_struct in Hn, Hw. rewrite viewk_struct in Hk. rewrite reenc_struct.
    rewrite <- (sub_resolve S W Hsub) in Hw. destruct (resolve S t) eqn:Er; try discriminate Hk.
    assert (ErW : resolve W t = TyRef n) by (rewrite <- (sub_resolve S W Hsub); exact Er).
    destruct (lookup S n) as [[dfs kp ia|vs vok kp| |]|] eqn:ElS; try discriminate Hk.
    - destruct (sub_struct S W Hsub _ _ _ _ ElS) as (dfw & kpw & iaw & ElW & Hall & Hnk). rewrite ElW in Hw.
      destruct (wf_struct S HwfS _ _ _ _ ElS) as [HndS HokS]. destruct (wf_struct W HwfW _ _ _ _ ElW) as [HndW HokW].
      apply bind_ok_inv in Hk as (rS & HkS & _).
      cbv zeta. rewrite walk_struct, ErW, ElW. apply walk_fields_all. intros id tv Hin.
      rewrite walk_fields_all in Hw.
      (* the full schema's declaration of a reader's field matches the same wire fields *)
      assert (Hcount : forall f, In f dfs -> exists j g, nth_error dfw j = Some g /\ field_sub f g = true).
      { intros f Hf. destruct (Hall f Hf) as (g & Hg & Hs). destruct (In_nth_error _ _ Hg) as (j & Hj). eauto. }
      destruct (reenc_entries dfs kp fs HndS id tv Hin) as [(i & f & x & id' & Hi & -> & -> & Hin' & EmS)|[(f & b & d & Hf & -> & Ed & ->)|[Hin' _]]].
      + destruct (Hcount f (nth_error_In _ _ Hi)) as (j & g & Hj & Hs). destruct (field_sub_inv _ _ Hs) as (Eid & Ety & _).
        destruct (matched_carried S dfs HndS _ _ _ _ EmS) as [_ HcS]. destruct (carries_inv _ _ _ HcS) as [_ Et]. cbn [snd] in Et.
        assert (HcW : carries W g (id', x) = true) by (apply carries_intro; [destruct (carries_inv _ _ _ HcS) as [E1 _]; cbn [fst] in E1 |- *; congruence|cbn [snd]; rewrite <- Ety, <- (sub_ttype S W Hsub); exact Et]).
        assert (HcW2 : carries W g (f_id f, reenc S (f_ty f) x) = true)
          by (apply carries_intro; [exact (eq_sym Eid)|cbn [snd]; rewrite reenc_ttype, <- Ety, <- (sub_ttype S W Hsub); exact Et]).
        unfold walk_field. rewrite (carried_matched W dfw HndW _ _ _ _ Hj HcW2). rewrite <- Ety.
        rewrite Forall_forall in HF. specialize (HF _ Hin'). cbn [snd] in HF.
        destruct (vkf_all_ok S p k c dfs kp fs _ _ _ HkS _ _ _ _ Hin' EmS) as (yk & Hyk).
        pose proof (walk_fields_in _ _ _ _ _ _ _ Hn Hin') as Hwn. unfold walk_field in Hwn. rewrite EmS in Hwn.
        apply (HF _ _ Hwn Hyk). specialize (Hw _ _ Hin'). unfold walk_field in Hw.
        rewrite (carried_matched W dfw HndW _ _ _ _ Hj HcW), <- Ety in Hw. exact Hw.
      + destruct (Hcount f Hf) as (j & g & Hj & Hs). destruct (field_sub_inv _ _ Hs) as (Eid & Ety & Edf). rewrite Ed in Edf.
        destruct (f_dflt g) as [[b' d']|] eqn:Edg; [|contradiction]. subst d'.
        destruct (field_ok_inv _ _ (HokS f Hf)) as (_ & _ & _ & HtS). rewrite Ed in HtS.
        destruct (field_ok_inv _ _ (HokW g (nth_error_In _ _ Hj))) as (_ & _ & _ & HtW). rewrite Edg in HtW. rewrite <- Ety in HtW.
        assert (HcW : carries W g (f_id f, to_tval S (f_ty f) d) = true)
          by (apply carries_intro; [exact (eq_sym Eid)|cbn [snd]; rewrite (to_tval_ttype S _ _ HtS), <- Ety; symmetry; apply (sub_ttype S W Hsub)]).
        unfold walk_field. rewrite (carried_matched W dfw HndW _ _ _ _ Hj HcW), <- Ety.
        rewrite (to_tval_sub S W HwfS HwfW Hsub d _ HtS HtW). apply (walk_to_tval W HwfW od ro d _ HtW).
      + exact (Hw _ _ Hin').
    - destruct (sub_union S W Hsub _ _ _ _ ElS) as (vw & vow & kpw & ElW & Hall & Hnk). rewrite ElW in Hw.
      pose proof (wf_union_nodup W HwfW _ _ _ _ ElW) as HndW.
      assert (Hone : forall id x vt, walk_variant S (fun _ => true) false vs id x = true -> variant_by_id S vs id = Some vt ->
                 walk_variant W od ro vw id x = true -> WR x ->
                 forall y, viewk S p k c vt x = Ok y -> walk_variant W od ro vw id (reenc S vt x) = true).
      { intros id x vt Hn1 Ev Hw1 Hx y Hy. destruct (variant_typed S vs id x vt Hn1 Ev) as (Hty & Hf & Hnv).
        pose proof (find_variant_nodup vw HndW id vt (Hall _ _ (find_variant_in _ _ _ Hf))) as Hfw.
        unfold walk_variant in Hw1 |- *. rewrite Hfw, <- (sub_resolve S W Hsub), Hnv in Hw1 |- *.
        rewrite reenc_ttype. rewrite <- (sub_ttype S W Hsub), <- Hty, ttype_eqb_refl in Hw1 |- *.
        exact (Hx vt y (variant_walk2 S vs id x vt Hn1 Ev) Hy Hw1). }
      destruct kp.
      + apply bind_ok_inv in Hk as (retk & Hvk & _). destruct fs as [|[id x] r]; [rewrite walk_struct, ErW, ElW; reflexivity|].
        inversion HF as [|? ? Hx Hr]; subst. rewrite walk_variants_cons in Hn, Hw. apply andb_prop in Hn as [Hn1 _]. apply andb_prop in Hw as [Hw1 _].
        rewrite viewk_variantsk_cons in Hvk. destruct (variant_by_id S vs id) as [vt|] eqn:Ev.
        * apply bind_ok_inv in Hvk as (y & Hy & _). rewrite walk_struct, ErW, ElW, walk_variants_cons.
          rewrite (Hone id x vt Hn1 Ev Hw1 Hx y Hy). reflexivity.
        * rewrite walk_struct, ErW, ElW, walk_variants_cons, Hw1. reflexivity.
      + apply bind_ok_inv in Hk as (retk & Hvk & _). rewrite walk_struct, ErW, ElW.
        clear ElS. revert retk Hvk. generalize (@None (Z * gval)).
        induction fs as [|[id x] r IH]; intros ret0 retk Hvk; [reflexivity|].
        inversion HF as [|? ? Hx Hr]; subst. rewrite walk_variants_cons in Hn, Hw. apply andb_prop in Hn as [Hn1 Hn2]. apply andb_prop in Hw as [Hw1 Hw2].
        rewrite viewk_variants_cons in Hvk. cbn [reenc_variants]. destruct (variant_by_id S vs id) as [vt|] eqn:Ev.
        * destruct ret0; [discriminate|]. apply bind_ok_inv in Hvk as (y & Hy & _). rewrite walk_variants_cons.
          rewrite (Hone id x vt Hn1 Ev Hw1 Hx y Hy). reflexivity.
        * exact (IH Hr Hn2 Hw2 ret0 retk Hvk).
  Qed.

  Theorem WR_all v : WR v.
  Proof.
    induction v using tval_ind'; try (apply wr_leaf; reflexivity).
    - apply WR_struct; assumption.
    - apply WR_list; assumption.
    - apply WR_set; assumption.
    - apply WR_map; assumption.
  Qed.
End WalkReenc.


(* ---------- the converse: what the full reader accepts after re-encoding it accepted before ---------- *)
(* ... provided no struct of the message repeats a field id (ids_distinct): of a repeated id only the last occurrence
   survives any decode, so an earlier occurrence that the full reader would have rejected is gone
   (full_view_err_repeated_refuted). *)
Lemma lastp_unique h : forall fs id x, nodup_ids (map fst fs) = true -> In (id, x) fs -> h (id, x) = true ->
  (forall q, In q fs -> h q = true -> fst q = id) -> lastp h fs = Some x.
Proof.
  induction fs as [|[i y] r IH]; intros id x Hnd Hin Hh Hu; [destruct Hin|].
  cbn [map fst nodup_ids] in Hnd. apply andb_prop in Hnd as [H1 H2]. apply negb_true_iff in H1. cbn [lastp].
  destruct Hin as [E|Hin].
  - injection E as -> ->. rewrite (lastp_none h r); [rewrite Hh; reflexivity|].
    intros [j z] Hq. destruct (h (j, z)) eqn:Ez; [|reflexivity]. exfalso.
    pose proof (Hu (j, z) (or_intror Hq) Ez) as Ej. cbn [fst] in Ej. subst j.
    apply (existsb_eqb_false _ _ H1 id); [apply (in_map fst) in Hq; exact Hq|reflexivity].
  - rewrite (IH id x H2 Hin Hh (fun q Hq => Hu q (or_intror Hq))). reflexivity.
Qed.

Lemma finish_tv_intro S : forall dfs tvars i f t, nth_error dfs i = Some f -> nth_error tvars i = Some (Some t) ->
  In (f_id f, t) (finish_tv S dfs tvars).
Proof.
  induction dfs as [|g r IH]; intros [|o tvs] i f t Hi Ht; try (destruct i; discriminate).
  rewrite finish_tv_cons. apply in_or_app. destruct i as [|i]; cbn [nth_error] in Hi, Ht.
  - injection Hi as ->. injection Ht as ->. left. cbn [entry]. left. reflexivity.
  - right. eapply IH; eauto.
Qed.

Section ids_names.
  Definition idd_fields : list (Z * tval) -> bool :=
    fix go (fs : list (Z * tval)) : bool := match fs with [] => true | (_, x) :: r => ids_distinct x && go r end.
  Definition idd_elems : list tval -> bool :=
    fix go (l : list tval) : bool := match l with [] => true | x :: r => ids_distinct x && go r end.
  Definition idd_pairs : list (tval * tval) -> bool :=
    fix go (l : list (tval * tval)) : bool := match l with [] => true | (a, b) :: r => ids_distinct a && ids_distinct b && go r end.
  Lemma idd_struct fs : ids_distinct (VStruct fs) = nodup_ids (map fst fs) && idd_fields fs.
  Proof. reflexivity. Qed.
  Lemma idd_list a l : ids_distinct (VList a l) = idd_elems l.
  Proof. reflexivity. Qed.
  Lemma idd_set a l : ids_distinct (VSet a l) = idd_elems l.
  Proof. reflexivity. Qed.
  Lemma idd_map a b l : ids_distinct (VMap a b l) = idd_pairs l.
  Proof. reflexivity. Qed.
  Lemma idd_fields_in fs id x : idd_fields fs = true -> In (id, x) fs -> ids_distinct x = true.
  Proof.
    induction fs as [|[i y] r IH]; intros H Hin; [destruct Hin|]. cbn [idd_fields] in H. apply andb_prop in H as [H1 H2].
    destruct Hin as [E|Hin]; [injection E as -> ->; exact H1|auto].
  Qed.
End ids_names.

Section Conv.
  Variables S W : schema.
  Hypothesis HwfS : wf_schema S = true.
  Hypothesis HwfW : wf_schema W = true.
  Hypothesis Hsub : sub_schema S W = true.
  Variables (p : pk) (k : bk) (c : wctx).

  Definition FC (v : tval) : Prop := forall t g gw',
    no_retyped_variant S t v = true -> viewk S p k c t v = Ok g -> ids_distinct v = true ->
    view W t (reenc S t v) = Ok gw' -> exists gw, view W t v = Ok gw.

  Lemma fc_leaf v : leaf v = true -> FC v.
  Proof. intros Hl t g gw' _ _ _ Hw. exists gw'. destruct v; try discriminate Hl; exact Hw. Qed.

  Lemma fc_elems et l : Forall FC l -> walk_elems S (fun _ => true) false et l = true -> idd_elems l = true ->
    forall ys yw', viewk_elems S p k c et l = Ok ys -> view_elems W et (reenc_elems S et l) = Ok yw' ->
    exists yw, view_elems W et l = Ok yw.
  Proof.
    induction l as [|x r IH]; intros HF Hn Hd ys yw' Hk Hw; [eexists; reflexivity|].
    inversion HF as [|? ? Hx Hr]; subst. rewrite walk_elems_cons in Hn. apply andb_prop in Hn as [Hn1 Hn2].
    cbn [idd_elems] in Hd. apply andb_prop in Hd as [Hd1 Hd2].
    rewrite viewk_elems_cons in Hk. apply bind_ok_inv in Hk as (y & Hy & Hk). apply bind_ok_inv in Hk as (ys' & Hys & _).
    cbn [reenc_elems] in Hw. rewrite view_elems_cons in Hw. apply bind_ok_inv in Hw as (w' & Hw1 & Hw).
    apply bind_ok_inv in Hw as (ws' & Hws & _).
    destruct (Hx et y w' Hn1 Hy Hd1 Hw1) as (w & Ew). destruct (IH Hr Hn2 Hd2 ys' ws' Hys Hws) as (ws & Ews).
    exists (w :: ws). rewrite view_elems_cons, Ew, Ews. reflexivity.
  Qed.

  Lemma fc_pairs kt vt l : Forall (fun q => FC (fst q) /\ FC (snd q)) l ->
    walk_pairs S (fun _ => true) false kt vt l = true -> idd_pairs l = true ->
    forall ys yw', viewk_pairs S p k c kt vt l = Ok ys -> view_pairs W kt vt (reenc_pairs S kt vt l) = Ok yw' ->
    exists yw, view_pairs W kt vt l = Ok yw.
  Proof.
    induction l as [|[a b] r IH]; intros HF Hn Hd ys yw' Hk Hw; [eexists; reflexivity|].
    inversion HF as [|? ? [Ha Hb] Hr]; subst. cbn [fst snd] in *.
    rewrite walk_pairs_cons in Hn. apply andb_prop in Hn as [Hn Hn3]. apply andb_prop in Hn as [Hn1 Hn2].
    cbn [idd_pairs] in Hd. apply andb_prop in Hd as [Hd Hd3]. apply andb_prop in Hd as [Hd1 Hd2].
    rewrite viewk_pairs_cons in Hk. apply bind_ok_inv in Hk as (ya & Hya & Hk). apply bind_ok_inv in Hk as (yb & Hyb & Hk).
    apply bind_ok_inv in Hk as (ys' & Hys & _).
    cbn [reenc_pairs] in Hw. rewrite view_pairs_cons in Hw. apply bind_ok_inv in Hw as (wa' & Hwa & Hw).
    apply bind_ok_inv in Hw as (wb' & Hwb & Hw). apply bind_ok_inv in Hw as (ws' & Hws & _).
    destruct (Ha kt ya wa' Hn1 Hya Hd1 Hwa) as (wa & Ea). destruct (Hb vt yb wb' Hn2 Hyb Hd2 Hwb) as (wb & Eb).
    destruct (IH Hr Hn3 Hd3 ys' ws' Hys Hws) as (ws & Ews).
    exists ((wa, wb) :: ws). rewrite view_pairs_cons, Ea, Eb, Ews. reflexivity.
  Qed.

  Lemma FC_list a l : Forall FC l -> FC (VList a l).
  Proof.
    intros HF t g gw' Hn Hk Hd Hw. unfold no_retyped_variant in Hn. rewrite walk_list in Hn. rewrite viewk_list in Hk.
    rewrite reenc_list in Hw. rewrite idd_list in Hd. destruct (resolve S t) eqn:Er; try discriminate Hk.
    rewrite view_list, <- (sub_resolve S W Hsub), Er in Hw |- *. apply andb_prop in Hn as [_ Hn].
    apply bind_ok_inv in Hk as (ys & Hys & _). apply bind_ok_inv in Hw as (yw' & Hyw' & _).
    destruct (fc_elems _ l HF Hn Hd ys yw' Hys Hyw') as (yw & E). rewrite E. eexists; reflexivity.
  Qed.
  Lemma FC_set a l : Forall FC l -> FC (VSet a l).
  Proof.
    intros HF t g gw' Hn Hk Hd Hw. unfold no_retyped_variant in Hn. rewrite walk_set in Hn. rewrite viewk_set in Hk.
    rewrite reenc_set in Hw. rewrite idd_set in Hd. destruct (resolve S t) eqn:Er; try discriminate Hk.
    rewrite view_set, <- (sub_resolve S W Hsub), Er in Hw |- *. apply andb_prop in Hn as [_ Hn].
    apply bind_ok_inv in Hk as (ys & Hys & _). apply bind_ok_inv in Hw as (yw' & Hyw' & _).
    destruct (fc_elems _ l HF Hn Hd ys yw' Hys Hyw') as (yw & E). rewrite E. eexists; reflexivity.
  Qed.
  Lemma FC_map ka va l : Forall (fun q => FC (fst q) /\ FC (snd q)) l -> FC (VMap ka va l).
  Proof.
    intros HF t g gw' Hn Hk Hd Hw. unfold no_retyped_variant in Hn. rewrite walk_map in Hn. rewrite viewk_map in Hk.
    rewrite reenc_map in Hw. rewrite idd_map in Hd. destruct (resolve S t) eqn:Er; try discriminate Hk.
    rewrite view_map, <- (sub_resolve S W Hsub), Er in Hw |- *. apply andb_prop in Hn as [_ Hn].
    apply bind_ok_inv in Hk as (ys & Hys & _). apply bind_ok_inv in Hw as (yw' & Hyw' & _).
    destruct (fc_pairs _ _ l HF Hn Hd ys yw' Hys Hyw') as (yw & E). rewrite E. eexists; reflexivity.
  Qed.

  Lemma fc_fields dfs kp dfw fs rS varsW' outW' :
    nodup_ids (map f_id dfs) = true -> nodup_ids (map f_id dfw) = true ->
    (forall f, In f dfs -> exists g, In g dfw /\ field_sub f g = true) ->
    (kp = false -> forall g, In g dfw -> exists f, In f dfs /\ f_id f = f_id g) ->
    Forall (fun q => FC (snd q)) fs -> nodup_ids (map fst fs) = true -> idd_fields fs = true ->
    walk_fields S (fun _ => true) false dfs fs = true ->
    viewk_fields S p k c dfs kp fs (map init_var dfs) [] = Ok rS ->
    let RR := reenc_fields S dfs kp fs (map (init_tvar S) dfs) [] in
    view_fields W dfw (finish_tv S dfs (fst RR) ++ snd RR) (map init_var dfw) = Ok varsW' ->
    finish_fields dfw varsW' = Ok outW' ->
    exists varsW outW, view_fields W dfw fs (map init_var dfw) = Ok varsW /\ finish_fields dfw varsW = Ok outW.
  Proof.
    intros HndS HndW Hall Hnk HF Hndf Hidd Hn Hk RR Hw' Hfin'.
    destruct (rf_char S dfs HndS kp fs (map (init_tvar S) dfs) []) as (Rf1 & Rf2 & Rf3). fold RR in Rf1, Rf2, Rf3.
    cbn [app] in Rf2.
    assert (Hcount : forall f g, In f dfs -> In g dfw -> f_id f = f_id g -> field_sub f g = true).
    { intros f g Hf Hg E. destruct (Hall f Hf) as (g' & Hg' & Hs). destruct (field_sub_inv _ _ Hs) as (E' & _).
      rewrite (nodup_same_id dfw g g' HndW Hg Hg' ltac:(congruence)). exact Hs. }
    assert (Hcar : forall f g q, field_sub f g = true -> carries S f q = carries W g q).
    { intros f g q Hs. destruct (field_sub_inv _ _ Hs) as (E1 & E2 & _). unfold carries.
      rewrite E1, E2, (sub_ttype S W Hsub). reflexivity. }
    (* step 1: every wire field the full reader knows has a view *)
    assert (H1 : exists varsW, view_fields W dfw fs (map init_var dfw) = Ok varsW).
    { apply vf_build. intros id x j g Hin Em.
      destruct (matched_carried W dfw HndW _ _ _ _ Em) as [Hj HcW]. pose proof (nth_error_In _ _ Hj) as Hg.
      destruct (match_field S dfs 0 (Some id) (ttype_of x)) as [[i f]|] eqn:EmS.
      - destruct (matched_carried S dfs HndS _ _ _ _ EmS) as [Hi HcS]. pose proof (nth_error_In _ _ Hi) as Hf.
        destruct (carries_inv _ _ _ HcS) as [E1 _]. destruct (carries_inv _ _ _ HcW) as [E2 _]. cbn [fst] in E1, E2.
        pose proof (Hcount f g Hf Hg ltac:(congruence)) as Hs. destruct (field_sub_inv _ _ Hs) as (_ & Ety & _).
        assert (El : lastp (carries S f) fs = Some x).
        { apply (lastp_unique _ fs id x Hndf Hin HcS). intros q _ Hq. destruct (carries_inv _ _ _ Hq) as [E _]. congruence. }
        assert (Hli : (i < length (map (init_tvar S) dfs))%nat) by (rewrite map_length; apply nth_error_Some; congruence).
        pose proof (Rf1 i f Hi Hli) as Hnth. rewrite El in Hnth.
        pose proof (finish_tv_intro S dfs (fst RR) i f _ Hi Hnth) as HinL.
        assert (HcW2 : carries W g (f_id f, reenc S (f_ty f) x) = true).
        { destruct (carries_inv _ _ _ HcW) as [_ Et]. cbn [snd] in Et.
          apply carries_intro; [cbn [fst]; congruence|cbn [snd]; rewrite reenc_ttype; exact Et]. }
        destruct (vf_all_ok W dfw _ _ _ Hw' (f_id f) (reenc S (f_ty f) x) j g (in_or_app _ _ _ (or_introl HinL))
                    (carried_matched W dfw HndW _ _ _ _ Hj HcW2)) as (y' & Hy').
        rewrite Forall_forall in HF. specialize (HF _ Hin). cbn [snd] in HF.
        destruct (vkf_all_ok S p k c dfs kp fs _ _ _ Hk id x i f Hin EmS) as (yk & Hyk).
        pose proof (walk_fields_in _ _ _ _ _ _ _ Hn Hin) as Hwf. unfold walk_field in Hwf. rewrite EmS in Hwf.
        rewrite <- Ety in *. exact (HF _ _ _ Hwf Hyk (idd_fields_in _ _ _ Hidd Hin) Hy').
      - assert (Ekp : kp = true).
        { destruct kp; [reflexivity|]. destruct (Hnk eq_refl g Hg) as (f & Hf & E). exfalso.
          pose proof (Hcount f g Hf Hg E) as Hs. rewrite <- (Hcar f g (id, x) Hs) in HcW.
          destruct (In_nth_error _ _ Hf) as (i & Hi). rewrite (carried_matched S dfs HndS _ _ _ _ Hi HcW) in EmS. discriminate. }
        assert (HinL : In (id, x) (snd RR)).
        { rewrite Rf2, Ekp. apply filter_In. split; [exact Hin|]. unfold unmatched. cbn [fst snd]. rewrite EmS. reflexivity. }
        exact (vf_all_ok W dfw _ _ _ Hw' id x j g (in_or_app _ _ _ (or_intror HinL)) Em). }
    destruct H1 as (varsW & Hw). exists varsW.
    (* step 2: every required field the re-encoded message carries the original carries *)
    assert (Hlen : length varsW = length dfw) by (rewrite (view_fields_length _ _ _ _ _ Hw); apply map_length).
    destruct (finish_present dfw varsW Hlen) as (outW & Hfin); [|exists outW; auto].
    intros j g Hj Hdf Hrq. pose proof (nth_error_In _ _ Hj) as Hg.
    assert (Hlj : (j < length (map init_var dfw))%nat) by (rewrite map_length; apply nth_error_Some; congruence).
    apply (view_fields_carried W dfw HndW fs _ _ j g Hw Hj Hlj).
    (* the L-run has the variable set *)
    pose proof (vf_char W dfw HndW _ _ _ Hw' j g Hj Hlj) as A2. rewrite (init_var_nth _ _ _ Hj) in A2.
    destruct (lastp (carries W g) (finish_tv S dfs (fst RR) ++ snd RR)) as [t|] eqn:El.
    2:{ exfalso. unfold init_var in A2. rewrite Hdf in A2.
        assert (Hl' : length varsW' = length dfw) by (rewrite (view_fields_length _ _ _ _ _ Hw'); apply map_length).
        exact (finish_missing dfw varsW' j g Hl' Hj A2 Hdf Hrq _ Hfin'). }
    destruct (lastp_in _ _ _ El) as (id & HinL & HcL).
    apply existsb_exists.
    destruct (reenc_entries S dfs kp fs HndS id t HinL) as [(i & f & x & id' & Hi & -> & -> & Hin' & EmS)|[(f & b & d & Hf & -> & Ed & ->)|[Hin' _]]].
    - exists (id', x). split; [exact Hin'|]. destruct (matched_carried S dfs HndS _ _ _ _ EmS) as [_ HcS].
      destruct (carries_inv _ _ _ HcL) as [E _]. cbn [fst] in E.
      rewrite <- (Hcar f g _ (Hcount f g (nth_error_In _ _ Hi) Hg (eq_sym E))). exact HcS.
    - exfalso. destruct (carries_inv _ _ _ HcL) as [E _]. cbn [fst] in E.
      pose proof (Hcount f g Hf Hg (eq_sym E)) as Hs. destruct (field_sub_inv _ _ Hs) as (_ & _ & Edf). rewrite Ed, Hdf in Edf. exact Edf.
    - exists (id, t). auto.
  Qed.

  Lemma FC_struct fs : Forall (fun q => FC (snd q)) fs -> FC (VStruct fs).
  Proof.
    intros HF t g0 gw' Hn Hk Hd Hw. unfold no_retyped_variant in Hn. rewrite walk_struct in Hn. rewrite viewk_struct in Hk.
    rewrite reenc_struct in Hw. rewrite idd_struct in Hd. apply andb_prop in Hd as [Hndf Hidd].
    destruct (resolve S t) eqn:Er; try discriminate Hk.
    assert (ErW : resolve W t = TyRef n) by (rewrite <- (sub_resolve S W Hsub); exact Er).
    destruct (lookup S n) as [[dfs kp ia|vs vok kp| |]|] eqn:ElS; try discriminate Hk.
    - destruct (sub_struct S W Hsub _ _ _ _ ElS) as (dfw & kpw & iaw & ElW & Hall & Hnk).
      destruct (wf_struct S HwfS _ _ _ _ ElS) as [HndS _]. destruct (wf_struct W HwfW _ _ _ _ ElW) as [HndW _].
      apply bind_ok_inv in Hk as (rS & HkS & _). cbv zeta in Hw. rewrite view_struct, ErW, ElW in Hw |- *.
      apply bind_ok_inv in Hw as (varsW' & Hw' & Hw). apply bind_ok_inv in Hw as (outW' & Hfin' & _).
      destruct (fc_fields dfs kp dfw fs rS varsW' outW' HndS HndW Hall Hnk HF Hndf Hidd Hn HkS Hw' Hfin') as (varsW & outW & E1 & E2).
      rewrite E1. cbn [bind]. rewrite E2. eexists; reflexivity.
    - destruct (sub_union S W Hsub _ _ _ _ ElS) as (vw & vow & kpw & ElW & Hall & Hnk).
      pose proof (wf_union_nodup W HwfW _ _ _ _ ElW) as HndW.
      destruct kp.
      + apply bind_ok_inv in Hk as (retk & Hvk & _). destruct fs as [|[id x] r]; [exists gw'; exact Hw|].
        inversion HF as [|? ? Hx Hr]; subst. cbn [snd] in Hx. rewrite walk_variants_cons in Hn. apply andb_prop in Hn as [Hn1 _].
        cbn [idd_fields] in Hidd. apply andb_prop in Hidd as [Hd1 _].
        rewrite viewk_variantsk_cons in Hvk. destruct (variant_by_id S vs id) as [vt|] eqn:Ev.
        * apply bind_ok_inv in Hvk as (y & Hy & Hvk). apply (vkk_after S p k c) in Hvk as [-> _]; [|discriminate].
          destruct (known_sub S W Hsub vs vw id x vt HndW Hall Hn1 Ev) as (Hkn & Hfw & Hty).
          rewrite view_struct, ErW, ElW in Hw |- *. rewrite view_variants_cons, reenc_ttype, Hkn in Hw. rewrite view_variants_cons, Hkn.
          apply bind_ok_inv in Hw as (ret & Hv & Hw). apply bind_ok_inv in Hv as (yw' & Hyw' & Hv). injection Hv as <-.
          destruct (Hx vt y yw' (variant_walk2 S vs id x vt Hn1 Ev) Hy Hd1 Hyw') as (yw & Eyw). rewrite Eyw. cbn [bind view_variants].
          eexists; reflexivity.
        * apply (vkk_after S p k c) in Hvk as [-> _]; [|discriminate]. exists gw'. exact Hw.
      + apply bind_ok_inv in Hk as (retk & Hvk & _). rewrite view_struct, ErW, ElW in Hw |- *.
        apply bind_ok_inv in Hw as (ret' & Hv' & Hu').
        (* the full reader knows exactly the reader's variants *)
        assert (G : forall r0 retk0, viewk_variants S p k c vs fs r0 = Ok retk0 ->
                  forall ret0', view_variants W vw (reenc_variants S vs fs) None = Ok ret0' -> r0 = None ->
                  exists ret0, view_variants W vw fs None = Ok ret0 /\ (ret0 = None <-> ret0' = None)).
        { clear Hu' Hv' Hvk ret' retk. induction fs as [|[id x] r IH]; intros r0 retk0 Hvk ret0' Hv' ->.
          - injection Hv' as <-. exists None. split; [reflexivity|tauto].
          - inversion HF as [|? ? Hx Hr]; subst. cbn [snd] in Hx. rewrite walk_variants_cons in Hn. apply andb_prop in Hn as [Hn1 Hn2].
            cbn [idd_fields] in Hidd. apply andb_prop in Hidd as [Hd1 Hd2].
            cbn [map fst nodup_ids] in Hndf. apply andb_prop in Hndf as [_ Hndf2].
            rewrite viewk_variants_cons in Hvk. cbn [reenc_variants] in Hv'. rewrite view_variants_cons.
            destruct (variant_by_id S vs id) as [vt|] eqn:Ev.
            + apply bind_ok_inv in Hvk as (y & Hy & Hvk).
              destruct (known_sub S W Hsub vs vw id x vt HndW Hall Hn1 Ev) as (Hkn & Hfw & Hty). rewrite Hkn.
              rewrite view_variants_cons, reenc_ttype, Hkn in Hv'. apply bind_ok_inv in Hv' as (yw' & Hyw' & Hv'). injection Hv' as <-.
              destruct (Hx vt y yw' (variant_walk2 S vs id x vt Hn1 Ev) Hy Hd1 Hyw') as (yw & Eyw). rewrite Eyw. cbn [bind].
              (* nothing the full reader knows follows: the reader saw no second known field *)
              assert (Hrest : forall r1, view_variants W vw r r1 = Ok r1).
              { clear - Hvk Hn2 Hall Hnk HndW Hsub. revert Hvk Hn2. generalize (id, y). induction r as [|[i2 x2] r2 IH2]; intros q0 Hvk Hn2 r1; [reflexivity|].
                rewrite walk_variants_cons in Hn2. apply andb_prop in Hn2 as [Hn21 Hn22].
                rewrite viewk_variants_cons in Hvk. rewrite view_variants_cons.
                destruct (variant_by_id S vs i2) as [vt2|] eqn:Ev2; [discriminate|].
                assert (Hkn2 : known_variant W vw i2 (ttype_of x2) = None).
                { unfold known_variant. destruct (find_variant vw i2) as [t'|] eqn:Efw; [|reflexivity].
                  destruct (Hnk eq_refl _ _ (find_variant_in _ _ _ Efw)) as (t'' & Hin).
                  unfold variant_by_id in Ev2. destruct (find_variant vs i2) as [t3|] eqn:Efs.
                  - pose proof (find_variant_nodup vw HndW i2 t3 (Hall _ _ (find_variant_in _ _ _ Efs))) as E. rewrite Efw in E.
                    injection E as ->. rewrite <- (sub_resolve S W Hsub). destruct (is_void (resolve S t3)); [reflexivity|discriminate].
                  - exfalso. exact (find_variant_none _ _ Efs _ Hin). }
                rewrite Hkn2. eapply IH2; eauto. }
              rewrite Hrest. eexists. split; [reflexivity|]. split; discriminate.
            + assert (Hkn2 : known_variant W vw id (ttype_of x) = None).
              { unfold known_variant. destruct (find_variant vw id) as [t'|] eqn:Efw; [|reflexivity].
                destruct (Hnk eq_refl _ _ (find_variant_in _ _ _ Efw)) as (t'' & Hin).
                unfold variant_by_id in Ev. destruct (find_variant vs id) as [t3|] eqn:Efs.
                - pose proof (find_variant_nodup vw HndW id t3 (Hall _ _ (find_variant_in _ _ _ Efs))) as E. rewrite Efw in E.
                  injection E as ->. rewrite <- (sub_resolve S W Hsub). destruct (is_void (resolve S t3)); [reflexivity|discriminate].
                - exfalso. exact (find_variant_none _ _ Efs _ Hin). }
              rewrite Hkn2. exact (IH Hr Hn2 Hndf2 Hd2 None retk0 Hvk ret0' Hv' eq_refl). }
        destruct (G None retk Hvk ret' Hv' eq_refl) as (ret0 & E0 & Hiff). rewrite E0. cbn [bind].
        unfold union_result in Hu' |- *. destruct ret0 as [[i0 y0]|]; [eexists; reflexivity|].
        destruct ret' as [[i1 y1]|]; [discriminate (proj1 Hiff eq_refl)|]. exists gw'. exact Hu'.
  Qed.

  Theorem FC_all v : FC v.
  Proof.
    induction v using tval_ind'; try (apply fc_leaf; reflexivity).
    - apply FC_struct; assumption.
    - apply FC_list; assumption.
    - apply FC_set; assumption.
    - apply FC_map; assumption.
  Qed.
End Conv.


(* ---------- end to end: the emitted decoder of the full schema on the re-encoded bytes ---------- *)
(* reenc keeps a message in the C08 domain of the full reader *)
Theorem reenc_dom : forall S W p k c T tv g,
  wf_schema S = true -> wf_schema W = true -> sub_schema S W = true ->
  no_retyped_variant S T tv = true -> viewk S p k c T tv = Ok g ->
  evo_dom W T tv = true -> no_retyped_variant W T tv = true ->
  evo_dom W T (reenc S T tv) = true /\ no_retyped_variant W T (reenc S T tv) = true.
Proof.
  intros S W p k c T tv g HwfS HwfW Hsub Hn Hk Hd HnW. split.
  - exact (WR_all S W HwfS HwfW Hsub p k c skippable true tv T g Hn Hk Hd).
  - exact (WR_all S W HwfS HwfW Hsub p k c (fun _ => true) false tv T g Hn Hk HnW).
Qed.

(* decode with retention under S, emitted encode, then the decoder pilota-build emits for the FULL schema W: it returns
   what it returns on the original message (view W T tv, by C08_tolerant: the message is in the C08 domain of W), up to
   dfill, and stops at the end of the message. *)
Theorem keep_retain_full : forall S W p k T tv g gw,
  wf_schema S = true -> wf_schema W = true -> sub_schema S W = true -> p <> PCompact ->
  wt tv = true -> ttype_of tv = ttype_of_ty S T ->
  evo_dom S T tv = true -> no_retyped_variant S T tv = true ->
  evo_dom W T tv = true -> no_retyped_variant W T tv = true ->
  forall c, w_pend c = None ->
  viewk S p k c T tv = Ok g -> empty_elems_ok S T tv = true ->
  view W T tv = Ok gw ->
  exists b gw',
    enc_ty S p k T g c = Ok (b, c) /\ dfill W T gw gw' /\
    forall fuel r rcx, (vsize (reenc S T tv) <= fuel)%nat -> idle rcx ->
      gen_decode W p fuel T (mkS (flat b ++ r) rcx) = Ok (gw', mkS r rcx).
Proof.
  intros S W p k T tv g gw HwfS HwfW Hsub Hbin Hwt Hty Hd Hn HdW0 HnW0 c Hc Hk Hee Hw.
  destruct (reenc_dom S W p k c T tv g HwfS HwfW Hsub Hn Hk HdW0 HnW0) as [HdW HnW].
  pose proof (KeepWtP.reenc_wt S tv T HwfS Hwt Hty Hd Hn Hee) as Hwr.
  destruct (keep_retain S p k c T tv g HwfS Hbin Hc Hn Hk Hwr) as (b & He & Hr).
  destruct (full_view S W p k c T tv g gw HwfS HwfW Hsub Hn Hk Hw) as (gw' & Hv & Hdf).
  exists b, gw'. split; [exact He|]. split; [exact Hdf|]. intros fuel r rcx Hf Hi.
  specialize (Hr fuel r rcx Hf Hi). rewrite Hty, (sub_ttype S W Hsub) in Hr.
  rewrite (EvoTopP.evo_refines W p fuel T _ _ _ Hr (proj2 Hi) HdW HnW), Hv. reflexivity.
Qed.

(* ---------- the Err direction ---------- *)
(* what the full reader accepts after the decode / re-encode it accepted before, when no struct repeats a field id *)
Theorem full_view_conv : forall S W p k c T tv g gw',
  wf_schema S = true -> wf_schema W = true -> sub_schema S W = true ->
  no_retyped_variant S T tv = true -> viewk S p k c T tv = Ok g -> ids_distinct tv = true ->
  view W T (reenc S T tv) = Ok gw' ->
  exists gw, view W T tv = Ok gw /\ dfill W T gw gw'.
Proof.
  intros S W p k c T tv g gw' HwfS HwfW Hsub Hn Hk Hd Hw'.
  destruct (FC_all S W HwfS HwfW Hsub p k c tv T g gw' Hn Hk Hd Hw') as (gw & Hw). exists gw. split; [exact Hw|].
  destruct (full_view S W p k c T tv g gw HwfS HwfW Hsub Hn Hk Hw) as (gw2 & Hw2 & Hdf). rewrite Hw' in Hw2. injection Hw2 as <-. exact Hdf.
Qed.

(* hence: what the full reader REJECTS it still rejects after the decode / re-encode *)
Theorem full_view_err : forall S W p k c T tv g e,
  wf_schema S = true -> wf_schema W = true -> sub_schema S W = true ->
  no_retyped_variant S T tv = true -> viewk S p k c T tv = Ok g -> ids_distinct tv = true ->
  view W T tv = Err e -> exists e', view W T (reenc S T tv) = Err e'.
Proof.
  intros S W p k c T tv g e HwfS HwfW Hsub Hn Hk Hd Hw.
  destruct (view W T (reenc S T tv)) as [gw'|e'|q] eqn:E; [|eauto|exfalso; exact (EvoErrP.view_np W (reenc S T tv) T q E)].
  destruct (full_view_conv S W p k c T tv g gw' HwfS HwfW Hsub Hn Hk Hd E) as (gw & Hw2 & _). congruence.
Qed.

(* ... with the same error class on input of the declared shape (the only class there is InvalidData: a required field
   absent, a union with no / several known variants, hereditarily) *)
Theorem full_view_err_class : forall S W p k c T tv g e,
  wf_schema S = true -> wf_schema W = true -> sub_schema S W = true -> ty_closed W T = true ->
  wt tv = true -> ttype_of tv = ttype_of_ty S T ->
  evo_dom S T tv = true -> no_retyped_variant S T tv = true -> empty_elems_ok S T tv = true ->
  evo_dom W T tv = true -> no_retyped_variant W T tv = true ->
  viewk S p k c T tv = Ok g -> ids_distinct tv = true ->
  view W T tv = Err e -> e = EInvalidData /\ view W T (reenc S T tv) = Err EInvalidData.
Proof.
  intros S W p k c T tv g e HwfS HwfW Hsub Hcl Hwt Hty Hd Hn Hee HdW HnW Hk Hdist Hw.
  assert (HtyW : ttype_of tv = ttype_of_ty W T) by (rewrite Hty; apply (sub_ttype S W Hsub)).
  split; [exact (EvoErrP.view_error_class W HwfW tv T e Hcl Hwt HtyW HdW Hw)|].
  destruct (full_view_err S W p k c T tv g e HwfS HwfW Hsub Hn Hk Hdist Hw) as (e' & E). rewrite E. f_equal.
  destruct (reenc_dom S W p k c T tv g HwfS HwfW Hsub Hn Hk HdW HnW) as [HdW' _].
  apply (EvoErrP.view_error_class W HwfW (reenc S T tv) T e' Hcl); auto.
  - exact (KeepWtP.reenc_wt S tv T HwfS Hwt Hty Hd Hn Hee).
  - rewrite reenc_ttype. exact HtyW.
Qed.

(* without ids_distinct the Err direction is false: Top {1: required i32; 3: optional Sub}, Sub {1: optional bool}; the
   full schema's Sub also has 9: required i32.  The message carries field 3 TWICE: first a Sub without field 9 (malformed
   for the full reader), then a complete one.  Every reader keeps the last occurrence; so does the re-encoded message. *)
Definition Sd : schema :=
  [ DStruct [mkField 1 Required TyI32 None; mkField 3 Optional (TyRef 1) None] true false;
    DStruct [mkField 1 Optional TyBool None] true false ].
Definition Wd : schema :=
  [ DStruct [mkField 1 Required TyI32 None; mkField 3 Optional (TyRef 1) None] true false;
    DStruct [mkField 1 Optional TyBool None; mkField 9 Required TyI32 None] true false ].
Definition tvd : tval :=
  VStruct [ (1, VI32 7); (3, VStruct [(1, VBool true)]); (3, VStruct [(1, VBool false); (9, VI32 5)]) ].

Example full_view_err_repeated_refuted :
  wf_schema Sd = true /\ wf_schema Wd = true /\ sub_schema Sd Wd = true /\ wt tvd = true /\
  no_retyped_variant Sd (TyRef 0) tvd = true /\ evo_dom Wd (TyRef 0) tvd = true /\ ids_distinct tvd = false /\
  (exists g, viewk Sd PBinary BContig w0 (TyRef 0) tvd = Ok g) /\
  view Wd (TyRef 0) tvd = Err EInvalidData /\
  reenc Sd (TyRef 0) tvd = VStruct [ (1, VI32 7); (3, VStruct [(1, VBool false); (9, VI32 5)]) ] /\
  view Wd (TyRef 0) (reenc Sd (TyRef 0) tvd) = Ok (GStruct [(1, GI32 7); (3, GStruct [(1, GBool false); (9, GI32 5)] [])] []).
Proof. repeat split; try (vm_compute; reflexivity). eexists. vm_compute. reflexivity. Qed.

(* non-vacuity of the Err direction: the same reader and full schema, a message whose only Sub lacks field 9 *)
Example full_view_err_nonvacuous :
  let tv := VStruct [ (1, VI32 7); (3, VStruct [(1, VBool true); (8, VDouble 0)]) ] in
  ids_distinct tv = true /\ view Wd (TyRef 0) tv = Err EInvalidData /\
  view Wd (TyRef 0) (reenc Sd (TyRef 0) tv) = Err EInvalidData /\
  (forall e, view Wd (TyRef 0) tv = Err e -> exists e', view Wd (TyRef 0) (reenc Sd (TyRef 0) tv) = Err e').
Proof.
  cbv zeta. split; [reflexivity|]. split; [vm_compute; reflexivity|]. split; [vm_compute; reflexivity|].
  intros e He. assert (Hk : exists g, viewk Sd PBinary BContig w0 (TyRef 0) (VStruct [ (1, VI32 7); (3, VStruct [(1, VBool true); (8, VDouble 0)]) ]) = Ok g)
    by (eexists; vm_compute; reflexivity).
  destruct Hk as (g & Hk).
  exact (full_view_err Sd Wd PBinary BContig w0 (TyRef 0) (VStruct [ (1, VI32 7); (3, VStruct [(1, VBool true); (8, VDouble 0)]) ]) g e
           eq_refl eq_refl eq_refl eq_refl Hk eq_refl He).
Qed.
