(* Model runner: one case per input line, one result per output line.
   line = <suite> <args...>; unknown suite or malformed line -> "BADCASE <msg>". *)
let suites : (string * (Util.toks -> string)) list =
  Thrift_suite.suites

let () =
  let ic = if Array.length Sys.argv > 1 then open_in Sys.argv.(1) else stdin in
  (try
     while true do
       let line = input_line ic in
       let out =
         match String.split_on_char ' ' (String.trim line) with
         | [] | [""] -> ""
         | suite :: rest ->
           (try
              let f = List.assoc suite suites in
              f { Util.rest = rest }
            with
            | Not_found -> "BADCASE unknown suite " ^ suite
            | Failure m -> "BADCASE " ^ m
            | Stack_overflow -> "BADCASE stack overflow"
            | Invalid_argument m -> "BADCASE " ^ m)
       in
       print_string out; print_char '\n'
     done
   with End_of_file -> ());
  flush stdout
