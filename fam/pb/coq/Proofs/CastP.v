(* Integer casts and the zigzag / sign-extension expressions of the varint-family modules;
   little-endian fixed-width payloads. *)
From PVPb Require Import Codec Proofs.BitsP.
From Coq Require Import ZifyN ZifyNat ZifyBool.
Open Scope Z_scope.

Ltac consts :=
  unfold two32, two64 in *;
  change (2 ^ 64) with 18446744073709551616 in *; change (2 ^ 63) with 9223372036854775808 in *;
  change (2 ^ 32) with 4294967296 in *; change (2 ^ 31) with 2147483648 in *;
  change (2 ^ (32 - 1)) with 2147483648 in *; change (2 ^ (64 - 1)) with 9223372036854775808 in *.

Lemma in_sb_32 z : in_sb 32 z = true <-> -2147483648 <= z < 2147483648.
Proof. rewrite in_sb_spec. unfold in_s. consts. lia. Qed.
Lemma in_sb_64 z : in_sb 64 z = true <-> -9223372036854775808 <= z < 9223372036854775808.
Proof. rewrite in_sb_spec. unfold in_s. consts. lia. Qed.

Lemma wrap_s32_small z : -2147483648 <= z < 2147483648 -> wrap_s 32 z = z.
Proof.
  intros H. unfold wrap_s. consts.
  destruct (Z_lt_le_dec z 0).
  - replace (z mod 4294967296) with (z + 4294967296) by lia.
    replace (z + 4294967296 <? 2147483648) with false by lia. lia.
  - rewrite Z.mod_small by lia. replace (z <? 2147483648) with true by lia. reflexivity.
Qed.

Lemma wrap_s64_small z : -9223372036854775808 <= z < 9223372036854775808 -> wrap_s 64 z = z.
Proof.
  intros H. unfold wrap_s. consts.
  destruct (Z_lt_le_dec z 0).
  - replace (z mod 18446744073709551616) with (z + 18446744073709551616) by lia.
    replace (z + 18446744073709551616 <? 9223372036854775808) with false by lia. lia.
  - rewrite Z.mod_small by lia. replace (z <? 9223372036854775808) with true by lia. reflexivity.
Qed.

Lemma wrap_s32_mod z : wrap_s 32 z mod 4294967296 = z mod 4294967296.
Proof.
  unfold wrap_s. consts. destruct (z mod 4294967296 <? 2147483648).
  - rewrite Z.mod_mod by lia. reflexivity.
  - pose proof (Z.mod_pos_bound z 4294967296 ltac:(lia)). lia.
Qed.

Lemma wrap_s64_mod z : wrap_s 64 z mod 18446744073709551616 = z mod 18446744073709551616.
Proof.
  unfold wrap_s. consts. destruct (z mod 18446744073709551616 <? 9223372036854775808).
  - rewrite Z.mod_mod by lia. reflexivity.
  - pose proof (Z.mod_pos_bound z 18446744073709551616 ltac:(lia)). lia.
Qed.

Lemma wrap_s32_of_u64 z : -2147483648 <= z < 2147483648 -> wrap_s 32 (z mod 18446744073709551616) = z.
Proof.
  intros H. rewrite <- (wrap_s32_small z H) at 2. unfold wrap_s. consts.
  replace ((z mod 18446744073709551616) mod 4294967296) with (z mod 4294967296) by lia. reflexivity.
Qed.

Lemma wrap_s64_of_u64 z : -9223372036854775808 <= z < 9223372036854775808 -> wrap_s 64 (z mod 18446744073709551616) = z.
Proof.
  intros H. rewrite <- (wrap_s64_small z H) at 2. unfold wrap_s. consts.
  rewrite Z.mod_mod by lia. reflexivity.
Qed.

Lemma shiftr_sign z k : 0 < k -> - 2 ^ k <= z < 2 ^ k -> Z.shiftr z k = if z <? 0 then -1 else 0.
Proof.
  intros Hk H. rewrite shiftr_div by lia. pose proof (pow2_pos k ltac:(lia)).
  destruct (Z.ltb_spec z 0).
  - symmetry. apply (Z.div_unique_pos z (2 ^ k) (-1) (z + 2 ^ k)); lia.
  - apply Z.div_small; lia.
Qed.

(* zigzag as arithmetic *)
Definition zz (z : Z) : Z := if z <? 0 then - 2 * z - 1 else 2 * z.

Lemma sint32_to z : -2147483648 <= z < 2147483648 -> to_uint64 MSInt32 z = zz z.
Proof.
  intros H. cbv [to_uint64 zz32]. unfold as_u32, as_i32, zz. consts.
  rewrite shiftl_mul by lia. change (2 ^ 1) with 2.
  rewrite (shiftr_sign z 31) by (change (2 ^ 31) with 2147483648; lia).
  destruct (Z.ltb_spec z 0).
  - rewrite lxor_m1.
    replace ((- wrap_s 32 (z * 2) - 1) mod 4294967296) with ((- (wrap_s 32 (z * 2) mod 4294967296) - 1) mod 4294967296)
      by (pose proof (Z.mod_pos_bound (wrap_s 32 (z * 2)) 4294967296 ltac:(lia)); lia).
    rewrite wrap_s32_mod. lia.
  - rewrite Z.lxor_0_r. rewrite wrap_s32_mod. lia.
Qed.

Lemma sint64_to z : -9223372036854775808 <= z < 9223372036854775808 -> to_uint64 MSInt64 z = zz z.
Proof.
  intros H. cbv [to_uint64 zz64]. unfold as_u64, as_i64, zz. consts.
  rewrite shiftl_mul by lia. change (2 ^ 1) with 2.
  rewrite (shiftr_sign z 63) by (change (2 ^ 63) with 9223372036854775808; lia).
  destruct (Z.ltb_spec z 0).
  - rewrite lxor_m1.
    replace ((- wrap_s 64 (z * 2) - 1) mod 18446744073709551616)
      with ((- (wrap_s 64 (z * 2) mod 18446744073709551616) - 1) mod 18446744073709551616)
      by (pose proof (Z.mod_pos_bound (wrap_s 64 (z * 2)) 18446744073709551616 ltac:(lia)); lia).
    rewrite wrap_s64_mod. lia.
  - rewrite Z.lxor_0_r. rewrite wrap_s64_mod. lia.
Qed.

Definition unzz (u : Z) : Z := if u mod 2 =? 0 then u / 2 else - (u / 2) - 1.

Lemma sint32_from u : 0 <= u < 4294967296 -> from_uint64 MSInt32 u = unzz u.
Proof.
  intros H. cbv [from_uint64 zz32]. unfold as_u32, as_i32, unzz. consts.
  rewrite Z.mod_small by lia. rewrite shiftr_div by lia. change (2 ^ 1) with 2. rewrite land_1.
  rewrite wrap_s32_small by lia. rewrite wrap_s32_small by lia.
  destruct (Z.eqb_spec (u mod 2) 0) as [E|E].
  - rewrite E. change (- 0) with 0. apply Z.lxor_0_r.
  - replace (u mod 2) with 1 by lia. change (- 1) with (-1). rewrite lxor_m1. reflexivity.
Qed.

Lemma sint64_from u : 0 <= u < 18446744073709551616 -> from_uint64 MSInt64 u = unzz u.
Proof.
  intros H. cbv [from_uint64 zz64]. unfold as_i64, unzz. consts.
  rewrite shiftr_div by lia. change (2 ^ 1) with 2. rewrite land_1.
  rewrite wrap_s64_small by lia. rewrite wrap_s64_small by lia.
  destruct (Z.eqb_spec (u mod 2) 0) as [E|E].
  - rewrite E. change (- 0) with 0. apply Z.lxor_0_r.
  - replace (u mod 2) with 1 by lia. change (- 1) with (-1). rewrite lxor_m1. reflexivity.
Qed.

Lemma unzz_zz z : unzz (zz z) = z.
Proof.
  unfold unzz, zz. destruct (Z.ltb_spec z 0);
    match goal with |- context [?a mod 2 =? 0] => destruct (Z.eqb_spec (a mod 2) 0) end; lia.
Qed.

Lemma zz_range32 z : -2147483648 <= z < 2147483648 -> 0 <= zz z < 4294967296.
Proof. unfold zz. destruct (Z.ltb_spec z 0); lia. Qed.
Lemma zz_range64 z : -9223372036854775808 <= z < 9223372036854775808 -> 0 <= zz z < 18446744073709551616.
Proof. unfold zz. destruct (Z.ltb_spec z 0); lia. Qed.

(* every varint-family module: the u64 sent is in range and converts back to the value *)
Theorem varint_cast_rt m z : is_varint_mod m = true -> mod_value_okb m (VI z) = true ->
  0 <= to_uint64 m z < two64 /\ from_uint64 m (to_uint64 m z) = z.
Proof.
  intros Hm Hv. destruct m; try discriminate Hm; cbn [mod_value_okb] in Hv.
  - (* bool *) cbv [to_uint64 from_uint64]. consts. destruct (Z.eqb_spec z 0); lia.
  - (* sint32 *) apply in_sb_32 in Hv. rewrite sint32_to by lia. pose proof (zz_range32 z Hv). consts.
    split; [lia|]. rewrite sint32_from by lia. apply unzz_zz.
  - (* int32 *) apply in_sb_32 in Hv. cbv [to_uint64 from_uint64]. unfold as_u64, as_i32. consts.
    split; [apply Z.mod_pos_bound; lia|apply wrap_s32_of_u64; lia].
  - (* sint64 *) apply in_sb_64 in Hv. rewrite sint64_to by lia. pose proof (zz_range64 z Hv). consts.
    split; [lia|]. rewrite sint64_from by lia. apply unzz_zz.
  - (* int64 *) apply in_sb_64 in Hv. cbv [to_uint64 from_uint64]. unfold as_u64, as_i64. consts.
    split; [apply Z.mod_pos_bound; lia|apply wrap_s64_of_u64; lia].
  - (* uint32 *) cbv [to_uint64 from_uint64]. unfold as_u32. consts. split; [lia|apply Z.mod_small; lia].
  - (* uint64 *) cbv [to_uint64 from_uint64]. consts. lia.
Qed.

(* negative int32 values are sent sign-extended: ten bytes *)
Lemma int32_negative_ten_bytes z : -2147483648 <= z < 0 -> 2 ^ 63 <= to_uint64 MInt32 z < two64.
Proof. intros H. cbv [to_uint64]. unfold as_u64. consts. lia. Qed.

(* ------------------------------------------------------------------ fixed width *)
Lemma pow256 n : 256 ^ Z.of_nat n = 2 ^ (8 * Z.of_nat n).
Proof. rewrite Z.pow_mul_r by lia. reflexivity. Qed.

Lemma fixed_payload_length w z : 0 <= w -> zlen (fixed_payload w z) = w.
Proof. intros. unfold zlen, fixed_payload. rewrite le_bytes_length. lia. Qed.

Lemma fixed_unsigned_rt w z : 0 <= w -> 0 <= z < 2 ^ (8 * w) -> of_le (fixed_payload w z) = z.
Proof.
  intros Hw Hz. unfold fixed_payload. rewrite Z.mod_small by lia.
  apply of_le_le_bytes. rewrite pow256. replace (Z.of_nat (Z.to_nat w)) with w by lia. exact Hz.
Qed.

Lemma fixed_signed_rt w z : 0 < w -> in_s (8 * w) z -> wrap_s (8 * w) (of_le (fixed_payload w z)) = z.
Proof.
  intros Hw Hz. unfold fixed_payload.
  rewrite of_le_le_bytes.
  - apply (wrap_s_wrap_u (8 * w) z); [lia|exact Hz].
  - rewrite pow256. replace (Z.of_nat (Z.to_nat w)) with w by lia. apply Z.mod_pos_bound. apply pow2_pos. lia.
Qed.

Theorem fixed_cast_rt m t w wt z : fixed_of m = Some (t, w, wt) -> mod_value_okb m (VI z) = true ->
  fixed_value t w (fixed_payload w z) = z /\ 0 <= w /\ mod_wire_type m = wt.
Proof.
  intros Hf Hv. unfold fixed_value.
  destruct m; vm_compute in Hf; try discriminate Hf; inversion Hf; subst; cbn [mod_value_okb is_signed] in *;
    (split; [|split; [lia|reflexivity]]).
  - apply (fixed_signed_rt 4); [lia|]. apply in_sb_spec. exact Hv.
  - apply (fixed_signed_rt 8); [lia|]. apply in_sb_spec. exact Hv.
  - apply (fixed_unsigned_rt 4); [lia|]. consts. change (2 ^ (8 * 4)) with 4294967296. lia.
  - apply (fixed_unsigned_rt 8); [lia|]. consts. change (2 ^ (8 * 8)) with 18446744073709551616. lia.
  - apply (fixed_unsigned_rt 4); [lia|]. consts. change (2 ^ (8 * 4)) with 4294967296. lia.
  - apply (fixed_unsigned_rt 8); [lia|]. consts. change (2 ^ (8 * 8)) with 18446744073709551616. lia.
Qed.

Example cast_nonvacuous :
  to_uint64 MSInt32 (-1) = 1 /\ to_uint64 MInt32 (-1) = two64 - 1 /\ from_uint64 MSInt64 3 = -2 /\
  fixed_value RI32 4 (fixed_payload 4 (-2)) = -2.
Proof. vm_compute. auto. Qed.
