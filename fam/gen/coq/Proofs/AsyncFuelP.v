(* C12 at the generated-code level: fuel adequacy of the asynchronous model decoders.  The fuel of GenAsync.gen_decode_async
   (and of the asynchronous skipper) bounds the recursion depth and every loop; it is an artefact of the model (the
   emitted code recurses / loops without counting).  With fuel >= fuel_bound |input| = |input| + 2 the out-of-fuel outcome
   never occurs, on ANY byte string, from ANY reader state (a stale pending bool value included): an error of the model
   is then an error of the decoder.

   Two measures are needed: the bytes left (blen) bound the recursion depth and the struct / union loops (every field header
   costs a byte); the potential phi = bytes left + pending bool (AsyncErrGenP) bounds the container loops (an element may
   cost no byte: the one bool that rode in a compact field header). *)
From PV Require Import Thrift.Skip Proofs.VarintP Proofs.TablesP Proofs.PrimP Proofs.HeaderP Proofs.RoundtripP Proofs.TotalP
  Proofs.AsyncP Proofs.AsyncErrP Proofs.SkipP.
From PVGen Require Import Gen GenSpec GenAsync ErrSpec Proofs.GenBase Proofs.EncP Proofs.RoundP Proofs.EvoBase Proofs.OwnP Proofs.TotalGenP
  Proofs.AsyncGenP Proofs.AsyncErrGenP.
From Coq Require Import ZifyN ZifyNat ZifyBool.
Open Scope Z_scope.

(* outcome is fine: a value with at least k bytes consumed, or an error that is not fuel exhaustion *)
Definition bn {A} (k : nat) (o : res (A * rst)) (s : rst) : Prop :=
  match o with
  | Ok (_, s') => (blen s' + k <= blen s)%nat
  | Err e => e <> EOutOfFuel
  | Panic _ => True
  end.
Definition BN {A} (k : nat) (a : rm A) : Prop := forall s, bn k (a s) s.

Lemma bn_weaken {A} k k' (o : res (A * rst)) s : (k' <= k)%nat -> bn k o s -> bn k' o s.
Proof. destruct o as [[x s']| |]; cbn; auto. lia. Qed.
Lemma bn_le {A} k (o : res (A * rst)) s s0 : (blen s <= blen s0)%nat -> bn k o s -> bn k o s0.
Proof. destruct o as [[x s']| |]; cbn; auto. lia. Qed.
Lemma BN_weaken {A} k k' (a : rm A) : (k' <= k)%nat -> BN k a -> BN k' a.
Proof. intros Hk H s. eapply bn_weaken; eauto. Qed.
Lemma bn_bind {A B} k1 k2 (o : res (A * rst)) (f : A -> rm B) s :
  bn k1 o s -> (forall x s1, o = Ok (x, s1) -> bn k2 (f x s1) s1) -> bn (k1 + k2) (let* (x, s1) := o in f x s1) s.
Proof.
  destruct o as [[x s1]| |]; cbn [bind bn]; auto. intros H1 H2. specialize (H2 x s1 eq_refl).
  destruct (f x s1) as [[y s2]| |]; cbn [bn] in *; auto. lia.
Qed.
Lemma BN_bind {A B} k1 k2 (a : rm A) (f : A -> rm B) :
  BN k1 a -> (forall x, BN k2 (f x)) -> BN (k1 + k2) (fun s => let* (x, s1) := a s in f x s1).
Proof. intros Ha Hf s. apply bn_bind; [apply Ha|]. intros x s1 _. apply Hf. Qed.
Lemma BN_ret {A} (x : A) : BN 0 (fun s => Ok (x, s)).
Proof. intros s. cbn. lia. Qed.
Lemma BN_map {A B} k (a : rm A) (g : A -> B) : BN k a -> BN k (fun s => let* (x, s1) := a s in Ok (g x, s1)).
Proof. intros H s. specialize (H s). destruct (a s) as [[x s1]| |]; cbn [bind bn] in *; auto. Qed.
Lemma BN_err {A} k e : e <> EOutOfFuel -> BN k (fun _ : rst => @Err (A * rst) e).
Proof. intros H s. exact H. Qed.

Lemma BN_take n : BN n (a_take n).
Proof.
  intros s. unfold a_take. destruct (take n (rbuf s)) as [[a r]|] eqn:E; cbn [bn]; [|discriminate].
  apply take_some in E as [E1 E2]. unfold blen, set_buf. cbn [rbuf]. rewrite E1, app_length. lia.
Qed.
Lemma BN_varint m : BN 1 (a_varint m).
Proof.
  intros s. unfold a_varint, read_var_u64. pose proof (rd_var_good m 0 0 (rbuf s)) as G.
  destruct (rd_var m 0 0 (rbuf s)) as [[n r]| |]; cbn [bn]; [|discriminate|exact I].
  unfold blen, set_buf. cbn [rbuf]. lia.
Qed.
Lemma BN_byte : BN 1 a_byte.
Proof. apply (BN_map _ _ of_le), BN_take. Qed.
Lemma BN_i8 : BN 1 a_i8.
Proof. apply (BN_map _ _ (fun a => wrap_s 8 (of_le a))), BN_take. Qed.
Lemma BN_fixed p n b : BN n (a_fixed p n b).
Proof. apply (BN_map _ _ (fun a => wrap_s b (unfx p a))), BN_take. Qed.
Lemma BN_i16 p : BN 1 (a_i16 p).
Proof.
  destruct p; cbn [a_i16]; try (apply (BN_weaken 2); [lia|apply BN_fixed]).
  apply (BN_map _ _ (fun n => wrap_s 16 (unzigzag n))), BN_varint.
Qed.
Lemma BN_i32 p : BN 1 (a_i32 p).
Proof.
  destruct p; cbn [a_i32]; try (apply (BN_weaken 4); [lia|apply BN_fixed]).
  apply (BN_map _ _ (fun n => wrap_s 32 (unzigzag n))), BN_varint.
Qed.
Lemma BN_i64 p : BN 1 (a_i64 p).
Proof.
  destruct p; cbn [a_i64]; try (apply (BN_weaken 8); [lia|apply BN_fixed]).
  apply (BN_map _ _ (fun n => wrap_s 64 (unzigzag n))), BN_varint.
Qed.
Lemma BN_double p : BN 1 (a_double p).
Proof. apply (BN_weaken 8); [lia|]. apply (BN_map _ _ (fun a => match p with PBinary => of_be a | _ => of_le a end)), BN_take. Qed.
Lemma BN_uuid : BN 1 a_uuid.
Proof. apply (BN_weaken 16); [lia|apply BN_take]. Qed.
Lemma BN_split (n : Z) : BN 0 (fun s => if n <=? Z.of_nat (length (rbuf s)) then a_take (Z.to_nat n) s else Err ETransport).
Proof.
  intros s. destruct (n <=? Z.of_nat (length (rbuf s))); [|cbn; discriminate].
  eapply bn_weaken; [|apply BN_take]. lia.
Qed.
Lemma BN_bytes p : BN 1 (a_bytes p).
Proof.
  destruct p; cbn [a_bytes].
  1,2: match goal with |- BN 1 (fun s => let* (n, s0) := ?m s in @?f n s0) => apply (BN_bind 1 0 m f) end;
       [first [apply (BN_i32 PBinary)|apply (BN_i32 PBinaryLE)]|];
       intros n; destruct (n <? 0); [apply BN_err; discriminate|apply BN_split].
  apply (BN_bind 1 0 (a_varint maxsize_32)
           (fun n s => if wrap_u 32 n <=? Z.of_nat (length (rbuf s)) then a_take (Z.to_nat (wrap_u 32 n)) s else Err ETransport)).
  - apply BN_varint.
  - intros n. apply BN_split.
Qed.
Lemma BN_ttype : BN 1 a_ttype.
Proof.
  unfold a_ttype. apply (BN_bind 1 0); [apply BN_byte|]. intros b.
  destruct (ttype_of_byte b); [apply BN_ret|apply BN_err; discriminate].
Qed.
Lemma BN_bool p : BN 0 (a_bool p).
Proof.
  destruct p; cbn [a_bool].
  1,2: apply (BN_weaken 1); [lia|]; apply (BN_map _ _ (fun b => negb (b =? 0))), BN_i8.
  intros s. destruct (r_pbool (rc s)); [cbn; unfold blen; cbn; lia|].
  pose proof (BN_byte s) as G. destruct (a_byte s) as [[b s1]| |]; cbn [bind bn] in *; auto.
  destruct (ctype_of_code b) as [[]|]; cbn [bn]; try discriminate; lia.
Qed.
Lemma BN_struct_begin p : BN 0 (a_struct_begin p).
Proof. intros s. unfold a_struct_begin. destruct p; cbn; unfold blen; cbn; lia. Qed.
Lemma BN_struct_end p : BN 0 (a_struct_end p).
Proof.
  intros s. unfold a_struct_end. destruct p; cbn [r_struct_end]; try (cbn; unfold blen; cbn; lia).
  destruct (r_stack (rc s)); cbn; [discriminate|unfold blen; cbn; lia].
Qed.

Lemma ttype_of_nibble_noof z e : ttype_of_nibble z = Err e -> e <> EOutOfFuel.
Proof. apply ttype_of_nibble_err. Qed.

Lemma field_begin_noof p s e : a_field_begin p s = Err e -> e <> EOutOfFuel.
Proof.
  destruct p; cbn [a_field_begin].
  1,2: intros H; apply bind_err_inv in H as [H|([ty s1] & _ & H)];
       [pose proof (BN_ttype s) as G; rewrite H in G; exact G|];
       destruct ty; try discriminate; apply bind_err_inv in H as [H|([id s2] & _ & H)]; try discriminate;
       match goal with H : a_i16 ?p ?s1 = Err _ |- _ => pose proof (BN_i16 p s1) as G; rewrite H in G; exact G end.
  intros H. apply bind_err_inv in H as [H|([b s1] & _ & H)]; [pose proof (BN_byte s) as G; rewrite H in G; exact G|].
  apply bind_err_inv in H as [H|([ty s2] & _ & H)].
  - destruct (b mod 16 =? ctype_code CBooleanTrue); [discriminate|]. destruct (b mod 16 =? ctype_code CBooleanFalse); [discriminate|].
    destruct (ctype_of_code (b mod 16)) as [ct|]; [|injection H as <-; discriminate].
    destruct (ttype_of_ctype ct); [discriminate|injection H as <-; discriminate].
  - destruct ty; try discriminate; (destruct (negb (b / 16 =? 0)); [discriminate|]);
      apply bind_err_inv in H as [H|([id s3] & _ & H)]; try discriminate;
      pose proof (BN_i16 PCompact s2) as G; rewrite H in G; exact G.
Qed.

Lemma BN_field_begin p : BN 1 (a_field_begin p).
Proof.
  intros s. destruct (a_field_begin p s) as [[h s']|e|q] eqn:E; cbn [bn]; [|eapply field_begin_noof; eauto|exact I].
  destruct (PG_field_begin _ _ _ _ E) as (_ & G & _). exact G.
Qed.

Lemma BN_coll_begin p : BN 1 (a_coll_begin p).
Proof.
  destruct p; cbn [a_coll_begin].
  1,2: apply (BN_bind 1 0); [apply BN_ttype|]; intros et;
       apply (BN_map 0 _ (fun n => (et, wrap_u 64 n))); apply (BN_weaken 1); [lia|];
       first [apply (BN_i32 PBinary)|apply (BN_i32 PBinaryLE)].
  apply (BN_bind 1 0); [apply BN_byte|]. intros h s.
  destruct (ttype_of_nibble (h mod 16)) as [et|e|q] eqn:En; cbn [bind bn]; [|eapply ttype_of_nibble_noof; eauto|exact I].
  destruct (negb (h / 16 =? 15)); [cbn; lia|].
  apply (BN_map 0 _ (fun n => (et, wrap_u 64 (wrap_s 32 n)))). apply (BN_weaken 1); [lia|apply BN_varint].
Qed.

Lemma BN_map_begin p : BN 1 (a_map_begin p).
Proof.
  destruct p; cbn [a_map_begin].
  1,2: apply (BN_bind 1 0); [apply BN_ttype|]; intros kt; apply (BN_bind 0 0); [apply (BN_weaken 1); [lia|apply BN_ttype]|]; intros vt;
       apply (BN_map 0 _ (fun n => (kt, vt, wrap_u 64 n))); apply (BN_weaken 1); [lia|];
       first [apply (BN_i32 PBinary)|apply (BN_i32 PBinaryLE)].
  apply (BN_bind 1 0); [apply BN_varint|]. intros n s.
  destruct (wrap_s 32 n =? 0); [cbn; lia|].
  pose proof (BN_byte s) as G. destruct (a_byte s) as [[h s1]| |]; cbn [bind bn] in *; auto.
  destruct (ttype_of_nibble (h / 16)) as [kt|e|q] eqn:Ek; cbn [bind bn]; [|eapply ttype_of_nibble_noof; eauto|exact I].
  destruct (ttype_of_nibble (h mod 16)) as [vt|e|q] eqn:Ev; cbn [bind bn]; [|eapply ttype_of_nibble_noof; eauto|exact I].
  lia.
Qed.

Lemma phi_le_blen1 s : (phi s <= blen s + 1)%nat.
Proof. unfold phi, pend. destruct (r_pbool (rc s)); lia. Qed.

(* ----- the asynchronous skipper ----- *)
Section FuelSkipLoops.
  Variable p : pk.
  Variable srec : ttype -> rm unit.
  Variable f : nat.
  Hypothesis Hb : forall ty s, (blen s + 1 < f)%nat -> bn 0 (srec ty s) s.
  Hypothesis Hpg : forall ty, PG 1 (srec ty).

  Lemma bn_askip_fields : forall n s, (blen s < n)%nat -> (blen s < f)%nat -> bn 1 (askip_fields p srec n s) s.
  Proof.
    induction n as [|n IH]; intros s Hn Hf; [lia|]. cbn [askip_fields].
    apply (bn_bind 1 0); [apply BN_field_begin|]. intros h s1 E.
    pose proof (BN_field_begin p s) as G. rewrite E in G. cbn [bn] in G.
    destruct (ttype_eqb (fst h) TStop); [cbn; lia|].
    apply (bn_bind 0 0); [apply Hb; lia|]. intros u s2 E2.
    pose proof (Hb (fst h) s1 ltac:(lia)) as G2. rewrite E2 in G2. cbn [bn] in G2.
    eapply bn_weaken; [|apply IH; lia]. lia.
  Qed.
  Lemma bn_askip_elems : forall m et n s, (phi s < m)%nat -> (blen s + 1 < f)%nat -> bn 0 (askip_elems srec m et n s) s.
  Proof.
    induction m as [|m IH]; intros et n s Hm Hf; [lia|]. cbn [askip_elems].
    destruct (n <=? 0); [cbn; lia|].
    apply (bn_bind 0 0); [apply Hb; exact Hf|]. intros u s1 E.
    pose proof (Hb et s Hf) as G. rewrite E in G. cbn [bn] in G. pose proof (Hpg _ _ _ _ E) as G2.
    apply IH; lia.
  Qed.
  Lemma bn_askip_pairs : forall m kt vt n s, (phi s < m)%nat -> (blen s + 1 < f)%nat -> bn 0 (askip_pairs srec m kt vt n s) s.
  Proof.
    induction m as [|m IH]; intros kt vt n s Hm Hf; [lia|]. cbn [askip_pairs].
    destruct (n <=? 0); [cbn; lia|].
    apply (bn_bind 0 0); [apply Hb; exact Hf|]. intros u s1 E.
    pose proof (Hb kt s Hf) as G. rewrite E in G. cbn [bn] in G. pose proof (Hpg _ _ _ _ E) as G2.
    apply (bn_bind 0 0); [apply Hb; lia|]. intros u2 s2 E2.
    pose proof (Hb vt s1 ltac:(lia)) as G3. rewrite E2 in G3. cbn [bn] in G3. pose proof (Hpg _ _ _ _ E2) as G4.
    apply IH; lia.
  Qed.
End FuelSkipLoops.

Lemma BN_drop {A} k (m : rm A) : BN k m -> BN k (drop m).
Proof. intros H s. unfold drop. specialize (H s). destruct (m s) as [[x s1]| |]; cbn [bind bn] in *; auto. Qed.

Theorem bn_askip_val p : forall f d ty s, (blen s + 1 < f)%nat -> bn 0 (askip_val p f d ty s) s.
Proof.
  induction f as [|f IH]; intros d ty s Hf; [lia|]. cbn [askip_val].
  destruct d as [|d]; [cbn; discriminate|].
  pose proof (fun ty0 s0 => IH d ty0 s0) as Hb. pose proof (PG_askip_val p f d) as Hpg.
  destruct ty; try (cbn; discriminate).
  - apply BN_drop, BN_bool.
  - apply (bn_weaken 1); [lia|]. apply BN_drop, BN_i8.
  - apply (bn_weaken 1); [lia|]. apply BN_drop, BN_double.
  - apply (bn_weaken 1); [lia|]. apply BN_drop, BN_i16.
  - apply (bn_weaken 1); [lia|]. apply BN_drop, BN_i32.
  - apply (bn_weaken 1); [lia|]. apply BN_drop, BN_i64.
  - apply (bn_weaken 1); [lia|]. apply BN_drop, BN_bytes.
  - apply (bn_bind 0 0); [apply BN_struct_begin|]. intros u s1 E.
    pose proof (BN_struct_begin p s) as G. rewrite E in G. cbn [bn] in G.
    apply (bn_bind 0 0); [apply (bn_weaken 1); [lia|]; apply (bn_askip_fields p _ f Hb); lia|]. intros u2 s2 _. apply BN_struct_end.
  - apply (bn_bind 0 0); [apply (bn_weaken 1); [lia|apply BN_map_begin]|]. intros h s1 E.
    pose proof (BN_map_begin p s) as G. rewrite E in G. cbn [bn] in G. pose proof (phi_le_blen1 s1).
    apply (bn_askip_pairs _ f Hb Hpg); lia.
  - apply (bn_bind 0 0); [apply (bn_weaken 1); [lia|apply BN_coll_begin]|]. intros h s1 E.
    pose proof (BN_coll_begin p s) as G. rewrite E in G. cbn [bn] in G. pose proof (phi_le_blen1 s1).
    apply (bn_askip_elems _ f Hb Hpg); lia.
  - apply (bn_bind 0 0); [apply (bn_weaken 1); [lia|apply BN_coll_begin]|]. intros h s1 E.
    pose proof (BN_coll_begin p s) as G. rewrite E in G. cbn [bn] in G. pose proof (phi_le_blen1 s1).
    apply (bn_askip_elems _ f Hb Hpg); lia.
  - apply (bn_weaken 1); [lia|]. apply BN_drop, BN_uuid.
Qed.

(* ----- the emitted asynchronous decoder ----- *)
Section FuelDecLoops.
  Variable S : schema.
  Variable p : pk.
  Variable arec : ty -> rm gval.
  Variable f : nat.
  Hypothesis Hpg0 : forall t, PG 0 (arec t).

  Lemma bn_dec_elems et : (forall s, (blen s + 1 < f)%nat -> bn 0 (arec et s) s) -> PG 1 (arec et) ->
    forall m n s acc, (phi s < m)%nat -> (blen s + 1 < f)%nat -> bn 0 (dec_elems arec m et n s acc) s.
  Proof.
    intros Hb Hp1. induction m as [|m IH]; intros n s acc Hm Hf; [lia|]. cbn [dec_elems].
    destruct (n <=? 0); [cbn; lia|].
    apply (bn_bind 0 0); [apply Hb; exact Hf|]. intros x s1 E.
    pose proof (Hb s Hf) as G. rewrite E in G. cbn [bn] in G. pose proof (Hp1 _ _ _ E) as G2.
    apply IH; lia.
  Qed.

  Lemma bn_dec_pairs kt vt : (forall s, (blen s + 1 < f)%nat -> bn 0 (arec kt s) s) ->
    (forall s, (blen s + 1 < f)%nat -> bn 0 (arec vt s) s) -> PG 1 (arec kt) ->
    forall m n s acc, (phi s < m)%nat -> (blen s + 1 < f)%nat -> bn 0 (dec_pairs arec m kt vt n s acc) s.
  Proof.
    intros Hbk Hbv Hp1. induction m as [|m IH]; intros n s acc Hm Hf; [lia|]. cbn [dec_pairs].
    destruct (n <=? 0); [cbn; lia|].
    apply (bn_bind 0 0); [apply Hbk; exact Hf|]. intros a s1 E.
    pose proof (Hbk s Hf) as G. rewrite E in G. cbn [bn] in G. pose proof (Hp1 _ _ _ E) as G2.
    apply (bn_bind 0 0); [apply Hbv; lia|]. intros b s2 E2.
    pose proof (Hbv s1 ltac:(lia)) as G3. rewrite E2 in G3. cbn [bn] in G3. pose proof (Hpg0 vt _ _ _ E2) as G4.
    apply IH; lia.
  Qed.

  Lemma bn_adec_fields fs : (forall g, In g fs -> forall s, (blen s + 1 < f)%nat -> bn 0 (arec (f_ty g) s) s) ->
    forall m vars s, (blen s < m)%nat -> (blen s < f)%nat -> bn 1 (adec_fields S p f arec m fs vars s) s.
  Proof.
    intros Hb. induction m as [|m IH]; intros vars s Hm Hf; [lia|]. cbn [adec_fields].
    apply (bn_bind 1 0); [apply BN_field_begin|]. intros h s1 E.
    pose proof (BN_field_begin p s) as G. rewrite E in G. cbn [bn] in G.
    destruct (ttype_eqb (fst h) TStop); [cbn; lia|].
    assert (Hstep : bn 0 (match match_field S fs 0 (snd h) (fst h) with
                          | Some (i, fl) => let* (x, s) := arec (f_ty fl) s1 in Ok (set_nth i (Some x) vars, s)
                          | None => let* (_, s) := askip p f (fst h) s1 in Ok (vars, s)
                          end) s1).
    { destruct (match_field S fs 0 (snd h) (fst h)) as [[i fl]|] eqn:Em.
      - assert (Hin : In fl fs).
        { destruct (snd h) as [id|]; [|destruct fs; discriminate]. destruct (match_field_inv _ _ _ _ _ _ _ Em) as [Hin _]. exact Hin. }
        pose proof (Hb fl Hin s1 ltac:(lia)) as G1. destruct (arec (f_ty fl) s1) as [[x s2]| |]; cbn [bind bn] in *; auto.
      - pose proof (bn_askip_val p f skip_depth (fst h) s1 ltac:(lia)) as G1. unfold askip.
        destruct (askip_val p f skip_depth (fst h) s1) as [[x s2]| |]; cbn [bind bn] in *; auto. }
    apply (bn_bind 0 0); [exact Hstep|]. intros vars2 s2 E2. rewrite E2 in Hstep. cbn [bn] in Hstep.
    eapply bn_weaken; [|apply IH; lia]. lia.
  Qed.

  Lemma bn_adec_variants vs : (forall id vt, find_variant vs id = Some vt -> forall s, (blen s + 1 < f)%nat -> bn 0 (arec vt s) s) ->
    forall m ret s, (blen s < m)%nat -> (blen s < f)%nat -> bn 1 (adec_variants S p f arec m vs ret s) s.
  Proof.
    intros Hb. induction m as [|m IH]; intros ret s Hm Hf; [lia|]. cbn [adec_variants].
    apply (bn_bind 1 0); [apply BN_field_begin|]. intros h s1 E.
    pose proof (BN_field_begin p s) as G. rewrite E in G. cbn [bn] in G.
    destruct (ttype_eqb (fst h) TStop); [cbn; lia|].
    assert (Hk : forall id vt,
              match snd h with
              | Some id0 => match find_variant vs id0 with
                            | Some vt0 => if is_void (resolve S vt0) then None else Some (id0, vt0)
                            | None => None
                            end
              | None => None
              end = Some (id, vt) -> find_variant vs id = Some vt).
    { intros id vt Hq. destruct (snd h) as [id0|]; [|discriminate]. destruct (find_variant vs id0) as [vt0|] eqn:Ef; [|discriminate].
      destruct (is_void (resolve S vt0)); [discriminate|]. injection Hq as <- <-. exact Ef. }
    match goal with |- bn _ (match ?k with Some _ => _ | None => _ end) _ => destruct k as [[id vt]|] eqn:Ek end.
    - destruct ret; [cbn; discriminate|].
      apply (bn_bind 0 0); [apply (Hb id vt (Hk _ _ eq_refl)); lia|]. intros x s2 E2.
      pose proof (Hb id vt (Hk _ _ eq_refl) s1 ltac:(lia)) as G2. rewrite E2 in G2. cbn [bn] in G2.
      eapply bn_weaken; [|apply IH; lia]. lia.
    - pose proof (bn_askip_val p f skip_depth (fst h) s1 ltac:(lia)) as G1. unfold askip.
      apply (bn_bind 0 0); [exact G1|]. intros u s2 E2. rewrite E2 in G1. cbn [bn] in G1.
      eapply bn_weaken; [|apply IH; lia]. lia.
  Qed.
End FuelDecLoops.

Lemma finish_fields_noof : forall fs vars e, finish_fields fs vars = Err e -> e <> EOutOfFuel.
Proof.
  induction fs as [|g r IHr]; intros [|v vs] e Ef; cbn [finish_fields] in Ef; try discriminate.
  - injection Ef as <-. discriminate.
  - destruct (finish_fields r vs) as [rest|e0|q] eqn:Er; cbn [bind] in Ef; try discriminate.
    + destruct v; [discriminate|]. destruct (f_dflt g) as [[? d]|]; [discriminate|]. destruct (f_req g); [|discriminate].
      injection Ef as <-. discriminate.
    + injection Ef as <-. eapply IHr; eauto.
Qed.

Lemma bn_map {A B} k (o : res (A * rst)) (g : A -> B) s : bn k o s -> bn k (let* (x, s1) := o in Ok (g x, s1)) s.
Proof. destruct o as [[x s1]| |]; cbn [bind bn]; auto. Qed.

(* with more fuel than bytes + 1 the asynchronous decoder never runs out of fuel: from ANY reader state *)
Theorem bn_gen_async S p : elems_ok S = true ->
  forall f t s, ty_elems_ok S t = true -> (blen s + 1 < f)%nat -> bn 0 (gen_decode_async S p f t s) s.
Proof.
  intros Hel. induction f as [|f IH]; intros t s Ht Hf; [lia|].
  assert (Hpg0 : forall t0, PG 0 (gen_decode_async S p f t0)).
  { intros t0. apply (PG_weaken (cost S t0)); [lia|apply PG_gen_async]. }
  assert (Hpg1 : forall t0, is_void (resolve S t0) = false -> PG 1 (gen_decode_async S p f t0)).
  { intros t0 Hv. rewrite <- (cost_nonvoid S t0 Hv). apply PG_gen_async. }
  pose proof (resolve_elems_ok S t Hel Ht) as Hrt.
  rewrite gen_decode_async_S.
  destruct (resolve S t) as [| | | | | | | | | |et|et|kt vt|n] eqn:Er.
  - apply (BN_map _ _ GBool), BN_bool.
  - apply (bn_weaken 1); [lia|]. apply (BN_map _ _ GI8), BN_i8.
  - apply (bn_weaken 1); [lia|]. apply (BN_map _ _ GI16), BN_i16.
  - apply (bn_weaken 1); [lia|]. apply (BN_map _ _ GI32), BN_i32.
  - apply (bn_weaken 1); [lia|]. apply (BN_map _ _ GI64), BN_i64.
  - apply (bn_weaken 1); [lia|]. apply (BN_map _ _ GDouble), BN_double.
  - apply (bn_weaken 1); [lia|]. apply (BN_map _ _ GBytes), BN_bytes.
  - apply (bn_weaken 1); [lia|]. apply (BN_map _ _ GBytes), BN_bytes.
  - apply (bn_weaken 1); [lia|]. apply (BN_map _ _ GUuid), BN_uuid.
  - apply (bn_bind 0 0); [apply BN_struct_begin|]. intros u s1 _.
    apply (BN_map _ _ (fun _ => GVoid)), BN_struct_end.
  - cbn [ty_elems_ok] in Hrt. apply andb_prop in Hrt as [Hnv Het]. apply negb_true_iff in Hnv.
    apply (bn_bind 0 0); [apply (bn_weaken 1); [lia|apply BN_coll_begin]|]. intros h s1 E.
    pose proof (BN_coll_begin p s) as G. rewrite E in G. cbn [bn] in G. pose proof (phi_le_blen1 s1).
    apply bn_map. apply (bn_dec_elems _ f Hpg0 et (fun s0 Hs0 => IH et s0 Het Hs0) (Hpg1 et Hnv)); lia.
  - cbn [ty_elems_ok] in Hrt. apply andb_prop in Hrt as [Hnv Het]. apply negb_true_iff in Hnv.
    apply (bn_bind 0 0); [apply (bn_weaken 1); [lia|apply BN_coll_begin]|]. intros h s1 E.
    pose proof (BN_coll_begin p s) as G. rewrite E in G. cbn [bn] in G. pose proof (phi_le_blen1 s1).
    apply bn_map. apply (bn_dec_elems _ f Hpg0 et (fun s0 Hs0 => IH et s0 Het Hs0) (Hpg1 et Hnv)); lia.
  - cbn [ty_elems_ok] in Hrt. apply andb_prop in Hrt as [Hrt Hvt]. apply andb_prop in Hrt as [Hrt Hkt].
    apply andb_prop in Hrt as [Hnk Hnv]. apply negb_true_iff in Hnk. apply negb_true_iff in Hnv.
    apply (bn_bind 0 0); [apply (bn_weaken 1); [lia|apply BN_map_begin]|]. intros h s1 E.
    pose proof (BN_map_begin p s) as G. rewrite E in G. cbn [bn] in G. pose proof (phi_le_blen1 s1).
    apply bn_map. apply (bn_dec_pairs _ f Hpg0 kt vt (fun s0 Hs0 => IH kt s0 Hkt Hs0) (fun s0 Hs0 => IH vt s0 Hvt Hs0) (Hpg1 kt Hnk)); lia.
  - destruct (lookup S n) as [[fs kp ia|vs vo kp|ms|tt]|] eqn:El; try (cbn; discriminate).
    + pose proof (elems_ok_lookup S n _ Hel El) as Hd. cbn [decl_elems_ok] in Hd. rewrite forallb_forall in Hd.
      apply (bn_bind 0 0); [apply BN_struct_begin|]. intros u s1 E.
      pose proof (BN_struct_begin p s) as G. rewrite E in G. cbn [bn] in G.
      apply (bn_bind 0 0); [apply (bn_weaken 1); [lia|]; apply (bn_adec_fields S p _ f fs (fun g Hg s0 Hs0 => IH _ s0 (Hd g Hg) Hs0)); lia|].
      intros vars s2 _. apply (bn_bind 0 0); [apply BN_struct_end|]. intros u2 s3 _.
      destruct (finish_fields fs vars) as [out|e|q] eqn:Ef; cbn [bind bn]; [lia| |exact I].
      exact (finish_fields_noof _ _ _ Ef).
    + pose proof (elems_ok_lookup S n _ Hel El) as Hd. cbn [decl_elems_ok] in Hd. rewrite forallb_forall in Hd.
      apply (bn_bind 0 0); [apply BN_struct_begin|]. intros u s1 E.
      pose proof (BN_struct_begin p s) as G. rewrite E in G. cbn [bn] in G.
      apply (bn_bind 0 0); [apply (bn_weaken 1); [lia|];
                      apply (bn_adec_variants S p _ f Hpg0 vs (fun id vt Hv s0 Hs0 => IH _ s0 (Hd (id, vt) (find_variant_in _ _ _ Hv)) Hs0)); lia|].
      intros ret s2 _. apply (bn_bind 0 0); [apply BN_struct_end|]. intros u2 s3 _.
      destruct ret as [[id z]|]; [cbn; lia|]. destruct vo; [|cbn; discriminate]. destruct vs as [|[id0 t0] r]; cbn; [discriminate|lia].
    + apply (bn_weaken 1); [lia|]. apply (BN_map _ _ GEnum), BN_i32.
Qed.

(* ================= C12_gen_fuel_adequate ================= *)
Theorem gen_async_fuel_adequate S p f t l rcx :
  elems_ok S = true -> ty_elems_ok S t = true -> (fuel_bound (length l) <= f)%nat ->
  gen_decode_async S p f t (mkS l rcx) <> Err EOutOfFuel /\
  (forall st, gen_decode_async S p f t (mkS l rcx) <> Panic st) /\
  (forall v s', gen_decode_async S p f t (mkS l rcx) = Ok (v, s') -> (blen s' <= length l)%nat).
Proof.
  intros Hel Ht Hf. unfold fuel_bound in Hf.
  pose proof (bn_gen_async S p Hel f t (mkS l rcx) Ht ltac:(unfold blen; cbn [rbuf]; lia)) as G.
  split; [|split].
  - intros E. rewrite E in G. cbn [bn] in G. congruence.
  - intros st. apply NP_gen_decode_async.
  - intros v s' E. rewrite E in G. cbn [bn] in G. unfold blen in G at 2. cbn [rbuf] in G. lia.
Qed.

(* the asynchronous skipper likewise (any depth budget, any wire type, any reader state) *)
Theorem askip_fuel_adequate p f ty l rcx :
  (fuel_bound (length l) <= f)%nat -> askip p f ty (mkS l rcx) <> Err EOutOfFuel.
Proof.
  intros Hf. unfold fuel_bound in Hf.
  pose proof (bn_askip_val p f skip_depth ty (mkS l rcx) ltac:(unfold blen; cbn [rbuf]; lia)) as G.
  intros E. unfold askip in E. rewrite E in G. cbn [bn] in G. congruence.
Qed.

(* C12_gen_error, strengthened: with adequate fuel both errors are errors of the decoders, not of the model *)
Theorem gen_async_error_strong S p f t l rcx e :
  elems_ok S = true -> is_message S t = true ->
  idle rcx -> Z.of_nat (length l) < 2 ^ 63 -> (fuel_bound (length l) <= f)%nat ->
  gen_decode S p f t (mkS l rcx) = Err e ->
  e <> EOutOfFuel /\ exists e', gen_decode_async S p f t (mkS l rcx) = Err e' /\ e' <> EOutOfFuel.
Proof.
  intros Hel Hm Hi Hl Hf H. split.
  - destruct (gen_decode_total_fuel S p t l rcx f ltac:(unfold fuel_bound in Hf; lia)) as [_ G]. cbv zeta in G. congruence.
  - destruct (gen_async_error S p f t l rcx e Hel Hm Hi Hl H) as [e' E]. exists e'. split; [exact E|].
    destruct (gen_async_fuel_adequate S p f t l rcx Hel (message_elems_ok S t Hm) Hf) as [G _]. congruence.
Qed.

(* the whole outcome table under adequate fuel: the same value and stopping position, or two genuine errors; the
   asynchronous decoder never panics and never runs out of fuel *)
Theorem gen_async_outcome S p f t l rcx :
  elems_ok S = true -> is_message S t = true ->
  idle rcx -> Z.of_nat (length l) < 2 ^ 63 -> (fuel_bound (length l) <= f)%nat ->
  match gen_decode S p f t (mkS l rcx) with
  | Ok (v, s') => gen_decode_async S p f t (mkS l rcx) = Ok (v, erase s')
  | Err e => e <> EOutOfFuel /\ exists e', gen_decode_async S p f t (mkS l rcx) = Err e' /\ e' <> EOutOfFuel
  | Panic _ => True
  end.
Proof.
  intros Hel Hm Hi Hl Hf. destruct (gen_decode S p f t (mkS l rcx)) as [[v s']|e|q] eqn:E; [| |exact I].
  - exact (gen_async_value S p f t l rcx v s' (proj2 Hi) Hl E).
  - exact (gen_async_error_strong S p f t l rcx e Hel Hm Hi Hl Hf E).
Qed.

(* the runner's entry points use |input| + 80 >= fuel_bound |input| *)
Corollary gen_async_top_adequate S p t l :
  elems_ok S = true -> ty_elems_ok S t = true ->
  gen_decode_async_top S p t l <> Err EOutOfFuel /\ forall st, gen_decode_async_top S p t l <> Panic st.
Proof.
  intros Hel Ht. unfold gen_decode_async_top.
  destruct (gen_async_fuel_adequate S p (length l + 80) t l r0 Hel Ht ltac:(unfold fuel_bound; lia)) as (G1 & G2 & _).
  destruct (gen_decode_async S p (length l + 80) t (mkS l r0)) as [[v s]|e|q]; cbn [bind].
  - split; [discriminate|intros; discriminate].
  - split; [congruence|intros; discriminate].
  - exfalso. eapply G2; eauto.
Qed.

(* non-vacuity: the struct of AsyncErrGenP (field 1 : map<U, list<bool>>, U = union {1: i32}) on a corrupted message
   (the list count exceeds the input, the Stop header is missing): 7 bytes, fuel_bound 7 = 9: the in-memory decoder answers
   SizeLimit, the asynchronous one Transport (end of stream) -- through the theorems; with less fuel than the nesting
   needs the model answers out-of-fuel, which is what the bound excludes *)
Example gen_async_fuel_nonvacuous :
  fuel_bound (length (x1b :: bx)) = 9%nat /\
  gen_decode Sx PCompact 9 (TyRef 1) (mkS (x1b :: bx) r0) = Err ESizeLimit /\
  gen_decode_async Sx PCompact 9 (TyRef 1) (mkS (x1b :: bx) r0) = Err ETransport /\
  gen_decode_async Sx PCompact 3 (TyRef 1) (mkS (x1b :: bx) r0) = Err EOutOfFuel /\
  (forall p f l rcx, (fuel_bound (length l) <= f)%nat ->
     gen_decode_async Sx p f (TyRef 1) (mkS l rcx) <> Err EOutOfFuel) /\
  (forall p f l e, Z.of_nat (length l) < 2 ^ 63 -> (fuel_bound (length l) <= f)%nat ->
     gen_decode Sx p f (TyRef 1) (mkS l r0) = Err e ->
     e <> EOutOfFuel /\ exists e', gen_decode_async Sx p f (TyRef 1) (mkS l r0) = Err e' /\ e' <> EOutOfFuel).
Proof.
  split; [reflexivity|]. split; [vm_compute; reflexivity|]. split; [vm_compute; reflexivity|]. split; [vm_compute; reflexivity|].
  split.
  - intros p f l rcx Hf. exact (proj1 (gen_async_fuel_adequate Sx p f (TyRef 1) l rcx eq_refl eq_refl Hf)).
  - intros p f l e Hl Hf H. exact (gen_async_error_strong Sx p f (TyRef 1) l r0 e eq_refl eq_refl idle_r0 Hl Hf H).
Qed.

(* ================= above the bound the fuel is irrelevant ================= *)
(* [a'] is [a] with more fuel: wherever [a] does not run out of fuel, [a'] does what [a] does *)
Definition FM {A} (a a' : rm A) : Prop := forall s, a s <> Err EOutOfFuel -> a' s = a s.

Lemma FM_refl {A} (a : rm A) : FM a a.
Proof. intros s _. reflexivity. Qed.
Lemma FM_bind {A B} (a a' : rm A) (f f' : A -> rm B) :
  FM a a' -> (forall x, FM (f x) (f' x)) ->
  FM (fun s => let* (x, s1) := a s in f x s1) (fun s => let* (x, s1) := a' s in f' x s1).
Proof.
  intros Ha Hf s H. destruct (a s) as [[x s1]|e|q] eqn:E; cbn [bind] in H.
  - rewrite (Ha s) by (rewrite E; discriminate). rewrite E. cbn [bind]. apply Hf, H.
  - rewrite (Ha s) by (rewrite E; intros Q; apply H; injection Q as ->; reflexivity). rewrite E. reflexivity.
  - rewrite (Ha s) by (rewrite E; discriminate). rewrite E. reflexivity.
Qed.
Lemma FM_map {A B} (a a' : rm A) (g : A -> B) :
  FM a a' -> FM (fun s => let* (x, s1) := a s in Ok (g x, s1)) (fun s => let* (x, s1) := a' s in Ok (g x, s1)).
Proof. intros H. apply (FM_bind a a' (fun x s1 => Ok (g x, s1)) (fun x s1 => Ok (g x, s1)) H). intros x. apply FM_refl. Qed.

Section FMSkipLoops.
  Variable p : pk.
  Variables srec srec' : ttype -> rm unit.
  Hypothesis Hs : forall ty, FM (srec ty) (srec' ty).

  Lemma FM_askip_fields : forall n n', (n <= n')%nat -> FM (askip_fields p srec n) (askip_fields p srec' n').
  Proof.
    induction n as [|n IH]; intros n' Hn; [intros s H; exfalso; apply H; reflexivity|].
    destruct n' as [|n']; [lia|]. cbn [askip_fields].
    apply (FM_bind (a_field_begin p) (a_field_begin p)
             (fun h s1 => if ttype_eqb (fst h) TStop then Ok (tt, s1) else let* (_, s2) := srec (fst h) s1 in askip_fields p srec n s2)
             (fun h s1 => if ttype_eqb (fst h) TStop then Ok (tt, s1) else let* (_, s2) := srec' (fst h) s1 in askip_fields p srec' n' s2));
      [apply FM_refl|].
    intros h. destruct (ttype_eqb (fst h) TStop); [apply FM_refl|].
    apply (FM_bind (srec (fst h)) (srec' (fst h)) (fun _ s2 => askip_fields p srec n s2) (fun _ s2 => askip_fields p srec' n' s2)); [apply Hs|].
    intros _. apply IH. lia.
  Qed.
  Lemma FM_askip_elems : forall m m' et n, (m <= m')%nat -> FM (askip_elems srec m et n) (askip_elems srec' m' et n).
  Proof.
    induction m as [|m IH]; intros m' et n Hm.
    - intros s H. cbn [askip_elems] in *. destruct m'; cbn [askip_elems]; destruct (n <=? 0); try reflexivity; exfalso; apply H; reflexivity.
    - destruct m' as [|m']; [lia|]. cbn [askip_elems]. destruct (n <=? 0); [apply FM_refl|].
      apply (FM_bind (srec et) (srec' et) (fun _ s1 => askip_elems srec m et (n - 1) s1) (fun _ s1 => askip_elems srec' m' et (n - 1) s1)); [apply Hs|].
      intros _. apply IH. lia.
  Qed.
  Lemma FM_askip_pairs : forall m m' kt vt n, (m <= m')%nat -> FM (askip_pairs srec m kt vt n) (askip_pairs srec' m' kt vt n).
  Proof.
    induction m as [|m IH]; intros m' kt vt n Hm.
    - intros s H. cbn [askip_pairs] in *. destruct m'; cbn [askip_pairs]; destruct (n <=? 0); try reflexivity; exfalso; apply H; reflexivity.
    - destruct m' as [|m']; [lia|]. cbn [askip_pairs]. destruct (n <=? 0); [apply FM_refl|].
      apply (FM_bind (srec kt) (srec' kt) (fun _ s1 => let* (_, s2) := srec vt s1 in askip_pairs srec m kt vt (n - 1) s2)
               (fun _ s1 => let* (_, s2) := srec' vt s1 in askip_pairs srec' m' kt vt (n - 1) s2)); [apply Hs|].
      intros _. apply (FM_bind (srec vt) (srec' vt) (fun _ s2 => askip_pairs srec m kt vt (n - 1) s2)
                         (fun _ s2 => askip_pairs srec' m' kt vt (n - 1) s2)); [apply Hs|].
      intros _. apply IH. lia.
  Qed.
End FMSkipLoops.

Theorem FM_askip_val p : forall f f', (f <= f')%nat -> forall d ty, FM (askip_val p f d ty) (askip_val p f' d ty).
Proof.
  induction f as [|f IH]; intros f' Hf d ty; [intros s H; exfalso; apply H; reflexivity|].
  destruct f' as [|f']; [lia|]. cbn [askip_val]. destruct d as [|d]; [apply FM_refl|].
  assert (Hs : forall ty0, FM (askip_val p f d ty0) (askip_val p f' d ty0)) by (intros ty0; apply IH; lia).
  destruct ty; try apply FM_refl.
  - apply (FM_bind (a_struct_begin p) (a_struct_begin p)
             (fun _ s1 => let* (_, s2) := askip_fields p (askip_val p f d) (S f) s1 in a_struct_end p s2)
             (fun _ s1 => let* (_, s2) := askip_fields p (askip_val p f' d) (S f') s1 in a_struct_end p s2)); [apply FM_refl|].
    intros _. apply (FM_bind _ _ (fun _ s2 => a_struct_end p s2) (fun _ s2 => a_struct_end p s2)); [apply FM_askip_fields; [exact Hs|lia]|].
    intros _. apply FM_refl.
  - apply (FM_bind (a_map_begin p) (a_map_begin p)
             (fun h s1 => askip_pairs (askip_val p f d) (S f) (fst (fst h)) (snd (fst h)) (snd h) s1)
             (fun h s1 => askip_pairs (askip_val p f' d) (S f') (fst (fst h)) (snd (fst h)) (snd h) s1)); [apply FM_refl|].
    intros h. apply FM_askip_pairs; [exact Hs|lia].
  - apply (FM_bind (a_coll_begin p) (a_coll_begin p)
             (fun h s1 => askip_elems (askip_val p f d) (S f) (fst h) (snd h) s1)
             (fun h s1 => askip_elems (askip_val p f' d) (S f') (fst h) (snd h) s1)); [apply FM_refl|].
    intros h. apply FM_askip_elems; [exact Hs|lia].
  - apply (FM_bind (a_coll_begin p) (a_coll_begin p)
             (fun h s1 => askip_elems (askip_val p f d) (S f) (fst h) (snd h) s1)
             (fun h s1 => askip_elems (askip_val p f' d) (S f') (fst h) (snd h) s1)); [apply FM_refl|].
    intros h. apply FM_askip_elems; [exact Hs|lia].
Qed.

Section FMElemLoops.
  Variables arec arec' : ty -> rm gval.
  Hypothesis Hr : forall t, FM (arec t) (arec' t).

  Lemma FM_dec_elems : forall m m' et n acc, (m <= m')%nat ->
    FM (fun s => dec_elems arec m et n s acc) (fun s => dec_elems arec' m' et n s acc).
  Proof.
    induction m as [|m IH]; intros m' et n acc Hm.
    - intros s H. cbn [dec_elems] in *. destruct m'; cbn [dec_elems]; destruct (n <=? 0); try reflexivity; exfalso; apply H; reflexivity.
    - destruct m' as [|m']; [lia|]. cbn [dec_elems]. destruct (n <=? 0); [apply FM_refl|].
      apply (FM_bind (arec et) (arec' et) (fun x s1 => dec_elems arec m et (n - 1) s1 (x :: acc))
               (fun x s1 => dec_elems arec' m' et (n - 1) s1 (x :: acc))); [apply Hr|].
      intros x. apply IH. lia.
  Qed.
  Lemma FM_dec_pairs : forall m m' kt vt n acc, (m <= m')%nat ->
    FM (fun s => dec_pairs arec m kt vt n s acc) (fun s => dec_pairs arec' m' kt vt n s acc).
  Proof.
    induction m as [|m IH]; intros m' kt vt n acc Hm.
    - intros s H. cbn [dec_pairs] in *. destruct m'; cbn [dec_pairs]; destruct (n <=? 0); try reflexivity; exfalso; apply H; reflexivity.
    - destruct m' as [|m']; [lia|]. cbn [dec_pairs]. destruct (n <=? 0); [apply FM_refl|].
      apply (FM_bind (arec kt) (arec' kt) (fun a s1 => let* (b, s2) := arec vt s1 in dec_pairs arec m kt vt (n - 1) s2 ((a, b) :: acc))
               (fun a s1 => let* (b, s2) := arec' vt s1 in dec_pairs arec' m' kt vt (n - 1) s2 ((a, b) :: acc))); [apply Hr|].
      intros a. apply (FM_bind (arec vt) (arec' vt) (fun b s2 => dec_pairs arec m kt vt (n - 1) s2 ((a, b) :: acc))
                         (fun b s2 => dec_pairs arec' m' kt vt (n - 1) s2 ((a, b) :: acc))); [apply Hr|].
      intros b. apply IH. lia.
  Qed.
End FMElemLoops.

Section FMDecLoops.
  Variable S : schema.
  Variable p : pk.
  Variables fk fk' : nat.
  Hypothesis Hfk : (fk <= fk')%nat.
  Variables arec arec' : ty -> rm gval.
  Hypothesis Hr : forall t, FM (arec t) (arec' t).

  Lemma FM_adec_fields : forall m m' fs vars, (m <= m')%nat ->
    FM (fun s => adec_fields S p fk arec m fs vars s) (fun s => adec_fields S p fk' arec' m' fs vars s).
  Proof.
    induction m as [|m IH]; intros m' fs vars Hm; [intros s H; exfalso; apply H; reflexivity|].
    destruct m' as [|m']; [lia|]. cbn [adec_fields].
    apply (FM_bind (a_field_begin p) (a_field_begin p)
             (fun h s1 => if ttype_eqb (fst h) TStop then Ok (vars, s1) else
                          let* (vars2, s2) := match match_field S fs 0 (snd h) (fst h) with
                                              | Some (i, f) => let* (x, s) := arec (f_ty f) s1 in Ok (set_nth i (Some x) vars, s)
                                              | None => let* (_, s) := askip p fk (fst h) s1 in Ok (vars, s)
                                              end in adec_fields S p fk arec m fs vars2 s2)
             (fun h s1 => if ttype_eqb (fst h) TStop then Ok (vars, s1) else
                          let* (vars2, s2) := match match_field S fs 0 (snd h) (fst h) with
                                              | Some (i, f) => let* (x, s) := arec' (f_ty f) s1 in Ok (set_nth i (Some x) vars, s)
                                              | None => let* (_, s) := askip p fk' (fst h) s1 in Ok (vars, s)
                                              end in adec_fields S p fk' arec' m' fs vars2 s2)); [apply FM_refl|].
    intros h. destruct (ttype_eqb (fst h) TStop); [apply FM_refl|].
    apply (FM_bind _ _ (fun vars2 s2 => adec_fields S p fk arec m fs vars2 s2) (fun vars2 s2 => adec_fields S p fk' arec' m' fs vars2 s2)).
    - destruct (match_field S fs 0 (snd h) (fst h)) as [[i f]|].
      + apply (FM_map _ _ (fun x => set_nth i (Some x) vars)), Hr.
      + apply (FM_map _ _ (fun _ => vars)). unfold askip. apply FM_askip_val. exact Hfk.
    - intros vars2. apply IH. lia.
  Qed.
  Lemma FM_adec_variants : forall m m' vs ret, (m <= m')%nat ->
    FM (fun s => adec_variants S p fk arec m vs ret s) (fun s => adec_variants S p fk' arec' m' vs ret s).
  Proof.
    induction m as [|m IH]; intros m' vs ret Hm; [intros s H; exfalso; apply H; reflexivity|].
    destruct m' as [|m']; [lia|]. cbn [adec_variants].
    set (known := fun h : ttype * option Z => match snd h with
                       | Some id => match find_variant vs id with
                                    | Some vt => if is_void (resolve S vt) then None else Some (id, vt)
                                    | None => None
                                    end
                       | None => None
                       end).
    apply (FM_bind (a_field_begin p) (a_field_begin p)
             (fun h s1 => if ttype_eqb (fst h) TStop then Ok (ret, s1) else
                          match known h with
                          | Some (id, vt) => match ret with
                                             | None => let* (x, s) := arec vt s1 in adec_variants S p fk arec m vs (Some (id, x)) s
                                             | Some _ => Err EInvalidData
                                             end
                          | None => let* (_, s) := askip p fk (fst h) s1 in adec_variants S p fk arec m vs ret s
                          end)
             (fun h s1 => if ttype_eqb (fst h) TStop then Ok (ret, s1) else
                          match known h with
                          | Some (id, vt) => match ret with
                                             | None => let* (x, s) := arec' vt s1 in adec_variants S p fk' arec' m' vs (Some (id, x)) s
                                             | Some _ => Err EInvalidData
                                             end
                          | None => let* (_, s) := askip p fk' (fst h) s1 in adec_variants S p fk' arec' m' vs ret s
                          end)); [apply FM_refl|].
    intros h. destruct (ttype_eqb (fst h) TStop); [apply FM_refl|].
    destruct (known h) as [[id vt]|].
    - destruct ret; [apply FM_refl|].
      apply (FM_bind (arec vt) (arec' vt) (fun x s => adec_variants S p fk arec m vs (Some (id, x)) s)
               (fun x s => adec_variants S p fk' arec' m' vs (Some (id, x)) s)); [apply Hr|].
      intros x. apply IH. lia.
    - apply (FM_bind (askip p fk (fst h)) (askip p fk' (fst h)) (fun _ s => adec_variants S p fk arec m vs ret s)
               (fun _ s => adec_variants S p fk' arec' m' vs ret s)); [unfold askip; apply FM_askip_val; exact Hfk|].
      intros _. apply IH. lia.
  Qed.
End FMDecLoops.

Theorem FM_gen_async S p : forall f f', (f <= f')%nat -> forall t, FM (gen_decode_async S p f t) (gen_decode_async S p f' t).
Proof.
  induction f as [|f IH]; intros f' Hf t; [intros s H; exfalso; apply H; reflexivity|].
  destruct f' as [|f']; [lia|].
  assert (Hr : forall t0, FM (gen_decode_async S p f t0) (gen_decode_async S p f' t0)) by (intros t0; apply IH; lia).
  assert (Hff : (f <= f')%nat) by lia.
  intros s. rewrite !gen_decode_async_S. revert s.
  destruct (resolve S t) as [| | | | | | | | | |et|et|kt vt|n]; try apply FM_refl.
  - apply (FM_bind (a_coll_begin p) (a_coll_begin p)
             (fun h s1 => let* (l, s2) := dec_elems (gen_decode_async S p f) (Datatypes.S f) et (snd h) s1 [] in Ok (GList l, s2))
             (fun h s1 => let* (l, s2) := dec_elems (gen_decode_async S p f') (Datatypes.S f') et (snd h) s1 [] in Ok (GList l, s2))); [apply FM_refl|].
    intros h. apply (FM_map _ _ GList). apply FM_dec_elems; [exact Hr|lia].
  - apply (FM_bind (a_coll_begin p) (a_coll_begin p)
             (fun h s1 => let* (l, s2) := dec_elems (gen_decode_async S p f) (Datatypes.S f) et (snd h) s1 [] in Ok (GSet l, s2))
             (fun h s1 => let* (l, s2) := dec_elems (gen_decode_async S p f') (Datatypes.S f') et (snd h) s1 [] in Ok (GSet l, s2))); [apply FM_refl|].
    intros h. apply (FM_map _ _ GSet). apply FM_dec_elems; [exact Hr|lia].
  - apply (FM_bind (a_map_begin p) (a_map_begin p)
             (fun h s1 => let* (l, s2) := dec_pairs (gen_decode_async S p f) (Datatypes.S f) kt vt (snd h) s1 [] in Ok (GMap l, s2))
             (fun h s1 => let* (l, s2) := dec_pairs (gen_decode_async S p f') (Datatypes.S f') kt vt (snd h) s1 [] in Ok (GMap l, s2))); [apply FM_refl|].
    intros h. apply (FM_map _ _ GMap). apply FM_dec_pairs; [exact Hr|lia].
  - destruct (lookup S n) as [[fs kp ia|vs vo kp|ms|tt]|]; try apply FM_refl.
    + apply (FM_bind (a_struct_begin p) (a_struct_begin p)
               (fun _ s0 => let* (vars, s1) := adec_fields S p f (gen_decode_async S p f) (Datatypes.S f) fs (map init_var fs) s0 in
                            let* (_, s2) := a_struct_end p s1 in let* out := finish_fields fs vars in Ok (GStruct out [], s2))
               (fun _ s0 => let* (vars, s1) := adec_fields S p f' (gen_decode_async S p f') (Datatypes.S f') fs (map init_var fs) s0 in
                            let* (_, s2) := a_struct_end p s1 in let* out := finish_fields fs vars in Ok (GStruct out [], s2))); [apply FM_refl|].
      intros _. apply (FM_bind _ _ (fun vars s1 => let* (_, s2) := a_struct_end p s1 in let* out := finish_fields fs vars in Ok (GStruct out [], s2))
                         (fun vars s1 => let* (_, s2) := a_struct_end p s1 in let* out := finish_fields fs vars in Ok (GStruct out [], s2)));
        [apply FM_adec_fields; [exact Hff|exact Hr|lia]|].
      intros vars. apply FM_refl.
    + apply (FM_bind (a_struct_begin p) (a_struct_begin p)
               (fun _ s0 => let* (ret, s1) := adec_variants S p f (gen_decode_async S p f) (Datatypes.S f) vs None s0 in
                            let* (_, s2) := a_struct_end p s1 in
                            match ret with
                            | Some (id, x) => Ok (GUnion id x, s2)
                            | None => if vo then match vs with (id0, _) :: _ => Ok (GUnion id0 GVoid, s2) | [] => Err EInvalidData end
                                      else Err EInvalidData
                            end)
               (fun _ s0 => let* (ret, s1) := adec_variants S p f' (gen_decode_async S p f') (Datatypes.S f') vs None s0 in
                            let* (_, s2) := a_struct_end p s1 in
                            match ret with
                            | Some (id, x) => Ok (GUnion id x, s2)
                            | None => if vo then match vs with (id0, _) :: _ => Ok (GUnion id0 GVoid, s2) | [] => Err EInvalidData end
                                      else Err EInvalidData
                            end)); [apply FM_refl|].
      intros _. apply (FM_bind _ _
                         (fun ret s1 => let* (_, s2) := a_struct_end p s1 in
                            match ret with
                            | Some (id, x) => Ok (GUnion id x, s2)
                            | None => if vo then match vs with (id0, _) :: _ => Ok (GUnion id0 GVoid, s2) | [] => Err EInvalidData end
                                      else Err EInvalidData
                            end)
                         (fun ret s1 => let* (_, s2) := a_struct_end p s1 in
                            match ret with
                            | Some (id, x) => Ok (GUnion id x, s2)
                            | None => if vo then match vs with (id0, _) :: _ => Ok (GUnion id0 GVoid, s2) | [] => Err EInvalidData end
                                      else Err EInvalidData
                            end)); [apply FM_adec_variants; [exact Hff|exact Hr|lia]|].
      intros ret. apply FM_refl.
Qed.

(* above the bound the outcome of the asynchronous decoder does not depend on the fuel: the fuel is not observable *)
Theorem gen_async_fuel_irrelevant S p f1 f2 t l rcx :
  elems_ok S = true -> ty_elems_ok S t = true ->
  (fuel_bound (length l) <= f1)%nat -> (fuel_bound (length l) <= f2)%nat ->
  gen_decode_async S p f2 t (mkS l rcx) = gen_decode_async S p f1 t (mkS l rcx).
Proof.
  intros Hel Ht H1 H2.
  assert (G : forall f, (fuel_bound (length l) <= f)%nat ->
                gen_decode_async S p f t (mkS l rcx) = gen_decode_async S p (fuel_bound (length l)) t (mkS l rcx)).
  { intros f Hf. apply (FM_gen_async S p _ f Hf t).
    exact (proj1 (gen_async_fuel_adequate S p _ t l rcx Hel Ht (le_n _))). }
  rewrite (G f1 H1), (G f2 H2). reflexivity.
Qed.
