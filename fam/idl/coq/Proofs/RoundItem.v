(* C15, stage 3: the typedef production, every layout. *)
From PVIdl Require Import Comb Ast Parser Print Proofs.Total Proofs.RoundTok Proofs.RoundPath Proofs.RoundAnn Proofs.RoundTy
  Proofs.RoundKit.
From Coq Require Import ZifyN ZifyNat ZifyBool.
From Coq Require String.
Import String.StringSyntax.
Open Scope nat_scope.

Section Items.
Variable lf : nat.
Variable whole : list byte.
Hypothesis Hlf : length whole < lf.

Theorem rt_typedef df c k :
  wf_typedef c = true -> type_depth (ctd_type c) < df ->
  stop k = true -> (typedef_ends_word c = true -> wstop k = true) -> sfx (pr_typedef c k) whole ->
  p_typedef lf df (pr_typedef c k) = POk k (erase_typedef c).
Proof.
  intros Hw Hd Hk He S.
  destruct c as [b1 t b2 alias b3 anns sep].
  unfold wf_typedef, pr_typedef, erase_typedef, typedef_ends_word in *.
  cbn [ctd_b1 ctd_type ctd_b2 ctd_alias ctd_b3 ctd_anns ctd_sep] in *. bsplit Hw.
  unfold p_typedef. tg kw_typedef (txt "typedef").
  mbk lf whole Hlf S ltac:(now apply type_head_nb).
  assert (F : tyfollow lf (type_ends_word t) (pr_blank b2 (alias ++ pr_blank b3 (pr_oanns anns (pr_sep sep k))))).
  { apply (tyfollow_name lf whole Hlf); try assumption; try (sfx_of S).
    - intros ->. discriminate.
    - hdt.
    - hdt.
    - intros ->. hdt. }
  rewrite (rt_type lf whole Hlf df t _ Hd ltac:(assumption) F) by (sfx_of S). cbn [pbind].
  mbk lf whole Hlf S ltac:(now apply ident_nb).
  rewrite (rt_ident alias) by (assumption || hdt). cbn [pbind].
  obk lf whole Hlf S ltac:(hdt).
  oanns_step lf whole Hlf S. osep_step lf whole Hlf S.
  rewrite unwrap_oanns. reflexivity.
Qed.

End Items.

(* non-vacuity: "typedef/**/map<string,listing> cpp_type(a='b');" -- the alias is the word cpp_type *)
Example rt_typedef_example :
  let c := mkCTypedef [BBlock []] (CType (CTMap None [] [] (CType (CTBase BString) None) [] false []
                                     (CType (CTPath (mkCPath (txt "listing") [])) None) []) None)
                      [BWs (txt " ")] (txt "cpp_type") [] (Some [mkCAnn [] (txt "a") [] [] (mkLit false (txt "b")) [] SepNone]) (SepSome true []) in
  wf_typedef c = true /\ p_typedef 100 5 (pr_typedef c []) = POk [] (erase_typedef c) /\
  pr_typedef c [] = txt "typedef/**/map<string,listing> cpp_type(a='b');".
Proof. vm_compute. repeat split. Qed.
