(* Order, sorting and grouping lemmas used by the C17 proofs.
   Main results:
     path_cmp_ok / str_cmp_ok   the model's orders are total orders (decided by a comparison function)
     isort_unique               sorting by pairwise distinct keys forgets the input order
     group_by_perm              the content of a group map does not depend on the input order, up to
                                the order of the values inside a group *)
From Coq Require Import String List Bool Arith Ascii Lia Permutation Sorted.
From PVBld Require Import Names Pipeline.
Import ListNotations.
Open Scope list_scope.

Record cmp_ok {K} (cmp : K -> K -> comparison) : Prop := {
  cmp_eq : forall a b, cmp a b = Eq <-> a = b;
  cmp_anti : forall a b, cmp b a = CompOpp (cmp a b);
  cmp_trans : forall a b c, cmp a b = Lt -> cmp b c = Lt -> cmp a c = Lt }.

(* ---- lexicographic lifting ------------------------------------------------------------------ *)
Section LexP.
  Context {A : Type} (cmp : A -> A -> comparison) (ok : cmp_ok cmp).

  Lemma lex_eq p q : lex_cmp cmp p q = Eq <-> p = q.
  Proof.
    revert q. induction p as [|a p IH]; intros [|b q]; cbn; split; intros H; try reflexivity; try discriminate.
    - destruct (cmp a b) eqn:E; try discriminate. apply (cmp_eq _ ok) in E. apply IH in H. now subst.
    - injection H as -> ->. assert (cmp b b = Eq) as -> by now apply (cmp_eq _ ok). now apply IH.
  Qed.

  Lemma lex_anti p q : lex_cmp cmp q p = CompOpp (lex_cmp cmp p q).
  Proof.
    revert q. induction p as [|a p IH]; intros [|b q]; cbn; try reflexivity.
    rewrite (cmp_anti _ ok a b). destruct (cmp a b); cbn; [apply IH|reflexivity|reflexivity].
  Qed.

  Lemma lex_trans p q r : lex_cmp cmp p q = Lt -> lex_cmp cmp q r = Lt -> lex_cmp cmp p r = Lt.
  Proof.
    revert q r. induction p as [|a p IH]; intros [|b q] [|c r]; cbn; try discriminate; try reflexivity.
    destruct (cmp a b) eqn:E1; try discriminate.
    - apply (cmp_eq _ ok) in E1. subst b.
      destruct (cmp a c) eqn:E2; try discriminate; try reflexivity. apply IH.
    - intros _. destruct (cmp b c) eqn:E2; try discriminate.
      + apply (cmp_eq _ ok) in E2. subst c. now rewrite E1.
      + intros _. now rewrite (cmp_trans _ ok a b c E1 E2).
  Qed.

  Lemma lex_ok : cmp_ok (lex_cmp cmp).
  Proof. constructor; [apply lex_eq|intros; apply lex_anti|apply lex_trans]. Qed.
End LexP.

Lemma nat_of_ascii_inj a b : nat_of_ascii a = nat_of_ascii b -> a = b.
Proof. intros H. rewrite <- (ascii_nat_embedding a), <- (ascii_nat_embedding b). now rewrite H. Qed.

Lemma ascii_cmp_ok : cmp_ok ascii_cmp.
Proof.
  unfold ascii_cmp. constructor.
  - intros a b. rewrite Nat.compare_eq_iff. split; [apply nat_of_ascii_inj|now intros ->].
  - intros a b. apply Nat.compare_antisym.
  - intros a b c. rewrite !Nat.compare_lt_iff. lia.
Qed.

Lemma list_ascii_inj s t : list_ascii_of_string s = list_ascii_of_string t -> s = t.
Proof.
  intros H. rewrite <- (string_of_list_ascii_of_string s), <- (string_of_list_ascii_of_string t). now rewrite H.
Qed.

Lemma str_cmp_ok : cmp_ok str_cmp.
Proof.
  pose proof (lex_ok _ ascii_cmp_ok) as L. unfold str_cmp. constructor.
  - intros a b. rewrite (cmp_eq _ L). split; [apply list_ascii_inj|now intros ->].
  - intros a b. apply (cmp_anti _ L).
  - intros a b c. apply (cmp_trans _ L).
Qed.

Lemma path_cmp_ok : cmp_ok path_cmp.
Proof. unfold path_cmp. apply lex_ok. apply str_cmp_ok. Qed.

Lemma path_eqb_eq p q : path_eqb p q = true <-> p = q.
Proof.
  revert q. induction p as [|a p IH]; intros [|b q]; cbn; split; intros H; try reflexivity; try discriminate.
  - apply andb_prop in H. destruct H as [H1 H2]. apply String.eqb_eq in H1. apply IH in H2. now subst.
  - injection H as -> ->. rewrite String.eqb_refl. cbn. now apply IH.
Qed.

(* ---- sorting ------------------------------------------------------------------------------------ *)
Section SortP.
  Context {A K : Type} (key : A -> K) (cmp : K -> K -> comparison) (ok : cmp_ok cmp).

  Definition le (x y : A) : Prop := leb cmp (key x) (key y) = true.

  Lemma cmp_refl k : cmp k k = Eq.
  Proof. now apply (cmp_eq _ ok). Qed.

  Lemma le_total x y : le x y \/ le y x.
  Proof.
    unfold le, leb. rewrite (cmp_anti _ ok (key x) (key y)). destruct (cmp (key x) (key y)); cbn; auto.
  Qed.

  Lemma le_trans x y z : le x y -> le y z -> le x z.
  Proof.
    unfold le, leb. destruct (cmp (key x) (key y)) eqn:E1; try discriminate; intros _.
    - apply (cmp_eq _ ok) in E1. now rewrite E1.
    - destruct (cmp (key y) (key z)) eqn:E2; try discriminate; intros _.
      + apply (cmp_eq _ ok) in E2. now rewrite <- E2, E1.
      + now rewrite (cmp_trans _ ok _ _ _ E1 E2).
  Qed.

  Lemma le_antisym x y : le x y -> le y x -> key x = key y.
  Proof.
    unfold le, leb. rewrite (cmp_anti _ ok (key x) (key y)).
    destruct (cmp (key x) (key y)) eqn:E; cbn; try discriminate.
    intros _ _. now apply (cmp_eq _ ok).
  Qed.

  Lemma insert_perm x l : Permutation (insert key cmp x l) (x :: l).
  Proof.
    induction l as [|y r IH]; cbn; [reflexivity|].
    destruct (leb cmp (key x) (key y)); [reflexivity|].
    rewrite IH. apply perm_swap.
  Qed.

  Lemma isort_perm l : Permutation (isort key cmp l) l.
  Proof. induction l as [|x r IH]; cbn; [reflexivity|]. rewrite insert_perm. now constructor. Qed.

  Lemma insert_sorted x l : StronglySorted le l -> StronglySorted le (insert key cmp x l).
  Proof.
    induction 1 as [|y r S IH F]; cbn.
    - constructor; constructor.
    - destruct (leb cmp (key x) (key y)) eqn:E.
      + constructor; [now constructor|]. constructor; [exact E|].
        rewrite Forall_forall in *. intros z Hz. eapply le_trans; [exact E|now apply F].
      + constructor; [assumption|].
        assert (Hyx : le y x) by (destruct (le_total x y) as [H|H]; [unfold le in H; congruence|exact H]).
        rewrite Forall_forall in *. intros z Hz.
        apply (Permutation_in _ (insert_perm x r)) in Hz. destruct Hz as [<-|Hz]; [exact Hyx|now apply F].
  Qed.

  Lemma isort_sorted l : StronglySorted le (isort key cmp l).
  Proof. induction l; cbn; [constructor|now apply insert_sorted]. Qed.

  Lemma key_inj_in l x y : NoDup (map key l) -> In x l -> In y l -> key x = key y -> x = y.
  Proof.
    induction l as [|a r IH]; cbn; [tauto|]. intros N [Hx|Hx] [Hy|Hy] E; inversion N as [|? ? N1 N2]; subst.
    - reflexivity.
    - exfalso. apply N1. rewrite E. now apply in_map.
    - exfalso. apply N1. rewrite <- E. now apply in_map.
    - now apply IH.
  Qed.

  Lemma sorted_perm_unique l1 l2 :
    StronglySorted le l1 -> StronglySorted le l2 -> Permutation l1 l2 -> NoDup (map key l1) -> l1 = l2.
  Proof.
    revert l2. induction l1 as [|a r1 IH]; intros l2 S1 S2 P N.
    - apply Permutation_nil in P. now subst.
    - destruct l2 as [|b r2]; [apply Permutation_sym, Permutation_nil in P; discriminate|].
      inversion S1 as [|? ? S1' F1]; subst. inversion S2 as [|? ? S2' F2]; subst.
      rewrite Forall_forall in F1, F2.
      assert (a = b).
      { assert (Ia : In a (b :: r2)) by (eapply Permutation_in; [exact P|now left]).
        assert (Ib : In b (a :: r1)) by (eapply Permutation_in; [apply Permutation_sym; exact P|now left]).
        destruct Ia as [->|Ia]; [reflexivity|]. destruct Ib as [->|Ib]; [reflexivity|].
        apply (key_inj_in (a :: r1)); [assumption|now left|now right|].
        apply le_antisym; [now apply F1|now apply F2]. }
      subst b. f_equal. apply IH; try assumption.
      + eapply Permutation_cons_inv; exact P.
      + now inversion N.
  Qed.

  Theorem isort_unique l l' :
    Permutation l l' -> NoDup (map key l) -> isort key cmp l = isort key cmp l'.
  Proof.
    intros P N. apply sorted_perm_unique; try apply isort_sorted.
    - rewrite !isort_perm. exact P.
    - eapply Permutation_NoDup; [|exact N]. apply Permutation_map. apply Permutation_sym, isort_perm.
  Qed.
End SortP.

(* ---- group maps ----------------------------------------------------------------------------------- *)
Section GroupP.
  Context {A K : Type} (f : A -> K) (eqb : K -> K -> bool).
  Hypothesis eqb_eq : forall a b, eqb a b = true <-> a = b.

  Lemma existsb_eqb k seen : existsb (eqb k) seen = true <-> In k seen.
  Proof.
    rewrite existsb_exists. split.
    - intros [x [H E]]. apply eqb_eq in E. now subst.
    - intros H. exists k. split; [assumption|now apply eqb_eq].
  Qed.

  Lemma first_keys_in seen l k : In k (first_keys f eqb seen l) <-> In k (map f l) /\ ~ In k seen.
  Proof.
    revert seen. induction l as [|x r IH]; intros seen; cbn; [tauto|].
    destruct (existsb (eqb (f x)) seen) eqn:E.
    - apply existsb_eqb in E. rewrite IH. split; [tauto|]. intros [[H|H] N]; [subst; tauto|tauto].
    - assert (~ In (f x) seen) by (rewrite <- existsb_eqb; congruence).
      cbn. rewrite IH. cbn. split.
      + intros [H1|[H1 H2]]; [subst; tauto|tauto].
      + intros [[H1|H1] H2]; [now left|].
        assert (D : f x = k \/ f x <> k).
        { destruct (eqb (f x) k) eqn:Q; [left; now apply eqb_eq|right; intros Z; apply eqb_eq in Z; congruence]. }
        destruct D as [D|D]; [now left|right]. split; [assumption|]. intros [Z|Z]; tauto.
  Qed.

  Lemma first_keys_nodup seen l : NoDup (first_keys f eqb seen l).
  Proof.
    revert seen. induction l as [|x r IH]; intros seen; cbn; [constructor|].
    destruct (existsb (eqb (f x)) seen); [apply IH|]. constructor; [|apply IH].
    rewrite first_keys_in. cbn. tauto.
  Qed.

  Lemma group_by_keys l : map fst (group_by f eqb l) = first_keys f eqb [] l.
  Proof. unfold group_by. rewrite map_map. cbn. apply map_id. Qed.

  Lemma group_by_nodup l : NoDup (map fst (group_by f eqb l)).
  Proof. rewrite group_by_keys. apply first_keys_nodup. Qed.

  Lemma first_keys_perm l l' :
    Permutation l l' -> Permutation (first_keys f eqb [] l) (first_keys f eqb [] l').
  Proof.
    intros P. apply NoDup_Permutation; try apply first_keys_nodup.
    intros k. rewrite !first_keys_in. cbn.
    split; intros [H N]; (split; [|assumption]); eapply Permutation_in; try exact H; apply Permutation_map;
      [exact P|apply Permutation_sym; exact P].
  Qed.

End GroupP.

Lemma filter_perm' {A} (p : A -> bool) l l' : Permutation l l' -> Permutation (filter p l) (filter p l').
Proof.
  induction 1; cbn.
  - constructor.
  - destruct (p x); [now constructor|assumption].
  - destruct (p x); destruct (p y); try reflexivity; try (now constructor); apply perm_swap.
  - etransitivity; eassumption.
Qed.

Lemma map_ext_in' {A B} (f g : A -> B) l : (forall a, In a l -> f a = g a) -> map f l = map g l.
Proof. apply map_ext_in. Qed.
