(* C05, message level: Message::encoded_len = the number of bytes Message::encode_raw writes, for every
   well-formed schema, every typed value (nested messages, repeated, maps with default skipping in both settings of
   pb-encode-default-value, oneofs), provided the bytes written fit in a usize (then so does every embedded length). *)
From PVPb Require Import Msg Proofs.BitsP Proofs.VarintP Proofs.WireP Proofs.CastP Proofs.CodecP Proofs.TotalP Proofs.DepthP Proofs.ShapeP.
From Coq Require Import ZifyN ZifyNat ZifyBool.
Open Scope Z_scope.

Lemma zlen_flat_map_cons {A} (f : A -> list byte) a l : zlen (flat_map f (a :: l)) = zlen (f a) + zlen (flat_map f l).
Proof. cbn [flat_map]. apply zlen_app. Qed.

Lemma forallb2_cons_inv {A B} (f : A -> B -> bool) a l m : forallb2 f (a :: l) m = true ->
  exists b m', m = b :: m' /\ f a b = true /\ forallb2 f l m' = true.
Proof. destruct m as [|b m']; cbn [forallb2]; [discriminate|]. intros H. apply andb_prop in H. destruct H. eauto. Qed.

Lemma tag_ok_one : tag_ok 1.
Proof. unfold tag_ok. vm_compute. split; congruence. Qed.

Section LenStep.
  Variable edv : bool.
  Variable enc_rec : nat -> val -> list byte.
  Variable len_rec : nat -> val -> Z.
  Variable isd : ty -> val -> bool.
  Variable wt_rec : nat -> val -> bool.
  Hypothesis rec_ok : forall j e, wt_rec j e = true -> zlen (enc_rec j e) < two64 -> len_rec j e = zlen (enc_rec j e).

  Lemma len_ty_ok tag t e : tag_ok tag -> wt_ty wt_rec t e = true -> zlen (enc_ty enc_rec len_rec tag t e) < two64 ->
    len_ty len_rec tag t e = zlen (enc_ty enc_rec len_rec tag t e).
  Proof.
    intros Ht Hw Hz. destruct t as [p|j]; cbn [wt_ty len_ty enc_ty] in *.
    - destruct (scalar_module p) as [m|] eqn:E; [|discriminate].
      apply encoded_len_scalar_correct; [eapply scalar_module_scalar; eauto|exact Ht|exact Hw].
    - unfold message_encoded_len, message_encode in *. rewrite zlen_app3 in *.
      pose proof (zlen_nonneg (encode_key tag LengthDelimited)). pose proof (zlen_nonneg (encode_varint (len_rec j e))).
      pose proof (zlen_nonneg (enc_rec j e)).
      rewrite (rec_ok j e Hw ltac:(lia)) in *.
      rewrite (key_len_correct tag LengthDelimited Ht).
      rewrite encoded_len_varint_correct by lia. unfold zlen. lia.
  Qed.

  Lemma len_entry_ok tag k vt e : tag_ok tag ->
    match e with VL NPair [kv; vv] => wt_ty wt_rec (TScalar k) kv && wt_ty wt_rec vt vv | _ => false end = true ->
    zlen (enc_entry edv enc_rec len_rec isd tag k vt e) < two64 ->
    key_len tag + len_entry edv len_rec isd k vt e = zlen (enc_entry edv enc_rec len_rec isd tag k vt e).
  Proof.
    intros Ht Hw Hz. destruct e as [z|l|kd l]; try discriminate Hw. destruct kd; try discriminate Hw.
    destruct l as [|kv [|vv [|w l]]]; try discriminate Hw. apply andb_prop in Hw. destruct Hw as [Hk Hv].
    cbn [enc_entry len_entry] in *. unfold map_entry_encode, map_entry_encoded_len, map_entry_len in *.
    set (kd := isd (TScalar k) kv && negb edv) in *. set (vd := isd vt vv && negb edv) in *.
    rewrite !zlen_app in *.
    pose proof (zlen_nonneg (encode_key tag LengthDelimited)).
    pose proof (zlen_nonneg (enc_ty enc_rec len_rec 1 (TScalar k) kv)). pose proof (zlen_nonneg (enc_ty enc_rec len_rec 2 vt vv)).
    match goal with H : context [encode_varint ?n] |- _ => pose proof (zlen_nonneg (encode_varint n)) end.
    rewrite (key_len_correct tag LengthDelimited Ht).
    pose proof (zlen_nonneg (if kd then [] else enc_ty enc_rec len_rec 1 (TScalar k) kv)) as Nk.
    pose proof (zlen_nonneg (if vd then [] else enc_ty enc_rec len_rec 2 vt vv)) as Nv.
    assert (Hkl : kd = false -> len_ty len_rec 1 (TScalar k) kv = zlen (enc_ty enc_rec len_rec 1 (TScalar k) kv)).
    { intros E. rewrite E in Hz, Nk. cbv iota in Hz, Nk. apply len_ty_ok; [apply tag_ok_one|exact Hk|lia]. }
    assert (Hvl : vd = false -> len_ty len_rec 2 vt vv = zlen (enc_ty enc_rec len_rec 2 vt vv)).
    { intros E. rewrite E in Hz, Nv. cbv iota in Hz, Nv. apply len_ty_ok; [apply tag_ok_2|exact Hv|lia]. }
    assert (0 < two64) by (unfold two64; lia).
    destruct kd, vd; cbv iota in *; try rewrite (Hkl eq_refl) in *; try rewrite (Hvl eq_refl) in *;
      change (zlen []) with 0 in *;
      (rewrite encoded_len_varint_correct by lia); unfold zlen in *; lia.
  Qed.

  Lemma len_field_ok f x : Forall tag_ok (field_tags f) -> wt_field wt_rec f x = true ->
    zlen (enc_field edv enc_rec len_rec isd f x) < two64 ->
    len_field edv len_rec isd f x = zlen (enc_field edv enc_rec len_rec isd f x).
  Proof.
    intros Ht Hw Hz. destruct f as [t ty|t ty|t ty|t k vt|ms]; cbn [field_tags] in Ht.
    - inversion Ht; subst. cbn [len_field enc_field wt_field] in *. apply len_ty_ok; assumption.
    - inversion Ht; subst. cbn [wt_field] in Hw.
      destruct x as [z|l|kd l]; try discriminate Hw. destruct kd; try discriminate Hw.
      + destruct l; [reflexivity|discriminate Hw].
      + destruct l as [|e [|w l]]; try discriminate Hw. cbn [len_field enc_field] in *. apply len_ty_ok; assumption.
    - inversion Ht as [|? ? Htag _]; subst. cbn [wt_field] in Hw.
      destruct x as [z|l|kd es]; try discriminate Hw. destruct kd; try discriminate Hw. cbn [len_field enc_field] in *.
      destruct ty as [p|j].
      + destruct (scalar_module p) as [m|] eqn:E.
        * assert (Hflat : flat_map (enc_ty enc_rec len_rec t (TScalar p)) es = encode_repeated m t es).
          { unfold encode_repeated. apply flat_map_ext. intros e. cbn [enc_ty]. rewrite E. reflexivity. }
          rewrite Hflat.
          apply encoded_len_repeated_correct; [eapply scalar_module_scalar; eauto|exact Htag|].
          apply Forall_forall. rewrite forallb_forall in Hw. intros x Hx. specialize (Hw x Hx).
          cbn [wt_ty] in Hw. rewrite E in Hw. exact Hw.
        * destruct es as [|e es]; [reflexivity|]. cbn [forallb wt_ty] in Hw. rewrite E in Hw. discriminate Hw.
      + induction es as [|e es IH]; [cbn [length map sumZ fold_right flat_map]; unfold zlen; cbn [length]; lia|].
        cbn [forallb] in Hw. apply andb_prop in Hw. destruct Hw as [He Hes].
        rewrite zlen_flat_map_cons in *. cbn [length map sumZ fold_right].
        pose proof (zlen_nonneg (enc_ty enc_rec len_rec t (TMsg j) e)).
        pose proof (zlen_nonneg (flat_map (enc_ty enc_rec len_rec t (TMsg j)) es)).
        pose proof (len_ty_ok t (TMsg j) e Htag He ltac:(lia)) as H1. cbn [len_ty] in H1. unfold message_encoded_len in H1.
        specialize (IH Hes ltac:(lia)). fold (sumZ (map (fun e0 => len_rec j e0 + encoded_len_varint (len_rec j e0)) es)) in *.
        rewrite <- H1, <- IH. lia.
    - inversion Ht as [|? ? Htag _]; subst. cbn [wt_field] in Hw.
      destruct x as [z|l|kd es]; try discriminate Hw. destruct kd; try discriminate Hw. cbn [len_field enc_field] in *.
      apply andb_prop in Hw. destruct Hw as [Hw _].
      induction es as [|e es IH]; [cbn [length map sumZ fold_right flat_map]; unfold zlen; cbn [length]; lia|].
      cbn [forallb] in Hw. apply andb_prop in Hw. destruct Hw as [He Hes].
      rewrite zlen_flat_map_cons in *. cbn [length map sumZ fold_right].
      pose proof (zlen_nonneg (enc_entry edv enc_rec len_rec isd t k vt e)).
      pose proof (zlen_nonneg (flat_map (enc_entry edv enc_rec len_rec isd t k vt) es)).
      pose proof (len_entry_ok t k vt e Htag He ltac:(lia)) as H1.
      specialize (IH Hes ltac:(lia)). fold (sumZ (map (len_entry edv len_rec isd k vt) es)) in *.
      rewrite <- H1, <- IH. lia.
    - cbn [wt_field] in Hw. destruct x as [z|l|kd l]; try discriminate Hw. destruct kd; try discriminate Hw.
      + destruct l; [reflexivity|discriminate Hw].
      + destruct l as [|e [|w l]]; try discriminate Hw. cbn [len_field enc_field] in *.
        destruct (nth_error ms idx) as [[tag t]|] eqn:E; [|discriminate Hw].
        apply len_ty_ok; [|exact Hw|exact Hz].
        rewrite Forall_forall in Ht. apply Ht. apply nth_error_In in E. apply (in_map fst) in E. exact E.
  Qed.

  Lemma len_fields_ok : forall fs xs, Forall tag_ok (flat_map field_tags fs) -> forallb2 (wt_field wt_rec) fs xs = true ->
    zlen (enc_fields edv enc_rec len_rec isd fs xs) < two64 ->
    len_fields edv len_rec isd fs xs = zlen (enc_fields edv enc_rec len_rec isd fs xs).
  Proof.
    induction fs as [|f fs IH]; intros xs Ht Hw Hz; [reflexivity|].
    destruct (forallb2_cons_inv _ _ _ _ Hw) as (x & xs' & -> & Hf & Hfs).
    cbn [flat_map] in Ht. apply Forall_app in Ht. destruct Ht as [Ht1 Ht2].
    cbn [len_fields enc_fields] in *. rewrite zlen_app in *.
    pose proof (zlen_nonneg (enc_field edv enc_rec len_rec isd f x)).
    pose proof (zlen_nonneg (enc_fields edv enc_rec len_rec isd fs xs')).
    rewrite (len_field_ok f x Ht1 Hf ltac:(lia)), (IH xs' Ht2 Hfs ltac:(lia)). reflexivity.
  Qed.
End LenStep.

Lemma schema_ok_tags sc i fs : schema_ok sc = true -> nth_error sc i = Some fs -> Forall tag_ok (flat_map field_tags fs).
Proof.
  intros Hs Hn. unfold schema_ok in Hs. apply andb_prop in Hs. apply proj1 in Hs. rewrite forallb_forall in Hs. apply nth_error_In in Hn. specialize (Hs fs Hn).
  unfold msgdesc_ok in Hs. apply andb_prop in Hs. destruct Hs as [Hs _]. apply andb_prop in Hs. destruct Hs as [_ Hs].
  apply Forall_forall. rewrite forallb_forall in Hs. intros t Ht. apply tag_okb_spec. apply Hs. exact Ht.
Qed.

(* C05_msg_len *)
Theorem msg_len_correct edv sc : schema_ok sc = true -> forall d i v,
  wt_msg d sc i v = true -> zlen (enc_msg edv d sc i v) < two64 -> len_msg edv d sc i v = zlen (enc_msg edv d sc i v).
Proof.
  intros Hs. induction d as [|d IH]; intros i v Hw Hz; [discriminate Hw|].
  cbn [wt_msg len_msg enc_msg] in *. destruct (nth_error sc i) as [fs|] eqn:E; [|discriminate Hw].
  destruct v as [z|l|k xs]; try discriminate Hw. destruct k; try discriminate Hw.
  apply (len_fields_ok edv (enc_msg edv d sc) (len_msg edv d sc) (ty_is_default d sc) (wt_msg d sc)); auto.
  eapply schema_ok_tags; eauto.
Qed.

Example msg_len_nonvacuous :
  let sc := [[FSingular 1 (TScalar TYPE_SINT32); FRepeated 2 (TScalar TYPE_STRING); FMap 3 TYPE_INT32 (TMsg 0);
              FOneof [(4, TScalar TYPE_DOUBLE); (5, TMsg 0)]; FOptional 6 (TMsg 0)]] in
  let leaf := VL NMsg [VI (-3); VL NRep [VB [x61]]; VL NMap []; VL NNone []; VL NNone []] in
  let v := VL NMsg [VI 7; VL NRep [VB []; VB [x62; x63]]; VL NMap [VL NPair [VI 0; leaf]; VL NPair [VI 9; leaf]];
                    VL (NOne 1) [leaf]; VL NSome [leaf]] in
  schema_ok sc = true /\ wt_msg 3 sc 0 v = true /\ len_msg false 3 sc 0 v = 42 /\ zlen (enc_msg false 3 sc 0 v) = 42 /\
  len_msg true 3 sc 0 v = 44.
Proof. vm_compute. repeat split; reflexivity. Qed.
