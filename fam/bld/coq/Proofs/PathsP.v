(* Lemmas about Paths.v (C14): related_path is a right inverse of rustc's relative-path resolution. *)
From Coq Require Import String List Bool Arith Lia.
From PVBld Require Import Generated.Keywords Names Paths Proofs.NamesP.
Import ListNotations.
Open Scope string_scope.
Open Scope list_scope.

Lemma list_eqb_eq a b : list_eqb a b = true <-> a = b.
Proof.
  revert b. induction a as [|x a IH]; intros [|y b]; cbn; split; intros H; try reflexivity; try discriminate.
  - apply andb_prop in H. destruct H as [H1 H2]. apply String.eqb_eq in H1. apply IH in H2. now subst.
  - injection H as -> ->. rewrite String.eqb_refl. cbn. now apply IH.
Qed.

(* Display never produces the token `super` *)
Lemma display_not_super s : (display s =? "super") = false.
Proof.
  apply String.eqb_neq. intros H. unfold display in H.
  destruct (is_path_segment_keyword s) eqn:K.
  - apply mem_In in K. cbn in K. destruct K as [K|[K|[K|[K|[]]]]]; subst; discriminate.
  - destruct (mem s keywords_set) eqn:K2.
    + discriminate.
    + subst. discriminate.
Qed.

Lemma no_super_in_display l : existsb (fun s => s =? "super") (map display l) = false.
Proof. induction l as [|x l IH]; cbn; [reflexivity|]. now rewrite display_not_super, IH. Qed.

Lemma strip_supers_display cur l : strip_supers cur (map display l) = Some (cur, map display l).
Proof. destruct l as [|x l]; cbn; [reflexivity|]. now rewrite display_not_super. Qed.

Lemma removelast_app_one {A} (l : list A) x : removelast (l ++ [x]) = l.
Proof. rewrite removelast_app; [cbn; now rewrite app_nil_r|discriminate]. Qed.

Lemma strip_supers_super cur x r : strip_supers (cur ++ [x]) ("super" :: r) = strip_supers cur r.
Proof.
  cbn [strip_supers]. rewrite String.eqb_refl.
  destruct (cur ++ [x]) eqn:E; [destruct cur; discriminate|].
  rewrite <- E. now rewrite removelast_app_one.
Qed.

(* walking up k levels from (pre ++ suf) where length suf = k *)
Lemma strip_supers_repeat pre suf rest :
  strip_supers (pre ++ suf) (repeat "super" (length suf) ++ map display rest) = Some (pre, map display rest).
Proof.
  induction suf as [|x suf IH] using rev_ind.
  - cbn [length repeat app]. rewrite app_nil_r. apply strip_supers_display.
  - rewrite app_length. cbn [length]. rewrite Nat.add_1_r. cbn [repeat app].
    rewrite app_assoc. rewrite strip_supers_super. exact IH.
Qed.

Lemma common_prefix_split a b :
  let i := common_prefix_len a b in
  firstn i a = firstn i b /\
  (forall x y a' b', skipn i a = x :: a' -> skipn i b = y :: b' -> x <> y).
Proof.
  revert b. induction a as [|x a IH]; intros [|y b]; cbn; try (split; [reflexivity|intros; discriminate]).
  destruct (x =? y) eqn:E.
  - apply String.eqb_eq in E. subst. cbn. destruct (IH b) as [H1 H2]. split; [now rewrite H1|exact H2].
  - cbn. split; [reflexivity|]. intros ? ? ? ? H1 H2. injection H1 as <- _. injection H2 as <- _.
    now apply String.eqb_neq.
Qed.

Lemma common_prefix_le a b : common_prefix_len a b <= length a /\ common_prefix_len a b <= length b.
Proof.
  revert b. induction a as [|x a IH]; intros [|y b]; cbn; try lia.
  destruct (x =? y); cbn; [|lia]. destruct (IH b). lia.
Qed.

Lemma is_prefix_skipn p q :
  is_prefix p q = false -> skipn (common_prefix_len q p) p <> [].
Proof.
  revert q. induction p as [|x p IH]; intros [|y q]; cbn; try discriminate.
  - intros H. rewrite String.eqb_sym. destruct (x =? y) eqn:E; cbn [andb skipn] in *.
    + now apply IH.
    + discriminate.
Qed.

Lemma last_opt_map_display l : last_opt (map display l) = option_map display (last_opt l).
Proof.
  induction l as [|x [|y l] IH]; cbn; try reflexivity. exact IH.
Qed.

Lemma last_opt_skipn i (l : list string) : skipn i l <> [] -> last_opt (skipn i l) = last_opt l.
Proof.
  revert i. induction l as [|x l IH]; intros [|i]; cbn [skipn]; try tauto.
  intros H. rewrite (IH i H). destruct l; [destruct i; cbn in H; tauto|]. reflexivity.
Qed.

Lemma last_opt_some l : l <> [] -> exists x, last_opt l = Some x /\ l = removelast l ++ [x].
Proof.
  induction l as [|a [|b l] IH]; [tauto| |]; intros _.
  - exists a. split; reflexivity.
  - destruct IH as [x [H1 H2]]; [discriminate|]. exists x. split; [exact H1|].
    cbn [removelast] in *. cbn [app]. now rewrite <- H2.
Qed.

Lemma removelast_map {A B} (f : A -> B) l : removelast (map f l) = map f (removelast l).
Proof. induction l as [|a [|b l] IH]; cbn in *; try reflexivity. now rewrite IH. Qed.

Lemma removelast_skipn i (l : list string) :
  skipn i l <> [] -> firstn i l ++ removelast (skipn i l) = removelast l.
Proof.
  revert i. induction l as [|x l IH]; intros [|i]; cbn [skipn firstn app]; try tauto.
  intros H. rewrite (IH i H). destruct l; [destruct i; cbn in H; tauto|]. reflexivity.
Qed.

Lemma firstn_le_eq {A} (a b : list A) i j : j <= i -> firstn i a = firstn i b -> firstn j a = firstn j b.
Proof.
  intros L H. rewrite <- (Nat.min_l j i L). rewrite <- !firstn_firstn. now rewrite H.
Qed.

Lemma skipn_nonempty {A} (l : list A) i : i < length l -> skipn i l <> [].
Proof. intros L H. apply (f_equal (@length A)) in H. rewrite skipn_length in H. cbn in H. lia. Qed.

(* the text for index i, read by rustc inside module (map display p1), names the target -- for every i up to the
   common prefix that leaves a segment of p2 *)
Lemma resolve_at p1 p2 i :
  i <= length p1 -> firstn i p1 = firstn i p2 -> skipn i p2 <> [] ->
  resolve_item (map display p1) (repeat "super" (length p1 - i) ++ map display (skipn i p2)) =
    option_map (fun it => (map display (removelast p2), display it)) (last_opt p2).
Proof.
  intros L1 F NE.
  assert (Hp1 : map display p1 = map display (firstn i p1) ++ map display (skipn i p1)).
  { rewrite <- map_app. now rewrite firstn_skipn. }
  assert (Hlen : length p1 - i = length (map display (skipn i p1))).
  { rewrite map_length, skipn_length. reflexivity. }
  unfold resolve_item. rewrite Hp1, Hlen. rewrite strip_supers_repeat.
  rewrite no_super_in_display. rewrite last_opt_map_display.
  rewrite (last_opt_skipn i p2 NE).
  destruct (last_opt p2) eqn:LP; cbn [option_map]; [|reflexivity].
  f_equal. f_equal.
  rewrite removelast_map. rewrite <- map_app. f_equal.
  rewrite F. now apply removelast_skipn.
Qed.

(* the theorem (after the repair of F-14d: for EVERY pair of paths): the emitted text, read by rustc inside module
   (map display p1), names the target *)
Lemma related_path_resolves p1 p2 :
  p2 <> [] ->
  exists r, related_path p1 p2 = Some r /\
            resolve_item (map display p1) r =
              option_map (fun it => (map display (removelast p2), display it)) (last_opt p2).
Proof.
  intros NP. unfold related_path. eexists. split; [reflexivity|].
  set (i0 := common_prefix_len p1 p2).
  pose proof (common_prefix_split p1 p2) as [F _]. fold i0 in F.
  pose proof (common_prefix_le p1 p2) as [L1 L2]. fold i0 in L1, L2.
  assert (P2 : 0 < length p2) by (destruct p2; [congruence|cbn; lia]).
  destruct ((i0 =? length p2)%nat && (0 <? i0)%nat) eqn:Q.
  - apply andb_true_iff in Q. destruct Q as [Q1 Q2]. apply Nat.eqb_eq in Q1. apply Nat.ltb_lt in Q2.
    apply resolve_at; [lia| |apply skipn_nonempty; lia].
    apply (firstn_le_eq p1 p2 i0); [lia|exact F].
  - apply resolve_at; [lia|exact F|]. apply skipn_nonempty.
    apply andb_false_iff in Q. destruct Q as [Q|Q]; [apply Nat.eqb_neq in Q|apply Nat.ltb_ge in Q]; lia.
Qed.

(* the witnesses of finding F-14d (target path = current module path; target path a proper prefix of it): before the
   repair the first gave ["b"] (a child of the current module) and the second ["super"] (a module) *)
Example related_path_prefix_fixed :
  related_path ["a"; "b"] ["a"; "b"] = Some ["super"; "b"] /\
  resolve_item (map display ["a"; "b"]) ["super"; "b"] = Some (["a"], "b") /\
  related_path ["a"; "b"; "c"] ["a"; "b"] = Some ["super"; "super"; "b"] /\
  resolve_item (map display ["a"; "b"; "c"]) ["super"; "super"; "b"] = Some (["a"], "b").
Proof. repeat split. Qed.

(* non-vacuity: keyword segments, several levels up and down *)
Example related_path_nonvacuous :
  related_path ["x"; "type"; "z"] ["x"; "self"; "Foo"] = Some ["super"; "super"; "self_"; "Foo"] /\
  is_prefix ["x"; "self"; "Foo"] ["x"; "type"; "z"] = false /\
  resolve_item (map display ["x"; "type"; "z"]) ["super"; "super"; "self_"; "Foo"] = Some (["x"; "self_"], "Foo").
Proof. repeat split. Qed.

(* workspace resolver: another crate -> absolute path spelling every segment through Display *)
Lemma wrelated_other_crate c1 r1 c2 r2 :
  c1 <> c2 -> wrelated_path (c1 :: r1) (c2 :: r2) = Some (WAbs (map display (c2 :: r2))).
Proof. intros N. cbn. apply not_eq_sym in N. apply String.eqb_neq in N. now rewrite N. Qed.
