"""C15 -- Thrift IDL parser inverts printing, independent of layout.

proof gate   : fam/idl/coq/Properties/C15.v -- the full statement C15_roundtrip / C15_layout_free / C15_keyword_prefix(_document),
               one round-trip theorem per production, and the converse C15_accepted_iff_printed (the parser accepts exactly
               the prints of the well-formed concrete syntax trees; no exclusion)
correspondence `idl-parse`, three-way, for the WHOLE grammar: documents of pv/idlgen.py (source AST -> canonical tree)
               printed under random / minimal / maximal layouts -> real parser (fam/idl/harness) -> canonical tree;
               the extracted Gallina parser (fam/idl/coq/Parser.v) parses the same text.
               source tree = implementation tree = model tree, nothing left unparsed.
printer tie  : the Coq printer (Print.v, extracted) prints the concrete syntax trees the Python CST generator built (types:
               entry `print-type`; whole documents: entry `print-file`) and must produce the Python text byte for byte,
               wf = true, erased tree = expected tree; implementation and model then parse that text.
oracle (implementation only): parsed tree = printed tree, remaining = "" ; the same document under two other layouts
               parses to the same tree (layout independence).
"""
import os, random, time
from collections import Counter
from .. import core, idlgen as ig
from . import c16

FAM = core.Family("idl")

# identifiers that merely begin with a keyword, in every position where the keyword is tried first
KEYWORD_PREFIX_DOCS = [
    ("struct S { 1: optionalFoo x }", "(file - (struct S ((field 1 default (type (path optionalFoo) []) x - [])) []))"),
    ("struct S { 1: required_t x }", "(file - (struct S ((field 1 default (type (path required_t) []) x - [])) []))"),
    ("struct S { 1: requiredFoo.bar x }", "(file - (struct S ((field 1 default (type (path requiredFoo.bar) []) x - [])) []))"),
    ("const i32 X = trueish", "(file - (const X (type i32 []) (path trueish) []))"),
    ("const i32 X = falsey.z", "(file - (const X (type i32 []) (path falsey.z) []))"),
    ("const i32 X = true_", "(file - (const X (type i32 []) (path true_) []))"),
    ("const bool X = true", "(file - (const X (type bool []) (bool true) []))"),
    ("const bool X = false;", "(file - (const X (type bool []) (bool false) []))"),
    ("typedef listing T", "(file - (typedef (type (path listing) []) T []))"),
    ("typedef i32x T", "(file - (typedef (type (path i32x) []) T []))"),
    ("typedef mapper T", "(file - (typedef (type (path mapper) []) T []))"),
    ("typedef settle T", "(file - (typedef (type (path settle) []) T []))"),
    ("typedef stringy T", "(file - (typedef (type (path stringy) []) T []))"),
    ("typedef i8_ T", "(file - (typedef (type (path i8_) []) T []))"),
    ("typedef list T", "(file - (typedef (type (path list) []) T []))"),
    ("service S { onewayx f() }", "(file - (service S - ((fn f twoway (type (path onewayx) []) () () [])) []))"),
    ("service S { oneway void f() }", "(file - (service S - ((fn f oneway (type void []) () () [])) []))"),
    ("service S { void f() throwsX g() }", "(file - (service S - ((fn f twoway (type void []) () () []) (fn g twoway (type (path throwsX) []) () () [])) []))"),
    ("service S extendsY { }", None),     # "extends" needs a blank after it: not a document of the grammar; only agreement is checked
    ("struct structure { 1: i32 enumerate }", "(file - (struct structure ((field 1 default (type i32 []) enumerate - [])) []))"),
    ("enum E { e5 = 0x10, E10 = -3 }", "(file - (enum E ((ev e5 16 []) (ev E10 -3 [])) []))"),
]


# layouts of the document without declarations: blanks only (rejected before /repo 25b7876 -- finding F-15b, fixed; a
# regression is an ordinary violation)
BLANK_ONLY_DOCS = [" ", "\n", "// c\n", "# licence", "/* x */", " \t\r\n// a\n/* b */\n", "//"]


# texts that lay in the former exclusion `outside` of the converse theorem and are well-formed layouts since
# C15_accepted_iff_printed (fam/idl/NOTES.md): kept as regression cases with their trees fixed here, so that implementation
# and model are seen to read them exactly as the notes say.  (The name of the list is historical.)
OUTSIDE_WF_DOCS = [
    ("const i8 c=[5x]", "(file - (const c (type i8 []) (list (int 5) (path x)) []))"),
    ("const i8 c=[true.5]", "(file - (const c (type i8 []) (list (bool true) (double \".5\")) []))"),
    ("const i8 c=[a .5]", "(file - (const c (type i8 []) (list (path a) (double \".5\")) []))"),
    ("const i8 c=[1.5x 0x1fg]", "(file - (const c (type i8 []) (list (double \"1.5\") (path x) (int 31) (path g)) []))"),
    ("enum E { A = 5B }", "(file - (enum E ((ev A 5 []) (ev B - [])) []))"),
    ("const i8 c = 5struct S{}", "(file - (const c (type i8 []) (int 5) []) (struct S () []))"),
    ("service S { oneway.x f() }", "(file - (service S - ((fn f twoway (type (path oneway.x) []) () () [])) []))"),
    ("service S { throws f() }", "(file - (service S - ((fn f twoway (type (path throws) []) () () [])) []))"),
    ("typedef set T", "(file - (typedef (type (path set) []) T []))"),
    # more of the same kind: an exponent / a hexadecimal constant that does not fit i64 is not an exponent / not hexadecimal,
    # two '-' never start a double, a path ends before a '.' that no identifier follows
    ("const i8 c=[5e99999999999999999999 0xfffffffffffffffffffff]",
     "(file - (const c (type i8 []) (list (int 5) (path e99999999999999999999) (int 0) (path xfffffffffffffffffffff)) []))"),
    ("const i8 c=[--1.5 1..5 5e]", "(file - (const c (type i8 []) (list (int 1) (double \".5\") (double \"1.\") (double \".5\") (int 5) (path e)) []))"),
    ("service S { oneway(a='b') f() throws(a='b') g() }",
     "(file - (service S - ((fn f twoway (type (path oneway) [a=\"b\"]) () () []) (fn g twoway (type (path throws) [a=\"b\"]) () () [])) []))"),
    ("struct S { 1: list x 2: map<set,map> y }",
     "(file - (struct S ((field 1 default (type (path list) []) x - []) (field 2 default (type (map (type (path set) []) (type (path map) []) -) []) y - [])) []))"),
]


def gen_cases(rng, tier):
    """list of (case_line, expected canon or None, kind, group) ; group ties the layouts of one document together"""
    q = tier == "quick"
    n_docs = 700 if q else 25000
    n_frag = 2500 if q else 60000
    cases = []
    for t, c in KEYWORD_PREFIX_DOCS:
        cases.append(("file " + ig.hx(t), c, "keyword-prefix", None))
    for t in BLANK_ONLY_DOCS:
        cases.append(("file " + ig.hx(t), "(file -)", "blank-only", None))
    for t, c in OUTSIDE_WF_DOCS:
        cases.append(("file " + ig.hx(t), c, "touching-layout", None))
    for i in range(n_docs):
        seed = rng.randrange(1 << 62)
        # the same document (same structural choices: the document generator is driven by its own seed) under
        # three layouts.  Layout choices consume the same generator, so the structure is regenerated per layout
        # from a *separate* stream for layout decisions.
        for mode in ("random", "minimal", "maximal"):
            g = ig.Gen(random.Random(seed), mode, lay_rng=random.Random(rng.randrange(1 << 62)))
            toks, canon = g.document()
            toks = g.finish(toks)
            text = ig.text_of(toks)
            if mode == "maximal" and len(text) > 60000:
                continue
            cases.append(("file " + ig.hx(text), canon, "doc-" + mode, i))
    for i in range(n_frag):
        e = c16.FRAG[i % len(c16.FRAG)]
        mode = ("random", "random", "minimal", "maximal")[i % 4]
        g = ig.Gen(random.Random(rng.randrange(1 << 62)), mode, lay_rng=random.Random(rng.randrange(1 << 62)))
        toks, canon = c16.fragment(g, e)
        toks = g.finish(toks)
        cases.append((e + " " + ig.hx(ig.text_of(toks)), canon, "frag-" + e, None))
    return cases


def oracle(out, canon):
    """C15 on the implementation's output alone"""
    if canon is None:
        return None
    if not out.startswith("OK "):
        return "a printed document was not accepted: " + out[:160]
    _, rem, tree = out.split(" ", 2)
    if rem != "0":
        return "%s bytes of the printed document were left unparsed" % rem
    if tree != canon:
        return "the parsed tree differs from the printed document"
    return None


def first_diff(a, b):
    n = min(len(a), len(b))
    for i in range(n):
        if a[i] != b[i]:
            return i
    return n


def setup(chk):
    """core.std_setup, except that a translator failure (a changed literal / shape in the parser source) is not reported
    at once: the implementation oracle runs first, so that the first violation printed is a concrete failing document
    when there is one; the translator failure is reported after it (or alone, as no-failing-input-found)."""
    ok, out = core.regen(FAM)
    pending = None
    if not ok:
        pending = ("translator failed: " + out.strip()[-400:], dict(kind="translator", output=out[-2000:]))
    gate = core.proof_gate(chk.prop, FAM)
    chk.cov["obligations"] = gate["obligations"]
    chk.cov["discharged"] = gate["discharged"]
    chk.cov["theorems"] = gate["theorems"]
    chk.cov["axioms"] = gate["axioms"]
    ok, log = core.build_runner(FAM)
    if not ok and gate["ok"]:
        gate["ok"] = False
        gate["failed"] = "model extraction/runner build failed"
        gate["error"] = log[-800:]
    ok, hb, log = core.build_harness(release=False, fam=FAM)
    if not ok:
        chk.violation("harness does not build against the working tree: " + log[-300:],
                      dict(kind="harness-build", output=log), no_input=True)
        hb = None
    return gate, hb, pending


def run(chk, replay=None):
    gate, hb, pending_translator = setup(chk)
    chk.cov["trusted_base"] = c16.TRUSTED
    chk.cov["checker_cmd"] = ("make -C fam/idl/coq Properties/C15.vo && coqc -Q coq PV -Q fam/idl/coq PVIdl Properties/C15.v "
                              "(Print Assumptions allowlist = empty, forbidden-vernacular grep)")
    rng = random.Random(chk.seed)
    if replay is not None and "case" in replay:
        cases = [(replay["case"], replay.get("expected"), replay.get("case_kind", "replay"), None)]
    else:
        cases = gen_cases(rng, chk.tier)
    lines = [c for c, _, _, _ in cases]
    chk.cov["rule"] = ("case = <parser entry> <text of a generated document or fragment>; every document is printed under three "
                       "layouts (random: every blank slot a random mix of white space and // # /* */ comments or empty, separators "
                       ", ; or none, either quote style, numeric spelling variants; minimal: nothing optional; maximal: every slot a "
                       "long blank with all comment styles, every separator present); identifiers from a pool with keyword-prefixed "
                       "names (optionalFoo, trueish, listing, i32x, onewayx, required_t ...); expected tree computed from the source "
                       "AST, never from the text; three-way comparison source = implementation = model; non-trivial = the text has "
                       "at least one item or is a fragment; distinct by SHA-1 of the case line")
    bins = []
    if hb:
        bins.append(("debug", hb))
        if chk.tier == "thorough":
            ok, hb2, log = core.build_harness(release=True, fam=FAM)
            if ok:
                bins.append(("release", hb2))
    t0 = time.time()
    model = core.run_lines(FAM.runner, lines, timeout=1500) if os.path.exists(FAM.runner) else None
    chk.cov["wall_model"] = round(time.time() - t0, 2)
    failing, mism, src_model = [], [], []
    compared = Counter()      # counted where the comparisons happen
    groups = {}
    for prof, b in bins:
        impl = core.run_lines(b, lines, timeout=900)
        for idx, ((c, canon, kind, grp), o) in enumerate(zip(cases, impl)):
            why = oracle(o, canon)
            if canon is not None:
                compared["source_vs_impl_" + prof] += 1
            if why:
                failing.append((c, canon, kind, "%s [%s build]" % (why, prof), o))
            if grp is not None and prof == "debug":
                groups.setdefault(grp, set()).add(o.split(" ", 2)[2] if o.startswith("OK 0 ") else o)
            if model is not None:
                compared["model_vs_impl_" + prof] += 1
            if model is not None and c16.norm(o) != c16.norm(model[idx]):
                mism.append((c, kind, o, model[idx], prof))
    for grp, trees in groups.items():
        if len(trees) > 1 and not failing:
            failing.append(("", None, "layout", "the same document parses differently under different layouts (group %d)" % grp, ""))
    if model is not None:
        for (c, canon, kind, grp), m in zip(cases, model):
            if canon is not None:
                compared["source_vs_model"] += 1
            if canon is not None and m != "OK 0 " + canon:
                src_model.append((c, canon, kind, m))
    # the Coq printer against the Python printer
    tie = printer_tie(chk, rng, hb) if replay is None else None
    for c, canon, kind, grp in cases:
        chk.count(c, canon is None or canon != "(file -)")
    for i in (0, len(cases) // 3, len(cases) // 2, len(cases) - 1):
        c = cases[i][0]
        chk.sample(dict(case=c[:160] + ("..." if len(c) > 160 else ""), kind=cases[i][2], expected=(cases[i][1] or "")[:160]))
    sizes = [(len(c.split(" ")[1]) // 2 if c.split(" ")[1] != "-" else 0) for c in lines]
    chk.cov["disagreements_checked"] = sum(compared.values())
    chk.cov["compared"] = dict(compared, cases=len(cases))
    chk.cov["model_impl_mismatches"] = len(mism)
    chk.cov["source_model_mismatches"] = len(src_model)
    chk.cov["layout_groups"] = len(groups)
    chk.cov["distribution"] = dict(
        kinds=dict(Counter(k.split("-")[0] + ("-" + k.split("-")[1] if k.startswith("doc-") else "") for _, _, k, _ in cases)),
        entries=dict(Counter(c.split(" ")[0] for c in lines)),
        size_bytes=dict(max=max(sizes), total=sum(sizes), ge_1k=sum(1 for s in sizes if s >= 1024)),
        items=dict(Counter(w for _, canon, _, _ in cases if canon for w in
                           [x.split(" ")[0] for x in canon.split("(")[1:] if x.split(" ")[0] in
                            ("include", "cpp_include", "namespace", "typedef", "const", "enum", "struct", "union", "exception", "service",
                             "fn", "field", "list", "set", "map", "ev", "double", "int", "str", "bool", "path")])))
    seen = set()
    for c, canon, kind, why, o in failing:
        key = why.split("[")[0][:60]
        if key in seen:
            continue
        seen.add(key)
        d = dict(kind="case", case=c, case_kind=kind, expected=canon, impl_output=o[:3000])
        if canon and o.startswith("OK "):
            t = o.split(" ", 2)[2]
            k = first_diff(t, canon)
            d["first_difference"] = dict(at=k, parsed=t[max(0, k - 60):k + 60], printed=canon[max(0, k - 60):k + 60])
        try:
            d["text"] = bytes.fromhex(c.split(" ")[1]).decode("utf-8")[:3000] if c else ""
        except Exception:
            pass
        chk.violation("C15 fails on the implementation: " + why, d)
        if len(seen) >= 3:
            break
    if tie and tie.get("impl_failures"):
        f0 = tie["impl_failures"][0]
        failing.append(("file " + ig.hx(f0["text"]), f0["expected"], "printer-tie-file",
                        "a well-formed layout (wf_file = true in Print.v) was not read back by the implementation", f0["impl_output"]))
        chk.violation("C15 fails on the implementation: a document printed from a well-formed concrete syntax tree was not read back "
                      "(%d of the printer-tie documents)" % len(tie["impl_failures"]),
                      dict(kind="case", case="file " + ig.hx(f0["text"]), case_kind="printer-tie-file", expected=f0["expected"],
                           impl_output=f0["impl_output"], text=f0["text"][:3000]))
    if pending_translator:
        chk.violation(pending_translator[0], pending_translator[1], no_input=True)
    if not failing:
        if mism:
            c, kind, o, m, prof = mism[0]
            chk.violation("correspondence idl-parse broken: model and implementation disagree (%d cases; first of kind %s) but the "
                          "round-trip oracle found no failing input" % (len(mism), kind),
                          dict(kind="correspondence", correspondence="idl-parse (fam/idl/coq/Parser.v vs pilota-thrift-parser)",
                               case=c, case_kind=kind, impl_output=o[:2000], model_output=m[:2000], build=prof), no_input=True)
        elif src_model:
            c, canon, kind, m = src_model[0]
            chk.violation("the model parser does not invert printing (%d cases) although the implementation does" % len(src_model),
                          dict(kind="model", case=c, case_kind=kind, expected=canon[:2000], model_output=m[:2000]), no_input=True)
        if tie and tie.get("mismatch"):
            chk.violation("printer tie broken: the Coq printer (Print.v) and the Python printer disagree on the same layout",
                          dict(kind="printer-tie", **tie["mismatch"]), no_input=True)
        if not gate["ok"]:
            chk.violation("proof obligation broken: %s (%s)" % (gate.get("failed"), (gate.get("error") or "")[:300]),
                          dict(kind="proof", theorem_file="fam/idl/coq/Properties/C15.v", failed=gate.get("failed"),
                               error=gate.get("error"), theorems=gate["theorems"]), no_input=True)
        if model is None:
            chk.violation("model runner missing", dict(kind="runner"), no_input=True)
    return chk.finish()


def printer_tie(chk, rng, hb=None):
    """Coq printer vs Python printer on the same (type, layout).  pv/idlgen.py gen_cst_type builds a concrete syntax
    tree in the shape of Print.v, prints it by string concatenation and computes the canonical tree of the type; the
    runner entry `print-type` rebuilds the Coq value and answers with pr_type c [], wf_type c, simple_type c and the
    canonical rendering of erase_type c.  The same text (followed by " x") also goes through the real parser and the
    model parser, which must both return the erased tree."""
    if not hasattr(ig, "gen_cst_type") or not os.path.exists(FAM.runner):
        chk.cov["printer_tie"] = "not available"
        return None
    n = 1500 if chk.tier == "quick" else 30000
    lines, exp = [], []
    for i in range(n):
        ser, text, canon, _ = ig.gen_cst_type(rng, rng.choice([0, 1, 2, 3, 4]))
        lines.append("print-type " + ig.hx(ser))
        exp.append((text, canon))
    out = core.run_lines(FAM.runner, lines)
    res = dict(cases=n, mismatch=None)
    bad, simple = 0, 0
    for l, (t, c), o in zip(lines, exp, out):
        ok = False
        for flag in ("true", "false"):
            if o == "TEXT %s WF true SIMPLE %s ERASE %s" % (ig.hx(t), flag, c):
                ok = True
                simple += flag == "true"
        if not ok:
            bad += 1
            if res["mismatch"] is None:
                res["mismatch"] = dict(case=l[:2000], python_text=t[:1000], python_tree=c[:1000], coq_output=o[:2000])
    plines = ["type " + ig.hx(t + " x") for t, _ in exp]
    pm = core.run_lines(FAM.runner, plines)
    pi = core.run_lines(hb, plines) if hb else pm
    pbad = 0
    for (t, c), a, b in zip(exp, pm, pi):
        if a != "OK 2 " + c or b != "OK 2 " + c:
            pbad += 1
            if res["mismatch"] is None:
                res["mismatch"] = dict(text=t[:1000], tree=c[:1000], model_parse=a[:1000], impl_parse=b[:1000])
    chk.cov["printer_tie"] = dict(cases=n, mismatches=bad, parse_mismatches=pbad,
                                  what="Print.v pr_type / wf_type / erase_type (extracted) vs pv/idlgen.py text and tree on the same "
                                       "concrete syntax tree (types with blanks, comments, cpp_type, annotations); the text then parsed by "
                                       "implementation and model")
    # whole documents: the object the theorem C15_roundtrip quantifies over
    nf = 800 if chk.tier == "quick" else 20000
    flines, fexp = [], []
    for i in range(nf):
        ser, text, canon = ig.gen_cst_file(rng)
        flines.append("print-file " + ig.hx(ser))
        fexp.append((text, canon))
    fout = core.run_lines(FAM.runner, flines)
    fbad = 0
    for l, (t, c), o in zip(flines, fexp, fout):
        if o != "TEXT %s WF true ERASE %s" % (ig.hx(t), c):
            fbad += 1
            if res["mismatch"] is None:
                res["mismatch"] = dict(case=l[:3000], python_text=t[:1500], python_tree=c[:1500], coq_output=o[:3000])
    fl = ["file " + ig.hx(t) for t, _ in fexp]
    fm = core.run_lines(FAM.runner, fl)
    fi = core.run_lines(hb, fl) if hb else fm
    fpbad = 0
    for (t, c), a, b in zip(fexp, fm, fi):
        if b != "OK 0 " + c:
            # the real parser does not read back a well-formed layout: a violation of C15 with a concrete document
            res.setdefault("impl_failures", []).append(dict(text=t, expected=c, impl_output=b[:2000]))
        if a != "OK 0 " + c or b != "OK 0 " + c:
            fpbad += 1
            if res["mismatch"] is None:
                res["mismatch"] = dict(text=t[:1500], tree=c[:1500], model_parse=a[:1000], impl_parse=b[:1000])
    sizes = [len(t.encode("utf-8")) for t, _ in fexp]
    chk.cov["printer_tie_files"] = dict(cases=nf, mismatches=fbad, parse_mismatches=fpbad,
                                        size_bytes=dict(max=max(sizes), total=sum(sizes)),
                                        ends_with_unterminated_comment=sum(1 for t, _ in fexp if t and "\n" not in t[-1:] and
                                                                           ("//" in t.split("\n")[-1] or "#" in t.split("\n")[-1])),
                                        what="Print.v pr_file / wf_file / erase_file (extracted) vs the Python printer and tree on the same "
                                             "concrete syntax tree of a WHOLE document (pv/idlgen.py CstGen: every production, every blank / "
                                             "separator / quote / numeric-spelling slot, the normal form wf_file demands); texts byte-identical, "
                                             "wf_file = true, erased tree = expected tree; the text then parsed by implementation and model")
    chk.cov["layout_choices_drawn"] = dict(ig.TOUCH_STATS)
    for (t, c) in fexp[:1]:
        chk.sample(dict(kind="printer-tie-file", text=t[:200], expected=c[:200]))
    return res
