#!/bin/bash
# mut_run.sh <patch.diff> <Cxx> [<Cyy> ...]: runs the given checks (quick tier) against a scratch copy of
# /repo with the patch applied (PV_REPO), evidence redirected; prints one line per check.
set -u
PATCH=$(realpath "$1"); shift
M=/tmp/main_mut_$$
mkdir -p $M && rsync -a --delete --exclude target --exclude .git /repo/ $M/ || exit 2
( cd $M && patch -p1 -s < "$PATCH" ) || { echo "patch does not apply"; rm -rf $M; exit 2; }
VROOT=$(cd "$(dirname "$0")/.." && pwd)
cd $VROOT
for c in "$@"; do
  out=$(PV_REPO=$M PV_EVIDENCE_DIR=/tmp/main_mut_ev_$$ timeout -k 10 2400 ./check $c --tier ${TIER:-quick} 2>&1); rc=$?
  echo "== $c exit=$rc $(echo "$out" | grep -c '^VIOLATION') violation line(s): $(echo "$out" | grep -m1 '^#' | cut -c1-160)"
done
tag=$(python3 -c "import hashlib,os;print(hashlib.sha1(os.path.realpath('$M').encode()).hexdigest()[:8])")
rm -rf $M /tmp/main_mut_ev_$$ $VROOT/.cache/*_$tag
# regenerate the tables from the real tree again
python3 tools/extract.py --repo /repo --family all >/dev/null
