(* pilota::prost::encoding, wire level: varints (three decode paths), keys, DecodeContext,
   merge_loop, skip_field, length delimiters.  Model only -- lemmas live in Proofs/.

   The reader is a state monad over [rd] = remaining bytes + a ghost allocation counter;
   an outcome is a value, a DecodeError (by cause) or a panic (by site).  The ghost counter
   survives errors so that "allocation stays proportional to the input" can be stated for
   failing decodes too. *)
From PVPb Require Export Types Generated.PbConsts.
Open Scope Z_scope.

Definition two32 : Z := 2 ^ 32.
Definition two64 : Z := 2 ^ 64.

(* ---------------------------------------------------------------- reader monad *)
Record rd := mkR { rb : list byte; ra : Z }.

Inductive out (A : Type) :=
| OOk (a : A) (s : rd)
| OErr (e : perr) (s : rd)
| OPanic (p : psite).
Arguments OOk {A} a s.
Arguments OErr {A} e s.
Arguments OPanic {A} p.

Definition M (A : Type) : Type := rd -> out A.

Definition ret {A} (a : A) : M A := fun s => OOk a s.
Definition bind {A B} (m : M A) (f : A -> M B) : M B :=
  fun s => match m s with
           | OOk a s' => f a s'
           | OErr e s' => OErr e s'
           | OPanic p => OPanic p
           end.
Definition fail {A} (e : perr) : M A := fun s => OErr e s.
Definition panic {A} (p : psite) : M A := fun _ => OPanic p.

Notation "'let+' x ':=' r 'in' k" := (bind r (fun x => k))
  (at level 200, x pattern, r at level 100, k at level 200, right associativity).

(* Buf::remaining *)
Definition remaining : M nat := fun s => OOk (length (rb s)) s.
(* ghost: [n] units requested from the allocator *)
Definition charge (n : Z) : M unit := fun s => OOk tt (mkR (rb s) (ra s + n)).
(* Buf::advance(n): panics beyond remaining *)
Definition advance (n : nat) : M unit :=
  fun s => if Nat.ltb (length (rb s)) n then OPanic SAdvance else OOk tt (mkR (skipn n (rb s)) (ra s)).
(* copy_to_bytes(n) / take(n) + put: the next n bytes; panics beyond remaining *)
Definition take_bytes (n : nat) : M (list byte) :=
  fun s => if Nat.ltb (length (rb s)) n then OPanic SAdvance
           else OOk (firstn n (rb s)) (mkR (skipn n (rb s)) (ra s)).

Definition is_ok {A} (r : out A) : bool := match r with OOk _ _ => true | _ => false end.
Definition is_panic {A} (r : out A) : bool := match r with OPanic _ => true | _ => false end.
Definition is_fuel {A} (r : out A) : bool := match r with OErr POutOfFuel _ => true | _ => false end.

(* ---------------------------------------------------------------- integer helpers *)
Definition u64 (z : Z) : Z := z mod two64.
Definition u32 (z : Z) : Z := z mod two32.
(* `<<` on u32 / u64 discards the bits shifted out (only the shift amount is checked) *)
Definition shl32 (a s : Z) : Z := u32 (Z.shiftl a s).
Definition shl64 (a s : Z) : Z := u64 (Z.shiftl a s).
(* checked +, - as in a build with overflow checks *)
Definition add32 (a b : Z) : M Z := if two32 <=? a + b then panic SArithOverflow else ret (a + b).
Definition sub32 (a b : Z) : M Z := if a <? b then panic SArithOverflow else ret (a - b).
Definition add64 (a b : Z) : M Z := if two64 <=? a + b then panic SArithOverflow else ret (a + b).

(* ---------------------------------------------------------------- encode_varint *)
(* loop { if value < 0x80 { put(value); break } else { put((value & 0x7F) | 0x80); value >>= 7 } };
   a u64 needs at most 10 rounds, [fuel] = 9 continuation rounds *)
Fixpoint enc_varint (fuel : nat) (value : Z) : list byte :=
  match fuel with
  | O => [z2b value]
  | S f =>
      if value <? ev_small then [z2b value]
      else z2b (Z.lor (Z.land value ev_mask) ev_cont) :: enc_varint f (Z.shiftr value ev_shift)
  end.
Definition encode_varint (value : Z) : list byte := enc_varint 9 value.

(* ---------------------------------------------------------------- decode_varint_slow *)
Fixpoint dv_slow_loop (n : nat) (count value : Z) (buf : list byte) : option (Z * list byte) + psite :=
  match n with
  | O => inl None
  | S n' =>
      match buf with
      | [] => inr SAdvance              (* get_u8 on an empty buffer *)
      | b :: rest =>
          let byte := b2z b in
          let value' := Z.lor value (shl64 (Z.land byte dsl_mask) (count * dsl_shift)) in
          if byte <=? dsl_last_le then
            if (count =? dsl_last_count) && (dsl_last_bound <=? byte) then inl None
            else inl (Some (value', rest))
          else dv_slow_loop n' (count + 1) value' rest
      end
  end.

(* result of a varint decoder on plain bytes: Some (value, rest) | None = "invalid varint" | panic *)
Definition vres : Type := option (Z * list byte) + psite.

Definition decode_varint_slow_b (buf : list byte) : vres :=
  dv_slow_loop (Z.to_nat (Z.min dsl_max_bytes (Z.of_nat (length buf)))) 0 0 buf.

(* ---------------------------------------------------------------- decode_varint_slice *)
(* bytes.get_unchecked(i) for i = 0, 1, 2, ... in order: the model keeps the suffix that starts at
   the next index; running off the end of the slice is undefined behaviour in Rust *)
Definition get_unchecked (cursor : list byte) : (Z * list byte) + psite :=
  match cursor with b :: rest => inl (b2z b, rest) | [] => inr SGetUnchecked end.

(* outcome of a group of unrolled steps *)
Inductive part_res :=
| PRet (part : Z) (consumed : nat)              (* a byte below the continuation bound was found: return *)
| PCont (part : Z) (cursor : list byte)         (* all bytes had the continuation bit *)
| PPan (p : psite).

(* per byte: b = bytes[idx]; part += b << shl; if b < bound { return (.., idx + 1) } ; part -= sub << subshl *)
Fixpoint dvs_steps (steps : list (Z * Z * Z * Z)) (cursor : list byte) (idx : nat) (part : Z) : part_res :=
  match steps with
  | [] => PCont part cursor
  | (shl, bound, sub, subshl) :: more =>
      match get_unchecked cursor with
      | inr p => PPan p
      | inl (b, cursor) =>
          let add := shl32 b shl in
          if two32 <=? part + add then PPan SArithOverflow else
          let part := part + add in
          if b <? bound then PRet part (S idx)
          else
            let s := shl32 sub subshl in
            if part <? s then PPan SArithOverflow else dvs_steps more cursor (S idx) (part - s)
      end
  end.

Definition chk64 (v : Z) : Z + psite := if two64 <=? v then inr SArithOverflow else inl v.

Definition decode_varint_slice (bytes : list byte) : option (Z * nat) + psite :=
  if Nat.eqb (length bytes) 0 then inr SAssertSlice else
  if negb ((dvs_assert_len_above <? Z.of_nat (length bytes)) || (b2z (last bytes x00) <? dvs_assert_last_below))
  then inr SAssertSlice else
  match dvs_steps dvs_part0 bytes 0 0 with
  | PPan p => inr p
  | PRet part0 n => inl (Some (part0, n))
  | PCont part0 cursor =>
      let value := part0 in
      let i1 := length dvs_part0 in
      match dvs_steps dvs_part1 cursor i1 0 with
      | PPan p => inr p
      | PRet part1 n =>
          match chk64 (value + shl64 part1 dvs_part1_shift) with inr p => inr p | inl v => inl (Some (v, n)) end
      | PCont part1 cursor =>
          match chk64 (value + shl64 part1 dvs_part1_shift) with
          | inr p => inr p
          | inl value =>
              let i2 := (i1 + length dvs_part1)%nat in
              match dvs_steps [dvs_byte8] cursor i2 0 with
              | PPan p => inr p
              | PRet part2 n =>
                  match chk64 (value + shl64 part2 dvs_part2_shift) with inr p => inr p | inl v => inl (Some (v, n)) end
              | PCont part2 cursor =>
                  match get_unchecked cursor with
                  | inr p => inr p
                  | inl (b, _) =>
                      let add := shl32 b dvs_byte9_shift in
                      if two32 <=? part2 + add then inr SArithOverflow else
                      let part2 := part2 + add in
                      if b <? dvs_byte9_below then
                        match chk64 (value + shl64 part2 dvs_part2_shift) with
                        | inr p => inr p
                        | inl v => inl (Some (v, S (S i2)))
                        end
                      else inl None
                  end
              end
          end
      end
  end.

(* ---------------------------------------------------------------- decode_varint (dispatch) *)
(* [clen] = length of the first chunk of the Buf (1 <= clen <= remaining for a lawful Buf with
   data; the whole remainder for the contiguous buffers Bytes / &[u8]) *)
Definition decode_varint_chunk_b (clen : nat) (buf : list byte) : vres :=
  let bytes := firstn clen buf in
  let len := length bytes in
  if Nat.eqb len 0 then inl None else
  let byte := b2z (hd x00 bytes) in
  if byte <? dv_one_byte_below then inl (Some (byte, tl buf))
  else if (dv_slice_len_above <? Z.of_nat len) || (b2z (last bytes x00) <? dv_slice_last_below) then
    match decode_varint_slice bytes with
    | inr p => inr p
    | inl None => inl None
    | inl (Some (v, adv)) =>
        if Nat.ltb (length buf) adv then inr SAdvance else inl (Some (v, skipn adv buf))
    end
  else decode_varint_slow_b buf.

Definition decode_varint_b (buf : list byte) : vres := decode_varint_chunk_b (length buf) buf.

Definition lift_v (f : list byte -> vres) : M Z :=
  fun s => match f (rb s) with
           | inr p => OPanic p
           | inl None => OErr PVarint s
           | inl (Some (v, rest)) => OOk v (mkR rest (ra s))
           end.

Definition decode_varint : M Z := lift_v decode_varint_b.
Definition decode_varint_slow : M Z := lift_v decode_varint_slow_b.
Definition decode_varint_chunk (clen : nat) : M Z := lift_v (decode_varint_chunk_b clen).

(* ---------------------------------------------------------------- encoded_len_varint *)
Definition leading_zeros64 (v : Z) : Z := if v =? 0 then 64 else 63 - Z.log2 v.
(* ((((value | 1).leading_zeros() ^ 63) * 9 + 73) / 64) as usize *)
Definition encoded_len_varint (value : Z) : Z :=
  (Z.lxor (leading_zeros64 (Z.lor value elv_or)) elv_xor * elv_mul + elv_add) / elv_div.

(* ---------------------------------------------------------------- keys *)
Definition tag_ok (tag : Z) : Prop := min_tag <= tag <= max_tag.
Definition tag_okb (tag : Z) : bool := (min_tag <=? tag) && (tag <=? max_tag).

(* let key = (tag << 3) | wire_type as u32; encode_varint(u64::from(key)) *)
Definition encode_key (tag : Z) (wt : wire_type) : list byte :=
  encode_varint (Z.lor (shl32 tag key_shift) (wire_type_code wt)).
(* with the debug_assert! of a debug build *)
Definition encode_key_dbg (tag : Z) (wt : wire_type) : list byte + psite :=
  if tag_okb tag then inl (encode_key tag wt) else inr SDebugAssertTag.

Definition decode_key : M (Z * wire_type) :=
  let+ key := decode_varint in
  if two32 - 1 <? key then fail PKey else
  match wire_type_of_code (Z.land key key_wt_mask) with
  | None => fail PWireTypeValue
  | Some wt =>
      let tag := Z.shiftr (u32 key) key_tag_shift in
      if tag <? min_tag then fail PTagZero else ret (tag, wt)
  end.

Definition key_len (tag : Z) : Z := encoded_len_varint (shl32 tag key_len_shift).

Definition check_wire_type (expected actual : wire_type) : M unit :=
  if wire_type_eqb expected actual then ret tt else fail PWireType.

(* ---------------------------------------------------------------- DecodeContext *)
(* ctx = recurse_count *)
Definition ctx_default : Z := recursion_limit.
Definition limit_reached (ctx : Z) : M unit := if ctx =? 0 then fail PRecursion else ret tt.
(* recurse_count - 1 on a u32: underflow panics (debug) -- the callers test limit_reached first *)
Definition enter_recursion (ctx : Z) : M Z := if ctx <? 1 then panic SEnterRecursion else ret (ctx - 1).

(* ---------------------------------------------------------------- loops *)
(* Loops run on fuel taken from the number of remaining bytes (+1): every iteration of every
   loop of the code consumes at least one byte, which Proofs/ establishes (so POutOfFuel is
   unreachable); native recursion is modelled by structural recursion on a separate depth
   budget [d], shown to be bounded by the DecodeContext. *)

(* while buf.remaining() > limit { body } *)
Fixpoint while_remaining {T} (fuel : nat) (limit : nat) (body : T -> M T) (v : T) : M T :=
  fun s =>
    if Nat.ltb limit (length (rb s)) then
      match fuel with
      | O => OErr POutOfFuel s
      | S f => bind (body v) (fun v' => while_remaining f limit body v') s
      end
    else OOk v s.

Definition while_rem {T} (limit : nat) (body : T -> M T) (v : T) : M T :=
  let+ rem := remaining in while_remaining (S rem) limit body v.

(* merge_loop: length prefix, then values until the prefix is used up *)
Definition merge_loop {T} (body : T -> M T) (v : T) : M T :=
  let+ len := decode_varint in
  let+ rem := remaining in
  if Z.of_nat rem <? len then fail PUnderflow else
  let limit := (rem - Z.to_nat len)%nat in
  let+ v := while_rem limit body v in
  let+ rem' := remaining in
  if Nat.eqb rem' limit then ret v else fail PDelimited.

(* loop { key; if EndGroup { check tag; return }; body } -- skip_field's and group::merge's loop *)
Fixpoint group_loop_f {T} (fuel : nat) (tag : Z) (body : T -> Z -> wire_type -> M T) (v : T) : M T :=
  match fuel with
  | O => fail POutOfFuel
  | S f =>
      let+ (ftag, fwt) := decode_key in
      match fwt with
      | EndGroup => if ftag =? tag then ret v else fail PEndGroup
      | _ => let+ v' := body v ftag fwt in group_loop_f f tag body v'
      end
  end.

Definition group_loop {T} (tag : Z) (body : T -> Z -> wire_type -> M T) (v : T) : M T :=
  let+ rem := remaining in group_loop_f (S rem) tag body v.

(* ---------------------------------------------------------------- skip_field *)
(* [d] bounds the native recursion depth (one level per nested group) *)
Fixpoint skip_field (d : nat) (wt : wire_type) (tag : Z) (ctx : Z) : M unit :=
  match d with
  | O => fail POutOfFuel
  | S d' =>
      let+ _ := limit_reached ctx in
      let+ len :=
        match wt with
        | Varint => let+ _ := decode_varint in ret 0
        | ThirtyTwoBit => ret skip_width32
        | SixtyFourBit => ret skip_width64
        | LengthDelimited => decode_varint
        | StartGroup =>
            let+ _ := group_loop tag
                        (fun (_ : unit) itag iwt =>
                           let+ ctx' := enter_recursion ctx in skip_field d' iwt itag ctx') tt in
            ret 0
        | EndGroup => fail PEndGroup
        end in
      let+ rem := remaining in
      if Z.of_nat rem <? len then fail PUnderflow else advance (Z.to_nat len)
  end.

(* depth budget that always suffices: one more than the recursion limit *)
Definition depth_fuel : nat := S (Z.to_nat recursion_limit).

(* ---------------------------------------------------------------- length delimiters (prost/mod.rs) *)
(* usize::MAX on the 64-bit targets this is checked on *)
Definition usize_max : Z := two64 - 1.
Definition decode_length_delimiter : M Z :=
  let+ len := decode_varint in
  if usize_max <? len then fail PLenUsize else ret len.
Definition length_delimiter_len (length : Z) : Z := encoded_len_varint length.
Definition encode_length_delimiter (length : Z) : list byte := encode_varint length.
