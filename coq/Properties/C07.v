(* C07 -- skipping a Thrift value consumes exactly that value (recursive skippers: the default
   skipper used by binary / binary-LE, the compact skipper, the asynchronous skipper of all three;
   the iterative skipper of the unchecked codec is covered with C11). *)
From PV Require Import Thrift.Skip Proofs.HeaderP Proofs.RoundtripP Proofs.AsyncP Proofs.SkipP.
Open Scope Z_scope.

(* General form: on EVERY input -- pilota's own encodings, any other encoding the reader accepts,
   arbitrary trailing data -- on which the reader returns a value [v] and stops in state [s'], the
   skipper with a depth budget [d >= vdepth v] stops in exactly the same state (same position, same
   field-id context: whatever follows is decoded as if the skipped value had never been there) and
   reports exactly the number of bytes consumed; with a smaller budget it refuses with DepthLimit. *)
Theorem C07_skip_simulates_read : forall p f ty s v s',
  read_val p f ty s = Ok (v, s') ->
  forall d, ((vdepth v <= d)%nat -> skip_val p f d ty s = Ok (consumed s s', s')) /\
            ((d < vdepth v)%nat -> skip_val p f d ty s = Err EDepthLimit).
Proof. exact skip_sim. Qed.
Print Assumptions C07_skip_simulates_read.

Theorem C07_async_skip_simulates_read : forall p f ty s v s',
  aread_val p f ty s = Ok (v, s') ->
  forall d, ((vdepth v <= d)%nat -> askip_val p f d ty s = Ok (tt, s')) /\
            ((d < vdepth v)%nat -> askip_val p f d ty s = Err EDepthLimit).
Proof. exact askip_sim. Qed.
Print Assumptions C07_async_skip_simulates_read.

(* Composed with C01: every well-typed value written by pilota, followed by arbitrary bytes [r], is
   skipped with the reported count = the number of bytes written, leaving exactly [r] and the
   reader context untouched, when its nesting is within MAXIMUM_SKIP_DEPTH (regenerated: 64);
   deeper nesting is refused with the depth-limit error. *)
Theorem C07_skip_written : forall p k v c,
  wt v = true -> w_pend c = None ->
  exists ss, write_val p k v c = Ok (ss, c) /\
    forall fuel r rcx, (vsize v <= fuel)%nat -> idle rcx ->
      ((vdepth v <= skip_depth)%nat ->
         skip p fuel (ttype_of v) (mkS (flat ss ++ r) rcx) = Ok (Z.of_nat (length (flat ss)), mkS r rcx)) /\
      ((skip_depth < vdepth v)%nat ->
         skip p fuel (ttype_of v) (mkS (flat ss ++ r) rcx) = Err EDepthLimit).
Proof. exact skip_written. Qed.
Print Assumptions C07_skip_written.

Theorem C07_async_skip_written : forall p k v c,
  wt v = true -> w_pend c = None ->
  exists ss, write_val p k v c = Ok (ss, c) /\
    forall fuel r, (vsize v <= fuel)%nat -> Z.of_nat (length (flat ss ++ r)) < 2 ^ 63 ->
      ((vdepth v <= skip_depth)%nat ->
         askip p fuel (ttype_of v) (mkS (flat ss ++ r) r0) = Ok (tt, mkS r r0)) /\
      ((skip_depth < vdepth v)%nat ->
         askip p fuel (ttype_of v) (mkS (flat ss ++ r) r0) = Err EDepthLimit).
Proof. exact askip_written. Qed.
Print Assumptions C07_async_skip_written.
