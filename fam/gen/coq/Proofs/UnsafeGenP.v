(* C11 at the generated-code level: the emitted decode / encode over the unchecked binary codec (GenUnsafe.v) against the
   same emitted code over the checked binary codec (Gen.v; keep builds: GenKeep.v), on top of the primitive-level
   simulations of PV.Proofs.UnsafeP (readers, writers) and PV.Proofs.IterSkipP (the iterative skipper). *)
From PV Require Import Thrift.Unsafe Proofs.TablesP Proofs.PrimP Proofs.HeaderP Proofs.RoundtripP Proofs.SkipP Proofs.UnsafeP Proofs.IterSkipP.
From PVGen Require Import Gen GenKeep GenSpec KeepSpec GenUnsafe Proofs.GenBase Proofs.EncP Proofs.RoundP Proofs.EvoBase Proofs.EvoSkipP Proofs.KeepBase Proofs.KeepSizeP Proofs.KeepTopP.
From Coq Require Import ZifyN ZifyNat ZifyBool.
Open Scope Z_scope.

(* ================= reader ================= *)
(* [o2 fk]: the unchecked run when the iterative skipper may take [fk] turns (the loop has no bound in the code).  Where
   the checked run returns a value the unchecked run returns the same value for every sufficiently large [fk], and its
   window from the index on is what the checked reader has left -- in particular no access outside the window (Panic
   SOob / SSplit) occurred *)
Definition usimK {A} (o1 : res (A * rst)) (o2 : nat -> res (A * ust)) : Prop :=
  match o1 with
  | Ok (x, s') => exists K u', (forall fk, (K <= fk)%nat -> o2 fk = Ok (x, u')) /\ RU s' u'
  | _ => True
  end.

Lemma usimK_of {A} (o1 : res (A * rst)) (o2 : res (A * ust)) : usim o1 o2 -> usimK o1 (fun _ => o2).
Proof. destruct o1 as [[x s']| |]; cbn; auto. intros (u' & -> & HR). exists O, u'. auto. Qed.

Lemma usimK_bind {A B} (o1 : res (A * rst)) (o2 : nat -> res (A * ust)) (f : A -> rst -> res (B * rst))
      (g : nat -> A -> ust -> res (B * ust)) :
  usimK o1 o2 -> (forall x s' u', RU s' u' -> usimK (f x s') (fun fk => g fk x u')) ->
  usimK (let* (x, s1) := o1 in f x s1) (fun fk => let* (x, u1) := o2 fk in g fk x u1).
Proof.
  intros H1 H2. destruct o1 as [[x s']| |]; cbn [bind usimK] in *; auto.
  destruct H1 as (K1 & u1 & E1 & HR). specialize (H2 x s' u1 HR).
  destruct (f x s') as [[y s'']| |]; cbn [usimK] in *; auto.
  destruct H2 as (K2 & u2 & E2 & HR2). exists (Nat.max K1 K2), u2. split; [|exact HR2].
  intros fk Hfk. rewrite E1 by lia. cbn [bind]. apply E2. lia.
Qed.

Lemma usimK_ret {A} (x : A) s u : RU s u -> usimK (Ok (x, s)) (fun _ => Ok (x, u)).
Proof. intros H. exists O, u. auto. Qed.

Lemma usimK_map {A B} (o1 : res (A * rst)) (o2 : nat -> res (A * ust)) (g : A -> B) :
  usimK o1 o2 -> usimK (let* (x, s') := o1 in Ok (g x, s')) (fun fk => let* (x, s') := o2 fk in Ok (g x, s')).
Proof.
  destruct o1 as [[x s']| |]; cbn [bind usimK]; auto. intros (K & u' & E & HR). exists K, u'. split; [|exact HR].
  intros fk Hfk. rewrite E by exact Hfk. reflexivity.
Qed.

(* a field header that is not Stop: three bytes further in the same window *)
Lemma field_begin_usim3 s u : RU s u ->
  match r_field_begin PBinary s with
  | Ok (h, s') => exists u', u_field_begin u = Ok (h, u') /\ RU s' u' /\
                             (ttype_eqb (fst h) TStop = false -> ubuf u' = ubuf u /\ uidx u' = (uidx u + 3)%nat)
  | _ => True
  end.
Proof.
  intros HR. pose proof (field_begin_usim s u HR) as Hs.
  destruct (r_field_begin PBinary s) as [[h s']| |] eqn:E; cbn [usim] in Hs; auto.
  destruct Hs as (u' & Eu & HR'). exists u'. split; [exact Eu|]. split; [exact HR'|]. intros Hns.
  pose proof (ufield_keeps _ _ _ Eu) as Hk. split; [exact Hk|].
  pose proof (r_field_begin_bin_consumed PBinary s h s' eq_refl E) as Hc. rewrite Hns in Hc.
  destruct HR as [Rb Ri]. destruct HR' as [Rb' Ri']. unfold consumed, blen in Hc. rewrite Rb, Rb' in Hc. unfold urest in Hc.
  rewrite !skipn_length, Hk in Hc. rewrite Hk in Ri'. lia.
Qed.

(* TInputProtocol::skip of the sync templates (read, discard, depth test) against skip() of the unchecked reader *)
Lemma gskip_usim f ft s n s' u : Gen.skip PBinary f ft s = Ok (n, s') -> RU s u -> (3 <= uidx u)%nat ->
  exists K u', (forall fk, (K <= fk)%nat -> u_skip fk ft u = Ok (n, u')) /\ RU s' u' /\
               ubuf u' = skipn (uidx u - 3) (ubuf u) /\ Z.of_nat (uidx u') = 3 + n.
Proof.
  intros H [Rb Ri] H3.
  assert (Hn : n = consumed s s').
  { unfold Gen.skip in H. binv H. destruct (Nat.leb (vdepth x) maximum_skip_depth_nat); [|discriminate].
    injection H as <- <-. reflexivity. }
  apply gen_skip_runtime in H. unfold Skip.skip in H.
  assert (R0 : RU s (mkU (skipn (uidx u - 3) (ubuf u)) 3)).
  { split; cbn [ubuf uidx].
    - rewrite Rb. unfold urest. cbn [ubuf uidx]. rewrite skipn_add. f_equal. lia.
    - rewrite skipn_length. lia. }
  destruct (iter_simulates_skip f skip_depth ft s n s' _ H R0) as (k & u' & Hk & R' & Hb & Hi).
  exists k, u'. split; [|split; [exact R'|split; [exact Hb|cbn [uidx] in Hi; lia]]].
  intros fk Hfk. unfold u_skip.
  replace (Nat.ltb (uidx u) 3) with false by (symmetry; apply Nat.ltb_ge; lia).
  replace (Nat.leb (uidx u - 3) (length (ubuf u))) with true by (symmetry; apply Nat.leb_le; lia).
  replace fk with (k + (fk - k))%nat by lia. apply Hk.
Qed.

(* get_bytes(Some(ptr), 3 + n) after skip(): exactly the field, header included, and the window restarts behind it *)
Lemma get_bytes_chunk s0 s2 u2 (n : Z) :
  RU s2 u2 -> ubuf u2 = rbuf s0 -> Z.of_nat (uidx u2) = 3 + n ->
  exists u3, u_get_bytes (3 + n) u2 = Ok (firstn (Z.to_nat (3 + n)) (rbuf s0), u3) /\ RU s2 u3.
Proof.
  intros [Rb Ri] Hb Hi. unfold u_get_bytes.
  replace (3 + n <=? Z.of_nat (length (ubuf u2))) with true by lia.
  exists (mkU (skipn (Z.to_nat (3 + n)) (ubuf u2)) 0). split; [rewrite Hb; reflexivity|].
  split.
  - rewrite Rb. unfold urest. cbn [ubuf uidx skipn]. f_equal. lia.
  - cbn [uidx]. lia.
Qed.

Section ULoopsK.
  Variable S : schema.
  Variable f : nat.
  Variable rec : ty -> rst -> res (gval * rst).
  Variable urec : nat -> ty -> ust -> res (gval * ust).
  Hypothesis Hrec : forall t s u, RU s u -> usimK (rec t s) (fun fk => urec fk t u).

  Lemma elemsK : forall m et n s u acc, RU s u ->
    usimK (dec_elems rec m et n s acc) (fun fk => udec_elems (urec fk) m et n u acc).
  Proof.
    induction m as [|m IH]; intros et n s u acc HR; cbn [dec_elems udec_elems].
    - destruct (n <=? 0); [apply usimK_ret; exact HR|exact I].
    - destruct (n <=? 0); [apply usimK_ret; exact HR|].
      apply (usimK_bind (rec et s) (fun fk => urec fk et u) (fun x s1 => dec_elems rec m et (n - 1) s1 (x :: acc))
               (fun fk x u1 => udec_elems (urec fk) m et (n - 1) u1 (x :: acc))); [apply Hrec; exact HR|].
      intros x s1 u1 HR1. apply IH. exact HR1.
  Qed.

  Lemma pairsK : forall m kt vt n s u acc, RU s u ->
    usimK (dec_pairs rec m kt vt n s acc) (fun fk => udec_pairs (urec fk) m kt vt n u acc).
  Proof.
    induction m as [|m IH]; intros kt vt n s u acc HR; cbn [dec_pairs udec_pairs].
    - destruct (n <=? 0); [apply usimK_ret; exact HR|exact I].
    - destruct (n <=? 0); [apply usimK_ret; exact HR|].
      apply (usimK_bind (rec kt s) (fun fk => urec fk kt u)
               (fun a s1 => let* (b, s2) := rec vt s1 in dec_pairs rec m kt vt (n - 1) s2 ((a, b) :: acc))
               (fun fk a u1 => let* (b, u2) := urec fk vt u1 in udec_pairs (urec fk) m kt vt (n - 1) u2 ((a, b) :: acc)));
        [apply Hrec; exact HR|].
      intros a s1 u1 HR1.
      apply (usimK_bind (rec vt s1) (fun fk => urec fk vt u1) (fun b s2 => dec_pairs rec m kt vt (n - 1) s2 ((a, b) :: acc))
               (fun fk b u2 => udec_pairs (urec fk) m kt vt (n - 1) u2 ((a, b) :: acc))); [apply Hrec; exact HR1|].
      intros b s2 u2 HR2. apply IH. exact HR2.
  Qed.

  (* one field of the plain struct loop after its header (s1 / u1: states behind the header) *)
  Lemma stepK fs vars (h : ttype * option Z) s1 u1 : RU s1 u1 -> (3 <= uidx u1)%nat ->
    usimK (match match_field S fs 0 (snd h) (fst h) with
           | Some (i, fl) => let* (x, s) := rec (f_ty fl) s1 in Ok (set_nth i (Some x) vars, s)
           | None => let* (_, s) := Gen.skip PBinary f (fst h) s1 in Ok (vars, s)
           end)
          (fun fk => match match_field S fs 0 (snd h) (fst h) with
                     | Some (i, fl) => let* (x, s) := urec fk (f_ty fl) u1 in Ok (set_nth i (Some x) vars, s)
                     | None => let* (_, s) := u_skip fk (fst h) u1 in Ok (vars, s)
                     end).
  Proof.
    intros HR H3. destruct (match_field S fs 0 (snd h) (fst h)) as [[i fl]|].
    - apply (usimK_map _ _ (fun x => set_nth i (Some x) vars)), Hrec, HR.
    - destruct (Gen.skip PBinary f (fst h) s1) as [[n s2]| |] eqn:E; cbn [bind usimK]; auto.
      destruct (gskip_usim _ _ _ _ _ _ E HR H3) as (K & u2 & Hk & HR2 & _). exists K, u2. split; [|exact HR2].
      intros fk Hfk. rewrite (Hk fk Hfk). reflexivity.
  Qed.

  Lemma fieldsK : forall m fs vars s u, RU s u ->
    usimK (dec_fields S PBinary f rec m fs vars s) (fun fk => udec_fields S fk (urec fk) m fs vars u).
  Proof.
    induction m as [|m IH]; intros fs vars s u HR; [exact I|]. cbn [dec_fields udec_fields].
    pose proof (field_begin_usim3 s u HR) as Hh.
    destruct (r_field_begin PBinary s) as [[h s1]| |] eqn:E; cbn [bind usimK]; auto.
    destruct Hh as (u1 & Eu & HR1 & H3). rewrite Eu. cbn [bind].
    destruct (ttype_eqb (fst h) TStop) eqn:Es; [cbn [r_field_stop_len r_assert_no_pending bind]; apply usimK_ret; exact HR1|].
    destruct (H3 eq_refl) as [Hb Hi].
    cbn [r_field_begin_len bind].
    apply (usimK_bind _ _ (fun vars2 s2 => let* (_, s3) := r_field_end_len PBinary s2 in dec_fields S PBinary f rec m fs vars2 s3)
             (fun fk vars2 u2 => udec_fields S fk (urec fk) m fs vars2 u2) (stepK fs vars h s1 u1 HR1 ltac:(lia))).
    intros vars2 s2 u2 HR2. cbn [r_field_end_len r_assert_no_pending bind]. apply IH. exact HR2.
  Qed.

  Lemma variantsK : forall m vs ret s u, RU s u ->
    usimK (dec_variants S PBinary f rec m vs ret s) (fun fk => udec_variants S fk (urec fk) m vs ret u).
  Proof.
    induction m as [|m IH]; intros vs ret s u HR; [exact I|]. cbn [dec_variants udec_variants].
    pose proof (field_begin_usim3 s u HR) as Hh.
    destruct (r_field_begin PBinary s) as [[h s1]| |] eqn:E; cbn [bind usimK]; auto.
    destruct Hh as (u1 & Eu & HR1 & H3). rewrite Eu. cbn [bind].
    destruct (ttype_eqb (fst h) TStop) eqn:Es; [cbn [r_field_stop_len r_assert_no_pending bind]; apply usimK_ret; exact HR1|].
    destruct (H3 eq_refl) as [Hb Hi].
    cbn [r_field_begin_len bind]. unfold known_by_id.
    match goal with |- usimK (match ?k with Some _ => _ | None => _ end) _ => destruct k as [[id vt]|] end.
    - destruct ret; [exact I|].
      apply (usimK_bind (rec vt s1) (fun fk => urec fk vt u1) (fun x s2 => dec_variants S PBinary f rec m vs (Some (id, x)) s2)
               (fun fk x u2 => udec_variants S fk (urec fk) m vs (Some (id, x)) u2)); [apply Hrec; exact HR1|].
      intros x s2 u2 HR2. apply IH. exact HR2.
    - destruct (Gen.skip PBinary f (fst h) s1) as [[n s2]| |] eqn:E1; cbn [bind usimK]; auto.
      destruct (gskip_usim _ _ _ _ _ _ E1 HR1 ltac:(lia)) as (K & u2 & Hk & HR2 & _).
      specialize (IH vs ret s2 u2 HR2).
      destruct (dec_variants S PBinary f rec m vs ret s2) as [[r s3]| |]; cbn [usimK] in *; auto.
      destruct IH as (K2 & u3 & E3 & HR3). exists (Nat.max K K2), u3. split; [|exact HR3].
      intros fk Hfk. rewrite (Hk fk) by lia. cbn [bind]. apply E3. lia.
  Qed.

  (* the retaining struct loop *)
  Lemma fields_keepK : forall m fs ia vars num unk s u, RU s u ->
    usimK (dec_fields_keep S PBinary f rec m fs ia vars num unk s)
          (fun fk => udec_fields_keep S fk (urec fk) m fs ia vars num unk u).
  Proof.
    induction m as [|m IH]; intros fs ia vars num unk s u HR; [exact I|]. cbn [dec_fields_keep udec_fields_keep].
    destruct (ia && (num =? 0)).
    { (* get_bytes(None, remaining - 2) *)
      destruct HR as [Rb Ri].
      assert (Hlen : Z.of_nat (length (ubuf u)) = Z.of_nat (uidx u) + Z.of_nat (length (rbuf s))).
      { rewrite Rb. unfold urest. rewrite skipn_length. lia. }
      destruct (Z.ltb_spec (Z.of_nat (length (rbuf s))) 2) as [Hlt|Hge]; [exact I|].
      replace (Z.of_nat (length (ubuf u)) <? 2) with false by lia.
      replace (Z.of_nat (length (ubuf u)) - 2 <? Z.of_nat (uidx u)) with false by lia.
      unfold u_rewindow. replace (Nat.leb (uidx u) (length (ubuf u))) with true by (symmetry; apply Nat.leb_le; lia).
      cbn [bind]. unfold r_take, u_get_bytes. cbn [ubuf uidx]. fold (urest u). rewrite <- Rb.
      replace (Z.of_nat (length (ubuf u)) - 2 - Z.of_nat (uidx u)) with (Z.of_nat (length (rbuf s)) - 2) by lia.
      replace (Z.of_nat (length (rbuf s)) - 2 <=? Z.of_nat (length (rbuf s))) with true by lia.
      destruct (take (Z.to_nat (Z.of_nat (length (rbuf s)) - 2)) (rbuf s)) as [[a r]|] eqn:Et; cbn [bind usimK]; auto.
      unfold take in Et. destruct (Nat.leb _ _); [|discriminate]. injection Et as <- <-.
      eexists O, _. split; [intros fk _; reflexivity|]. split; cbn [rbuf set_buf urest ubuf uidx skipn]; [reflexivity|lia]. }
    pose proof (field_begin_usim3 s u HR) as Hh.
    destruct (r_field_begin PBinary s) as [[h s1]| |] eqn:E; cbn [bind usimK]; auto.
    destruct Hh as (u1 & Eu & HR1 & H3). rewrite Eu. cbn [bind].
    destruct (ttype_eqb (fst h) TStop) eqn:Es; [cbn [r_field_stop_len r_assert_no_pending bind]; apply usimK_ret; exact HR1|].
    destruct (H3 eq_refl) as [Hb Hi].
    cbn [r_field_begin_len bind].
    assert (Hstep : usimK
      (match match_field S fs 0 (snd h) (fst h) with
       | Some (i, fl) => let* (x, s2) := rec (f_ty fl) s1 in Ok ((set_nth i (Some x) vars, num - 1, unk), s2)
       | None => let* (n2, s2) := Gen.skip PBinary f (fst h) s1 in
                 Ok ((vars, num, unk ++ [firstn (Z.to_nat (3 + n2)) (rbuf s)]), s2)
       end)
      (fun fk => match match_field S fs 0 (snd h) (fst h) with
                 | Some (i, fl) => let* (x, u2) := urec fk (f_ty fl) u1 in Ok ((set_nth i (Some x) vars, num - 1, unk), u2)
                 | None => let* (n2, u2) := u_skip fk (fst h) u1 in
                           let* (chunk, u3) := u_get_bytes (3 + n2) u2 in
                           Ok ((vars, num, unk ++ [chunk]), u3)
                 end)).
    { destruct (match_field S fs 0 (snd h) (fst h)) as [[i fl]|].
      - apply (usimK_map _ _ (fun x => (set_nth i (Some x) vars, num - 1, unk))), Hrec, HR1.
      - destruct (Gen.skip PBinary f (fst h) s1) as [[n2 s2]| |] eqn:E1; cbn [bind usimK]; auto.
        destruct (gskip_usim _ _ _ _ _ _ E1 HR1 ltac:(lia)) as (K & u2 & Hk & HR2 & Hb2 & Hi2).
        assert (Hbuf : ubuf u2 = rbuf s).
        { rewrite Hb2, Hb, Hi. destruct HR as [Rb _]. rewrite Rb. unfold urest. f_equal. lia. }
        destruct (get_bytes_chunk s s2 u2 n2 HR2 Hbuf Hi2) as (u3 & Eg & HR3).
        exists K, u3. split; [|exact HR3]. intros fk Hfk. rewrite (Hk fk Hfk). cbn [bind]. rewrite Eg. reflexivity. }
    apply (usimK_bind _ _
             (fun r s2 => let* (_, s3) := r_field_end_len PBinary s2 in
                          dec_fields_keep S PBinary f rec m fs ia (fst (fst r)) (snd (fst r)) (snd r) s3)
             (fun fk r u2 => udec_fields_keep S fk (urec fk) m fs ia (fst (fst r)) (snd (fst r)) (snd r) u2) Hstep).
    intros r s2 u2 HR2. cbn [r_field_end_len r_assert_no_pending bind]. apply IH. exact HR2.
  Qed.

  Lemma variants_keepK : forall m vs ret s u, RU s u ->
    usimK (dec_variants_keep S PBinary f rec m vs ret s) (fun fk => udec_variants_keep S fk (urec fk) m vs ret u).
  Proof.
    induction m as [|m IH]; intros vs ret s u HR; [exact I|]. cbn [dec_variants_keep udec_variants_keep].
    pose proof (field_begin_usim3 s u HR) as Hh.
    destruct (r_field_begin PBinary s) as [[h s1]| |] eqn:E; cbn [bind usimK]; auto.
    destruct Hh as (u1 & Eu & HR1 & H3). rewrite Eu. cbn [bind].
    destruct (ttype_eqb (fst h) TStop) eqn:Es; [cbn [r_field_stop_len r_assert_no_pending bind]; apply usimK_ret; exact HR1|].
    destruct (H3 eq_refl) as [Hb Hi].
    cbn [r_field_begin_len bind]. unfold known_by_id.
    match goal with |- usimK (match ?k with Some _ => _ | None => _ end) _ => destruct k as [[id vt]|] end.
    - destruct ret; try exact I.
      apply (usimK_bind (rec vt s1) (fun fk => urec fk vt u1) (fun x s2 => dec_variants_keep S PBinary f rec m vs (UKnown id x) s2)
               (fun fk x u2 => udec_variants_keep S fk (urec fk) m vs (UKnown id x) u2)); [apply Hrec; exact HR1|].
      intros x s2 u2 HR2. apply IH. exact HR2.
    - destruct (Gen.skip PBinary f (fst h) s1) as [[n2 s2]| |] eqn:E1; cbn [bind usimK]; auto.
      destruct (gskip_usim _ _ _ _ _ _ E1 HR1 ltac:(lia)) as (K & u2 & Hk & HR2 & Hb2 & Hi2).
      destruct ret; try exact I.
      assert (Hbuf : ubuf u2 = rbuf s).
      { rewrite Hb2, Hb, Hi. destruct HR as [Rb _]. rewrite Rb. unfold urest. f_equal. lia. }
      destruct (get_bytes_chunk s s2 u2 n2 HR2 Hbuf Hi2) as (u3 & Eg & HR3).
      specialize (IH vs (UUnknown (firstn (Z.to_nat (3 + n2)) (rbuf s))) s2 u3 HR3).
      destruct (dec_variants_keep S PBinary f rec m vs _ s2) as [[r s3]| |]; cbn [usimK] in *; auto.
      destruct IH as (K2 & u4 & E4 & HR4). exists (Nat.max K K2), u4. split; [|exact HR4].
      intros fk Hfk. rewrite (Hk fk) by lia. cbn [bind]. rewrite Eg. cbn [bind]. apply E4. lia.
  Qed.
End ULoopsK.

Lemma gen_udecode_S kb S fk f t s : gen_udecode kb S fk (Datatypes.S f) t s =
  match resolve S t with
  | TyBool => let* (b, s) := u_bool s in Ok (GBool b, s)
  | TyI8 => let* (z, s) := u_i8 s in Ok (GI8 z, s)
  | TyI16 => let* (z, s) := u_i16 s in Ok (GI16 z, s)
  | TyI32 => let* (z, s) := u_i32 s in Ok (GI32 z, s)
  | TyI64 => let* (z, s) := u_i64 s in Ok (GI64 z, s)
  | TyDouble => let* (z, s) := u_double s in Ok (GDouble z, s)
  | TyString | TyBinary => let* (l, s) := u_bytes s in Ok (GBytes l, s)
  | TyUuid => let* (l, s) := u_uuid s in Ok (GUuid l, s)
  | TyVoid => Ok (GVoid, s)
  | TyList et =>
      let* (h, s) := u_coll_begin s in
      let* (l, s) := udec_elems (gen_udecode kb S fk f) (Datatypes.S f) et (snd h) s [] in
      Ok (GList l, s)
  | TySet et =>
      let* (h, s) := u_coll_begin s in
      let* (l, s) := udec_elems (gen_udecode kb S fk f) (Datatypes.S f) et (snd h) s [] in
      Ok (GSet l, s)
  | TyMap kt vt =>
      let* (h, s) := u_map_begin s in
      let* (l, s) := udec_pairs (gen_udecode kb S fk f) (Datatypes.S f) kt vt (snd h) s [] in
      Ok (GMap l, s)
  | TyRef n =>
      match lookup S n with
      | Some (DEnum _) => let* (z, s) := u_i32 s in Ok (GEnum z, s)
      | Some (DStruct fs keep is_arg) =>
          if kb && keep then
            let* (r, s) := udec_fields_keep S fk (gen_udecode kb S fk f) (Datatypes.S f) fs is_arg (map init_var fs)
                                            (Z.of_nat (length fs)) [] s in
            let* out := finish_fields fs (fst r) in
            Ok (GStruct out (snd r), s)
          else
            let* (vars, s) := udec_fields S fk (gen_udecode kb S fk f) (Datatypes.S f) fs (map init_var fs) s in
            let* out := finish_fields fs vars in
            Ok (GStruct out [], s)
      | Some (DUnion vs void_ok keep) =>
          if kb && keep then
            let* (ret, s) := udec_variants_keep S fk (gen_udecode kb S fk f) (Datatypes.S f) vs UNone s in
            match ret with
            | UKnown id x => Ok (GUnion id x, s)
            | UUnknown c => Ok (GUnionUnknown c, s)
            | UNone =>
                if void_ok then
                  match vs with (id0, _) :: _ => Ok (GUnion id0 GVoid, s) | [] => Err EInvalidData end
                else Err EInvalidData
            end
          else
            let* (ret, s) := udec_variants S fk (gen_udecode kb S fk f) (Datatypes.S f) vs None s in
            match ret with
            | Some (id, x) => Ok (GUnion id x, s)
            | None =>
                if void_ok then
                  match vs with (id0, _) :: _ => Ok (GUnion id0 GVoid, s) | [] => Err EInvalidData end
                else Err EInvalidData
            end
      | Some (DTypedef _) => Err EOther
      | None => Err EOther
      end
  end.
Proof. reflexivity. Qed.

Lemma gen_cdecode_S kb S f t s : gen_cdecode kb S (Datatypes.S f) t s =
  match resolve S t with
  | TyBool => let* (b, s) := r_bool PBinary s in Ok (GBool b, s)
  | TyI8 => let* (z, s) := r_i8 s in Ok (GI8 z, s)
  | TyI16 => let* (z, s) := r_i16 PBinary s in Ok (GI16 z, s)
  | TyI32 => let* (z, s) := r_i32 PBinary s in Ok (GI32 z, s)
  | TyI64 => let* (z, s) := r_i64 PBinary s in Ok (GI64 z, s)
  | TyDouble => let* (z, s) := r_double PBinary s in Ok (GDouble z, s)
  | TyString | TyBinary => let* (l, s) := r_bytes PBinary s in Ok (GBytes l, s)
  | TyUuid => let* (l, s) := r_uuid s in Ok (GUuid l, s)
  | TyVoid => Ok (GVoid, s)
  | TyList et =>
      let* (h, s) := r_coll_begin PBinary s in
      let* (l, s) := dec_elems (gen_cdecode kb S f) (Datatypes.S f) et (snd h) s [] in
      Ok (GList l, s)
  | TySet et =>
      let* (h, s) := r_coll_begin PBinary s in
      let* (l, s) := dec_elems (gen_cdecode kb S f) (Datatypes.S f) et (snd h) s [] in
      Ok (GSet l, s)
  | TyMap kt vt =>
      let* (h, s) := r_map_begin PBinary s in
      let* (l, s) := dec_pairs (gen_cdecode kb S f) (Datatypes.S f) kt vt (snd h) s [] in
      Ok (GMap l, s)
  | TyRef n =>
      match lookup S n with
      | Some (DEnum _) => let* (z, s) := r_i32 PBinary s in Ok (GEnum z, s)
      | Some (DStruct fs keep is_arg) =>
          if kb && keep then
            let* (r, s) := dec_fields_keep S PBinary f (gen_cdecode kb S f) (Datatypes.S f) fs is_arg (map init_var fs)
                                           (Z.of_nat (length fs)) [] s in
            let* out := finish_fields fs (fst r) in
            Ok (GStruct out (snd r), s)
          else
            let* (vars, s) := dec_fields S PBinary f (gen_cdecode kb S f) (Datatypes.S f) fs (map init_var fs) s in
            let* out := finish_fields fs vars in
            Ok (GStruct out [], s)
      | Some (DUnion vs void_ok keep) =>
          if kb && keep then
            let* (ret, s) := dec_variants_keep S PBinary f (gen_cdecode kb S f) (Datatypes.S f) vs UNone s in
            match ret with
            | UKnown id x => Ok (GUnion id x, s)
            | UUnknown c => Ok (GUnionUnknown c, s)
            | UNone =>
                if void_ok then
                  match vs with (id0, _) :: _ => Ok (GUnion id0 GVoid, s) | [] => Err EInvalidData end
                else Err EInvalidData
            end
          else
            let* (ret, s) := dec_variants S PBinary f (gen_cdecode kb S f) (Datatypes.S f) vs None s in
            match ret with
            | Some (id, x) => Ok (GUnion id x, s)
            | None =>
                if void_ok then
                  match vs with (id0, _) :: _ => Ok (GUnion id0 GVoid, s) | [] => Err EInvalidData end
                else Err EInvalidData
            end
      | Some (DTypedef _) => Err EOther
      | None => Err EOther
      end
  end.
Proof.
  unfold gen_cdecode. destruct kb; [rewrite gen_decode_keep_eq|rewrite gen_decode_S]; destruct (resolve S t); try reflexivity;
    destruct (lookup S n) as [[fs kp ia|vs vo kp| |]|]; cbn [andb]; try reflexivity;
    try (destruct kp; cbn [andb]; reflexivity);
    cbn [r_struct_begin r_struct_end bind];
    match goal with |- (let* (x, s1) := ?o in _) = _ => destruct o as [[x s1]| |]; cbn [bind]; reflexivity end.
Qed.

(* the emitted decoder over the unchecked reader simulates the emitted decoder over the checked binary reader, for the
   plain build (kb = false: Gen.gen_decode) and the keep build (kb = true: GenKeep.gen_decode_keep, get_bytes included) *)
Theorem gen_udecode_sim kb S : forall f t s u, RU s u ->
  usimK (gen_cdecode kb S f t s) (fun fk => gen_udecode kb S fk f t u).
Proof.
  induction f as [|f IH]; intros t s u HR; [unfold gen_cdecode; destruct kb; exact I|].
  rewrite gen_cdecode_S.
  assert (G : forall o1 (o2 : nat -> res (gval * ust)), (forall fk, gen_udecode kb S fk (Datatypes.S f) t u = o2 fk) ->
              usimK o1 o2 -> usimK o1 (fun fk => gen_udecode kb S fk (Datatypes.S f) t u)).
  { intros o1 o2 E H. destruct o1 as [[x s']| |]; cbn [usimK] in *; auto. destruct H as (K & u' & Ek & HR').
    exists K, u'. split; [|exact HR']. intros fk Hfk. rewrite E. apply Ek, Hfk. }
  destruct (resolve S t) as [| | | | | | | | | |et|et|kt vt|n] eqn:Er.
  - eapply G; [intros fk; rewrite gen_udecode_S, Er; reflexivity|]. apply usimK_of, (usim_map _ _ GBool), bool_usim, HR.
  - eapply G; [intros fk; rewrite gen_udecode_S, Er; reflexivity|]. apply usimK_of, (usim_map _ _ GI8), i8_usim, HR.
  - eapply G; [intros fk; rewrite gen_udecode_S, Er; reflexivity|]. apply usimK_of, (usim_map _ _ GI16), (fixed_usim 2 16), HR.
  - eapply G; [intros fk; rewrite gen_udecode_S, Er; reflexivity|]. apply usimK_of, (usim_map _ _ GI32), (fixed_usim 4 32), HR.
  - eapply G; [intros fk; rewrite gen_udecode_S, Er; reflexivity|]. apply usimK_of, (usim_map _ _ GI64), (fixed_usim 8 64), HR.
  - eapply G; [intros fk; rewrite gen_udecode_S, Er; reflexivity|]. apply usimK_of, (usim_map _ _ GDouble), double_usim, HR.
  - eapply G; [intros fk; rewrite gen_udecode_S, Er; reflexivity|]. apply usimK_of, (usim_map _ _ GBytes), bytes_usim, HR.
  - eapply G; [intros fk; rewrite gen_udecode_S, Er; reflexivity|]. apply usimK_of, (usim_map _ _ GBytes), bytes_usim, HR.
  - eapply G; [intros fk; rewrite gen_udecode_S, Er; reflexivity|]. apply usimK_of, (usim_map _ _ GUuid), get_usim, HR.
  - eapply G; [intros fk; rewrite gen_udecode_S, Er; reflexivity|]. apply usimK_ret, HR.
  - eapply G; [intros fk; rewrite gen_udecode_S, Er; reflexivity|].
    apply (usimK_bind _ (fun _ => u_coll_begin u)
             (fun h s1 => let* (l, s2) := dec_elems (gen_cdecode kb S f) (Datatypes.S f) et (snd h) s1 [] in Ok (GList l, s2))
             (fun fk h u1 => let* (l, u2) := udec_elems (gen_udecode kb S fk f) (Datatypes.S f) et (snd h) u1 [] in Ok (GList l, u2)));
      [apply usimK_of, coll_begin_usim, HR|].
    intros h s1 u1 HR1. apply (usimK_map _ _ GList). apply (elemsK _ (fun fk => gen_udecode kb S fk f) IH). exact HR1.
  - eapply G; [intros fk; rewrite gen_udecode_S, Er; reflexivity|].
    apply (usimK_bind _ (fun _ => u_coll_begin u)
             (fun h s1 => let* (l, s2) := dec_elems (gen_cdecode kb S f) (Datatypes.S f) et (snd h) s1 [] in Ok (GSet l, s2))
             (fun fk h u1 => let* (l, u2) := udec_elems (gen_udecode kb S fk f) (Datatypes.S f) et (snd h) u1 [] in Ok (GSet l, u2)));
      [apply usimK_of, coll_begin_usim, HR|].
    intros h s1 u1 HR1. apply (usimK_map _ _ GSet). apply (elemsK _ (fun fk => gen_udecode kb S fk f) IH). exact HR1.
  - eapply G; [intros fk; rewrite gen_udecode_S, Er; reflexivity|].
    apply (usimK_bind _ (fun _ => u_map_begin u)
             (fun h s1 => let* (l, s2) := dec_pairs (gen_cdecode kb S f) (Datatypes.S f) kt vt (snd h) s1 [] in Ok (GMap l, s2))
             (fun fk h u1 => let* (l, u2) := udec_pairs (gen_udecode kb S fk f) (Datatypes.S f) kt vt (snd h) u1 [] in Ok (GMap l, u2)));
      [apply usimK_of, map_begin_usim, HR|].
    intros h s1 u1 HR1. apply (usimK_map _ _ GMap). apply (pairsK _ (fun fk => gen_udecode kb S fk f) IH). exact HR1.
  - destruct (lookup S n) as [[fs kp ia|vs vo kp|ms|tt]|] eqn:El.
    + destruct (kb && kp) eqn:Ek.
      * eapply G; [intros fk; rewrite gen_udecode_S, Er, El, Ek; reflexivity|].
        apply (usimK_bind _ _ (fun r s1 => let* out := finish_fields fs (fst r) in Ok (GStruct out (snd r), s1))
                 (fun fk r u1 => let* out := finish_fields fs (fst r) in Ok (GStruct out (snd r), u1))
                 (fields_keepK S f _ (fun fk => gen_udecode kb S fk f) IH _ fs ia _ _ [] s u HR)).
        intros r s1 u1 HR1. destruct (finish_fields fs (fst r)); cbn [bind]; try exact I. apply usimK_ret, HR1.
      * eapply G; [intros fk; rewrite gen_udecode_S, Er, El, Ek; reflexivity|].
        apply (usimK_bind _ _ (fun vars s1 => let* out := finish_fields fs vars in Ok (GStruct out [], s1))
                 (fun fk vars u1 => let* out := finish_fields fs vars in Ok (GStruct out [], u1))
                 (fieldsK S f _ (fun fk => gen_udecode kb S fk f) IH _ fs _ s u HR)).
        intros vars s1 u1 HR1. destruct (finish_fields fs vars); cbn [bind]; try exact I. apply usimK_ret, HR1.
    + destruct (kb && kp) eqn:Ek.
      * eapply G; [intros fk; rewrite gen_udecode_S, Er, El, Ek; reflexivity|].
        apply (usimK_bind _ _
                 (fun ret s1 => match ret with
                                | UKnown id x => Ok (GUnion id x, s1)
                                | UUnknown c => Ok (GUnionUnknown c, s1)
                                | UNone => if vo then match vs with (id0, _) :: _ => Ok (GUnion id0 GVoid, s1) | [] => Err EInvalidData end
                                           else Err EInvalidData
                                end)
                 (fun fk ret u1 => match ret with
                                   | UKnown id x => Ok (GUnion id x, u1)
                                   | UUnknown c => Ok (GUnionUnknown c, u1)
                                   | UNone => if vo then match vs with (id0, _) :: _ => Ok (GUnion id0 GVoid, u1) | [] => Err EInvalidData end
                                              else Err EInvalidData
                                   end)
                 (variants_keepK S f _ (fun fk => gen_udecode kb S fk f) IH _ vs UNone s u HR)).
        intros ret s1 u1 HR1. destruct ret as [|id x|c]; try (apply usimK_ret, HR1).
        destruct vo; [|exact I]. destruct vs as [|[id0 t0] r]; [exact I|apply usimK_ret, HR1].
      * eapply G; [intros fk; rewrite gen_udecode_S, Er, El, Ek; reflexivity|].
        apply (usimK_bind _ _
                 (fun ret s1 => match ret with
                                | Some (id, x) => Ok (GUnion id x, s1)
                                | None => if vo then match vs with (id0, _) :: _ => Ok (GUnion id0 GVoid, s1) | [] => Err EInvalidData end
                                          else Err EInvalidData
                                end)
                 (fun fk ret u1 => match ret with
                                   | Some (id, x) => Ok (GUnion id x, u1)
                                   | None => if vo then match vs with (id0, _) :: _ => Ok (GUnion id0 GVoid, u1) | [] => Err EInvalidData end
                                             else Err EInvalidData
                                   end)
                 (variantsK S f _ (fun fk => gen_udecode kb S fk f) IH _ vs None s u HR)).
        intros ret s1 u1 HR1. destruct ret as [[id x]|]; [apply usimK_ret, HR1|].
        destruct vo; [|exact I]. destruct vs as [|[id0 t0] r]; [exact I|apply usimK_ret, HR1].
    + eapply G; [intros fk; rewrite gen_udecode_S, Er, El; reflexivity|].
      apply usimK_of, (usim_map _ _ GEnum), (fixed_usim 4 32), HR.
    + exact I.
    + exact I.
Qed.

(* ================= writer ================= *)
Section UWGen.
  Variable S : schema.
  Variable k : bk.
  Variable zc : bool.

  Definition uenc_elems (et : ty) : list gval -> uwm :=
    fix go (l : list gval) : uwm := match l with [] => uwnop | x :: r => uenc_ty S zc et x ;;; go r end.
  Definition uenc_pairs (kt vt : ty) : list (gval * gval) -> uwm :=
    fix go (l : list (gval * gval)) : uwm :=
      match l with [] => uwnop | (a, b) :: r => uenc_ty S zc kt a ;;; uenc_ty S zc vt b ;;; go r end.
  Definition uenc_field (f : field) (id : Z) (x : gval) : uwm :=
    if is_void (resolve S (f_ty f)) then uwnop
    else uw_field_begin (ttype_of_ty S (f_ty f)) id ;;; uenc_ty S zc (f_ty f) x.
  Definition uenc_fields (dfs : list field) : list (Z * gval) -> uwm :=
    fix go (fs : list (Z * gval)) : uwm :=
      match fs with
      | [] => uwnop
      | (id, x) :: r => match find_field dfs id with Some f => uenc_field f id x ;;; go r | None => uwfail end
      end.

  Lemma uenc_ty_list t l : uenc_ty S zc t (GList l) =
    match resolve S t with
    | TyList et => uw_coll_begin (ttype_of_ty S et) (Z.of_nat (length l)) ;;; uenc_elems et l
    | _ => uwfail
    end.
  Proof. reflexivity. Qed.
  Lemma uenc_ty_set t l : uenc_ty S zc t (GSet l) =
    match resolve S t with
    | TySet et => uw_coll_begin (ttype_of_ty S et) (Z.of_nat (length l)) ;;; uenc_elems et l
    | _ => uwfail
    end.
  Proof. reflexivity. Qed.
  Lemma uenc_ty_map t l : uenc_ty S zc t (GMap l) =
    match resolve S t with
    | TyMap kt vt => uw_map_begin (ttype_of_ty S kt) (ttype_of_ty S vt) (Z.of_nat (length l)) ;;; uenc_pairs kt vt l
    | _ => uwfail
    end.
  Proof. reflexivity. Qed.
  Lemma uenc_ty_struct t fs unk : uenc_ty S zc t (GStruct fs unk) =
    match resolve S t with
    | TyRef n =>
        match lookup S n with
        | Some (DStruct dfs _ _) => uenc_fields dfs fs ;;; uw_unknown zc unk ;;; uw_field_stop
        | _ => uwfail
        end
    | _ => uwfail
    end.
  Proof. reflexivity. Qed.
  Lemma uenc_ty_union t id x : uenc_ty S zc t (GUnion id x) =
    match resolve S t with
    | TyRef n =>
        match lookup S n with
        | Some (DUnion vs _ _) =>
            match find_variant vs id with
            | Some vt =>
                (if is_void (resolve S vt) then uwnop else uw_field_begin (ttype_of_ty S vt) id ;;; uenc_ty S zc vt x) ;;; uw_field_stop
            | None => uwfail
            end
        | _ => uwfail
        end
    | _ => uwfail
    end.
  Proof. reflexivity. Qed.

  Lemma UWR_fail : UWR k zc (wfail) uwfail.
  Proof. intros c ss c' u H. discriminate. Qed.

  (* the binary struct frame and field end write nothing *)
  Lemma norm_struct (a b : wm) c :
    (w_struct_begin PBinary ;; a ;; b ;; w_field_stop PBinary ;; w_struct_end PBinary) c = (a ;; b ;; w_byte (ttype_code TStop)) c.
  Proof.
    unfold wseq, w_field_stop, assert_no_pending_w, wseq, w_struct_begin, w_struct_end. cbn [bind app].
    destruct (a c) as [[s1 c1]| |]; cbn [bind]; auto. destruct (b c1) as [[s2 c2]| |]; cbn [bind]; auto.
    destruct (w_byte (ttype_code TStop) c2) as [[s3 c3]| |]; cbn [bind app]; auto. rewrite app_nil_r. reflexivity.
  Qed.
  Lemma norm_union (a : wm) c :
    (w_struct_begin PBinary ;; a ;; w_field_stop PBinary ;; w_struct_end PBinary) c = (a ;; w_byte (ttype_code TStop)) c.
  Proof.
    unfold wseq, w_field_stop, assert_no_pending_w, wseq, w_struct_begin, w_struct_end. cbn [bind app].
    destruct (a c) as [[s1 c1]| |]; cbn [bind]; auto.
    destruct (w_byte (ttype_code TStop) c1) as [[s3 c3]| |]; cbn [bind app]; auto. rewrite app_nil_r. reflexivity.
  Qed.
  Lemma norm_field (a b : wm) c : (a ;; b ;; w_field_end PBinary) c = (a ;; b) c.
  Proof.
    unfold wseq, w_field_end, assert_no_pending_w. destruct (a c) as [[s1 c1]| |]; cbn [bind]; auto.
    destruct (b c1) as [[s2 c2]| |]; cbn [bind]; auto. rewrite app_nil_r. reflexivity.
  Qed.
  Lemma norm_void c : (w_struct_begin PBinary ;; w_struct_end PBinary) c = wnop c.
  Proof. reflexivity. Qed.

  Lemma UWR_bwl b : UWR k zc (w_bytes_without_len k b) (uw_bytes_without_len zc b).
  Proof.
    intros c ss c' u Hw Hk Hf. unfold w_bytes_without_len in Hw. unfold uw_bytes_without_len.
    destruct k as [|z]; cbn [kind_ok] in Hk.
    - destruct (uw_room_tr u) as [rt|] eqn:Er; [|congruence].
      apply (UWR_buf BContig zc b c ss c' u Hw); cbn [kind_ok]; [congruence|exact Hf].
    - destruct Hk as [Er ->]. rewrite Er.
      destruct zc.
      + destruct (zero_copy_threshold <=? Z.of_nat (length b)); cbn [andb].
        * injection Hw as <- <-. eexists. split; [reflexivity|]. split.
          -- repeat split; cbn [uw_room uw_room_tr uw_zc copy_len zc_len fold_right length]; try lia; rewrite Er; [reflexivity|congruence].
          -- cbn [kind_ok uw_room_tr]. auto.
        * apply (UWR_buf (BLinked true) true b c ss c' u Hw); [cbn [kind_ok]; auto|exact Hf].
      + cbn [andb]. apply (UWR_buf (BLinked false) false b c ss c' u Hw); [cbn [kind_ok]; auto|exact Hf].
  Qed.

  Lemma UWR_unknown unk : UWR k zc (w_unknown k unk) (uw_unknown zc unk).
  Proof.
    induction unk as [|c r IH]; [apply UWR_nop|]. cbn [w_unknown uw_unknown fold_right].
    apply UWR_seq; [apply UWR_bwl|exact IH].
  Qed.

  Theorem uenc_UWR : forall v t, UWR k zc (enc_ty S PBinary k t v) (uenc_ty S zc t v).
  Proof.
    induction v as [b|z|z|z|z|z|l|l| |z|l HF|l HF|l HF|fs unk HF|id x IH|u] using gval_ind'; intros t.
    - cbn [enc_ty uenc_ty]. destruct (resolve S t); try apply UWR_fail. apply UWR_bool.
    - cbn [enc_ty uenc_ty]. destruct (resolve S t); try apply UWR_fail. apply UWR_i8.
    - cbn [enc_ty uenc_ty]. destruct (resolve S t); try apply UWR_fail. apply UWR_i16.
    - cbn [enc_ty uenc_ty]. destruct (resolve S t); try apply UWR_fail. apply UWR_i32.
    - cbn [enc_ty uenc_ty]. destruct (resolve S t); try apply UWR_fail. apply UWR_i64.
    - cbn [enc_ty uenc_ty]. destruct (resolve S t); try apply UWR_fail. apply UWR_double.
    - cbn [enc_ty uenc_ty]. destruct (resolve S t); try apply UWR_fail; apply UWR_bytes.
    - cbn [enc_ty uenc_ty]. destruct (resolve S t); try apply UWR_fail. apply UWR_uuid.
    - cbn [enc_ty uenc_ty]. destruct (resolve S t); try apply UWR_fail.
      eapply UWR_ext; [apply norm_void|apply UWR_nop].
    - cbn [enc_ty uenc_ty]. destruct (resolve S t); try apply UWR_fail.
      destruct (lookup S n) as [[| | |]|]; try apply UWR_fail. apply UWR_i32.
    - rewrite enc_ty_list, uenc_ty_list. destruct (resolve S t); try apply UWR_fail.
      apply UWR_seq; [apply UWR_coll_begin|].
      induction HF as [|x r Hx Hr IHr]; [apply UWR_nop|]. rewrite enc_elems_cons. cbn [uenc_elems].
      apply UWR_seq; [apply Hx|exact IHr].
    - rewrite enc_ty_set, uenc_ty_set. destruct (resolve S t); try apply UWR_fail.
      apply UWR_seq; [apply UWR_coll_begin|].
      induction HF as [|x r Hx Hr IHr]; [apply UWR_nop|]. rewrite enc_elems_cons. cbn [uenc_elems].
      apply UWR_seq; [apply Hx|exact IHr].
    - rewrite enc_ty_map, uenc_ty_map. destruct (resolve S t); try apply UWR_fail.
      apply UWR_seq; [apply UWR_map_begin|].
      induction HF as [|[a b] r [Ha Hb] Hr IHr]; [apply UWR_nop|]. rewrite enc_pairs_cons. cbn [uenc_pairs]. cbn [fst snd] in *.
      apply UWR_seq; [apply UWR_seq; [apply Ha|apply Hb]|exact IHr].
    - rewrite enc_ty_struct, uenc_ty_struct. destruct (resolve S t); try apply UWR_fail.
      destruct (lookup S n) as [[dfs kp ia| | |]|]; try apply UWR_fail.
      eapply UWR_ext; [apply norm_struct|].
      apply UWR_seq; [apply UWR_seq; [|apply UWR_unknown]|apply UWR_byte].
      induction HF as [|[id x] r Hx Hr IHr]; [apply UWR_nop|]. rewrite enc_fields_cons. cbn [uenc_fields]. cbn [snd] in Hx.
      destruct (find_field dfs id) as [fl|]; [|apply UWR_fail].
      apply UWR_seq; [|exact IHr]. unfold enc_field, uenc_field.
      destruct (is_void (resolve S (f_ty fl))); [apply UWR_nop|].
      eapply UWR_ext; [apply norm_field|]. apply UWR_seq; [apply UWR_field_begin|apply Hx].
    - rewrite enc_ty_union, uenc_ty_union. destruct (resolve S t); try apply UWR_fail.
      destruct (lookup S n) as [[|vs vo kp| |]|]; try apply UWR_fail.
      destruct (find_variant vs id) as [vt|]; [|apply UWR_fail].
      eapply UWR_ext; [apply norm_union|]. apply UWR_seq; [|apply UWR_byte].
      destruct (is_void (resolve S vt)); [apply UWR_nop|].
      eapply UWR_ext; [apply norm_field|]. apply UWR_seq; [apply UWR_field_begin|apply IH].
    - cbn [enc_ty uenc_ty]. destruct (resolve S t); try apply UWR_fail.
      destruct (lookup S n) as [[|vs vo [|]| |]|]; try apply UWR_fail.
      eapply UWR_ext; [apply norm_union|]. apply UWR_seq; [apply UWR_bwl|apply UWR_byte].
  Qed.
End UWGen.

(* a contiguous buffer never receives a zero-copy node from the emitted encoder either *)
Lemma nonode_fail : nonode (@wfail).
Proof. intros c ss c' H. discriminate. Qed.
Lemma nonode_bwl b : nonode (w_bytes_without_len BContig b).
Proof. intros c ss c' H. unfold w_bytes_without_len in H. injection H as <- _. reflexivity. Qed.

Lemma enc_contig_nonode S : forall v t, nonode (enc_ty S PBinary BContig t v).
Proof.
  induction v as [b|z|z|z|z|z|l|l| |z|l HF|l HF|l HF|fs unk HF|id x IH|u] using gval_ind'; intros t.
  1-6,8: cbn [enc_ty]; destruct (resolve S t); try apply nonode_fail; apply nonode_ret.
  - cbn [enc_ty]. destruct (resolve S t); try apply nonode_fail; unfold w_bytes; (apply nonode_seq; [apply nonode_ret|apply nonode_bwl]).
  - cbn [enc_ty]. destruct (resolve S t); try apply nonode_fail. eapply nonode_ext; [apply norm_void|apply nonode_nop].
  - cbn [enc_ty]. destruct (resolve S t); try apply nonode_fail. destruct (lookup S n) as [[| | |]|]; try apply nonode_fail. apply nonode_ret.
  - rewrite enc_ty_list. destruct (resolve S t); try apply nonode_fail.
    apply nonode_seq; [cbn [w_coll_begin]; apply nonode_seq; apply nonode_ret|].
    induction HF as [|x r Hx Hr IHr]; [apply nonode_nop|]. rewrite enc_elems_cons. apply nonode_seq; [apply Hx|exact IHr].
  - rewrite enc_ty_set. destruct (resolve S t); try apply nonode_fail.
    apply nonode_seq; [cbn [w_coll_begin]; apply nonode_seq; apply nonode_ret|].
    induction HF as [|x r Hx Hr IHr]; [apply nonode_nop|]. rewrite enc_elems_cons. apply nonode_seq; [apply Hx|exact IHr].
  - rewrite enc_ty_map. destruct (resolve S t); try apply nonode_fail.
    apply nonode_seq; [cbn [w_map_begin]; apply nonode_seq; [apply nonode_seq|]; apply nonode_ret|].
    induction HF as [|[a b] r [Ha Hb] Hr IHr]; [apply nonode_nop|]. rewrite enc_pairs_cons. cbn [fst snd] in *.
    apply nonode_seq; [apply nonode_seq; [apply Ha|apply Hb]|exact IHr].
  - rewrite enc_ty_struct. destruct (resolve S t); try apply nonode_fail.
    destruct (lookup S n) as [[dfs kp ia| | |]|]; try apply nonode_fail.
    eapply nonode_ext; [apply norm_struct|].
    apply nonode_seq; [apply nonode_seq|apply nonode_ret].
    + induction HF as [|[id x] r Hx Hr IHr]; [apply nonode_nop|]. rewrite enc_fields_cons. cbn [snd] in Hx.
      destruct (find_field dfs id) as [fl|]; [|apply nonode_fail].
      apply nonode_seq; [|exact IHr]. unfold enc_field. destruct (is_void (resolve S (f_ty fl))); [apply nonode_nop|].
      eapply nonode_ext; [apply norm_field|]. apply nonode_seq; [apply nonode_ret|apply Hx].
    + induction unk as [|c r IHr]; [apply nonode_nop|]. cbn [w_unknown fold_right]. apply nonode_seq; [apply nonode_bwl|exact IHr].
  - rewrite enc_ty_union. destruct (resolve S t); try apply nonode_fail.
    destruct (lookup S n) as [[|vs vo kp| |]|]; try apply nonode_fail.
    destruct (find_variant vs id) as [vt|]; [|apply nonode_fail].
    eapply nonode_ext; [apply norm_union|]. apply nonode_seq; [|apply nonode_ret].
    destruct (is_void (resolve S vt)); [apply nonode_nop|].
    eapply nonode_ext; [apply norm_field|]. apply nonode_seq; [apply nonode_ret|apply IH].
  - cbn [enc_ty]. destruct (resolve S t); try apply nonode_fail.
    destruct (lookup S n) as [[|vs vo [|]| |]|]; try apply nonode_fail.
    eapply nonode_ext; [apply norm_union|]. apply nonode_seq; [apply nonode_bwl|apply nonode_ret].
Qed.

(* ================= C11 at the generated level ================= *)
(* Writer.  Whatever value the emitted encoder accepts over the checked binary writer (retained chunks included), on a
   transport set up as the contract prescribes -- a BytesMut pre-sized to [cap] initialised bytes, or a LinkedBytes with
   [cap] bytes of spare capacity, zero-copy on or off -- with [cap] at least the number of bytes of the encoding, the
   emitted encoder over the UNCHECKED writer produces exactly the same segments (same bytes, same zero-copy nodes),
   never writes outside its window, uses exactly the copied bytes of its room and, on a contiguous transport, ends with
   index() = bytes written *)
Theorem gen_unchecked_write_eq S k zc t v ss c' cap :
  (match k with BContig => True | BLinked z => z = zc end) ->
  enc_ty S PBinary k t v w0 = Ok (ss, c') ->
  Z.of_nat (length (flat ss)) <= cap ->
  exists u', uenc_ty S zc t v (match k with BContig => uw_contig cap | BLinked _ => uw_linked cap end) = Ok (ss, u') /\
    uw_room u' = cap - copy_len ss /\ uw_zc u' = zc_len ss /\
    (k = BContig -> uw_idx u' = Z.of_nat (length (flat ss))).
Proof.
  intros Hk Hw Hcap. pose proof (flat_len ss) as FL. pose proof (zc_len_nonneg ss) as Hz.
  destruct k as [|z].
  - destruct (uenc_UWR S BContig zc v t w0 ss c' (uw_contig cap) Hw) as (u' & E & (A1 & A2 & A3 & A4) & _).
    + cbn. congruence.
    + split; cbn [uw_contig uw_room uw_room_tr]; [lia|]. intros rt H. injection H as <-. lia.
    + exists u'. split; [exact E|]. cbn [uw_contig uw_room uw_zc uw_idx uw_room_tr] in *.
      split; [lia|]. split; [lia|]. intros _. rewrite A4 by congruence.
      pose proof (enc_contig_nonode S v t _ _ _ Hw). lia.
  - subst z. destruct (uenc_UWR S (BLinked zc) zc v t w0 ss c' (uw_linked cap) Hw) as (u' & E & (A1 & A2 & A3 & A4) & _).
    + cbn. auto.
    + split; cbn [uw_linked uw_room uw_room_tr]; [lia|]. intros rt H. discriminate.
    + exists u'. split; [exact E|]. cbn [uw_linked uw_room uw_zc] in *. split; [lia|]. split; [lia|]. intros H. discriminate.
Qed.

(* ... in particular into a window of exactly size() bytes (C04 / C13_size: size() = bytes written) *)
Theorem gen_unchecked_write_sized S k zc t v b :
  (match k with BContig => True | BLinked z => z = zc end) -> KeepSpec.uuids_ok v = true ->
  gen_encode S PBinary k t v = Ok b ->
  exists n ss u',
    gen_size S PBinary t v = Ok n /\ n = Z.of_nat (length b) /\ flat ss = b /\
    uenc_ty S zc t v (match k with BContig => uw_contig n | BLinked _ => uw_linked n end) = Ok (ss, u') /\
    uw_room u' = zc_len ss /\ (k = BContig -> uw_room u' = 0 /\ uw_idx u' = n).
Proof.
  intros Hk Hu He. pose proof (KeepSizeP.keep_size_exact S PBinary k t v b ltac:(discriminate) Hu He) as Hs.
  unfold gen_encode in He. destruct (enc_ty S PBinary k t v w0) as [[ss c']| |] eqn:E; cbn [bind] in He; try discriminate.
  injection He as <-.
  destruct (gen_unchecked_write_eq S k zc t v ss c' (Z.of_nat (length (flat ss))) Hk E ltac:(lia)) as (u' & Eu & Hr & Hz & Hi).
  pose proof (flat_len ss) as FL.
  exists (Z.of_nat (length (flat ss))), ss, u'. split; [exact Hs|]. split; [reflexivity|]. split; [reflexivity|].
  split; [exact Eu|]. split; [lia|]. intros Hc. split; [|apply Hi, Hc].
  subst k. pose proof (enc_contig_nonode S v t _ _ _ E). lia.
Qed.

(* Reader.  On EVERY input on which the emitted decoder over the checked binary reader returns a value -- plain build
   (kb = false) or keep build (kb = true: retained chunks through get_bytes), unknown fields skipped by the iterative
   skipper -- the emitted decoder over the unchecked reader returns the same value, never reads outside its window, and
   its cursor stands exactly where the checked reader stopped.  [K]: turns the iterative skipper's loop needs (the loop
   has no bound in the code) *)
Theorem gen_unchecked_read_eq kb S f t l rcx v s' :
  gen_cdecode kb S f t (mkS l rcx) = Ok (v, s') ->
  exists K u', (forall fk, (K <= fk)%nat -> gen_udecode kb S fk f t (mkU l 0) = Ok (v, u')) /\
               urest u' = rbuf s' /\ (uidx u' <= length (ubuf u'))%nat.
Proof.
  intros H. assert (R : RU (mkS l rcx) (mkU l 0)) by (split; [reflexivity|cbn; lia]).
  pose proof (gen_udecode_sim kb S f t _ _ R) as Hs. rewrite H in Hs. cbn [usimK] in Hs.
  destruct Hs as (K & u' & E & [Rb Ri]). exists K, u'. split; [exact E|]. split; [symmetry; exact Rb|exact Ri].
Qed.

(* non-vacuity: the keep-build reader of KeepTopP (struct Top keeps; nested Sub keeps; union U keeps) on a message with
   unknown fields at top level, in the nested struct and as the union's only field: the unchecked decoder (iterative
   skipper + get_bytes) returns the value of the checked one, retained chunks included, with the cursor at the end;
   the unchecked encoder writes the checked bytes into a window of exactly size() bytes, and with one byte less it would
   write outside (the outcome the theorems exclude) *)
Definition kbytes : list byte :=
  Eval vm_compute in (match write_val PBinary BContig KeepTopP.tvk w0 with Ok (ss, _) => flat ss ++ [xff] | _ => [] end).
Definition kval : gval :=
  Eval vm_compute in (match gen_cdecode true KeepTopP.Rk 40 (TyRef 0) (mkS kbytes r0) with Ok (v, _) => v | _ => GVoid end).

Example gen_unchecked_nonvacuous :
  (exists ss, write_val PBinary BContig KeepTopP.tvk w0 = Ok (ss, w0) /\ kbytes = flat ss ++ [xff]) /\
  gen_cdecode true KeepTopP.Rk 40 (TyRef 0) (mkS kbytes r0) = Ok (kval, mkS [xff] r0) /\
  KeepSpec.chunks_of kval <> [] /\
  (exists u', gen_udecode true KeepTopP.Rk 60 40 (TyRef 0) (mkU kbytes 0) = Ok (kval, u') /\ urest u' = [xff]) /\
  (exists K u', forall fk, (K <= fk)%nat -> gen_udecode true KeepTopP.Rk fk 40 (TyRef 0) (mkU kbytes 0) = Ok (kval, u')) /\
  exists b n, gen_encode KeepTopP.Rk PBinary BContig (TyRef 0) kval = Ok b /\
              gen_size KeepTopP.Rk PBinary (TyRef 0) kval = Ok n /\ n = Z.of_nat (length b) /\
              (exists ss' u', uenc_ty KeepTopP.Rk false (TyRef 0) kval (uw_contig n) = Ok (ss', u') /\ flat ss' = b /\
                              uw_room u' = 0 /\ uw_idx u' = n) /\
              uenc_ty KeepTopP.Rk false (TyRef 0) kval (uw_contig (n - 1)) = Panic SOob.
Proof.
  split; [eexists; split; vm_compute; reflexivity|].
  assert (Hc : gen_cdecode true KeepTopP.Rk 40 (TyRef 0) (mkS kbytes r0) = Ok (kval, mkS [xff] r0)) by (vm_compute; reflexivity).
  split; [exact Hc|]. split; [vm_compute; discriminate|].
  split; [eexists; split; vm_compute; reflexivity|].
  split.
  { destruct (gen_unchecked_read_eq true KeepTopP.Rk 40 (TyRef 0) _ r0 _ _ Hc) as (K & u' & E & _). exists K, u'. exact E. }
  eexists _, _. split; [vm_compute; reflexivity|]. split; [vm_compute; reflexivity|]. split; [vm_compute; reflexivity|].
  split; [eexists _, _; split; [vm_compute; reflexivity|split; [vm_compute; reflexivity|split; vm_compute; reflexivity]]|].
  vm_compute. reflexivity.
Qed.

Theorem gen_unchecked_read_simulation kb S f t s u v s' :
  RU s u -> gen_cdecode kb S f t s = Ok (v, s') ->
  exists K u', (forall fk, (K <= fk)%nat -> gen_udecode kb S fk f t u = Ok (v, u')) /\ RU s' u'.
Proof.
  intros HR H. pose proof (gen_udecode_sim kb S f t s u HR) as Hs. rewrite H in Hs. exact Hs.
Qed.
