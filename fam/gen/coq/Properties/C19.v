(* C19 -- a failed decode releases everything it allocated (Thrift half: the decoders pilota-build emits).
   Model: Own.v, the decode templates with a ghost list [leaked] of the values that were constructed and will
   never be dropped; Rust drops whatever is owned on every `?`, so the ghost can only grow at the sites of the
   regenerated unsafe inventory of the templates -- there is exactly one, the sync list arm
   (Vec::with_capacity; ptr.offset(i).write(elem?); set_len after the loop).  Statements only; lemmas in
   Proofs/OwnP.v.  [own_decode md A S p fuel t s] : (outcome, leaked); md = MSync / MAsync are the two template
   instances (decode / decode_async); p ranges over binary, binary-LE, compact; the input state [s] ranges over
   ALL byte strings (every truncation and every corruption is an instance) and all reader contexts. *)
From PV Require Import Thrift.AppMsg.
From PVGen Require Import Gen GenSpec GenKeep GenAsync Own Proofs.OwnP.
Open Scope Z_scope.

(* tie to the source: the unsafe / set_len / as_mut_ptr / mem::forget / from_raw_parts counts regenerated from
   pilota-build/src/codegen/thrift/ty.rs on every run are the sites this model accounts for; a new site in the
   templates makes this theorem fail to compile *)
Theorem C19_inventory : inventory_sites = own_sites.
Proof. exact inventory_accounted. Qed.
Print Assumptions C19_inventory.

(* erasing the ghost gives back the emitted decoders (so the outcomes below are those of C02 / C09 / C12) *)
Theorem C19_erase_sync : forall A S p f t s, fst (own_decode MSync A S p f t s) = gen_decode S p f t s.
Proof. exact own_proj_sync. Qed.
Print Assumptions C19_erase_sync.

Theorem C19_erase_async : forall A S p f t s, fst (own_decode MAsync A S p f t s) = gen_decode_async S p f t s.
Proof. exact own_proj_async. Qed.
Print Assumptions C19_erase_async.

(* a decode that succeeds leaks nothing (the value owns everything that was built) *)
(* NOTE (scope of the next statement and of C19_no_leak_async): both hold BY CONSTRUCTION of the model -- the only clause of Own.v
   that adds to the ghost list is the element loop of the SYNC list arm, taken on a failure (obind_leak with a non-empty [extra]);
   a successful run and every async run never reach it.  They say that the MODEL has no other leak clause, not that the emitted
   code has no other leak: that part is the inventory (C19_inventory, C19_template_inventory below: every unsafe block / raw-pointer
   operation of the emitted text, as a regenerated list) plus Rust's drop semantics for safe code (trusted), plus the measurement
   (pv/props/c19.py: live bytes after every failed decode, compared with the model's prediction in both directions). *)
Theorem C19_ok_no_leak : forall md A S p f t s x,
  fst (own_decode md A S p f t s) = Ok x -> snd (own_decode md A S p f t s) = [].
Proof. exact own_ok_no_leak. Qed.
Print Assumptions C19_ok_no_leak.

(* FULL STATEMENT (refuted below):  forall S t p f s, failed (fst (own_decode MSync A S p f t s)) ->
                                     snd (own_decode MSync A S p f t s) = [].
   Proved part: every schema and type from which no list with a Drop-needing element type can be reached
   (no_heap_list: string, binary, containers, structs / unions holding them, recursive types); every protocol,
   every input, every reader context, every fuel -- failing or not, nothing is leaked.  What is missing is exactly
   the class of finding F-19a. *)
Theorem C19_no_leak_partial : forall A S t, no_heap_list A S t ->
  forall p f s, snd (own_decode MSync A S p f t s) = [].
Proof. exact no_leak_partial. Qed.
Print Assumptions C19_no_leak_partial.

(* decidable form of the hypothesis *)
Theorem C19_no_heap_list_decidable : forall A S t, no_heap_list_b A S t = true -> no_heap_list A S t.
Proof. exact no_heap_list_b_sound. Qed.
Print Assumptions C19_no_heap_list_decidable.

(* the async decoders (val.push(elem?)) never leak: every schema, type, protocol, input *)
Theorem C19_no_leak_async : forall A S t p f s, snd (own_decode MAsync A S p f t s) = [].
Proof. exact no_leak_async. Qed.
Print Assumptions C19_no_leak_async.

(* the full statement is false for the emitted sync decoders: struct { 1: list<string> names }, the binary
   encoding of names = ["a"; "bbbbb"] cut inside the second string fails with an error and "a" (a slice of the
   input buffer in the real code) is never dropped -- finding F-19a *)
Theorem C19_list_leak_refuted :
  exists S t p l e, wf_schema S = true /\ fst (own_decode_top MSync [] S p t l) = Err e /\ e <> EOutOfFuel /\
                    snd (own_decode_top MSync [] S p t l) <> [].
Proof. exact list_leak_refuted. Qed.
Print Assumptions C19_list_leak_refuted.

(* what exactly is leaked by a failing sync list decode: either the list header was rejected (nothing), or the
   elements xs decoded before the failing one -- iff their type needs Drop -- after whatever the failing element
   leaked itself *)
Theorem C19_leak_exact : forall A S p f t et s,
  resolve S t = TyList et -> (blen s < Datatypes.S f)%nat ->
  failed (fst (own_decode MSync A S p (Datatypes.S f) t s)) ->
  (failed (r_coll_begin p s) /\ snd (own_decode MSync A S p (Datatypes.S f) t s) = []) \/
  exists h s0 xs sk,
    r_coll_begin p s = Ok (h, s0) /\ decodes_seq (gen_decode S p f) et s0 xs sk /\
    Z.of_nat (length xs) < snd h /\ failed (gen_decode S p f et sk) /\
    snd (own_decode MSync A S p (Datatypes.S f) t s) =
      snd (own_decode MSync A S p f et sk) ++ (if owns_heap A S et then xs else []).
Proof. exact list_leak_exact. Qed.
Print Assumptions C19_leak_exact.

(* innermost failing list: the leak is exactly the decoded prefix *)
Theorem C19_leak_exact_flat : forall A S p f t et s,
  resolve S t = TyList et -> (blen s < Datatypes.S f)%nat -> owns_heap A S et = true -> no_heap_list A S et ->
  failed (fst (own_decode MSync A S p (Datatypes.S f) t s)) ->
  (failed (r_coll_begin p s) /\ snd (own_decode MSync A S p (Datatypes.S f) t s) = []) \/
  exists h s0 xs sk,
    r_coll_begin p s = Ok (h, s0) /\ decodes_seq (gen_decode S p f) et s0 xs sk /\
    Z.of_nat (length xs) < snd h /\ failed (gen_decode S p f et sk) /\
    snd (own_decode MSync A S p (Datatypes.S f) t s) = xs.
Proof. exact list_leak_exact_flat. Qed.
Print Assumptions C19_leak_exact_flat.

(* ---------- builds with keep_unknown_fields: the sync templates with retention (GenKeep.gen_decode_keep) ---------- *)
(* Arc-wrapped members (pilota.rust_wrapper_arc): [A] lists the schema indices that stand for an `Arc<..>` box; owns_heap counts a
   box as an allocation whatever it wraps.  The marking matters: the same schema with A = [] puts list<ArcEl> in the no-leak
   class, and the emitted code leaks there (corpus document `arcl`) *)
Theorem C19_arc_member_leak :
  owns_heap [] arc_schema (TyRef 1) = false /\ owns_heap [2%nat] arc_schema (TyRef 1) = true /\
  no_heap_list_b [2%nat] arc_schema (TyList (TyRef 1)) = false /\
  (exists e x, own_decode_top MSync [2%nat] arc_schema PBinary (TyList (TyRef 1)) arc_input = (Err e, [x])) /\
  snd (own_decode_top MSync [] arc_schema PBinary (TyList (TyRef 1)) arc_input) = [].
Proof. exact arc_member_leak. Qed.
Print Assumptions C19_arc_member_leak.

(* `_unknown_fields`, the retained chunks and the `_UnknownFields` variant are owned: the only leaking clause is again
   the list arm; what changes is the set of element types that need Drop (every struct / union compiled with
   retention holds a LinkedBytes): owns_heap_keep, no_heap_list_keep *)
Theorem C19_erase_keep : forall A S p f t s, fst (own_decode_keep A S p f t s) = gen_decode_keep S p f t s.
Proof. exact own_proj_keep. Qed.
Print Assumptions C19_erase_keep.

Theorem C19_no_leak_keep_partial : forall A S t, no_heap_list_keep A S t ->
  forall p f s, snd (own_decode_keep A S p f t s) = [].
Proof. exact no_leak_keep_partial. Qed.
Print Assumptions C19_no_leak_keep_partial.

(* ---------- the message level: read_message_begin, body, read_message_end on one protocol object ---------- *)
(* own_message md kb A S p fuel b s : the envelope (PV.Thrift.Msg.r_message_begin / AppMsg.a_message_begin), then the body
   -- an emitted type [BType t] (decode, decode of a keep build [kb], decode_async) or the runtime's
   ApplicationException [BAppEx] -- with the ledger: [mo_ident] what the identifier owns while it lives (a slice of the
   input for names beyond FastStr's inline capacity read by the in-memory readers, a heap string from the async readers),
   [mo_leaked] what the body decoder never drops, [mo_retained] what objects that outlive the call still hold once
   identifier, value / error, protocol object and input have been dropped. *)

(* tie to the source: the regenerated inventory of process-wide / thread-local retention sites of pilota/src/thrift
   (static, thread_local!, OnceLock / OnceCell / LazyLock / Lazy, lazy_static!, Box::leak, mem::forget, ManuallyDrop)
   is the list the model accounts for, each with a valid reason why it cannot retain anything; a new table, pool or
   cache in the Thrift runtime makes this theorem fail to compile *)
Theorem C19_retention_inventory :
  map fst accounted_retain_sites = retain_sites /\ forallb inert_justified accounted_retain_sites = true /\
  retain_flags = map site_retains retain_sites.
Proof. exact (conj retention_inventory_accounted (conj retention_inventory_justified retain_flags_projection)). Qed.
Print Assumptions C19_retention_inventory.

(* whatever the envelope and the body do, on every input: nothing the identifier held survives it *)
Theorem C19_message_ident_released : forall md kb A S p fuel b s,
  mo_retained (own_message md kb A S p fuel b s) = [].
Proof. exact message_ident_released. Qed.
Print Assumptions C19_message_ident_released.

(* FULL STATEMENT: forall md kb S p fuel b s, mo_leaked (own_message ..) = [] /\ mo_retained (own_message ..) = [].
   Proved part: every body outside the class of F-19a (body_no_heap_list: ApplicationException, every async decoder,
   sync decoders of types from which no list with a Drop-needing element type is reachable), every protocol, every
   input (all truncations and corruptions of envelope and body), every reader context.  Missing: the class of F-19a,
   where the body decoder itself leaks (C19_message_leak_is_body_leak: exactly what C19_leak_exact describes). *)
Theorem C19_message_no_leak_partial : forall md kb A S p fuel b s, body_no_heap_list md kb A S b ->
  mo_leaked (own_message md kb A S p fuel b s) = [] /\ mo_retained (own_message md kb A S p fuel b s) = [].
Proof. exact message_no_leak_partial. Qed.
Print Assumptions C19_message_no_leak_partial.

Theorem C19_message_leak_is_body_leak : forall md kb A S p fuel b s id s1,
  m_message_begin md p s = Ok (id, s1) ->
  mo_leaked (own_message md kb A S p fuel b s) = snd (own_body md kb A S p fuel b s1) /\
  mo_ident (own_message md kb A S p fuel b s) = name_holds md (m_name id).
Proof. exact message_leak_is_body_leak. Qed.
Print Assumptions C19_message_leak_is_body_leak.

(* erasing the ghosts gives read_message_begin followed by the emitted decoder *)
Theorem C19_message_erase_sync : forall A S p fuel t s,
  mo_outcome (own_message MSync false A S p fuel (BType t) s) =
  (let* (id, s1) := r_message_begin p s in let* (v, s2) := gen_decode S p fuel t s1 in Ok (id, v, s2)).
Proof. exact message_erase_sync. Qed.
Print Assumptions C19_message_erase_sync.

Theorem C19_message_erase_async : forall A S kb p fuel t s,
  mo_outcome (own_message MAsync kb A S p fuel (BType t) s) =
  (let* (id, s1) := a_message_begin p s in let* (v, s2) := gen_decode_async S p fuel t s1 in Ok (id, v, s2)).
Proof. exact message_erase_async. Qed.
Print Assumptions C19_message_erase_async.

(* ---------------------------------------------------------------------------------------------------------------
   Inventory of the emitted text, as LISTS (the five counters of C19_inventory cover ty.rs only): every `unsafe`, set_len, as_mut_ptr,
   as_ptr, pointer offset / write, from_raw_parts, get_bytes, mem::forget, ManuallyDrop, Box::leak, transmute in the string literals of
   pilota-build/src/codegen/thrift/*.rs (ty.rs, mod.rs -- the retention templates --, decode_helper.rs) and in the `fn get_bytes` bodies
   of the runtime readers those templates hand a raw pointer to, as (file, generator function, kind, line text), regenerated on every
   run (tools/gen_template_inventory.py -> Generated/TemplateSites.v).  TemplateAcc.accounted_own_sites gives each a disposition from a
   closed enumeration; the only sites that can lose a value are the ones of ty.rs (OListArm = Own.own_elems with raw = true). *)
From Coq Require Import String Bool.
From PVGen Require Import Generated.TemplateSites TemplateAcc Proofs.TemplateAccP.
Theorem C19_template_inventory :
  map fst accounted_own_sites = template_own_sites /\
  forallb (fun sr => if String.eqb (file_of (fst sr)) "ty.rs" then odisp_eqb (snd sr) OListArm else negb (odisp_eqb (snd sr) OListArm))
          accounted_own_sites = true.
Proof. exact template_own_inventory. Qed.
Print Assumptions C19_template_inventory.
