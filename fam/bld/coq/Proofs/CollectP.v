(* Lemmas about Collect.v (C17): collect_items computes exactly the items reachable from its roots (so the SET of generated items does
   not depend on the order of the roots); the insertion history -- hence, through the fixed-seed set's iteration order, the emission
   ORDER -- does depend on it, which is why the roots must come out of an insertion-ordered container. *)
From Coq Require Import List Bool Arith Lia Permutation.
From PVBld Require Import Collect Pipeline.
Import ListNotations.

Lemma memn_in d l : memn d l = true <-> In d l.
Proof.
  unfold memn. rewrite existsb_exists. split.
  - intros [x [H Q]]. apply Nat.eqb_eq in Q. now subst.
  - intros H. exists d. split; [assumption|apply Nat.eqb_refl].
Qed.

Lemma memn_false d l : memn d l = false <-> ~ In d l.
Proof. rewrite <- memn_in. destruct (memn d l); split; congruence. Qed.

Lemma filter_len_le2 {A} (p q : A -> bool) l :
  (forall x, In x l -> p x = true -> q x = true) -> length (filter p l) <= length (filter q l).
Proof.
  induction l as [|a l IH]; intros H; cbn; [lia|].
  assert (IH' : length (filter p l) <= length (filter q l)) by (apply IH; intros; apply H; cbn; auto).
  destruct (p a) eqn:Pa.
  - rewrite (H a (or_introl eq_refl) Pa). cbn. lia.
  - destruct (q a); cbn; lia.
Qed.

Lemma filter_len_lt2 {A} (p q : A -> bool) l a :
  (forall x, In x l -> p x = true -> q x = true) -> In a l -> p a = false -> q a = true ->
  length (filter p l) < length (filter q l).
Proof.
  induction l as [|b l IH]; intros H I Pa Qa; [destruct I|]. cbn.
  assert (Hl : forall x, In x l -> p x = true -> q x = true) by (intros; apply H; cbn; auto).
  destruct I as [->|I].
  - rewrite Pa, Qa. cbn. pose proof (filter_len_le2 p q l Hl). lia.
  - specialize (IH Hl I Pa Qa). destruct (p b) eqn:Pb.
    + rewrite (H b (or_introl eq_refl) Pb). cbn. lia.
    + destruct (q b); cbn; lia.
Qed.

Lemma filter_len_all {A} (p : A -> bool) l : length (filter p l) <= length l.
Proof. induction l as [|a l IH]; cbn; [lia|]. destruct (p a); cbn; lia. Qed.

Lemma nodup_app {A} (a b : list A) : NoDup a -> NoDup b -> (forall x, In x a -> In x b -> False) -> NoDup (a ++ b).
Proof.
  induction a as [|x a IH]; intros Na Nb D; cbn; [assumption|]. inversion Na as [|? ? N1 N2]; subst. constructor.
  - intros H. apply in_app_or in H. destruct H as [H|H]; [contradiction|]. apply (D x); [now left|assumption].
  - apply IH; [assumption|assumption|]. intros y Ha Hb. apply (D y); [now right|assumption].
Qed.

Section Spec.
  Variable succs : nat -> list nat.
  Variable U : list nat.                                   (* the items of the document *)
  Hypothesis Hclosed : forall d c, In d U -> In c (succs d) -> In c U.

  Definition mu (h : list nat) : nat := length (filter (fun x => negb (memn x h)) U).

  Lemma mu_mono h new : mu (h ++ new) <= mu h.
  Proof.
    unfold mu. apply filter_len_le2. intros x _ H. apply negb_true_iff in H. apply negb_true_iff.
    apply memn_false in H. apply memn_false. intros I. apply H. apply in_or_app. now left.
  Qed.

  Lemma mu_push h d : In d U -> ~ In d h -> mu (h ++ [d]) < mu h.
  Proof.
    intros I N. unfold mu. apply filter_len_lt2 with (a := d); [|assumption| |].
    - intros x _ H. apply negb_true_iff in H. apply negb_true_iff.
      apply memn_false in H. apply memn_false. intros J. apply H. apply in_or_app. now left.
    - apply negb_false_iff. apply memn_in. apply in_or_app. right. now left.
    - apply negb_true_iff. now apply memn_false.
  Qed.

  (* what one call adds *)
  Record added (h : list nat) (from : list nat) (h' : list nat) : Prop := {
    ad_new : exists new, h' = h ++ new /\
               (forall x, In x new -> In x U /\ ~ In x h /\ (forall c, In c (succs x) -> In c h') /\
                                      exists r, In r from /\ reaches succs r x) /\
               NoDup new;
    ad_roots : forall r, In r from -> In r h' }.

  Lemma added_nil h : added h [] h.
  Proof.
    constructor; [|intros r []]. exists []. rewrite app_nil_r. split; [reflexivity|]. split; [intros x []|constructor].
  Qed.

  (* sequencing two calls *)
  Lemma added_seq h f1 h1 f2 h2 : added h f1 h1 -> added h1 f2 h2 -> added h (f1 ++ f2) h2.
  Proof.
    intros [[n1 [E1 [P1 D1]]] R1] [[n2 [E2 [P2 D2]]] R2]. subst h1 h2. constructor.
    - exists (n1 ++ n2). split; [now rewrite app_assoc|]. split.
      + intros x Hx. apply in_app_or in Hx. destruct Hx as [Hx|Hx].
        * destruct (P1 x Hx) as [A [B [C [r [Hr Rr]]]]]. split; [assumption|]. split; [assumption|]. split.
          { intros c Hc. apply in_or_app. left. now apply C. }
          { exists r. split; [apply in_or_app; now left|assumption]. }
        * destruct (P2 x Hx) as [A [B [C [r [Hr Rr]]]]]. split; [assumption|]. split.
          { intros I. apply B. apply in_or_app. now left. }
          split; [assumption|]. exists r. split; [apply in_or_app; now right|assumption].
      + apply nodup_app; [assumption|assumption|].
        intros x H1 H2. destruct (P2 x H2) as [_ [B _]]. apply B. apply in_or_app. now right.
    - intros r Hr. apply in_app_or in Hr. destruct Hr as [Hr|Hr]; [|now apply R2].
      apply in_or_app. left. now apply R1.
  Qed.

  Lemma visit_spec fuel :
    forall d h, In d U -> mu h < fuel -> added h [d] (visit succs fuel d h).
  Proof.
    induction fuel as [|f IH]; intros d h I M; [lia|]. cbn [visit].
    destruct (memn d h) eqn:Q.
    - apply memn_in in Q. constructor.
      + exists []. rewrite app_nil_r. split; [reflexivity|]. split; [intros x []|constructor].
      + intros r [<-|[]]. assumption.
    - apply memn_false in Q.
      (* the children, one after the other *)
      assert (F : forall cs h0, (forall c, In c cs -> In c U) -> mu h0 < f ->
                  added h0 cs (fold_left (fun h c => visit succs f c h) cs h0)).
      { induction cs as [|c cs IHc]; intros h0 Hc M0; cbn [fold_left]; [apply added_nil|].
        change (c :: cs) with ([c] ++ cs).
        pose proof (IH c h0 (Hc c (or_introl eq_refl)) M0) as A1.
        eapply added_seq; [exact A1|]. apply IHc; [intros; apply Hc; now right|].
        destruct A1 as [[n [E _]] _]. rewrite E. pose proof (mu_mono h0 n). lia. }
      pose proof (mu_push h d I Q) as Mp.
      destruct (F (succs d) (h ++ [d]) (fun c Hc => Hclosed d c I Hc) ltac:(lia)) as [[n [E [P D]]] R].
      constructor.
      + exists (d :: n). split; [rewrite E; now rewrite <- app_assoc|]. split.
        * intros x [<-|Hx].
          { split; [assumption|]. split; [assumption|]. split; [exact R|]. exists d. split; [now left|constructor]. }
          { destruct (P x Hx) as [A [B [C [r [Hr Rr]]]]]. split; [assumption|]. split.
            - intros J. apply B. apply in_or_app. now left.
            - split; [assumption|]. exists d. split; [now left|]. eapply reaches_step; eauto. }
        * constructor; [|assumption]. intros J. destruct (P d J) as [_ [B _]]. apply B. apply in_or_app. right. now left.
      + intros r [<-|[]]. rewrite E. apply in_or_app. left. apply in_or_app. right. now left.
  Qed.

  Lemma visit_all_spec fuel roots :
    forall h, (forall r, In r roots -> In r U) -> mu h < fuel -> added h roots (visit_all succs fuel roots h).
  Proof.
    unfold visit_all. induction roots as [|r rs IH]; intros h Hr M; cbn [fold_left]; [apply added_nil|].
    change (r :: rs) with ([r] ++ rs).
    pose proof (visit_spec fuel r h (Hr r (or_introl eq_refl)) M) as A1.
    eapply added_seq; [exact A1|]. apply IH; [intros; apply Hr; now right|].
    destruct A1 as [[n [E _]] _]. rewrite E. pose proof (mu_mono h n). lia.
  Qed.

  Lemma mu_bound h : mu h <= length U.
  Proof. unfold mu. apply filter_len_all. Qed.

  (* collect_items computes exactly the reachable items, each once *)
  Theorem collect_items_spec roots consts :
    (forall r, In r (roots ++ consts) -> In r U) ->
    let s := collect_items succs (S (length U)) roots consts in
    NoDup s /\ forall x, In x s <-> exists r, In r (roots ++ consts) /\ reaches succs r x.
  Proof.
    intros Hr s. subst s. unfold collect_items.
    assert (A : added [] (roots ++ consts) (visit_all succs (S (length U)) consts (visit_all succs (S (length U)) roots []))).
    { pose proof (mu_bound []) as B0.
      pose proof (visit_all_spec (S (length U)) roots [] (fun r H => Hr r (in_or_app _ _ _ (or_introl H))) ltac:(lia)) as A1.
      eapply added_seq; [exact A1|]. apply visit_all_spec; [intros r H; apply Hr; apply in_or_app; now right|].
      pose proof (mu_bound (visit_all succs (S (length U)) roots [])). lia. }
    destruct A as [[n [E [P D]]] R]. cbn [app] in E. rewrite E. split; [assumption|].
    intros x. split.
    - intros Hx. destruct (P x Hx) as [_ [_ [_ Q]]]. exact Q.
    - intros [r [Hr' Rx]]. assert (Ir : In r n) by (rewrite <- E; now apply R).
      clear Hr'. induction Rx as [d|d c x Hc _ IH]; [assumption|].
      apply IH. destruct (P d Ir) as [_ [_ [C _]]]. rewrite <- E. now apply C.
  Qed.
End Spec.

(* ---- C17_collect_order_free (set level) ------------------------------------------------------------------------------------------ *)
Lemma touch_roots_perm (pi : list touch_entry -> list touch_entry) touches :
  perm_fun pi -> Permutation (touch_roots (pi touches)) (touch_roots touches).
Proof. intros P. unfold touch_roots. apply Permutation_flat_map. apply P. Qed.

Theorem collect_set_order_free succs U fx_iter pi pi' input consts touches :
  (forall d c, In d U -> In c (succs d) -> In c U) ->
  (forall r, In r (input ++ touch_roots touches ++ consts) -> In r U) ->
  (forall h, Permutation (fx_iter h) h) ->
  perm_fun pi -> perm_fun pi' ->
  Permutation (codegen_items fx_iter pi succs (S (length U)) input consts touches)
              (codegen_items fx_iter pi' succs (S (length U)) input consts touches).
Proof.
  intros Hc Hr Fx P P'. unfold codegen_items.
  rewrite (Fx _), (Fx _).
  assert (G : forall p, perm_fun p -> forall r, In r ((input ++ touch_roots (p touches)) ++ consts) -> In r U).
  { intros p Pp r H. apply Hr. apply in_app_or in H. destruct H as [H|H]; [|apply in_or_app; right; apply in_or_app; now right].
    apply in_app_or in H. destruct H as [H|H]; [apply in_or_app; now left|].
    apply in_or_app. right. apply in_or_app. left.
    eapply Permutation_in; [apply touch_roots_perm; exact Pp|exact H]. }
  destruct (collect_items_spec succs U Hc (input ++ touch_roots (pi touches)) consts (G pi P)) as [N1 S1].
  destruct (collect_items_spec succs U Hc (input ++ touch_roots (pi' touches)) consts (G pi' P')) as [N2 S2].
  apply NoDup_Permutation; [assumption|assumption|]. intros x. rewrite S1, S2.
  assert (Q : forall r, In r ((input ++ touch_roots (pi touches)) ++ consts) <-> In r ((input ++ touch_roots (pi' touches)) ++ consts)).
  { intros r. rewrite !in_app_iff.
    assert (In r (touch_roots (pi touches)) <-> In r (touch_roots (pi' touches))); [|tauto].
    split; intros H; eapply Permutation_in; try exact H.
    - eapply Permutation_trans; [apply touch_roots_perm; exact P|apply Permutation_sym; apply touch_roots_perm; exact P'].
    - eapply Permutation_trans; [apply touch_roots_perm; exact P'|apply Permutation_sym; apply touch_roots_perm; exact P]. }
  split; intros [r [H R]]; exists r; (split; [now apply Q|assumption]).
Qed.

(* ---- the ORDER is not free: the insertion history depends on the order of the roots ----------------------------------------------- *)
(* two files, one touched item each, no dependencies *)
Definition two_touches : list touch_entry := [([(0, 10)], [0]); ([(0, 20)], [0])].

Lemma collect_history_order_refuted :
  exists (pi pi' : list touch_entry -> list touch_entry),
    perm_fun pi /\ perm_fun pi' /\
    codegen_items (fun h => h) pi (fun _ => []) 3 [] [] two_touches = [10; 20] /\
    codegen_items (fun h => h) pi' (fun _ => []) 3 [] [] two_touches = [20; 10].
Proof.
  exists (fun l => l), (@rev touch_entry). split; [intros l; apply Permutation_refl|].
  split; [intros l; apply Permutation_sym, Permutation_rev|]. split; reflexivity.
Qed.

(* non-vacuity: a cycle, a shared dependency, a const that is not reachable from the roots *)
Example collect_nonvacuous :
  let succs := fun d => match d with 1 => [2; 3] | 2 => [3; 1] | 3 => [] | 4 => [3] | 5 => [6] | _ => [] end in
  collect_items succs 8 [1; 4] [5] = [1; 2; 3; 4; 5; 6] /\
  collect_items succs 8 [4; 1] [5] = [4; 3; 1; 2; 5; 6].
Proof. split; reflexivity. Qed.

(* ---- tie to the source: every iteration collect / collect_items / duplicate perform, classified ------------------------------------
   OVec     a Vec / slice: insertion order, a function of the input
   OFx      an Fx (fixed-seed) hash container: the order is a function of the insertion history (fx_iter / the list [consts])
   OSeeded  a container with a per-process seed: a permutation parameter of the model (name given) *)
From Coq Require Import String.
From PVBld Require Import Generated.CollectSites.
Open Scope string_scope.

Inductive order_kind := OVec | OFx (role : string) | OSeeded (param : string).

Definition accounted_iterations : list (string * string * order_kind) :=
  [("collect", "self.codegen_items .extend(nodes.iter().filter_map(|(k, v)| match &v.kind {", OFx "CollectMode::All: every item, in the order of the fixed-seed node map");
   ("collect", "let extra_def_ids = touches .into_iter()", OVec);
   ("collect", "s.1.into_iter()", OVec);
   ("collect", "let def_id = self .db .files() .get(&file_id) .unwrap() .items .iter()", OVec);
   ("collect", "self.input_items.extend(extra_def_ids);", OVec);
   ("collect", "self.codegen_items.extend(def_ids.iter());", OFx "fx_iter: the emission order is the iteration order of the set of used items");
   ("collect", "self.entry_map = location_map .clone() .into_iter()", OFx "workspace: location map, consumed by the group map below");
   ("collect", "self.entry_map = location_map .clone() .into_iter() .into_group_map_by(|item| item.1.clone());", OSeeded "pi_entry");
   ("collect_items", "node.related_nodes .iter()", OVec);
   ("collect_items", "rir::Item::Message(m) => m.fields.iter().for_each(|f| {", OVec);
   ("collect_items", "rir::Item::Enum(e) => e .variants .iter()", OVec);
   ("collect_items", "s.extend.iter().for_each(|p| collect(cx, p.did, set));", OVec);
   ("collect_items", "s.methods .iter()", OVec);
   ("collect_items", "s.methods .iter() .flat_map(|m| m.args.iter().map(|f| &f.ty).chain(std::iter::once(&m.ret)))", OVec);
   ("collect_items", "m.items.iter().for_each(|i| collect(cx, *i, set));", OVec);
   ("collect_items", "input.iter().for_each(|def_id| {", OVec);
   ("collect_items", "self.db.nodes().iter().for_each(|(def_id, node)| {", OFx "consts: the Const items in the order of the fixed-seed node map");
   ("duplicate", "for id in dup.iter() {", OVec)].

(* the regenerated list of iterations is the list accounted for; on the path from the touch list to the set of used items nothing
   is seeded (the only seeded container of `collect` is the workspace entry map, a parameter of Pipeline.v) *)
Lemma collect_iterations_accounted :
  map fst accounted_iterations = collect_iterations /\
  filter (fun e => match snd e with OSeeded _ => true | _ => false end) accounted_iterations =
    [("collect", "self.entry_map = location_map .clone() .into_iter() .into_group_map_by(|item| item.1.clone());", OSeeded "pi_entry")].
Proof. split; vm_compute; reflexivity. Qed.

Lemma collect_sources_pinned :
  collect_source_digests =
  [("collect", "8d67a21b642c486581fdbbfc13f1a6945f459e0a65ac95156d1fbf8cc030eca0");
   ("collect_items", "06df9151db04174e0a5908c62c0195a644c9bd90f3572aed5a89e782e720f095");
   ("duplicate", "b9e8f72201157bb26ff8dcffc626f702bba61e94a9b101ad257a909e7a5ae835");
   ("write_items", "06592b49a795b32e836eec76555a677f4c31c3afde6ba2539deafbb3856a4849");
   ("write_split_mod", "072b3c1248efcec67854b51bd050303c086af5e1d71f438ff951611166573271");
   ("generate_unique_name", "c451acab04afe72a7f9dd7b8c80c6a104b96f53ef1d59ee0a2cd575c3fe9c1cd")].
Proof. vm_compute. reflexivity. Qed.

(* split-mode file naming as Pipeline.split_items models it: names assigned in item order (a Vec), the set records the name returned,
   the helper does not touch the set, no hash-ordered iteration *)
Lemma split_naming_as_modelled : forallb (fun f : String.string * bool => snd f) split_naming_facts = true /\ List.length split_naming_facts = 4.
Proof. split; vm_compute; reflexivity. Qed.
