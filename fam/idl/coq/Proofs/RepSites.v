(* Which combinator carries each repetition: the model (Parser.v) against the source (Generated/IdlReps.v).

   The stack half of C16 rests on two facts about the SHAPE of the parser, not on what it computes:
     - every repetition (a run of blank pieces, fields, enum values, annotations, list / map elements, minus signs,
       path segments, arguments, functions, items, escaped characters) is carried by one of nom's loop combinators,
       whose native stack use does not depend on the number of iterations, and
     - the only functions that can re-enter themselves are Ty::parse <-> Type::parse and ConstValue::parse, once per
       bracket level.
   In the model the first is "the repetition is an application of a Comb.v loop combinator, which consumes LOOP fuel"
   and the second "DEPTH fuel is consumed by p_ty and p_const_value only"; C16_depth then bounds the depth fuel needed
   by the nesting alone.  A parser in which `blank` skips its pieces by calling itself computes the same results, and
   the model would still be a faithful model of its results -- but not of its stack.  So the shape is tied as well:

     model_rep_sites   for every function of the source, the number of applications of each loop combinator in the
                       bodies of the model definitions that port it.  Nothing is written by hand here but the map
                       "source function -> model definitions": the counts are computed by Ltac from the definitions
                       of Parser.v (delta-unfold the constant, count the occurrences of the combinator);
     src_rep_sites     the same inventory taken from the Rust text by tools/extract_idl.py on every run;
     src_recursive     the functions of the source that can reach themselves in the call graph.

   [rep_sites_agree] is closed by computation; it stops being provable when a repetition of the source is rewritten as
   recursion (the site disappears from src_rep_sites and the function appears in src_recursive) or as another
   combinator, and when the model is changed without the source. *)
From Coq Require Import String List Bool Arith.
From PVIdl Require Import Comb Ast Parser Generated.IdlReps.
Import ListNotations.
Open Scope string_scope.

(* markers: the same constants under another name, to count occurrences by replacing them one at a time *)
Definition many0_m := @many0.
Definition many1_m := @many1.
Definition many0_count_m := @many0_count.
Definition many_till_m := @many_till.
Definition separated_list1_m := @separated_list1.
Definition escaped_m := @escaped.
Definition many1_loop_m := @many1_loop.
Definition sep_loop_m := @sep_loop.
Definition escaped_loop_m := @escaped_loop.

Ltac count_occ c cm b :=
  lazymatch b with
  | context C [c] => let b' := context C [cm] in let n := count_occ c cm b' in constr:(S n)
  | _ => constr:(O)
  end.

Ltac body f := eval cbv delta [f] in f.

(* the bodies of a tuple of constants *)
Ltac bodies t :=
  lazymatch t with
  | (?a, ?b) => let a' := bodies a in let b' := body b in constr:((a', b'))
  | _ => body t
  end.

Ltac row name t :=
  let b := bodies t in
  let n1 := count_occ (@escaped) (@escaped_m) b in
  let n2 := count_occ (@many0) (@many0_m) b in
  let n3 := count_occ (@many0_count) (@many0_count_m) b in
  let n4 := count_occ (@many1) (@many1_m) b in
  let n5 := count_occ (@many_till) (@many_till_m) b in
  let n6 := count_occ (@separated_list1) (@separated_list1_m) b in
  (* the inner loops of Comb.v are not to be used directly *)
  let n7 := count_occ (@many1_loop) (@many1_loop_m) b in
  let n8 := count_occ (@sep_loop) (@sep_loop_m) b in
  let n9 := count_occ (@escaped_loop) (@escaped_loop_m) b in
  (* depth fuel: the constructor FDepth occurs where the definition gives up for lack of depth fuel *)
  let d := count_occ FDepth FLoop b in
  exact (name, ([("escaped", n1); ("many0", n2); ("many0_count", n3); ("many1", n4); ("many_till", n5);
                 ("separated_list1", n6); ("many1_loop", n7); ("sep_loop", n8); ("escaped_loop", n9)], d)).

(* source function -> the model definitions that port it (in the order of src_rep_sites: file, then position) *)
Definition model_counts : list (string * (list (string * nat) * nat)) :=
  [ ltac:(row "Annotations::parse" (p_annotations, p_annotation, p_annotation_key));
    ltac:(row "ConstValue::parse" p_const_value);
    ltac:(row "Constant::parse" p_constant);
    ltac:(row "IntConstant::parse" p_int_constant);
    ltac:(row "DoubleConstant::parse" (p_double_constant, p_exponent));
    ltac:(row "EnumValue::parse" p_enum_value);
    ltac:(row "Enum::parse" p_enum);
    ltac:(row "Attribute::parse" p_attribute);
    ltac:(row "Field::parse" (p_field, p_field_id));
    ltac:(row "Function::parse" p_function);
    ltac:(row "Ident::parse" p_ident);
    ltac:(row "Include::parse" p_include);
    ltac:(row "CppInclude::parse" p_cpp_include);
    ltac:(row "gen_parse_quote!" p_quote_parser);
    ltac:(row "Literal::parse" (p_literal, p_single_quote, p_double_quote));
    ltac:(row "Path::parse" (p_path, p_path_sep));
    ltac:(row "list_separator" p_list_separator);
    ltac:(row "comment" p_comment);
    ltac:(row "blank" p_blank);
    ltac:(row "alphanumeric_or_underscore" p_alphanumeric_or_underscore);
    ltac:(row "Namespace::parse" p_namespace);
    ltac:(row "Scope::parse" p_scope);
    ltac:(row "Service::parse" p_service);
    ltac:(row "Struct::parse" p_struct);
    ltac:(row "Union::parse" p_union);
    ltac:(row "Exception::parse" p_exception);
    ltac:(row "StructLike::parse" p_struct_like);
    ltac:(row "Item::parse" (p_item, p_item_keyword));
    ltac:(row "File::parse" p_file);
    ltac:(row "Type::parse" (p_type, p_type_of));
    ltac:(row "CppType::parse" p_cpp_type);
    ltac:(row "Ty::parse" (p_ty, p_base_ty));
    ltac:(row "Typedef::parse" p_typedef) ].

(* the one parser definition of Parser.v shared by several functions (tag + peek(not(alphanumeric_or_underscore))) *)
Definition model_counts_shared : list (string * (list (string * nat) * nat)) :=
  [ ltac:(row "(p_keyword)" p_keyword); ltac:(row "(parse_file)" parse_file) ].

Definition nonzero (l : list (string * nat)) : list (string * nat) :=
  filter (fun p => negb (Nat.eqb (snd p) 0)) l.

Definition model_rep_sites : list (string * list (string * nat)) :=
  map (fun r => (fst r, nonzero (fst (snd r)))) model_counts.

(* the functions of the source whose port consumes depth fuel *)
Definition model_depth_users : list string :=
  map fst (filter (fun r => negb (Nat.eqb (snd (snd r)) 0)) (model_counts ++ model_counts_shared)).

(* the loop combinators of Comb.v consume loop fuel and nothing else: out of fuel they answer [PFuel FLoop] *)
Lemma comb_loops_use_loop_fuel : forall A B (p : parser A) (q : parser B) c i,
  many0 0 p i = PFuel FLoop /\ many1_loop 0 p i = PFuel FLoop /\ many0_count 0 p i = PFuel FLoop /\
  many_till 0 p q i = PFuel FLoop /\ sep_loop 0 q p i = PFuel FLoop /\ escaped_loop 0 p c q i i = PFuel FLoop.
Proof. intros. repeat split. Qed.

(* where the depth fuel goes: p_ty and p_const_value give up at 0, Type::parse is p_ty wrapped *)
Lemma depth_fuel_sites : forall lf df i,
  p_ty lf 0 i = PFuel FDepth /\ p_const_value lf 0 i = PFuel FDepth /\ p_type lf df = p_type_of lf (p_ty lf df).
Proof. intros. repeat split. Qed.

Definition all_loops (l : list (string * bool)) : bool := forallb snd l.

Theorem rep_sites_agree :
  (* every function of the source: the same loop combinators, the same number of times, as its port *)
  src_rep_sites = model_rep_sites /\
  (* no model definition outside the map uses a loop combinator *)
  map (fun r => nonzero (fst (snd r))) model_counts_shared = [[]; []] /\
  (* native recursion: the functions that can reach themselves in the source are the two knots the depth fuel pays for
     (Type::parse is the wrapper of Ty::parse: depth_fuel_sites) *)
  src_recursive = ["ConstValue::parse"; "Ty::parse"; "Type::parse"] /\
  model_depth_users = ["ConstValue::parse"; "Ty::parse"] /\
  (* each combinator used is a loop in the source of nom (no self call) *)
  all_loops nom_loop_combinators = true /\
  map fst nom_loop_combinators = ["escaped"; "many0"; "many0_count"; "many1"; "many_till"; "separated_list1"].
Proof. repeat split; vm_compute; reflexivity. Qed.

(* the statement of Properties/C16.v *)
Lemma repetition_is_iteration :
  src_rep_sites = model_rep_sites /\
  map (fun r => nonzero (fst (snd r))) model_counts_shared = [[]; []] /\
  src_recursive = ["ConstValue::parse"; "Ty::parse"; "Type::parse"] /\
  model_depth_users = ["ConstValue::parse"; "Ty::parse"] /\
  (forall lf df i, p_ty lf 0 i = PFuel FDepth /\ p_const_value lf 0 i = PFuel FDepth /\ p_type lf df = p_type_of lf (p_ty lf df)) /\
  all_loops nom_loop_combinators = true /\
  map fst nom_loop_combinators = ["escaped"; "many0"; "many0_count"; "many1"; "many_till"; "separated_list1"] /\
  (forall A B (p : parser A) (q : parser B) c i,
     many0 0 p i = PFuel FLoop /\ many1_loop 0 p i = PFuel FLoop /\ many0_count 0 p i = PFuel FLoop /\
     many_till 0 p q i = PFuel FLoop /\ sep_loop 0 q p i = PFuel FLoop /\ escaped_loop 0 p c q i i = PFuel FLoop).
Proof.
  pose proof rep_sites_agree as (H1 & H2 & H3 & H4 & H5 & H6).
  exact (conj H1 (conj H2 (conj H3 (conj H4 (conj depth_fuel_sites (conj H5 (conj H6 comb_loops_use_loop_fuel))))))).
Qed.
