(* C09 (primitive level): the safe readers are total -- on every byte string and every
   requested type the value interpreter returns a value or an error, never a panic, and fuel
   [length input + 1] is never exhausted (no hang); container sizes and byte-string lengths that
   are accepted are bounded by the remaining input (what decoders preallocate from). *)
From PV Require Import Thrift.Interp Proofs.VarintP Proofs.TablesP Proofs.PrimP Proofs.HeaderP Proofs.RoundtripP.
From Coq Require Import ZifyN ZifyNat ZifyBool.
Open Scope Z_scope.


(* outcome is fine: Ok with a buffer at least [k] bytes shorter, or a genuine error *)
Definition good {A} (o : res (A * rst)) (s : rst) (k : nat) : Prop :=
  match o with
  | Ok (_, s') => (blen s' + k <= blen s)%nat
  | Err e => e <> EOutOfFuel
  | Panic _ => False
  end.

Lemma good_weaken {A} (o : res (A * rst)) s k k' : (k' <= k)%nat -> good o s k -> good o s k'.
Proof. destruct o as [[a s']| |]; cbn; auto. lia. Qed.

Lemma good_bind {A B} (o : res (A * rst)) (f : A * rst -> res (B * rst)) s k1 k2 :
  good o s k1 ->
  (forall a s', (blen s' + k1 <= blen s)%nat -> good (f (a, s')) s' k2) ->
  good (bind o f) s (k1 + k2).
Proof.
  destruct o as [[a s']| |]; cbn [bind good]; auto. intros H1 H2.
  specialize (H2 a s' H1). destruct (f (a, s')) as [[b s'']| |]; cbn [good] in *; auto. lia.
Qed.

Lemma good_err {A} e s k : e <> EOutOfFuel -> good (@Err (A * rst) e) s k.
Proof. auto. Qed.

Lemma r_take_good n s : good (r_take n s) s n.
Proof.
  unfold r_take. destruct (take n (rbuf s)) as [[a r]|] eqn:E; cbn [good]; [|discriminate].
  apply take_some in E as [E1 E2]. unfold blen, set_buf. cbn [rbuf]. rewrite E1, app_length. lia.
Qed.

Ltac good_take :=
  match goal with
  | |- good (bind (r_take ?n ?s) _) ?s _ =>
      apply (good_bind _ _ s n 0 (r_take_good n s)); intros; cbn [good]; lia
  end.

Lemma r_byte_good s : good (r_byte s) s 1.
Proof. unfold r_byte. change 1%nat with (1 + 0)%nat. apply (good_bind _ _ s 1 0 (r_take_good 1 s)). intros a s' H. cbn. lia. Qed.
Lemma r_i8_good s : good (r_i8 s) s 1.
Proof. unfold r_i8. change 1%nat with (1 + 0)%nat. apply (good_bind _ _ s 1 0 (r_take_good 1 s)). intros a s' H. cbn. lia. Qed.

Lemma r_fixed_good p n bits s : good (r_fixed p n bits s) s n.
Proof.
  unfold r_fixed. replace n with (n + 0)%nat at 2 by lia.
  apply (good_bind _ _ s n 0 (r_take_good n s)). intros a s' H. cbn. lia.
Qed.

Lemma rd_var_good : forall k sh acc buf,
  match rd_var k sh acc buf with
  | Ok (_, rest) => (length rest + 1 <= length buf)%nat
  | Err e => e <> EOutOfFuel
  | Panic _ => False
  end.
Proof.
  induction k as [|k IH]; intros sh acc buf; cbn [rd_var].
  - destruct buf; discriminate.
  - destruct buf as [|b rest]; [discriminate|].
    destruct (b2z b <? 128); [cbn [length]; lia|].
    specialize (IH (sh + 7) (acc + b2z b mod 128 * 2 ^ sh) rest).
    destruct (rd_var k (sh + 7) (acc + b2z b mod 128 * 2 ^ sh) rest) as [[n r]| |]; auto.
    cbn [length]. lia.
Qed.

Lemma r_varint_good m s : good (r_varint m s) s 1.
Proof.
  unfold r_varint, read_var_u64. pose proof (rd_var_good m 0 0 (rbuf s)) as H.
  destruct (rd_var m 0 0 (rbuf s)) as [[n r]| |]; cbn [bind good]; auto.
Qed.

Lemma r_zz_good m bits s :
  good (let* (n, s) := r_varint m s in Ok (wrap_s bits (unzigzag n), s)) s 1.
Proof.
  change 1%nat with (1 + 0)%nat. apply (good_bind _ _ s 1 0 (r_varint_good m s)).
  intros a s' H. cbn. lia.
Qed.

Lemma r_i16_good p s : good (r_i16 p s) s 1.
Proof. destruct p; cbn [r_i16]; try apply r_zz_good; apply (good_weaken _ _ 2); try lia; apply r_fixed_good. Qed.
Lemma r_i32_good p s : good (r_i32 p s) s 1.
Proof. destruct p; cbn [r_i32]; try apply r_zz_good; apply (good_weaken _ _ 4); try lia; apply r_fixed_good. Qed.
Lemma r_i64_good p s : good (r_i64 p s) s 1.
Proof. destruct p; cbn [r_i64]; try apply r_zz_good; apply (good_weaken _ _ 8); try lia; apply r_fixed_good. Qed.
Lemma r_double_good p s : good (r_double p s) s 8.
Proof.
  unfold r_double. change 8%nat with (8 + 0)%nat. apply (good_bind _ _ s 8 0 (r_take_good 8 s)).
  intros a s' H. cbn. lia.
Qed.
Lemma r_uuid_good s : good (r_uuid s) s 16.
Proof. apply r_take_good. Qed.

Lemma r_len_good p s : good (r_len p s) s 1.
Proof.
  destruct p; cbn [r_len].
  1,2: change 1%nat with (1 + 0)%nat; eapply good_bind; [apply r_i32_good|]; intros a s' H; cbn; lia.
  change 1%nat with (1 + 0)%nat. eapply good_bind; [apply r_varint_good|]. intros a s' H. cbn. lia.
Qed.

Lemma r_split_good n s : good (r_split n s) s 0.
Proof.
  unfold r_split. destruct (n <=? Z.of_nat (length (rbuf s))); [|discriminate].
  apply (good_weaken _ _ (Z.to_nat n)); [lia|apply r_take_good].
Qed.

Lemma r_bytes_good p s : good (r_bytes p s) s 1.
Proof.
  unfold r_bytes. change 1%nat with (1 + 0)%nat. eapply good_bind; [apply r_len_good|].
  intros a s' H. apply r_split_good.
Qed.

(* a byte string that is returned was entirely present in the input: nothing is copied or
   allocated for a declared length that exceeds the buffer *)
Lemma r_bytes_bounded p s l s' : r_bytes p s = Ok (l, s') -> (length l <= blen s)%nat.
Proof.
  unfold r_bytes. pose proof (r_len_good p s) as G.
  destruct (r_len p s) as [[n s1]| |]; cbn [bind good] in *; try discriminate.
  unfold r_split. destruct (n <=? Z.of_nat (length (rbuf s1))); [|discriminate].
  unfold r_take. destruct (take (Z.to_nat n) (rbuf s1)) as [[a r]|] eqn:E; [|discriminate].
  intros H. injection H as <- <-. apply take_some in E as [E1 E2].
  unfold blen in *. rewrite E1, app_length in G. lia.
Qed.

Lemma r_bool_good p s : good (r_bool p s) s 0.
Proof.
  destruct p; cbn [r_bool].
  1,2: change 0%nat with (0 + 0)%nat; eapply good_bind; [apply (good_weaken _ _ 1); [lia|apply r_i8_good]|];
       intros a s' H; cbn; lia.
  destruct (r_pbool (rc s)); [cbn; unfold blen; cbn; lia|].
  set (s1 := set_rc s _).
  assert (Hb : blen s1 = blen s) by reflexivity.
  pose proof (r_byte_good s1) as G.
  destruct (r_byte s1) as [[b s2]| |]; cbn [bind good] in *; auto.
  destruct (ctype_of_code b) as [[]|]; cbn [good]; try discriminate; lia.
Qed.

Lemma r_struct_begin_good p s : good (r_struct_begin p s) s 0.
Proof. destruct p; cbn; unfold blen; cbn; lia. Qed.
Lemma r_struct_end_good p s : good (r_struct_end p s) s 0.
Proof.
  destruct p; cbn [r_struct_end]; try (cbn; unfold blen; cbn; lia).
  destruct (r_stack (rc s)); [discriminate|]. cbn. unfold blen. cbn. lia.
Qed.

Lemma r_ttype_good s : good (r_ttype s) s 1.
Proof.
  unfold r_ttype. pose proof (r_byte_good s) as G.
  destruct (r_byte s) as [[b s1]| |]; cbn [bind good] in *; auto.
  destruct (ttype_of_byte b); cbn [good]; [lia|discriminate].
Qed.

Lemma good_clear {A} (o : res (A * rst)) s k : good o (clear_pfield s) k -> good o s k.
Proof. destruct o as [[a s']| |]; cbn [good]; auto. Qed.

Lemma r_field_begin_good p s : good (r_field_begin p s) s 1.
Proof.
  destruct p; cbn [r_field_begin].
  1,2: change 1%nat with (1 + 0)%nat; eapply good_bind; [apply r_ttype_good|];
       intros ty s' Hs'; destruct ty; try (cbn; lia);
       (change 0%nat with (0 + 0)%nat; eapply good_bind; [apply (good_weaken _ _ 1); [lia|apply r_i16_good]|];
        intros a s'' Hs''; cbn; lia).
  apply good_clear. generalize (clear_pfield s). clear s. intros s.
  change 1%nat with (1 + 0)%nat. eapply good_bind; [apply r_byte_good|].
  intros b s1 H1.
  set (X := if b mod 16 =? ctype_code CBooleanTrue then _ else _).
  assert (GX : good X s1 0).
  { subst X. destruct (b mod 16 =? ctype_code CBooleanTrue); [cbn; unfold blen; cbn; lia|].
    destruct (b mod 16 =? ctype_code CBooleanFalse); [cbn; unfold blen; cbn; lia|].
    destruct (ctype_of_code (b mod 16)) as [ct|]; [|discriminate].
    destruct (ttype_of_ctype ct); [cbn; lia|discriminate]. }
  change 0%nat with (0 + 0)%nat. eapply good_bind; [exact GX|].
  intros ty s2 H2.
  assert (GY : good (if negb (b / 16 =? 0)
            then Ok (ty, Some (wrap_s 16 (r_last (rc s2) + b / 16)),
                     set_rc s2 (mkR (wrap_s 16 (r_last (rc s2) + b / 16)) (r_stack (rc s2)) (r_pbool (rc s2)) (r_pfield (rc s2))))
            else let* (id, s) := r_i16 PCompact s2 in
                 Ok (ty, Some id, set_rc s (mkR id (r_stack (rc s)) (r_pbool (rc s)) (r_pfield (rc s))))) s2 0).
  { destruct (negb (b / 16 =? 0)); [cbn; unfold blen; cbn; lia|].
    change 0%nat with (0 + 0)%nat. eapply good_bind; [apply (good_weaken _ _ 1); [lia|apply r_i16_good]|].
    intros a s3 H3. cbn. unfold blen in *. cbn. lia. }
  destruct ty; try exact GY. cbn. lia.
Qed.

Lemma check_size_inv n s m : check_size n s = Ok m -> m = n /\ 0 <= n <= Z.of_nat (blen s).
Proof.
  unfold check_size, blen. destruct (Z.ltb_spec n 0) as [H0|H0]; [discriminate|].
  destruct (Z.ltb_spec (Z.of_nat (length (rbuf s))) n) as [H1|H1]; [discriminate|].
  intros E. injection E as <-. lia.
Qed.

Lemma check_size_err n s e : check_size n s = Err e -> e <> EOutOfFuel.
Proof.
  unfold check_size. destruct (n <? 0); [intros H; injection H as <-; discriminate|].
  destruct (Z.of_nat (length (rbuf s)) <? n); [intros H; injection H as <-|]; discriminate.
Qed.

(* header outcome: fine, and an accepted size is bounded by what remains *)
Definition good_hdr {A} (sz : A -> Z) (o : res (A * rst)) (s : rst) : Prop :=
  match o with
  | Ok (h, s') => (blen s' + 1 <= blen s)%nat /\ 0 <= sz h <= Z.of_nat (blen s')
  | Err e => e <> EOutOfFuel
  | Panic _ => False
  end.

Lemma ttype_of_nibble_err z e : ttype_of_nibble z = Err e -> e <> EOutOfFuel.
Proof.
  unfold ttype_of_nibble. destruct (ctype_of_code z) as [ct|]; [|intros H; injection H as <-; discriminate].
  destruct (ttype_of_ctype ct); intros H; [discriminate|injection H as <-; discriminate].
Qed.
Lemma ttype_of_nibble_nopanic z s : ttype_of_nibble z <> Panic s.
Proof.
  unfold ttype_of_nibble. destruct (ctype_of_code z) as [ct|]; [|discriminate].
  destruct (ttype_of_ctype ct); discriminate.
Qed.

Lemma r_coll_begin_good p s : good_hdr snd (r_coll_begin p s) s.
Proof.
  destruct p; cbn [r_coll_begin].
  1,2: pose proof (r_ttype_good s) as G1; destruct (r_ttype s) as [[et s1]| |]; cbn [bind good good_hdr] in *; auto;
       match goal with |- context [r_i32 ?p s1] => pose proof (r_i32_good p s1) as G2; destruct (r_i32 p s1) as [[n s2]| |] end;
       cbn [bind good good_hdr] in *; auto;
       destruct (check_size n s2) as [m| |] eqn:E; cbn [bind good_hdr snd];
       [apply check_size_inv in E as [-> E]; split; lia
       |eapply check_size_err; eauto
       |unfold check_size in E; destruct (n <? 0); [discriminate|]; destruct (_ <? n); discriminate].
  pose proof (r_byte_good s) as G1. destruct (r_byte s) as [[h s1]| |]; cbn [bind good good_hdr] in *; auto.
  destruct (ttype_of_nibble (h mod 16)) as [et| |] eqn:En; cbn [bind good_hdr];
    [|eapply ttype_of_nibble_err; eauto|eapply ttype_of_nibble_nopanic; eauto].
  destruct (negb (h / 16 =? 15)).
  - destruct (check_size (h / 16) s1) as [m| |] eqn:E; cbn [bind good_hdr snd];
      [apply check_size_inv in E as [-> E]; split; lia
      |eapply check_size_err; eauto
      |unfold check_size in E; destruct (_ <? 0); [discriminate|]; destruct (_ <? _); discriminate].
  - pose proof (r_varint_good maxsize_32 s1) as G2.
    destruct (r_varint maxsize_32 s1) as [[n s2]| |]; cbn [bind good good_hdr] in *; auto.
    destruct (check_size (wrap_s 32 n) s2) as [m| |] eqn:E; cbn [bind good_hdr snd];
      [apply check_size_inv in E as [-> E]; split; lia
      |eapply check_size_err; eauto
      |unfold check_size in E; destruct (_ <? 0); [discriminate|]; destruct (_ <? _); discriminate].
Qed.

Lemma r_map_begin_good p s : good_hdr snd (r_map_begin p s) s.
Proof.
  destruct p; cbn [r_map_begin].
  1,2: pose proof (r_ttype_good s) as G1; destruct (r_ttype s) as [[kt s1]| |]; cbn [bind good good_hdr] in *; auto;
       pose proof (r_ttype_good s1) as G1'; destruct (r_ttype s1) as [[vt s1']| |]; cbn [bind good good_hdr] in *; auto;
       match goal with |- context [r_i32 ?p s1'] => pose proof (r_i32_good p s1') as G2; destruct (r_i32 p s1') as [[n s2]| |] end;
       cbn [bind good good_hdr] in *; auto;
       destruct (check_size n s2) as [m| |] eqn:E; cbn [bind good_hdr snd];
       [apply check_size_inv in E as [-> E]; split; lia
       |eapply check_size_err; eauto
       |unfold check_size in E; destruct (n <? 0); [discriminate|]; destruct (_ <? n); discriminate].
  pose proof (r_varint_good maxsize_32 s) as G1.
  destruct (r_varint maxsize_32 s) as [[n s1]| |]; cbn [bind good good_hdr] in *; auto.
  destruct (wrap_s 32 n =? 0); [cbn [good_hdr snd]; split; lia|].
  pose proof (r_byte_good s1) as G2. destruct (r_byte s1) as [[h s2]| |]; cbn [bind good good_hdr] in *; auto.
  destruct (ttype_of_nibble (h / 16)) as [kt| |] eqn:Ek; cbn [bind good_hdr];
    [|eapply ttype_of_nibble_err; eauto|eapply ttype_of_nibble_nopanic; eauto].
  destruct (ttype_of_nibble (h mod 16)) as [vt| |] eqn:Ev; cbn [bind good_hdr];
    [|eapply ttype_of_nibble_err; eauto|eapply ttype_of_nibble_nopanic; eauto].
  destruct (check_size (wrap_s 32 n) s2) as [m| |] eqn:E; cbn [bind good_hdr snd];
    [apply check_size_inv in E as [-> E]; split; lia
    |eapply check_size_err; eauto
    |unfold check_size in E; destruct (_ <? 0); [discriminate|]; destruct (_ <? _); discriminate].
Qed.

(* --- loops --- *)
Section LoopsGood.
  Variable p : pk.
  Variable rec : ttype -> rst -> res (tval * rst).
  Variable f' : nat.
  Hypothesis Hrec : forall ty s, (blen s < f')%nat -> good (rec ty s) s 0.

  Lemma fields_good : forall n s acc, (blen s < n)%nat -> (blen s <= f')%nat ->
    good (fields_loop p rec n s acc) s 1.
  Proof.
    induction n as [|n IH]; intros s acc Hn Hf; [lia|].
    cbn [fields_loop].
    pose proof (r_field_begin_good p s) as G.
    destruct (r_field_begin p s) as [[h s1]| |]; cbn [bind good] in *; auto.
    destruct (ttype_eqb (fst h) TStop); [cbn; lia|].
    pose proof (Hrec (fst h) s1 ltac:(lia)) as G2.
    destruct (rec (fst h) s1) as [[x s2]| |]; cbn [bind good] in *; auto.
    specialize (IH s2 ((match snd h with Some i => i | None => 0 end, x) :: acc) ltac:(lia) ltac:(lia)).
    destruct (fields_loop p rec n s2 _) as [[fs s3]| |]; cbn [good] in *; auto. lia.
  Qed.

  Lemma elems_good : forall m et n s acc, n <= Z.of_nat m -> (blen s < f')%nat ->
    good (elems_loop rec m et n s acc) s 0.
  Proof.
    induction m as [|m IH]; intros et n s acc Hn Hf; cbn [elems_loop].
    - replace (n <=? 0) with true by lia. cbn. lia.
    - destruct (Z.leb_spec n 0); [cbn; lia|].
      pose proof (Hrec et s Hf) as G.
      destruct (rec et s) as [[x s1]| |]; cbn [bind good] in *; auto.
      specialize (IH et (n - 1) s1 (x :: acc) ltac:(lia) ltac:(lia)).
      destruct (elems_loop rec m et (n - 1) s1 _) as [[l s2]| |]; cbn [good] in *; auto. lia.
  Qed.

  Lemma pairs_good : forall m kt vt n s acc, n <= Z.of_nat m -> (blen s < f')%nat ->
    good (pairs_loop rec m kt vt n s acc) s 0.
  Proof.
    induction m as [|m IH]; intros kt vt n s acc Hn Hf; cbn [pairs_loop].
    - replace (n <=? 0) with true by lia. cbn. lia.
    - destruct (Z.leb_spec n 0); [cbn; lia|].
      pose proof (Hrec kt s Hf) as G.
      destruct (rec kt s) as [[a s1]| |]; cbn [bind good] in *; auto.
      pose proof (Hrec vt s1 ltac:(lia)) as G2.
      destruct (rec vt s1) as [[b s2]| |]; cbn [bind good] in *; auto.
      specialize (IH kt vt (n - 1) s2 ((a, b) :: acc) ltac:(lia) ltac:(lia)).
      destruct (pairs_loop rec m kt vt (n - 1) s2 _) as [[l s3]| |]; cbn [good] in *; auto. lia.
  Qed.
End LoopsGood.

Lemma good_map {A B} (o : res (A * rst)) (g : A -> B) s k :
  good o s k -> good (let* (x, s') := o in Ok (g x, s')) s k.
Proof. destruct o as [[a s']| |]; cbn; auto. Qed.

Theorem read_val_good p : forall f ty s, (blen s < f)%nat -> good (read_val p f ty s) s 0.
Proof.
  induction f as [|f IH]; intros ty s Hf; [lia|].
  rewrite read_val_S.
  destruct ty; try (cbn; discriminate).
  - apply (good_map _ VBool). apply r_bool_good.
  - apply (good_map _ VI8). apply (good_weaken _ _ 1); [lia|apply r_i8_good].
  - apply (good_map _ VDouble). apply (good_weaken _ _ 8); [lia|apply r_double_good].
  - apply (good_map _ VI16). apply (good_weaken _ _ 1); [lia|apply r_i16_good].
  - apply (good_map _ VI32). apply (good_weaken _ _ 1); [lia|apply r_i32_good].
  - apply (good_map _ VI64). apply (good_weaken _ _ 1); [lia|apply r_i64_good].
  - apply (good_map _ VBinary). apply (good_weaken _ _ 1); [lia|apply r_bytes_good].
  - (* struct *)
    pose proof (r_struct_begin_good p s) as G0.
    destruct (r_struct_begin p s) as [[u s0]| |]; cbn [bind good] in *; auto.
    pose proof (fields_good p (read_val p f) f IH (S f) s0 [] ltac:(lia) ltac:(lia)) as G1.
    destruct (fields_loop p (read_val p f) (S f) s0 []) as [[fs s1]| |]; cbn [bind good] in *; auto.
    pose proof (r_struct_end_good p s1) as G2.
    destruct (r_struct_end p s1) as [[u2 s2]| |]; cbn [bind good] in *; auto. lia.
  - (* map *)
    pose proof (r_map_begin_good p s) as G0.
    destruct (r_map_begin p s) as [[h s0]| |]; cbn [bind good good_hdr] in *; auto.
    destruct G0 as [G0 Gs].
    pose proof (pairs_good (read_val p f) f IH (S f) (fst (fst h)) (snd (fst h)) (snd h) s0 []
                  ltac:(lia) ltac:(lia)) as G1.
    destruct (pairs_loop (read_val p f) (S f) _ _ _ s0 []) as [[l s1]| |]; cbn [bind good] in *; auto. lia.
  - (* set *)
    pose proof (r_coll_begin_good p s) as G0.
    destruct (r_coll_begin p s) as [[h s0]| |]; cbn [bind good good_hdr] in *; auto.
    destruct G0 as [G0 Gs].
    pose proof (elems_good (read_val p f) f IH (S f) (fst h) (snd h) s0 [] ltac:(lia) ltac:(lia)) as G1.
    destruct (elems_loop (read_val p f) (S f) _ _ s0 []) as [[l s1]| |]; cbn [bind good] in *; auto. lia.
  - (* list *)
    pose proof (r_coll_begin_good p s) as G0.
    destruct (r_coll_begin p s) as [[h s0]| |]; cbn [bind good good_hdr] in *; auto.
    destruct G0 as [G0 Gs].
    pose proof (elems_good (read_val p f) f IH (S f) (fst h) (snd h) s0 [] ltac:(lia) ltac:(lia)) as G1.
    destruct (elems_loop (read_val p f) (S f) _ _ s0 []) as [[l s1]| |]; cbn [bind good] in *; auto. lia.
  - apply (good_map _ VUuid). apply (good_weaken _ _ 16); [lia|apply r_uuid_good].
Qed.

(* the statement of C09 at the primitive level *)
Theorem read_val_total p ty (l : list byte) rcx :
  let o := read_val p (length l + 1) ty (mkS l rcx) in
  (forall st, o <> Panic st) /\ o <> Err EOutOfFuel.
Proof.
  intros o.
  pose proof (read_val_good p (length l + 1) ty (mkS l rcx) ltac:(unfold blen; cbn; lia)) as G.
  fold o in G. destruct o as [[v s']| |]; cbn [good] in G.
  - split; [discriminate|discriminate].
  - split; [discriminate|]. intros H. injection H as ->. congruence.
  - destruct G.
Qed.

(* what decoders preallocate from is bounded by the input *)
Theorem coll_size_bounded p s et n s' :
  r_coll_begin p s = Ok ((et, n), s') -> 0 <= n <= Z.of_nat (blen s').
Proof.
  intros H. pose proof (r_coll_begin_good p s) as G. rewrite H in G. cbn [good_hdr snd] in G. tauto.
Qed.
Theorem map_size_bounded p s kt vt n s' :
  r_map_begin p s = Ok ((kt, vt, n), s') -> 0 <= n <= Z.of_nat (blen s').
Proof.
  intros H. pose proof (r_map_begin_good p s) as G. rewrite H in G. cbn [good_hdr snd] in G. tauto.
Qed.
