(* P3 (C02): the emitted decoder reads back what the emitted encoder wrote, up to fill_defaults.
   Mirrors PV.Proofs.RoundtripP (primitive read-back laws of HeaderP / PrimP), with the schema-directed
   loops of Gen.v on the reader side. *)
From PVGen Require Import Gen GenSpec Proofs.GenBase Proofs.EncP Proofs.FinishP.
From PV Require Import Proofs.TablesP Proofs.PrimP Proofs.HeaderP Proofs.RoundtripP Proofs.LenP.
From Coq Require Import ZifyN ZifyNat ZifyBool.
Open Scope Z_scope.

(* ---------- reader context facts ---------- *)
Lemma r_take_rc n s a s' : r_take n s = Ok (a, s') -> rc s' = rc s.
Proof.
  unfold r_take. destruct (take n (rbuf s)) as [[x y]|]; [|discriminate].
  intros H; injection H as <- <-. reflexivity.
Qed.
Lemma r_byte_rc s z s' : r_byte s = Ok (z, s') -> rc s' = rc s.
Proof.
  unfold r_byte. destruct (r_take 1 s) as [[a s1]| |] eqn:E; cbn [bind]; try discriminate.
  intros H; injection H as <- <-. eapply r_take_rc; eauto.
Qed.
Lemma r_varint_rc m s z s' : r_varint m s = Ok (z, s') -> rc s' = rc s.
Proof.
  unfold r_varint. destruct (read_var_u64 m (rbuf s)) as [[n r]| |]; cbn [bind]; try discriminate.
  intros H; injection H as <- <-. reflexivity.
Qed.
Lemma r_i16c_rc s z s' : r_i16 PCompact s = Ok (z, s') -> rc s' = rc s.
Proof.
  cbn [r_i16]. destruct (r_varint maxsize_16 s) as [[n s1]| |] eqn:E; cbn [bind]; try discriminate.
  intros H; injection H as <- <-. eapply r_varint_rc; eauto.
Qed.

Lemma r_field_begin_compact_pfield s h s' :
  r_field_begin PCompact s = Ok (h, s') -> r_pfield (rc s') = r_pfield (rc s).
Proof.
  cbn [r_field_begin]. destruct (r_byte s) as [[b s1]| |] eqn:Eb; cbn [bind]; try discriminate.
  apply r_byte_rc in Eb. rewrite <- Eb.
  match goal with |- context [bind ?e _] => destruct e as [[ty s2]| |] eqn:E2 end; cbn [bind]; try discriminate.
  assert (H2 : r_pfield (rc s2) = r_pfield (rc s1)).
  { destruct (b mod 16 =? ctype_code CBooleanTrue); [injection E2 as <- <-; reflexivity|].
    destruct (b mod 16 =? ctype_code CBooleanFalse); [injection E2 as <- <-; reflexivity|].
    destruct (ctype_of_code (b mod 16)) as [ct|]; [|discriminate].
    destruct (ttype_of_ctype ct); [|discriminate]. injection E2 as <- <-. reflexivity. }
  rewrite <- H2.
  destruct ty; try (intros H; injection H as <- <-; reflexivity).
  all: destruct (negb (b / 16 =? 0)); [intros H; injection H as <- <-; reflexivity|].
  all: destruct (r_i16 PCompact s2) as [[i s3]| |] eqn:E3; cbn [bind]; try discriminate.
  all: apply r_i16c_rc in E3; intros H; injection H as <- <-; cbn [set_rc rc r_pfield]; rewrite E3; reflexivity.
Qed.

Lemma r_bool_pfield s :
  r_bool PCompact (set_rc s (mkR (r_last (rc s)) (r_stack (rc s)) (r_pbool (rc s)) true)) = r_bool PCompact s.
Proof. destruct s as [b [l st pb pf]]. reflexivity. Qed.

Lemma r_field_end_len_idle p r rcx : idle rcx -> r_field_end_len p (mkS r rcx) = Ok (0, mkS r rcx).
Proof.
  intros [_ Hf]. unfold r_field_end_len, r_assert_no_pending. cbn [rc]. rewrite Hf. destruct p; reflexivity.
Qed.
Lemma r_field_stop_len_idle p r rcx : idle rcx -> r_field_stop_len p (mkS r rcx) = Ok (1, mkS r rcx).
Proof.
  intros [_ Hf]. unfold r_field_stop_len, r_assert_no_pending. cbn [rc]. rewrite Hf. destruct p; reflexivity.
Qed.

Lemma r_fbl_nonbool p ft id s : (p = PCompact -> ft <> TBool) -> elem_ttype_ok ft = true ->
  exists n, r_field_begin_len p ft (Some id) s = Ok (n, s).
Proof.
  intros Hnb Hok. destruct p; [eexists; reflexivity..|].
  destruct ft; cbn in Hok; try discriminate; try (eexists; reflexivity).
  exfalso. apply (Hnb eq_refl). reflexivity.
Qed.

Lemma gen_decode_S S p f t s : gen_decode S p (Datatypes.S f) t s =
  match resolve S t with
  | TyBool => let* (b, s) := r_bool p s in Ok (GBool b, s)
  | TyI8 => let* (z, s) := r_i8 s in Ok (GI8 z, s)
  | TyI16 => let* (z, s) := r_i16 p s in Ok (GI16 z, s)
  | TyI32 => let* (z, s) := r_i32 p s in Ok (GI32 z, s)
  | TyI64 => let* (z, s) := r_i64 p s in Ok (GI64 z, s)
  | TyDouble => let* (z, s) := r_double p s in Ok (GDouble z, s)
  | TyString | TyBinary => let* (l, s) := r_bytes p s in Ok (GBytes l, s)
  | TyUuid => let* (l, s) := r_uuid s in Ok (GUuid l, s)
  | TyVoid =>
      let* (_, s) := r_struct_begin p s in
      let* (_, s) := r_struct_end p s in Ok (GVoid, s)
  | TyList et =>
      let* (h, s) := r_coll_begin p s in
      let* (l, s) := dec_elems (gen_decode S p f) (Datatypes.S f) et (snd h) s [] in
      Ok (GList l, s)
  | TySet et =>
      let* (h, s) := r_coll_begin p s in
      let* (l, s) := dec_elems (gen_decode S p f) (Datatypes.S f) et (snd h) s [] in
      Ok (GSet l, s)
  | TyMap kt vt =>
      let* (h, s) := r_map_begin p s in
      let* (l, s) := dec_pairs (gen_decode S p f) (Datatypes.S f) kt vt (snd h) s [] in
      Ok (GMap l, s)
  | TyRef n =>
      match lookup S n with
      | Some (DEnum _) => let* (z, s) := r_i32 p s in Ok (GEnum z, s)
      | Some (DStruct fs _ _) =>
          let* (_, s) := r_struct_begin p s in
          let* (vars, s) := dec_fields S p f (gen_decode S p f) (Datatypes.S f) fs (map init_var fs) s in
          let* (_, s) := r_struct_end p s in
          let* out := finish_fields fs vars in
          Ok (GStruct out [], s)
      | Some (DUnion vs void_ok _) =>
          let* (_, s) := r_struct_begin p s in
          let* (ret, s) := dec_variants S p f (gen_decode S p f) (Datatypes.S f) vs None s in
          let* (_, s) := r_struct_end p s in
          match ret with
          | Some (id, x) => Ok (GUnion id x, s)
          | None =>
              if void_ok then
                match vs with
                | (id0, _) :: _ => Ok (GUnion id0 GVoid, s)
                | [] => Err EInvalidData
                end
              else Err EInvalidData
          end
      | Some (DTypedef _) => Err EOther
      | None => Err EOther
      end
  end.
Proof. reflexivity. Qed.

Section Round.
  Variable S : schema.
  Hypothesis Hwf : wf_schema S = true.
  Variable p : pk.
  Variable k : bk.

  Definition GRT (v : gval) : Prop :=
    forall t, has_type S t v = true ->
    forall c, w_pend c = None ->
    exists ss, write_val p k (to_tval S t v) c = Ok (ss, c) /\
      forall fuel r rcx, (vsize (to_tval S t v) <= fuel)%nat -> idle rcx ->
        gen_decode S p fuel t (mkS (flat ss ++ r) rcx) = Ok (fill_defaults S t v, mkS r rcx).

  Lemma wlen tv c ss c' : wt tv = true -> w_pend c = None -> write_val p k tv c = Ok (ss, c') ->
    (1 <= length (flat ss))%nat.
  Proof.
    intros Hwt Hp Hw. destruct (roundtrip_val p k tv Hwt c Hp) as (ss' & Hw' & Hl & _).
    rewrite Hw in Hw'. injection Hw' as -> _. exact Hl.
  Qed.

  (* ----- scalars: through the primitive-level round trip ----- *)
  Ltac scalar_case b :=
    let t := fresh "t" in let Ht := fresh "Ht" in let c := fresh "c" in let Hp := fresh "Hp" in
    intros t Ht c Hp;
    pose proof (to_tval_wt S Hwf _ _ Ht) as Hwt;
    destruct (roundtrip_val p k _ Hwt c Hp) as (ss & Hw & _ & Hr);
    exists ss; split; [exact Hw|];
    intros fuel r rcx Hf Hi; specialize (Hr fuel r rcx Hf Hi);
    destruct fuel as [|f]; [cbn [to_tval vsize] in Hf; lia|];
    rewrite gen_decode_S; cbn [has_type] in Ht.

  Ltac scalar_fin :=
    match goal with
    | Hr : context [read_val] |- _ =>
        cbn [to_tval ttype_of canon read_val fill_defaults] in Hr |- *; revert Hr;
        match goal with |- context [bind ?e _] => destruct e as [[? ?]| |] end;
        cbn [bind]; intros Hr; try discriminate; injection Hr as -> ->; reflexivity
    end.

  Lemma GRT_bool b : GRT (GBool b).
  Proof. scalar_case b. res_cases S t. scalar_fin. Qed.
  Lemma GRT_i8 z : GRT (GI8 z).
  Proof. scalar_case z. res_cases S t. scalar_fin. Qed.
  Lemma GRT_i16 z : GRT (GI16 z).
  Proof. scalar_case z. res_cases S t. scalar_fin. Qed.
  Lemma GRT_i32 z : GRT (GI32 z).
  Proof. scalar_case z. res_cases S t. scalar_fin. Qed.
  Lemma GRT_i64 z : GRT (GI64 z).
  Proof. scalar_case z. res_cases S t. scalar_fin. Qed.
  Lemma GRT_double z : GRT (GDouble z).
  Proof. scalar_case z. res_cases S t. scalar_fin. Qed.
  Lemma GRT_bytes l : GRT (GBytes l).
  Proof. scalar_case l. res_cases S t; scalar_fin. Qed.
  Lemma GRT_uuid l : GRT (GUuid l).
  Proof. scalar_case l. res_cases S t. scalar_fin. Qed.
  Lemma GRT_enum z : GRT (GEnum z).
  Proof. scalar_case z. res_cases S t. decl_cases S n. scalar_fin. Qed.
  Lemma GRT_void : GRT GVoid.
  Proof. intros t Ht. discriminate. Qed.

  (* ----- container loops ----- *)
  Lemma tv_elems_map et l : tv_elems S et l = map (to_tval S et) l.
  Proof. induction l as [|x r IH]; cbn [tv_elems map]; [reflexivity|]. rewrite IH. reflexivity. Qed.

  Lemma g_elems_rt et l :
    Forall GRT l -> ht_elems S et l = true ->
    forall c, w_pend c = None ->
    exists ss, write_elems p k (tv_elems S et l) c = Ok (ss, c) /\ (length l <= length (flat ss))%nat /\
    forall f m r rcx acc, (forall x, In x l -> (vsize (to_tval S et x) <= f)%nat) -> (length l <= m)%nat -> idle rcx ->
      dec_elems (gen_decode S p f) m et (Z.of_nat (length l)) (mkS (flat ss ++ r) rcx) acc
      = Ok (rev acc ++ fd_elems S et l, mkS r rcx).
  Proof.
    induction l as [|x t IH]; intros HF Ht c Hp.
    - exists []. split; [reflexivity|]. split; [cbn; lia|].
      intros f m r rcx acc _ _ _. cbn [length Z.of_nat flat map concat app fd_elems].
      destruct m; cbn [dec_elems Z.leb Z.compare]; rewrite app_nil_r; reflexivity.
    - inversion HF as [|? ? Hx Hxs]; subst. cbn [ht_elems] in Ht. apply andb_prop in Ht as [Ht1 Ht2].
      destruct (Hx et Ht1 c Hp) as (s1 & Hw1 & Hr1).
      pose proof (wlen _ _ _ _ (to_tval_wt S Hwf _ _ Ht1) Hp Hw1) as Hl1.
      destruct (IH Hxs Ht2 c Hp) as (s2 & Hw2 & Hl2 & Hr2).
      exists (s1 ++ s2). split.
      { cbn [tv_elems].
        change (write_elems p k (to_tval S et x :: tv_elems S et t)) with
          (write_val p k (to_tval S et x) ;; write_elems p k (tv_elems S et t)).
        eapply wseq_ok; eauto. }
      split; [rewrite flat_app, app_length; cbn [length]; lia|].
      intros f m r rcx acc Hv Hm Hi.
      destruct m as [|m]; [cbn [length] in Hm; lia|].
      cbn [dec_elems].
      replace (Z.of_nat (length (x :: t)) <=? 0) with false by (cbn [length]; lia).
      rewrite flat_app, <- app_assoc.
      rewrite Hr1; [|apply Hv; left; reflexivity|exact Hi]. cbn [bind].
      replace (Z.of_nat (length (x :: t)) - 1) with (Z.of_nat (length t)) by (cbn [length]; lia).
      rewrite Hr2; [|intros y Hy; apply Hv; right; exact Hy|cbn [length] in Hm; lia|exact Hi].
      cbn [rev fd_elems]. rewrite <- app_assoc. reflexivity.
  Qed.

  Lemma g_pairs_rt kt vt l :
    Forall (fun q => GRT (fst q) /\ GRT (snd q)) l -> ht_pairs S kt vt l = true ->
    forall c, w_pend c = None ->
    exists ss, write_pairs p k (tv_pairs S kt vt l) c = Ok (ss, c) /\ (length l <= length (flat ss))%nat /\
    forall f m r rcx acc,
      (forall q, In q l -> (vsize (to_tval S kt (fst q)) <= f)%nat /\ (vsize (to_tval S vt (snd q)) <= f)%nat) ->
      (length l <= m)%nat -> idle rcx ->
      dec_pairs (gen_decode S p f) m kt vt (Z.of_nat (length l)) (mkS (flat ss ++ r) rcx) acc
      = Ok (rev acc ++ fd_pairs S kt vt l, mkS r rcx).
  Proof.
    induction l as [|[a b] t IH]; intros HF Ht c Hp.
    - exists []. split; [reflexivity|]. split; [cbn; lia|].
      intros f m r rcx acc _ _ _. cbn [length Z.of_nat flat map concat app fd_pairs].
      destruct m; cbn [dec_pairs Z.leb Z.compare]; rewrite app_nil_r; reflexivity.
    - inversion HF as [|? ? Hx Hxs]; subst. cbn [fst snd] in Hx. destruct Hx as [Ha Hb].
      cbn [ht_pairs] in Ht. apply andb_prop in Ht as [Ht Ht3]. apply andb_prop in Ht as [Ht1 Ht2].
      destruct (Ha kt Ht1 c Hp) as (s1 & Hw1 & Hr1).
      pose proof (wlen _ _ _ _ (to_tval_wt S Hwf _ _ Ht1) Hp Hw1) as Hl1.
      destruct (Hb vt Ht2 c Hp) as (s2 & Hw2 & Hr2).
      destruct (IH Hxs Ht3 c Hp) as (s3 & Hw3 & Hl3 & Hr3).
      exists ((s1 ++ s2) ++ s3). split.
      { cbn [tv_pairs].
        change (write_pairs p k ((to_tval S kt a, to_tval S vt b) :: tv_pairs S kt vt t)) with
          (write_val p k (to_tval S kt a) ;; write_val p k (to_tval S vt b) ;; write_pairs p k (tv_pairs S kt vt t)).
        eapply wseq_ok; [eapply wseq_ok|]; eauto. }
      split; [rewrite !flat_app, !app_length; cbn [length]; lia|].
      intros f m r rcx acc Hv Hm Hi.
      destruct m as [|m]; [cbn [length] in Hm; lia|].
      cbn [dec_pairs].
      replace (Z.of_nat (length ((a, b) :: t)) <=? 0) with false by (cbn [length]; lia).
      rewrite !flat_app, <- !app_assoc.
      destruct (Hv (a, b) (or_introl eq_refl)) as [Hva Hvb]. cbn [fst snd] in *.
      rewrite Hr1 by auto. cbn [bind]. rewrite Hr2 by auto. cbn [bind].
      replace (Z.of_nat (length ((a, b) :: t)) - 1) with (Z.of_nat (length t)) by (cbn [length]; lia).
      rewrite Hr3; [|intros y Hy; apply Hv; right; exact Hy|cbn [length] in Hm; lia|exact Hi].
      cbn [rev fd_pairs]. rewrite <- app_assoc. reflexivity.
  Qed.

  Lemma coll_core et l c :
    Forall GRT l -> ttype_ok S et = true -> len_ok (length l) = true -> ht_elems S et l = true -> w_pend c = None ->
    exists ss, (w_coll_begin p (ttype_of_ty S et) (Z.of_nat (length l)) ;; write_elems p k (tv_elems S et l)) c = Ok (ss, c) /\
    forall f r rcx, (forall x, In x l -> (vsize (to_tval S et x) <= f)%nat) -> (length l <= f)%nat -> idle rcx ->
      (let* (h, s) := r_coll_begin p (mkS (flat ss ++ r) rcx) in
       dec_elems (gen_decode S p f) (Datatypes.S f) et (snd h) s []) = Ok (fd_elems S et l, mkS r rcx).
  Proof.
    intros HF Hok Hlen Ht Hp. apply len_ok_bound in Hlen.
    destruct (w_coll_ok p (ttype_of_ty S et) (Z.of_nat (length l)) c Hok Hlen) as (s1 & Hw1 & Hr1).
    destruct (g_elems_rt et l HF Ht c Hp) as (s2 & Hw2 & Hl2 & Hr2).
    exists (s1 ++ s2). split; [eapply wseq_ok; eauto|].
    intros f r rcx Hv Hm Hi. rewrite flat_app, <- app_assoc.
    rewrite Hr1 by (rewrite app_length; lia). cbn [bind snd].
    rewrite Hr2; auto.
  Qed.

  Lemma snd_map_hdr_canon kt vt n : snd (map_hdr_canon p kt vt n) = n.
  Proof. unfold map_hdr_canon. destruct p; try reflexivity. destruct (Z.eqb_spec n 0); cbn [snd]; auto. Qed.

  Lemma map_core kt vt l c :
    Forall (fun q => GRT (fst q) /\ GRT (snd q)) l -> ttype_ok S kt = true -> ttype_ok S vt = true ->
    len_ok (length l) = true -> ht_pairs S kt vt l = true -> w_pend c = None ->
    exists ss, (w_map_begin p (ttype_of_ty S kt) (ttype_of_ty S vt) (Z.of_nat (length l)) ;;
                write_pairs p k (tv_pairs S kt vt l)) c = Ok (ss, c) /\
    forall f r rcx,
      (forall q, In q l -> (vsize (to_tval S kt (fst q)) <= f)%nat /\ (vsize (to_tval S vt (snd q)) <= f)%nat) ->
      (length l <= f)%nat -> idle rcx ->
      (let* (h, s) := r_map_begin p (mkS (flat ss ++ r) rcx) in
       dec_pairs (gen_decode S p f) (Datatypes.S f) kt vt (snd h) s []) = Ok (fd_pairs S kt vt l, mkS r rcx).
  Proof.
    intros HF Hk Hv Hlen Ht Hp. apply len_ok_bound in Hlen.
    destruct (w_map_ok p (ttype_of_ty S kt) (ttype_of_ty S vt) (Z.of_nat (length l)) c Hk Hv Hlen) as (s1 & Hw1 & Hr1).
    destruct (g_pairs_rt kt vt l HF Ht c Hp) as (s2 & Hw2 & Hl2 & Hr2).
    exists (s1 ++ s2). split; [eapply wseq_ok; eauto|].
    intros f r rcx Hvs Hm Hi. rewrite flat_app, <- app_assoc.
    rewrite Hr1 by (rewrite app_length; lia). cbn [bind]. rewrite snd_map_hdr_canon.
    rewrite Hr2; auto.
  Qed.

  Lemma GRT_list l : Forall GRT l -> GRT (GList l).
  Proof.
    intros HF t Ht c Hp. rewrite has_type_list in Ht. rewrite to_tval_list, fill_defaults_list.
    res_cases S t. apply andb_prop in Ht as [Ht He]. apply andb_prop in Ht as [Hok Hlen].
    destruct (coll_core et l c HF Hok Hlen He Hp) as (ss & Hw & Hr).
    exists ss. split.
    { change (write_val p k (VList (ttype_of_ty S et) (tv_elems S et l))) with
        (w_coll_begin p (ttype_of_ty S et) (Z.of_nat (length (tv_elems S et l))) ;; write_elems p k (tv_elems S et l)).
      rewrite tv_elems_length. exact Hw. }
    intros fuel r rcx Hf Hi. destruct fuel as [|f]; [pose proof (vsize_pos (VList (ttype_of_ty S et) (tv_elems S et l))); lia|].
    rewrite gen_decode_S, Eres.
    assert (H1 : forall x, In x l -> (vsize (to_tval S et x) <= f)%nat).
    { intros x Hx. assert (Hin : In (to_tval S et x) (tv_elems S et l)) by (rewrite tv_elems_map; apply in_map; exact Hx).
      pose proof (vsize_list_bound (ttype_of_ty S et) _ _ Hin). lia. }
    assert (H2 : (length l <= f)%nat).
    { pose proof (vsize_list_len (ttype_of_ty S et) (tv_elems S et l)) as Hb. rewrite tv_elems_length in Hb. lia. }
    specialize (Hr f r rcx H1 H2 Hi).
    destruct (r_coll_begin p (mkS (flat ss ++ r) rcx)) as [[h s1]| |]; cbn [bind] in *; try discriminate.
    rewrite Hr. reflexivity.
  Qed.

  Lemma GRT_set l : Forall GRT l -> GRT (GSet l).
  Proof.
    intros HF t Ht c Hp. rewrite has_type_set in Ht. rewrite to_tval_set, fill_defaults_set.
    res_cases S t. apply andb_prop in Ht as [Ht He]. apply andb_prop in Ht as [Hok Hlen].
    destruct (coll_core et l c HF Hok Hlen He Hp) as (ss & Hw & Hr).
    exists ss. split.
    { change (write_val p k (VSet (ttype_of_ty S et) (tv_elems S et l))) with
        (w_coll_begin p (ttype_of_ty S et) (Z.of_nat (length (tv_elems S et l))) ;; write_elems p k (tv_elems S et l)).
      rewrite tv_elems_length. exact Hw. }
    change (vsize (VSet (ttype_of_ty S et) (tv_elems S et l))) with (vsize (VList (ttype_of_ty S et) (tv_elems S et l))).
    intros fuel r rcx Hf Hi. destruct fuel as [|f]; [pose proof (vsize_pos (VList (ttype_of_ty S et) (tv_elems S et l))); lia|].
    rewrite gen_decode_S, Eres.
    assert (H1 : forall x, In x l -> (vsize (to_tval S et x) <= f)%nat).
    { intros x Hx. assert (Hin : In (to_tval S et x) (tv_elems S et l)) by (rewrite tv_elems_map; apply in_map; exact Hx).
      pose proof (vsize_list_bound (ttype_of_ty S et) _ _ Hin). lia. }
    assert (H2 : (length l <= f)%nat).
    { pose proof (vsize_list_len (ttype_of_ty S et) (tv_elems S et l)) as Hb. rewrite tv_elems_length in Hb. lia. }
    specialize (Hr f r rcx H1 H2 Hi).
    destruct (r_coll_begin p (mkS (flat ss ++ r) rcx)) as [[h s1]| |]; cbn [bind] in *; try discriminate.
    rewrite Hr. reflexivity.
  Qed.

  Lemma tv_pairs_in kt vt l a b : In (a, b) l -> In (to_tval S kt a, to_tval S vt b) (tv_pairs S kt vt l).
  Proof.
    induction l as [|[x y] r IH]; intros H; [destruct H|]. cbn [tv_pairs].
    destruct H as [E|H]; [injection E as -> ->; left; reflexivity|right; auto].
  Qed.

  Lemma GRT_map l : Forall (fun q => GRT (fst q) /\ GRT (snd q)) l -> GRT (GMap l).
  Proof.
    intros HF t Ht c Hp. rewrite has_type_map in Ht. rewrite to_tval_map, fill_defaults_map.
    res_cases S t. apply andb_prop in Ht as [Ht He]. apply andb_prop in Ht as [Ht Hlen].
    apply andb_prop in Ht as [Hk Hv].
    destruct (map_core kt vt l c HF Hk Hv Hlen He Hp) as (ss & Hw & Hr).
    exists ss. split.
    { change (write_val p k (VMap (ttype_of_ty S kt) (ttype_of_ty S vt) (tv_pairs S kt vt l))) with
        (w_map_begin p (ttype_of_ty S kt) (ttype_of_ty S vt) (Z.of_nat (length (tv_pairs S kt vt l))) ;;
         write_pairs p k (tv_pairs S kt vt l)).
      rewrite tv_pairs_length. exact Hw. }
    intros fuel r rcx Hf Hi.
    destruct fuel as [|f]; [pose proof (vsize_pos (VMap (ttype_of_ty S kt) (ttype_of_ty S vt) (tv_pairs S kt vt l))); lia|].
    rewrite gen_decode_S, Eres.
    assert (H1 : forall q, In q l -> (vsize (to_tval S kt (fst q)) <= f)%nat /\ (vsize (to_tval S vt (snd q)) <= f)%nat).
    { intros [a b] Hq.
      pose proof (vsize_map_bound (ttype_of_ty S kt) (ttype_of_ty S vt) _ _ (tv_pairs_in kt vt l a b Hq)) as Hb.
      cbn [fst snd] in *. lia. }
    assert (H2 : (length l <= f)%nat).
    { pose proof (vsize_map_len (ttype_of_ty S kt) (ttype_of_ty S vt) (tv_pairs S kt vt l)) as Hb.
      rewrite tv_pairs_length in Hb. lia. }
    specialize (Hr f r rcx H1 H2 Hi).
    destruct (r_map_begin p (mkS (flat ss ++ r) rcx)) as [[h s1]| |]; cbn [bind] in *; try discriminate.
    rewrite Hr. reflexivity.
  Qed.
End Round.
