"""C20 -- generated Default values are the IDL defaults.

Implementation oracle: for every emitted type T: the Debug rendering of T::default() read back under the
schema == expected_default(T) computed from the IDL alone (pv/gengen.py: lit_value -- Thrift IDL literal
semantics, independent of pilota's lowering); the encoding of T::default() reference-decodes (every protocol)
to the same value and conforms to the schema (declared wire types, no unknown/mistyped fields, size() exact);
decoding the one-byte empty struct gives that same value whenever it succeeds, and fails exactly when a
required field has no default."""
import re
from .. import gengen, genref, genrun
from ..gencheck import have_property_file, run_check

PROP = 'C20'
LEVEL = 'proof' if have_property_file(PROP) else 'translation_validation'
DFLT_RE = re.compile(r'DEF (.*?) (SIZE (\d+) ENC ([0-9a-f-]+)|ENCERR \w+.*?)((?: NOTE .*?)?) EMPTY (.*)$')


def n_defaults(sch, tname):
    d = sch.types[tname]
    return sum(1 for f in d['fields'] if f['default'] is not None) if d['kind'] == 'struct' else 0


def gen_cases(gb, rng, tier):
    sch = gb.schema
    cases = []
    for cfg in gb.configs:
        for tname in sch.names_in(cfg):
            d = sch.types[tname]
            ty = ('ref', tname)
            want = gengen.show(sch, ty, gengen.empty_value(sch, ty))
            need_err = d['kind'] == 'struct' and any(f['req'] == 'required' and f['default'] is None for f in d['fields'])
            for proto in genrun.SYNC_PROTOS:
                if proto == 'unchecked' and d['kind'] != 'struct':
                    continue        # the 1-byte input is only a complete message for structs (contract of the unchecked reader)
                cases.append(dict(line=genrun.case_line('dflt', cfg, tname, proto), want=want, cfg=cfg, type=tname, proto=proto,
                                  mode='sync', kind=d['kind'], empty_must_fail=need_err, nontrivial=n_defaults(sch, tname) > 0))
    return cases


def evaluate(gb, case, out):
    sch = gb.schema
    tname, cfg, proto = case['type'], case['cfg'], case['proto']
    ty = ('ref', tname)
    m = DFLT_RE.match(out or '')
    if not m:
        return [('Default/encode/decode-empty run did not complete: %s' % (out or '')[:200], None)]
    got, why = genrun.value_text(gb, cfg, ty, m.group(1))
    if why:
        return [(why, None)]
    bad = []
    if got != case['want']:
        bad.append(('T::default() is not the IDL default (%s)' % genrun.diff_text(got, case['want']), None))
    if m.group(3) is None:
        bad.append(('encoding T::default() failed: ' + m.group(2)[:100], None))
    else:
        enc = b'' if m.group(4) == '-' else bytes.fromhex(m.group(4))
        try:
            v2, n, notes = genref.decode(sch, ty, enc, genrun.ref_proto(proto))
            back = gengen.show(sch, ty, v2)
            if n != len(enc) or notes:
                bad.append(('encode(T::default()) does not conform to the schema: %r' % (notes[:3] or 'trailing bytes',), None))
            elif back != case['want']:
                bad.append(('encode(T::default()) reference-decodes to another value (%s)' % genrun.diff_text(back, case['want']), None))
        except Exception as e:
            bad.append(('encode(T::default()) is not a valid %s message: %r' % (proto, e), None))
        if int(m.group(3)) != len(enc):
            cls = 'typedef-bool-size-compact' if proto == 'compact' and genrun.typedef_bool_under_compact(sch, tname) else None
            if cls is None:
                bad.append(('size() of the default is %s, %d bytes written' % (m.group(3), len(enc)), None))
    if case['kind'] == 'struct':
        e = genrun.Res(m.group(6))
        cls = 'keep-is-arg-swallow' if genrun.is_arg_swallow(sch, cfg, tname, 'sync') else None
        if e.kind == 'ok':
            ev, why = genrun.value_text(gb, cfg, ty, e.debug)
            if why:
                bad.append((why, cls))
            elif ev != got:
                bad.append(('decode(empty struct) differs from T::default() (%s)' % genrun.diff_text(ev, got), cls))
            if case['empty_must_fail']:
                bad.append(('decode(empty struct) succeeds although a required field has no default', cls))
        elif e.kind == 'err':
            if not case['empty_must_fail']:
                bad.append(('decode(empty struct) fails (%s) although every required field has a default' % e.line[:120], cls))
        else:
            bad.append(('decode(empty struct): %s' % e.line[:80], cls))
    return bad


def run(chk, replay=None):
    return run_check(chk, replay, PROP, gen_cases, evaluate,
                     rule="every emitted type (structs incl. synthesised service types, unions, enums, typedefs) of the corpus "
                          "(document dflt: defaults of every kind of the property text -- ints, bool from int, double from int, "
                          "decimal/exponent doubles, strings in both quote styles with escapes, binary, enum by name and by number, "
                          "const references incl. across files, list/set/map literals incl. [] for a map, nested struct literals, "
                          "typedef'd targets, btree containers; x required/optional/default requiredness) x {binary, binary_le, "
                          "compact, unchecked} x builder configs; non-trivial = the struct has at least one IDL default",
                     extra_dist=lambda cases, outs: dict(structs_with_defaults=len(set(c['type'] for c in cases if c['nontrivial'])),
                                                         default_fields=sum(1 for c in cases if c['nontrivial'])))
