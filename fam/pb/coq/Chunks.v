(* Non-contiguous buffers.  `Buf` lets a buffer expose its bytes as a sequence of chunks (bytes::buf::Chain, VecDeque<u8>,
   ropes): chunk() is the first chunk, get_u8 / advance / copy_to_bytes cross chunk boundaries by themselves.  The one
   decoder of pilota::prost::encoding that LOOKS at the chunk structure is decode_varint: it dispatches on the first chunk
   (one byte / unrolled slice decoder on the chunk / byte-at-a-time loop across chunks).  Every other read of the family
   goes through Buf's chunk-agnostic methods.  This file models decode_varint on a chunk list, with the loop bound of
   decode_varint_slow as it is written in the source (regenerated: Generated/PbConsts.v dsl_bound).
   Model only -- lemmas live in Proofs/ChunksP.v. *)
From PVPb Require Export Wire.
Open Scope Z_scope.

(* the functions of pilota/src/prost/*.rs that call Buf::chunk() (regenerated: Generated/PbConsts.v chunk_readers) -- the only
   one the models account for *)
Definition accounted_chunk_readers : list chunk_reader := [CRDecodeVarint].

Definition cbuf : Type := list (list byte).

(* Buf::chunk(): the first chunk that has bytes (a lawful Buf returns an empty slice only when nothing remains) *)
Fixpoint cb_chunk (cs : cbuf) : list byte :=
  match cs with
  | [] => []
  | [] :: r => cb_chunk r
  | c :: _ => c
  end.

Definition cb_remaining (cs : cbuf) : nat := length (concat cs).

(* Buf::get_u8 (None = panic: nothing remains) *)
Fixpoint cb_get_u8 (cs : cbuf) : option (byte * cbuf) :=
  match cs with
  | [] => None
  | [] :: r => cb_get_u8 r
  | (b :: c) :: r => Some (b, c :: r)
  end.

(* Buf::advance(n) (None = panic: beyond remaining) *)
Fixpoint cb_advance (n : nat) (cs : cbuf) : option cbuf :=
  match n with
  | O => Some cs
  | S n' => match cb_get_u8 cs with Some (_, cs') => cb_advance n' cs' | None => None end
  end.

Definition cres : Type := option (Z * cbuf) + psite.

(* decode_varint_slow on a chunk list: the loop of Wire.dv_slow_loop with get_u8 across chunks *)
Fixpoint cdv_slow_loop (n : nat) (count value : Z) (cs : cbuf) : cres :=
  match n with
  | O => inl None
  | S n' =>
      match cb_get_u8 cs with
      | None => inr SAdvance
      | Some (b, rest) =>
          let byte := b2z b in
          let value' := Z.lor value (shl64 (Z.land byte dsl_mask) (count * dsl_shift)) in
          if byte <=? dsl_last_le then
            if (count =? dsl_last_count) && (dsl_last_bound <=? byte) then inl None
            else inl (Some (value', rest))
          else cdv_slow_loop n' (count + 1) value' rest
      end
  end.

(* `for count in 0..min(10, <bound>)` with the bound the source names *)
Definition cdecode_varint_slow (cs : cbuf) : cres :=
  let n := match dsl_bound with
           | SBRemaining => Z.min dsl_max_bytes (Z.of_nat (cb_remaining cs))
           | SBChunk => Z.min dsl_max_bytes (Z.of_nat (length (cb_chunk cs)))
           | SBNone => dsl_max_bytes
           end in
  cdv_slow_loop (Z.to_nat n) 0 0 cs.

(* decode_varint (dispatch) *)
Definition cdecode_varint (cs : cbuf) : cres :=
  let bytes := cb_chunk cs in
  let len := length bytes in
  if Nat.eqb len 0 then inl None else
  let byte := b2z (hd x00 bytes) in
  if byte <? dv_one_byte_below then
    match cb_advance 1 cs with Some cs' => inl (Some (byte, cs')) | None => inr SAdvance end
  else if (dv_slice_len_above <? Z.of_nat len) || (b2z (last bytes x00) <? dv_slice_last_below) then
    match decode_varint_slice bytes with
    | inr p => inr p
    | inl None => inl None
    | inl (Some (v, adv)) => match cb_advance adv cs with Some cs' => inl (Some (v, cs')) | None => inr SAdvance end
    end
  else cdecode_varint_slow cs.

(* what a result on a chunk list says about the bytes: the value and the bytes that remain *)
Definition cres_flat (r : cres) : vres :=
  match r with
  | inl (Some (v, cs')) => inl (Some (v, concat cs'))
  | inl None => inl None
  | inr p => inr p
  end.
