"""C14 -- Every IDL in the supported grammar generates Rust that compiles.

LEVEL (honest): partial.  Theorems (fam/bld/coq/Properties/C14.v) for the decision procedures compilability hinges on
(keyword escaping over the regenerated KEYWORDS_SET, the sibling-collision rule, relative paths, Box insertion, the AutoDerive
fixpoint over the regenerated predicate tables / graph accessor); the
property itself is VALIDATED: generated documents x builder configurations -> real pilota-build in a child process
(termination, exit status, panic message) -> `cargo check --offline` of the emitted code against /repo/pilota.

correspondence  model vs implementation on case lines (Display, related_path, case conversion idempotence) and model vs
                emitted text (field identifiers after collision rule + escaping, boxed fields, and -- per item of every
                generated document -- the AutoDerive decision of Derive.v on the item graph dumped by the harness vs the
                #[derive(...)] attributes scraped from the emitted text)
known findings  documents of a decidable known class (predicted from the document by the model / by a syntactic test)
                are compiled in a crate of their own; a failure there is reported through chk.violation(cls=...) and
                prints KNOWN-FINDING; any other failure is a VIOLATION with the shrunk document as replay.
"""
import hashlib, json, os, random, re, shutil, subprocess, time
from concurrent.futures import ThreadPoolExecutor
from .. import core, bldgen

FAM = core.Family("bld")
# keyed by the repository the run looks at (PV_REPO copies) and by the process: concurrent runs never share a work directory
WORK = os.path.join(core.CACHE, "bld", "c14_%s_%d" % ("repo" if os.path.realpath(core.REPO) == "/repo" else hashlib.sha1(os.path.realpath(core.REPO).encode()).hexdigest()[:8], os.getpid()))
LEVEL = "proof"

CONFIGS = [dict(mode=m, keep=k, cc=c, iu=i) for m in ("single", "split") for k in (0, 1) for c in (1, 0) for i in (0, 1)]


def cfg_id(c):
    return "%s%d%d%d" % ("s" if c["mode"] == "single" else "p", c["keep"], c["cc"], c["iu"])


def cfg_flags(c):
    return (["--keep"] if c["keep"] else []) + ([] if c["cc"] else ["--no-change-case"]) + ([] if c["iu"] else ["--no-ignore-unused"])


# ------------------------------------------------------------------------------------------------ known-finding witnesses
def W(cls, files, expect, cfg=None, kind="thrift", entry=None, what="", also=None):
    """expect: the signature of the class (at least one diagnostic of an attributed document must match it);
    also: follow-up diagnostics rustc reports for the same defect, too generic to count as the signature on their own"""
    return dict(cls=cls, files=files, expect=expect, cfg=cfg or dict(mode="single", keep=0, cc=1, iu=0), kind=kind,
                entry=entry or sorted(files)[0], what=what, also=also)


WITNESSES = [
    W("union-only-by-value-cycle", {"main.thrift": "namespace rs w\nunion Ua { 1: Ub b, 2: i32 i }\nunion Ub { 1: Ua a, 2: i32 j }\n"},
      r"E0072|E0391 cycle detected when computing"),     # the infinite size, and rustc's follow-up on the same types (drop / layout query cycle)
    W("path-keyword-suffix-collision", {"main.thrift": "namespace rs w\nstruct S { 1: i32 self, 2: i32 self_ }\n"},
      r"E0124|E0592", also=r"E0062 field `\w+` specified more than once|E0308 mismatched types"),
    # ^ the duplicate member; follow-ups: every struct literal names it twice, and when the two members differ in type every use of one of them
    W("related-path-target-is-prefix", {"main.thrift": 'namespace rs a.b.c\ninclude "p1.thrift"\nconst i32 k = p1.b\n',
                                        "p1.thrift": "namespace rs a\nconst i32 b = 1\n"}, r"E0423",
      cfg=dict(mode="single", keep=0, cc=0, iu=0), entry="main.thrift"),
    W("lone-underscore-identifier", {"main.thrift": "namespace rs w\nstruct S2 { 1: i32 _ }\n"}, r"reserved identifier `_`"),
    W("container-literal-inside-container-literal", {"main.thrift": "namespace rs w\nstruct S { 1: map<i8, map<byte, string>> m = {1: {2: \"x\"}} }\n"},
      r"PANIC unexpected literal"),
    W("uuid-not-a-direct-field", {"main.thrift": "namespace rs w\nstruct S { 1: list<uuid> l }\ntypedef uuid Id\n"}, r"E0308"),
    W("const-of-set-type", {"main.thrift": "namespace rs w\nconst set<i32> S = [1, 2]\n"}, r"PANIC (assertion failed: l.is_empty|invalid map type)"),
    W("item-shadows-prelude-name", {"main.thrift": "namespace rs w\ntypedef i32 Some\nstruct S { 1: optional i32 x, 2: optional Some y }\n"}, r"E0308|E0423|E0532|E0618|E0614 type `\w+` cannot be dereferenced|E0277 the trait bound `\w+: pilota::thrift::Message`"),
    W("btree-container-of-double", {"main.thrift": 'namespace rs w\nstruct S { 1: map<i32, double> m (pilota.rust_type = "btree") }\n'}, r"E0277"),
    W("derive-cycle-edge-outside-workspace-graph",
      {"main.thrift": 'namespace rs w\nstruct A { 1: required B b, 2: required N n }\nstruct B { 1: optional A a (pilota.rust_wrapper_arc = "true") }\n'
                      'struct N { 1: required double x }\n'}, r"E0277"),
    W("derive-cycle-edge-outside-workspace-graph",
      {"main.thrift": 'namespace rs w\nstruct A { 1: required B b, 2: required N n }\nstruct B { 1: required map<i32, A> a (pilota.rust_type = "btree") }\n'
                      'struct N { 1: required double x }\n'}, r"E0277"),
    # split mode with an item in the root module (protobuf file without `package`): before the repair of F-14f this wrote /mod.rs at
    # the FILE-SYSTEM ROOT -- only run against a tree that has the repair
    W("split-mode-root-module", {"p0.proto": 'syntax = "proto3";\nmessage Root {\n  int32 x = 1;\n  Leaf l = 2;\n}\nmessage Leaf {\n  string s = 1;\n}\n'},
      r"include!|No such file|couldn't read", cfg=dict(mode="split", keep=0, cc=1, iu=0), kind="pb", entry="p0.proto"),
    # protobuf type names are qualified from the package root, but Resolver::lower_path searched the innermost block first: a oneof
    # / nested message of an ENCLOSING message called like a top-level message captured the name (F-14w; repeated -> unreachable!() in
    # codegen_merge_field, singular -> the wrong type: E0277 / E0599, or no diagnostic at all)
    W("proto-type-name-shadowed-by-nested-item",
      {"p0.proto": 'syntax = "proto3";\npackage a;\nmessage U {\n  string leaf = 1;\n}\nmessage EAW {\n  message Leaf {\n    repeated .a.U r = 1;\n  }\n'
                   '  oneof U {\n    int32 user = 3;\n    string s = 4;\n  }\n}\n'}, r"PANIC internal error: entered unreachable code", kind="pb", entry="p0.proto"),
    W("proto-type-name-shadowed-by-nested-item",
      {"p0.proto": 'syntax = "proto3";\npackage a;\nmessage U {\n  string leaf = 1;\n}\nmessage EAW {\n  message Leaf {\n    .a.U r = 1;\n  }\n'
                   '  oneof U {\n    int32 user = 3;\n    string s = 4;\n  }\n}\n'}, r"E0277|E0599|E0308", kind="pb", entry="p0.proto"),
    # a set literal (or [] for an empty map) nested in a const container had no lowering arm (F-14x)
    W("const-nested-set-literal", {"main.thrift": "namespace rs w\nconst list<set<i64>> SETTLE = [[], [-2401851961459905852], [7, 0]]\n"},
      r"PANIC unexpected literal"),
    W("const-nested-set-literal", {"main.thrift": 'namespace rs w\nconst map<i32, set<string>> MS = {1: ["a", "b"], 2: []}\n'}, r"PANIC unexpected literal"),
    # a list nested in a const list was typed as an array of length 0 (F-14y)
    W("const-nested-list-literal", {"main.thrift": "namespace rs w\nconst list<list<i32>> LL = [[1], [2, 3], []]\n"}, r"E0308"),
    # a Thrift enum member called like an inherent method of the emitted newtype (change_case off keeps the spelling): F-14z
    W("enum-member-named-like-emitted-method", {"main.thrift": "namespace rs w\nenum E {\n  inner = 1,\n  other = 2,\n}\n"},
      r"E0592 duplicate definitions with name `(?:inner|to_string)`", cfg=dict(mode="single", keep=0, cc=0, iu=0),
      also=r"E0599 no method named `(?:inner|to_string)`"),
    W("enum-default-through-typedef", {"main.thrift": "namespace rs w\nenum E { A = 1 }\ntypedef E Te\nstruct S { 1: Te e = E.A }\n"}, r"PANIC invalid convert"),
    W("type-named-like-generic-parameter", {"main.thrift": "namespace rs w\nunion T { 1: i32 a, 2: string b }\n"}, r"E0599|E0277"),
    W("type-named-like-generic-parameter", {"p0.proto": 'syntax = "proto3";\npackage w;\nmessage B {\n  int32 x = 1;\n  B next = 2;\n}\n'},
      r"E0599|E0277|E0308|E0107", kind="pb", entry="p0.proto"),
    W("const-named-like-keyword", {"main.thrift": "namespace rs w\nconst double in = 1.5\n"}, r"expected identifier, found keyword",
      cfg=dict(mode="single", keep=0, cc=0, iu=0)),
    W("value-item-named-like-local-binding", {"main.thrift": "namespace rs w\ntypedef i8 v\ntypedef i8 V\n"},
      r"E0530|interpreted as a constant"),  # E0308 `v` is interpreted as a constant, not a new binding: a `let v = ...` of the emitted code
    W("proto-recursive-oneof-member", {"p0.proto": 'syntax = "proto3";\npackage w;\nmessage Tree {\n  oneof node {\n    double d = 1;\n    Tree t = 2;\n  }\n}\n'},
      r"E0308", kind="pb", entry="p0.proto"),
    W("conversion-not-idempotent-collision", {"main.thrift": "namespace rs w\nstruct AB { 1: i32 a }\nstruct Ab { 1: i32 a }\nstruct aB { 1: i32 a }\n"},
      r"E0428|E0119 conflicting implementations of trait"),     # the type defined twice, hence every derived / emitted impl twice
    W("service-name-underscore-digit", {"main.thrift": "namespace rs w\nservice _1 { i32 K(1: i32 a) }\n"}, r"exit 1|expected type"),
]
FINDING_IDS = {  # class -> id in known_findings.json
    "enum-member-named-like-emitted-method": "F-14z",
    "proto-type-name-shadowed-by-nested-item": "F-14w", "const-nested-set-literal": "F-14x", "const-nested-list-literal": "F-14y",
    "split-mode-root-module": "F-14f", "union-only-by-value-cycle": "F-14b", "path-keyword-suffix-collision": "F-14c", "related-path-target-is-prefix": "F-14d",
    "lone-underscore-identifier": "F-14e", "container-literal-inside-container-literal": "F-14g", "uuid-not-a-direct-field": "F-14h",
    "const-of-set-type": "F-14i", "item-shadows-prelude-name": "F-14j", "btree-container-of-double": "F-14k",
    "enum-default-through-typedef": "F-14l", "type-named-like-generic-parameter": "F-14m", "const-named-like-keyword": "F-14n",
    "value-item-named-like-local-binding": "F-14o", "service-name-underscore-digit": "F-14p", "proto-recursive-oneof-member": "F-14q",
    "conversion-not-idempotent-collision": "F-14r", "derive-cycle-edge-outside-workspace-graph": "F-14s"}


# ------------------------------------------------------------------------------------------------ builder + cargo
def run_builder(hb, kind, idl_dir, entry, out_file, cfg, timeout=120, dump_derive=None):
    os.makedirs(os.path.dirname(out_file), exist_ok=True)
    cmd = [hb, "gen", kind, cfg["mode"], out_file] + cfg_flags(cfg)
    if dump_derive:
        os.makedirs(os.path.dirname(dump_derive), exist_ok=True)
        if os.path.exists(dump_derive):
            os.remove(dump_derive)
        cmd += ["--dump-derive", dump_derive]
    if kind == "pb":
        cmd += ["--include", idl_dir]
    cmd += ["--", os.path.join(idl_dir, entry)]
    try:
        p = subprocess.run(cmd, cwd=idl_dir, env=core.ENV, stdout=subprocess.PIPE, stderr=subprocess.PIPE, text=True, timeout=timeout)
    except subprocess.TimeoutExpired:
        return dict(ok=False, status="TIMEOUT after %ds" % timeout, rc=-1, stderr="")
    last = (p.stdout.strip().split("\n") or [""])[-1]
    ok = p.returncode == 0 and last == "OK"
    status = last if last.startswith("PANIC") else ("OK" if ok else "exit %d: %s" % (p.returncode, (p.stderr.strip().split("\n") or [""])[0][:200]))
    return dict(ok=ok, status=status, rc=p.returncode, stderr=p.stderr[-1500:])


def crate_dir(name):
    d = os.path.join(WORK, name)
    os.makedirs(os.path.join(d, "src"), exist_ok=True)
    toml = ('[package]\nname = "pv-bld-gen"\nversion = "0.0.0"\nedition = "2024"\n\n[workspace]\n\n[dependencies]\n'
            'pilota = { path = "%s/pilota" }\n' % os.path.realpath(core.REPO))
    p = os.path.join(d, "Cargo.toml")
    if not os.path.exists(p) or open(p).read() != toml:
        open(p, "w").write(toml)
    lock = os.path.join(core.REPO, "Cargo.lock")
    if os.path.exists(lock):
        shutil.copyfile(lock, os.path.join(d, "Cargo.lock"))
    return d


def target_dir():
    t = os.path.join(core.CACHE, "target_bld_gen")
    if os.path.realpath(core.REPO) != "/repo":
        t += "_" + hashlib.sha1(os.path.realpath(core.REPO).encode()).hexdigest()[:8]
    return t


def cargo_check(d, mods, timeout=1500):
    """mods: list of (module dir name, file name).  -> (ok, list of (module, code, message line))"""
    open(os.path.join(d, "src", "lib.rs"), "w").write("".join('include!("%s/%s");\n' % m for m in mods))
    env = dict(core.ENV, CARGO_TARGET_DIR=target_dir(), RUSTFLAGS="-Awarnings")
    with core.Lock("cargo_bld_gen"):
        rc, out = core.sh(["timeout", str(timeout), "cargo", "check", "--offline", "--quiet", "--message-format", "short"], cwd=d, env=env, timeout=timeout + 30)
    errs = []
    for ln in out.splitlines():
        m = re.match(r"^(?:src/|/)(\S+?):\d+:\d+: error(?:\[(E\d+)\])?: (.*)$", ln)
        if m:
            path = m.group(1)
            mod = path.split("/")[0] if not ln.startswith("/") else next((x for x in path.split("/") if re.match(r"^[abcdewqs]\d+", x)), path)
            errs.append((mod, m.group(2) or "syntax", m.group(3)[:300]))
        elif ln.startswith("error") and "could not compile" not in ln and "aborting" not in ln:
            errs.append(("?", "error", ln[:300]))
    return rc == 0, errs, out[-3000:]


# ------------------------------------------------------------------------------------------------ model side
HK = {"struct": "struct", "exception": "struct", "union": "enum", "enum": "enum", "typedef": "newtype", "const": "const",
      "service": "trait", "field": "field", "variant": "variant", "constvariant": "const", "method": "fn", "arg": "field"}
MK = {"struct": "struct", "exception": "struct", "union": "enum", "enum": "enum", "typedef": "newtype", "const": "const",
      "service": "service", "field": "field", "variant": "variant", "constvariant": "constvariant", "method": "method", "arg": "arg"}


IDEM = {}     # (harness kind, name) -> is the case conversion idempotent on it? (hypothesis of C14_names_injective)


def doc_scopes(doc):
    """-> list of (label, [(kind, orig, tag)]) : module scopes (items of all files sharing a namespace) and inner scopes"""
    mods = {}
    for fi, f in enumerate(doc.files):
        ns = tuple(f["ns"]) if f["ns"] is not None else (doc.stem(fi),)
        for it in f["items"]:
            mods.setdefault(ns, []).append((it["kind"], it["name"], None))
    out = [("mod:" + ".".join(ns), sibs) for ns, sibs in sorted(mods.items())]
    for lab, kind, names in doc.scopes():
        out.append((lab, [(kind, n, t) for n, t in names]))
    return out


def model_names(hb, runner, docs_scopes, cc):
    """emitted names per scope by the MODEL (collision rule + escaping), with case conversion taken from the
    implementation (harness `conv`).  -> {(doc index, label): [emitted]}"""
    pairs = sorted({(HK[k], n) for _, scopes in docs_scopes for _, sibs in scopes for k, n, _ in sibs})
    conv = dict(zip(pairs, core.run_lines(hb, ["conv %s %s" % p for p in pairs], shards=1, args=("lines",))))
    conv2 = core.run_lines(hb, ["conv %s %s" % (p[0], conv[p]) for p in pairs], shards=1, args=("lines",))
    for p, c2 in zip(pairs, conv2):
        IDEM[p] = (c2 == conv[p])
    cases, keys = [], []
    for di, scopes in docs_scopes:
        for lab, sibs in scopes:
            if not sibs:
                continue
            cases.append("emit %d " % cc + " ".join("%s:%s:%s:%s" % (MK[k], n, conv[(HK[k], n)], t or "-") for k, n, t in sibs))
            keys.append((di, lab))
    outs = core.run_lines(runner, cases, shards=1) if cases else []
    return {k: o.split(",") for k, o in zip(keys, outs)}, conv, len(cases)


def classes_of(doc, scopes, names, cfg, ucyc):
    """decidable known-finding classes the document falls into (from the model's predictions and syntactic tests)"""
    cls = set()
    if ucyc:
        cls.add("union-only-by-value-cycle")
    for lab, sibs in scopes:
        em = names.get(lab, [])
        if len(set(em)) != len(em):
            # the model predicts a duplicate: which side condition of C14_names_injective fails?
            if cfg["cc"] and not all(IDEM.get((HK[k], n), True) for k, n, _ in sibs):
                cls.add("conversion-not-idempotent-collision")
            else:
                cls.add("path-keyword-suffix-collision")
        for (k, n, _), e in zip(sibs, em):
            if n == "_":
                cls.add("lone-underscore-identifier")
            if k == "constvariant" and e in ("inner", "to_string"):
                # the member becomes an associated const of the emitted newtype, next to its inherent methods inner() / to_string()
                cls.add("enum-member-named-like-emitted-method")
            if lab.startswith("mod:"):
                if k in ("struct", "exception", "union", "enum", "typedef", "service"):
                    if e == "T":
                        cls.add("type-named-like-generic-parameter")
                    if e in bldgen.SHADOWING:
                        cls.add("item-shadows-prelude-name")
                if k in ("typedef", "enum", "const") and e in template_bindings():
                    # a tuple struct (typedef / enum newtype) or const lives in the VALUE namespace: it clashes with a local binding or
                    # parameter of the emitted code only if it is spelled exactly like one of them
                    cls.add("value-item-named-like-local-binding")
    return cls


_BINDINGS = None


def template_bindings():
    """the names the emission templates bind (let / closure parameters / function parameters / match arms), read from the generator's
    sources: pilota-build/src/codegen/**, middle/context.rs, plugin/** -- the only names a lower-case value item can collide with
    (finding F-14o).  Over-approximate (the generator's own local variables are in the set too), but far narrower than `any lower-case
    name`."""
    global _BINDINGS
    if _BINDINGS is None:
        names = set()
        base = os.path.join(core.REPO, "pilota-build", "src")
        for sub in ("codegen", "plugin", os.path.join("middle", "context.rs")):
            q = os.path.join(base, sub)
            files = [q] if os.path.isfile(q) else [os.path.join(d_, f) for d_, _, fs in os.walk(q) for f in fs if f.endswith(".rs")]
            for f in files:
                t = open(f, encoding="utf-8", errors="replace").read()
                names |= set(re.findall(r"\blet\s+(?:mut\s+)?([a-z_][a-z0-9_]*)\b", t))
                names |= set(re.findall(r"\|\s*(?:mut\s+)?([a-z_][a-z0-9_]*)\s*(?:,|\||:)", t))
                names |= set(re.findall(r"[(,]\s*(?:mut\s+)?([a-z_][a-z0-9_]*)\s*:\s*[&A-Za-z:<\[(]", t))
                names |= set(re.findall(r"\b(?:Some|Ok|Err)\(\s*(?:mut\s+|ref\s+)?([a-z_][a-z0-9_]*)\s*\)", t))
                names |= set(re.findall(r"\bfor\s+\(?\s*([a-z_][a-z0-9_]*)", t))
        names -= {"self", "_"}
        _BINDINGS = names
    return _BINDINGS


def diagnostics(b, ok, errs):
    """the individual diagnostics of a failed run: the builder's status (one), or every rustc error as `<code> <message>`"""
    if not b["ok"]:
        return [b["status"] + " " + b["stderr"][-600:]]
    if ok is False:
        return ["%s %s" % (c, m) for _, c, m in errs] or ["cargo check failed without a parsable diagnostic"]
    return []


def attribute(diags, classes):
    """-> (explained, unexplained): a diagnostic is explained if it matches the `expect` of a witness of one of the given classes.
    A document is attributed to its open classes only if EVERY diagnostic is explained"""
    pats = [w["expect"] for w in WITNESSES if w["cls"] in classes]
    also = [w["also"] for w in WITNESSES if w["cls"] in classes and w.get("also")]
    ex, follow, un = [], [], []
    for dg in diags:
        if any(re.search(p_, dg) for p_ in pats):
            ex.append(dg)
        elif any(re.search(p_, dg) for p_ in also):
            follow.append(dg)
        else:
            un.append(dg)
    if not ex:                      # follow-ups alone do not identify the class
        un, follow = un + follow, []
    return ex, un


def const_literal_classes(doc):
    """classes F-14x / F-14y, decided on the types of the document's consts: a set (or a map, whose empty literal is `[]`) below the
    top of the type; a list directly inside a list"""
    cls = set()

    def walk(t, top, in_list):
        k = t[0]
        if k == "set":
            if not top:
                cls.add("const-nested-set-literal")
            walk(t[1], False, False)
        elif k == "map":
            if not top:
                cls.add("const-nested-set-literal")     # `[]` for an empty map below the top takes the same missing arm
            walk(t[1], False, False)
            walk(t[2], False, False)
        elif k == "list":
            if in_list:
                cls.add("const-nested-list-literal")
            walk(t[1], False, True)
    for f in doc.files:
        for it in f["items"]:
            if it["kind"] == "const":
                walk(it["ty"], True, False)
    return cls


def proto_shadow_class(files):
    """class F-14w, decided on the text of a generated protobuf document (layout of bldgen.ProtoGen): a type name `.pkg.X...` used inside
    a message whose enclosing messages (for a oneof member: the message itself too) have a oneof / nested message / nested enum called X"""
    for text in files.values():
        pkg = re.search(r"^package ([\w.]+);", text, flags=re.M)
        pkg = pkg.group(1) if pkg else ""
        stack, nested = [], {}          # stack of (kind, name); nested[path of message] = names of its nested items
        lines = text.split("\n")
        for ln in lines:                # pass 1: nested item names per message
            t = ln.strip()
            m = re.match(r"^(message|enum|oneof|service) (\w+) \{", t)
            if m:
                owner = tuple(n for k, n in stack if k == "message")
                if owner and m.group(1) != "service":
                    nested.setdefault(owner, set()).add(m.group(2))
                stack.append((m.group(1), m.group(2)))
            elif t.startswith("}"):
                stack.pop()
        stack = []
        for ln in lines:                # pass 2: uses
            t = ln.strip()
            m = re.match(r"^(message|enum|oneof|service) (\w+) \{", t)
            if m:
                stack.append((m.group(1), m.group(2)))
                continue
            if t.startswith("}"):
                stack.pop()
                continue
            if not stack or stack[-1][0] not in ("message", "oneof"):
                continue
            chain = [n for k, n in stack if k == "message"]
            scopes = [tuple(chain[:i]) for i in range(1, len(chain) + (1 if stack[-1][0] == "oneof" else 0))]
            for name in re.findall(r"(?<![\w.])\.([A-Za-z_][\w.]*)", t.split("=")[0]):
                rest = name[len(pkg) + 1:] if pkg and name.startswith(pkg + ".") else name
                first = rest.split(".")[0]
                if any(first in nested.get(sc, ()) for sc in scopes):
                    return {"proto-type-name-shadowed-by-nested-item"}
    return set()


FIELD_RE = re.compile(r"^\s*pub ([A-Za-z_#][A-Za-z0-9_#]*):\s*(.*?),?\s*$")


def scrape_structs(text):
    """-> {struct name: [ [(field, type text)] , ...]} for every `pub struct N { ... }` (rustfmt layout)"""
    out = {}
    lines = text.split("\n")
    i = 0
    while i < len(lines):
        m = re.match(r"^(\s*)pub struct ([A-Za-z_#][A-Za-z0-9_#]*) \{\s*(\})?\s*$", lines[i])
        if m:
            fields = []
            if not m.group(3):
                j = i + 1
                close = m.group(1) + "}"
                while j < len(lines) and lines[j].rstrip() != close:
                    fm = FIELD_RE.match(lines[j])
                    if fm and len(lines[j]) - len(lines[j].lstrip()) == len(m.group(1)) + 4:
                        ty = fm.group(2)
                        # rustfmt breaks a long type over several, deeper indented, lines
                        while j + 1 < len(lines) and lines[j + 1].strip() and len(lines[j + 1]) - len(lines[j + 1].lstrip()) > len(m.group(1)) + 4:
                            j += 1
                            ty += lines[j].strip()
                        fields.append((fm.group(1), ty.rstrip(",")))
                    j += 1
                i = j
            out.setdefault(m.group(2), []).append(fields)
        i += 1
    return out


ITEM_RE = re.compile(r"^(\s*)pub (?:struct|enum) ((?:r#)?[A-Za-z_][A-Za-z0-9_]*)\b")


def scrape_derives(text):
    """-> {item name: [(has PartialOrd, has Hash+Eq+Ord), ...]} for every `pub struct N` / `pub enum N`, from the attribute
    lines directly above it"""
    out = {}
    lines = text.split("\n")
    for i, ln in enumerate(lines):
        m = ITEM_RE.match(ln)
        if not m:
            continue
        ds = set()
        j = i - 1
        block = []
        # attribute lines above the item (rustfmt wraps a long #[derive( ... )] over several lines)
        while j >= 0 and lines[j].strip() and lines[j].rstrip()[-1] in "],(" and not lines[j].strip().startswith(("pub ", "//")):
            block.append(lines[j].strip())
            j -= 1
        for dm in re.finditer(r"#\[derive\((.*?)\)\]", " ".join(reversed(block)), flags=re.S):
            ds |= {x.strip() for x in dm.group(1).split(",") if x.strip()}
        out.setdefault(m.group(2), []).append(("PartialOrd" in ds, {"Hash", "Eq", "Ord"} <= ds))
    return out


def read_derive_dump(path):
    """-> (order ids, [(id, emitted, rust name, body)]) or None"""
    if not os.path.exists(path):
        return None
    order, items = [], []
    for ln in open(path, encoding="utf-8", errors="replace").read().split("\n"):
        t = ln.split(" ")
        if t[0] == "ORDER":
            order = [x for x in (t[1] if len(t) > 1 else "").split(",") if x]
        elif t[0] == "ITEM" and len(t) == 5:
            items.append((t[1], t[2] == "1", t[3], t[4]))
    return order, items


def derive_lines(dump):
    order, items = dump
    g = ";".join("%s=%s" % (i, body) for i, _, _, body in items)
    return ["derive %s %s %s" % (tr, ",".join(order) or "-", g) for tr in ("po", "heo")]


def parse_derive_answer(a):
    """'<id>=Y ... | closed=1 wsc=1 cons=1' -> ({id: Y|N|D}, {flag: bool}) or None (PANIC / FUEL / BADCASE)"""
    if "|" not in a:
        return None
    left, right = a.split("|", 1)
    return (dict(x.split("=") for x in left.split()), {k: v == "1" for k, v in (x.split("=") for x in right.split())})


# ------------------------------------------------------------------------------------------------ the check
def gen_docs(rng, tier):
    n_th = 8 if tier == "quick" else 40
    n_pb = 3 if tier == "quick" else 12
    sw = bldgen.sweep_doc()
    docs = [dict(id="s0", kind="thrift", doc=sw, files=sw.texts(), entry="main.thrift")]
    # directed: every collision feature (service / method / struct / field / enum member / const names that coincide after case
    # conversion) x include (collisions in the including file, in the included file, in both along a chain, in a diamond)
    for i, (name, cd) in enumerate(bldgen.collision_include_docs()):
        docs.append(dict(id="c%d" % i, kind="thrift", doc=cd, files=cd.texts(), entry="main.thrift", directed=name))
    # directed: split-mode file names -- items of every kind whose names collide ignoring case together with items literally named like
    # the suffixed forms, in three declaration orders; always compiled in split mode (two configurations) and once in single-file mode
    for i, (name, sd) in enumerate(bldgen.split_name_docs()):
        docs.append(dict(id="e%d" % i, kind="thrift", doc=sd, files=sd.texts(), entry="main.thrift", directed=name,
                         force_cfgs=[dict(mode="split", keep=0, cc=1, iu=0), dict(mode="split", keep=1, cc=0, iu=i % 2),
                                     dict(mode="single", keep=0, cc=1 - i % 2, iu=0)]))
    # directed (raw text, no AST: compiled and derive-checked, not part of the naming correspondences): pilota annotations on every
    # position x the other features of the same item
    for i, (name, files, entry) in enumerate(bldgen.annotation_docs()):
        docs.append(dict(id="a%d" % i, kind="thrift", doc=None, files=files, entry=entry, directed=name))
    # directed protobuf documents (keywords in every name position, packages, imports through every carrier, oneofs, nested types, maps)
    for i, (name, files, entry) in enumerate(bldgen.proto_sweep_docs()):
        docs.append(dict(id="b%d" % i, kind="pb", doc=None, files=files, entry=entry, directed=name))
    for i in range(n_th):
        r = random.Random(rng.randrange(1 << 30))
        doc = bldgen.gen_thrift_doc(r, exotic=r.choice([0.3, 0.6, 0.9]), union_cycles=0.08, path_kw_pairs=0.05, arc_btree_edges=0.08, btree_double=0.3)
        docs.append(dict(id="d%d" % i, kind="thrift", doc=doc, files=doc.texts(), entry="main.thrift"))
    for i in range(n_pb):
        r = random.Random(rng.randrange(1 << 30))
        nf = r.choice([1, 2])
        # a single file without `package`: every item in the root module (split mode: finding F-14f, repaired)
        files = bldgen.gen_proto_doc(r, exotic=r.choice([0.2, 0.5]), n_top=r.choice([2, 4]), n_nested=r.choice([2, 3]),
                                     proto2=r.random() < 0.3, n_files=nf, services=r.choice([0, 2]),
                                     package=not (nf == 1 and r.random() < 0.5))
        docs.append(dict(id="q%d" % i, kind="pb", doc=None, files=files, entry="p0.proto"))
    return docs


def write_files(d, files):
    shutil.rmtree(d, ignore_errors=True)
    os.makedirs(d)
    for fn, t in files.items():
        open(os.path.join(d, fn), "w").write(t)


def compile_alone(hb, kind, files, entry, cfg, tag):
    """one document in a crate of its own -> (builder result, cargo ok, errors)"""
    idl = os.path.join(WORK, "idl", tag)
    write_files(idl, files)
    d = crate_dir("solo")
    shutil.rmtree(os.path.join(d, "src"), ignore_errors=True)
    os.makedirs(os.path.join(d, "src"))
    b = run_builder(hb, kind, idl, entry, os.path.join(d, "src", "w0", "w0.rs"), cfg)
    if not os.path.exists(os.path.join(d, "src", "w0", "w0.rs")):
        return b, None, []
    ok, errs, raw = cargo_check(d, [("w0", "w0.rs")], timeout=600)
    return b, ok, errs


def signature(b, ok, errs):
    """what failed, as one string a class's `expect` regex is matched against"""
    parts = []
    if not b["ok"]:
        parts.append(b["status"])
        parts.append(b["stderr"][-600:])
    if ok is False:
        parts += ["%s %s" % (c, m) for _, c, m in errs]
    return " | ".join(parts)


def shrink(hb, d, cfg, budget):
    """greedy deletion of items and fields while the first failure (builder status class or first rustc error code) persists"""
    if d["doc"] is None:
        return d["files"], 0
    import copy
    doc = copy.deepcopy(d["doc"])

    def fails(dc):
        b, ok, errs = compile_alone(hb, "thrift", dc.texts(), "main.thrift", cfg, "shrink")
        if not b["ok"]:
            # the status line and the first diagnostic the front end printed (so that deleting a declaration another item refers to,
            # which fails differently, is not taken for the same failure)
            first = next((l for l in b.get("stderr", "").splitlines() if l.strip()), "")
            return "B:" + re.sub(r"[^A-Za-z ]", "", b["status"])[:40] + "|" + re.sub(r"[^A-Za-z ]", "", first)[:30]
        if ok is False and errs:
            return "C:" + errs[0][1]
        return None
    want = fails(doc)
    steps = 0
    if want is None:
        return d["files"], 0
    for fi in range(len(doc.files)):
        i = 0
        while i < len(doc.files[fi]["items"]) and steps < budget:
            trial = copy.deepcopy(doc)
            del trial.files[fi]["items"][i]
            steps += 1
            if fails(trial) == want:
                doc = trial
            else:
                i += 1
    for fi in range(len(doc.files)):
        for it in doc.files[fi]["items"]:
            j = 0
            while it.get("fields") and j < len(it["fields"]) and steps < budget:
                trial = copy.deepcopy(doc)
                tit = trial.find(fi, it["name"])
                del tit["fields"][j]
                steps += 1
                if fails(trial) == want:
                    doc = trial
                    it = doc.find(fi, it["name"])
                else:
                    j += 1
    return doc.texts(), steps


def _run(chk, replay=None):
    gate, hb = bldgen.std_setup(chk, FAM)
    chk.cov["checker_cmd"] = "make -C fam/bld/coq Properties/C14.vo && coqc -Q coq PV -Q fam/bld/coq PVBld Properties/C14.v (Print Assumptions allowlist, forbidden-vernacular grep)"
    chk.cov["trusted_base"] = core.TRUSTED_BASE[:3] + [
        "rustc / cargo check (the oracle of the validated part) and the pilota runtime crate the emitted code is checked against",
        "tools/extract_bld.py (KEYWORDS_SET / path-segment keyword tables), fam/bld/harness, fam/bld/runner/main.ml glue, pv/bldgen.py generators",
        "hand-written models Names.v / Paths.v / BoxCycle.v / Derive.v (tied by line correspondences, by comparison with the emitted text, "
        "Derive.v also by the regenerated predicate tables / graph accessor / source digests); which Rust types implement Hash/Eq/Ord/PartialOrd "
        "(Derive.base_ok, kinds_ok) is written by hand",
        "the Rust reference keyword list (edition 2024) written from memory in Names.v; heck case conversion is a Section variable with the hypothesis `idempotent` (validated on the identifier pool on every run)",
        "NOT proved: that the emitted text type-checks (no formal model of rustc); validated by compilation of N documents (see distribution)"]
    chk.cov["rule"] = ("documents: generated Thrift documents (pv/bldgen.py, grammar G_thrift restricted as documented in fam/bld/NOTES.md) "
                       "and protobuf documents x builder configurations {single,split} x keep_unknown_fields x change_case x ignore_unused "
                       "(quick: 4 of the 16 per document, rotating; thorough: all 16); a case = one (document, configuration): builder in a child "
                       "process, then cargo check; non-trivial = the builder emitted at least one type; line cases: Display / related_path / "
                       "conversion idempotence (model vs implementation); text cases: field identifiers and Box decisions per struct, "
                       "derive attributes per emitted struct / enum / newtype (model run on the item graph dumped by the harness)")
    if hb is None or not os.path.exists(FAM.runner):
        if not gate["ok"]:
            chk.violation("proof obligation broken: %s" % gate.get("failed"), dict(kind="proof", failed=gate.get("failed"), error=gate.get("error")), no_input=True)
        return chk.finish()
    runner = FAM.runner
    rng = random.Random(chk.seed)
    os.makedirs(WORK, exist_ok=True)
    failing, mism = [], []
    t_start = time.time()

    # ---------------------------------------------------------------- replay of one document
    if replay is not None and replay.get("kind") == "document":
        b, ok, errs = compile_alone(hb, replay["idl_kind"], replay["files"], replay["entry"], replay["cfg"], "replay")
        chk.count(json.dumps(replay["files"], sort_keys=True), True)
        if not b["ok"] or ok is False:
            chk.violation("C14 fails on the implementation: " + signature(b, ok, errs)[:300],
                          dict(kind="document", idl_kind=replay["idl_kind"], files=replay["files"], entry=replay["entry"], cfg=replay["cfg"],
                               builder=b, errors=errs[:10]), cls=replay.get("cls"))
        return chk.finish()

    # ---------------------------------------------------------------- 1. line correspondences (model vs implementation)
    pool = sorted(set(bldgen.RUST_KEYWORDS + bldgen.PATH_KW + [k + "_" for k in bldgen.PATH_KW] + bldgen.HELPERS + bldgen.PLAIN + bldgen.PREFIXED +
                      bldgen.SHADOWING + [x for g in bldgen.COLLIDERS for x in g] + ["alignof", "offsetof", "proc", "pure", "sizeof", "union", "macro_rules", "raw", "safe"]))
    nm = bldgen.Names(rng, 0.3)
    pool += [nm.fresh() for _ in range(150 if chk.tier == "quick" else 2000)]
    lines = ["disp " + s for s in pool]
    segs = ["a", "b", "c", "self", "super", "crate", "Self", "type", "fn", "x1", "Foo", "mod", "gen"]
    for _ in range(300 if chk.tier == "quick" else 5000):
        p1 = [rng.choice(segs) for _ in range(rng.choice([0, 1, 2, 3, 4]))]
        k = rng.randrange(0, len(p1) + 1)
        p2 = p1[:k] + [rng.choice(segs) for _ in range(rng.choice([1, 1, 2, 3]))] if rng.random() < 0.8 else [rng.choice(segs) for _ in range(rng.choice([1, 2, 3]))]
        lines.append("rel %s %s" % (",".join(p1) or "-", ",".join(p2)))
        if p1:
            lines.append("wrel %s %s" % (",".join(p1), ",".join(p2)))
    impl = core.run_lines(hb, lines, shards=1, args=("lines",))
    mod = core.run_lines(runner, lines, shards=1)
    for l, a, b in zip(lines, impl, mod):
        chk.count(l, l.startswith("rel") or l.startswith("wrel"))
        if a != b:
            mism.append(dict(case=l, impl_output=a, model_output=b, correspondence="lines (Names.display / Paths.related_path vs Symbol Display / PathResolver)"))
    # a related_path disagreement is turned into a document: a struct in module p1 referring to a struct in p2's module
    rel_bad = [m for m in mism if m["case"].startswith("rel ")][:4]
    for m in rel_bad:
        _, a1, a2 = m["case"].split(" ")
        p1 = [] if a1 == "-" else a1.split(",")
        p2 = a2.split(",")
        if len(p2) < 2 or p2[:-1] == p1:
            continue
        files = {"main.thrift": ("namespace rs %s\n" % ".".join(p1) if p1 else "") + 'include "t.thrift"\nstruct Holder { 1: required t.Target x, 2: optional list<t.Target> xs }\n',
                 "t.thrift": "namespace rs %s\nstruct Target { 1: i32 a }\n" % ".".join(p2[:-1])}
        cfgw = dict(mode="single", keep=0, cc=0, iu=0)
        b, ok2, errs2 = compile_alone(hb, "thrift", files, "main.thrift", cfgw, "rel")
        chk.count("rel-document " + m["case"], True)
        if not b["ok"] or ok2 is False:
            failing.append((dict(kind="thrift", files=files, entry="main.thrift", doc=None, id="rel"), cfgw,
                            "a reference from module %s to module %s does not resolve: %s" % (".".join(p1) or "<root>", ".".join(p2[:-1]), signature(b, ok2, errs2)[:300]),
                            b, errs2))
    # conversion idempotence (the hypothesis of C14_names_injective), on the pool
    kinds = ["struct", "field", "const", "mod", "variant", "fn"]
    c1 = core.run_lines(hb, ["conv %s %s" % (k, s) for k in kinds for s in pool], shards=1, args=("lines",))
    c2 = core.run_lines(hb, ["conv %s %s" % (k, s) for k, s in zip([k for k in kinds for _ in pool], c1)], shards=1, args=("lines",))
    nonidem = [(k, s, a, b) for (k, s), a, b in zip([(k, s) for k in kinds for s in pool], c1, c2) if a != b]
    chk.cov["conv_idempotence"] = dict(checked=len(c1), not_idempotent=len(nonidem), examples=nonidem[:5])

    # ---------------------------------------------------------------- 2. documents
    docs = gen_docs(rng, chk.tier) if replay is None else []
    per_doc = 4 if chk.tier == "quick" else 16
    jobs = []
    for di, d in enumerate(docs):
        cfgs = CONFIGS if per_doc == 16 else [CONFIGS[(di * 5 + 3 * j * 3 + j) % 16] for j in range(per_doc)]
        if d.get("force_cfgs") and per_doc != 16:
            cfgs = d["force_cfgs"]
        seen = []
        for c in cfgs:
            if d["kind"] == "pb":
                c = dict(c, keep=0)
            if c not in seen:
                seen.append(c)
        d["cfgs"] = seen
    th_docs = [(i, d) for i, d in enumerate(docs) if d["kind"] == "thrift" and d.get("doc") is not None]
    docs_scopes = [(i, doc_scopes(d["doc"])) for i, d in th_docs]
    names = {}
    n_emit = 0
    for cc in (1, 0):
        names[cc], conv, n = model_names(hb, runner, docs_scopes, cc)
        n_emit += n
    graphs = {i: d["doc"].type_graph() for i, d in th_docs}
    gl = [(i, g[0]) for i, g in graphs.items() if g[0]]
    ucyc = dict(zip([i for i, _ in gl], core.run_lines(runner, ["ucyc " + g for _, g in gl], shards=1))) if gl else {}
    boxes = dict(zip([i for i, _ in gl], core.run_lines(runner, ["box " + g for _, g in gl], shards=1))) if gl else {}

    crate = crate_dir("all")
    shutil.rmtree(os.path.join(crate, "src"), ignore_errors=True)
    os.makedirs(os.path.join(crate, "src"))
    clean, quarantined = [], []
    for di, d in enumerate(docs):
        idl = os.path.join(WORK, "idl", d["id"])
        write_files(idl, d["files"])
        d["idl"] = idl
        for c in d["cfgs"]:
            cls = set()
            if d["kind"] == "thrift" and d.get("doc") is not None:
                sc = dict(docs_scopes)[di]
                nn = {lab: names[c["cc"]].get((di, lab), []) for lab, _ in sc}
                cls = classes_of(d["doc"], sc, nn, c, ucyc.get(di) == "1")
                cls |= const_literal_classes(d["doc"])
            elif d["kind"] == "pb":
                cls = proto_shadow_class(d["files"])
            # a class whose entry is `fixed` (or absent) does not set a document apart: it is compiled with the others
            cls = {k for k in cls if chk.known_finding(k) is not None}
            (quarantined if cls else clean).append((di, d, c, cls))

    def build_clean(job):
        di, d, c, _ = job
        m = "%sc%s" % (d["id"], cfg_id(c))
        return run_builder(hb, d["kind"], d["idl"], d["entry"], os.path.join(crate, "src", m, m + ".rs"), c,
                           dump_derive=os.path.join(WORK, "dd", m + ".txt"))
    with ThreadPoolExecutor(max_workers=8) as ex:
        bres = list(ex.map(build_clean, clean))
    # ---- the AutoDerive model on the item graph each run dumped (Derive.v through the runner)
    dumps = {}
    helper_pred = {}
    _conv_cache = {}

    def conv_struct(n):
        if n not in _conv_cache:
            _conv_cache[n] = core.run_lines(hb, ["conv struct " + n], shards=1, args=("lines",))[0]
        return _conv_cache[n]
    for (di, d, c, _) in clean:
        m = "%sc%s" % (d["id"], cfg_id(c))
        dd = read_derive_dump(os.path.join(WORK, "dd", m + ".txt"))
        if dd is not None and dd[1]:
            dumps[m] = dd
    dkeys = sorted(dumps)
    dans = core.run_lines(runner, [l for m in dkeys for l in derive_lines(dumps[m])], shards=1) if dkeys else []
    dmodel = {m: (parse_derive_answer(dans[2 * i]), parse_derive_answer(dans[2 * i + 1])) for i, m in enumerate(dkeys)}
    mods, modinfo = [], {}
    dist = dict(documents=len(docs), thrift=sum(1 for d in docs if d["kind"] == "thrift"), protobuf=sum(1 for d in docs if d["kind"] == "pb"), configurations={cfg_id(c): 0 for c in CONFIGS},
                builder_runs=0, builder_failures=0, compiled_modules=0, emitted_lines=0, quarantined_runs=len(quarantined),
                known_class_counts={}, items_per_doc=[d["doc"].size() for _, d in th_docs], files_per_doc=[len(d["files"]) for d in docs],
                struct_blocks_compared=0, box_decisions_compared=0, derive_graphs=0, derive_items_compared=0, derive_items_not_found=0, service_helper_sets_compared=0,
                derive_decisions=dict(po_yes=0, po_no=0, heo_yes=0, heo_no=0, delayed=0), derive_model_inconsistent=0)
    for (di, d, c, _), b in zip(clean, bres):
        m = "%sc%s" % (d["id"], cfg_id(c))
        dist["builder_runs"] += 1
        dist["configurations"][cfg_id(c)] += 1
        f = os.path.join(crate, "src", m, m + ".rs")
        txt = open(f, encoding="utf-8", errors="replace").read() if os.path.exists(f) else ""
        chk.count("%s %s %s" % (d["id"], cfg_id(c), hashlib.sha1(json.dumps(d["files"], sort_keys=True).encode()).hexdigest()), "pub struct" in txt or "pub enum" in txt or c["mode"] == "split")
        if not b["ok"]:
            dist["builder_failures"] += 1
            failing.append((d, c, "pilota-build did not finish normally: " + b["status"][:300], b, []))
            continue
        dm = dmodel.get(m)
        if dm is not None and (dm[0] is None or dm[1] is None):
            mism.append(dict(case="%s %s derive graph" % (d["id"], cfg_id(c)), model_output="PANIC / FUEL / BADCASE", impl_output="builder finished",
                             correspondence="AutoDerive (Derive.decisions vs emitted #[derive])", files=d["files"], cfg=c))
            dm = None
        if dm is not None:
            dist["derive_graphs"] += 1
            # the model's verdict on this document: does every derived impl type-check?  C14_derive_sound says it does, for every
            # resolved document (the two classes it used to exclude, F-14k and F-14s, are repaired): a `cons=0` answer means the model
            # no longer describes a sound procedure -- the module stays in the batch, where the E0277 it predicts is a violation
            for ans in dm:
                if not ans[1]["cons"]:
                    dist["derive_model_inconsistent"] += 1
        mods.append((m, m + ".rs"))
        modinfo[m] = (di, d, c)
        dist["emitted_lines"] += txt.count("\n")
        # ---- derive decisions: model (on the dumped item graph) vs attributes in the emitted text
        # ---- helper items of services: Effective.v (names from the functions' effective names) vs the items the builder created
        if m in dumps and d["kind"] == "thrift" and d.get("doc") is not None:
            have = {name for _, _, name, _ in dumps[m][1]}
            for fi, f in enumerate(d["doc"].files):
                svcs = [it for it in f["items"] if it["kind"] == "service"]
                if not svcs:
                    continue
                key = (di, fi)
                if key not in helper_pred:
                    camel = lambda n: conv_struct(n)
                    forms = [camel(sv["name"]) for sv in svcs]
                    lines_h = []
                    for sv in svcs:
                        sname = sv["name"] if forms.count(camel(sv["name"])) > 1 else camel(sv["name"])
                        fns = []
                        for mt in sv["methods"]:
                            tag = dict(mt.get("annos") or []).get("pilota.name")
                            fns.append("%s:%s:%s:%d" % (mt["name"], camel(mt["name"]) + ("/" + camel(tag) if tag else ""), tag or "-", 1 if mt.get("throws") else 0))
                        lines_h.append("helpers %s %s" % (sname, " ".join(fns)) if fns else None)
                    ans = core.run_lines(runner, [l for l in lines_h if l], shards=1) if any(lines_h) else []
                    it_ans = iter(ans)
                    helper_pred[key] = [(sv["name"], next(it_ans) if l else "") for sv, l in zip(svcs, lines_h)]
                for svname, a in helper_pred[key]:
                    pred = {x for part in a.split(" ") if part for x in part.split("|")[0].split(",") if x}
                    found = pred & have
                    if not pred or not found:
                        continue            # the service is not generated in this run (ignore_unused) or has no functions
                    dist["service_helper_sets_compared"] += 1
                    if found != pred:
                        mism.append(dict(case="%s %s helper items of service %s" % (d["id"], cfg_id(c), svname), model_output=sorted(pred - have),
                                         impl_output="items created: " + ", ".join(sorted(x for x in have if x.startswith(svname[:1].upper()))[:12]),
                                         correspondence="helper items (Effective.helper_items vs the items of the builder's dump)", files=d["files"], cfg=c))
        if dm is not None and c["mode"] == "single":
            scraped = scrape_derives(txt)
            want = {}
            for iid, emitted, name, body in dumps[m][1]:
                if not emitted or body[0] not in "MEN":
                    continue
                po, heo = dm[0][0].get(iid), dm[1][0].get(iid)
                want.setdefault(name, []).append((po in ("Y", "D"), heo in ("Y", "D")))
                dist["derive_decisions"]["po_yes" if po in ("Y", "D") else "po_no"] += 1
                dist["derive_decisions"]["heo_yes" if heo in ("Y", "D") else "heo_no"] += 1
                dist["derive_decisions"]["delayed"] += (po == "D") + (heo == "D")
            for name, exp in sorted(want.items()):
                got = scraped.get(name)
                if got is None:
                    dist["derive_items_not_found"] += len(exp)
                    continue
                dist["derive_items_compared"] += len(exp)
                if sorted(exp) != sorted(got):
                    mism.append(dict(case="%s %s derive %s" % (d["id"], cfg_id(c), name), model_output=sorted(exp), impl_output=sorted(got),
                                     correspondence="AutoDerive (Derive.decisions vs emitted #[derive]; (PartialOrd, Hash+Eq+Ord) per item)",
                                     files=d["files"], cfg=c))
        # ---- text correspondences (single-file outputs of thrift documents)
        if d["kind"] == "thrift" and c["mode"] == "single" and d.get("doc") is not None:
            structs = scrape_structs(txt)
            sc = dict(docs_scopes)[di]
            nn = names[c["cc"]]
            modnames = {}
            for lab, sibs in sc:
                if lab.startswith("mod:"):
                    for (k, n, _), e in zip(sibs, nn.get((di, lab), [])):
                        modnames.setdefault(n, []).append(e)
            gidx = {(fi, it["name"]): i for i, fi, it in graphs[di][1]}
            bx = dict(x.split("=") for x in boxes.get(di, "").split()) if boxes.get(di) else {}
            # field lists the model predicts, per EMITTED struct name (structs of different files / modules may share it: same original
            # name, or different originals that convert to the same identifier)
            emitted_of = {}
            for lab, sibs in sc:
                if lab.startswith("mod:"):
                    for (k, n, _), e in zip(sibs, nn.get((di, lab), [])):
                        emitted_of[(lab[4:], k, n)] = e
            wants_by_emitted = {}
            for fi, f in enumerate(d["doc"].files):
                ns = ".".join(f["ns"]) if f["ns"] is not None else d["doc"].stem(fi)
                for it in f["items"]:
                    if it["kind"] in ("struct", "exception"):
                        e = emitted_of.get((ns, it["kind"], it["name"]))
                        wants_by_emitted.setdefault(e, []).append(list(nn.get((di, "%s:%s" % (f["name"], it["name"])), [])) + (["_unknown_fields"] if c["keep"] else []))
            for fi, f in enumerate(d["doc"].files):
                for it in f["items"]:
                    if it["kind"] not in ("struct", "exception"):
                        continue
                    lab = "%s:%s" % (f["name"], it["name"])
                    pred = list(nn.get((di, lab), []))
                    blocks = [b2 for e in modnames.get(it["name"], []) for b2 in structs.get(e, [])]
                    if not blocks:
                        continue        # not emitted (ignore_unused) or name not found
                    want = pred + (["_unknown_fields"] if c["keep"] else [])
                    dist["struct_blocks_compared"] += 1
                    hit = [b2 for b2 in blocks if [x for x, _ in b2] == want]
                    explained = lambda b2: any([x for x, _ in b2] in wants_by_emitted.get(e, []) for e in modnames.get(it["name"], []))
                    if not hit and c["iu"] and all(explained(b2) for b2 in blocks):
                        # ignore_unused: this struct is not generated; the blocks of that name belong to equally named structs of other
                        # files, and each of them is what the model predicts for one of those
                        dist["struct_blocks_compared"] -= 1
                        continue
                    if not hit:
                        mism.append(dict(case="%s %s struct %s" % (d["id"], cfg_id(c), it["name"]), model_output=want,
                                         impl_output=[[x for x, _ in b2] for b2 in blocks][:3],
                                         correspondence="field identifiers (Names.emitted vs emitted struct)", files=d["files"], cfg=c))
                        continue
                    # boxed fields
                    oid = gidx.get((fi, it["name"]))
                    for j, (fx, (fname, fty)) in enumerate(zip(it["fields"], hit[0])):
                        key = "%d.%d" % (oid, j)
                        if key in bx and not dict(fx.get("annos") or []).get("pilota.rust_wrapper_arc"):
                            dist["box_decisions_compared"] += 1
                            got = "::std::boxed::Box<" in fty
                            if got != (bx[key] == "1"):
                                mism.append(dict(case="%s %s box %s.%s" % (d["id"], cfg_id(c), it["name"], fx["name"]), model_output=bx[key],
                                                 impl_output=fty, correspondence="Box decisions (BoxCycle.box_decisions vs emitted field type)",
                                                 files=d["files"], cfg=c))
    # ---- one cargo check for all clean modules
    dist["compiled_modules"] = len(mods)
    t0 = time.time()
    ok, errs, raw = cargo_check(crate, mods) if mods else (True, [], "")
    dist["cargo_check_s"] = round(time.time() - t0, 1)
    if not ok:
        bymod = {}
        for m, code, msg in errs:
            bymod.setdefault(m, []).append((m, code, msg))
        if not bymod:
            failing.append((None, None, "cargo check of the emitted code failed without a parsable diagnostic: " + raw[-400:], None, []))
        for m, es in sorted(bymod.items()):
            if m in modinfo:
                di, d, c = modinfo[m]
                failing.append((d, c, "emitted code does not compile: error[%s] %s" % (es[0][1], es[0][2][:200]), None, es))
            else:
                failing.append((None, None, "emitted code does not compile (unattributed): %s %s" % (es[0][1], es[0][2][:200]), None, es))

    # ---- quarantined documents (predicted known-finding classes) and the fixed witnesses: one crate each
    dist["quarantined_runs"] = len(quarantined)
    dist["quarantined_compiled"] = 0
    for di, d, c, cls in quarantined:
        b, ok2, errs2 = compile_alone(hb, d["kind"], d["files"], d["entry"], c, "quar")
        dist["quarantined_compiled"] += 1
        chk.count("quarantined %s %s" % (d["id"], cfg_id(c)), True)
        for k in cls:
            dist["known_class_counts"][k] = dist["known_class_counts"].get(k, 0) + 1
        if not b["ok"] or ok2 is False:
            sig = signature(b, ok2, errs2)
            explained, unexplained = attribute(diagnostics(b, ok2, errs2), cls)
            rep = dict(kind="document", idl_kind=d["kind"], files=d["files"], entry=d["entry"], cfg=c, classes=sorted(cls), failure=sig[:1500])
            if not unexplained:
                first = next(w["cls"] for w in WITNESSES if w["cls"] in cls and re.search(w["expect"], explained[0]))
                chk.violation("known class %s: %s" % (first, sig[:200]), dict(rep, cls=first), cls=first)
            else:
                failing.append((d, c, "a document of known class %s has a diagnostic that class does not explain: %s" % (sorted(cls), unexplained[0][:300]), b, errs2))
    wit = WITNESSES if chk.tier == "thorough" else WITNESSES
    not_reproduced = []
    for wi, w in enumerate(wit):
        b, ok2, errs2 = compile_alone(hb, w["kind"], w["files"], w["entry"], w["cfg"], "wit")
        chk.count("witness " + w["cls"], True)
        sig = signature(b, ok2, errs2)
        wdiags = diagnostics(b, ok2, errs2)
        if (not b["ok"] or ok2 is False) and any(re.search(w["expect"], dg) for dg in wdiags) and \
                all(re.search(w["expect"], dg) or (w.get("also") and re.search(w["also"], dg)) for dg in wdiags):
            rep = dict(kind="document", idl_kind=w["kind"], files=w["files"], entry=w["entry"], cfg=w["cfg"], cls=w["cls"], failure=sig[:800])
            if chk.known_finding(w["cls"]) is None:
                failing.append((dict(kind=w["kind"], files=w["files"], entry=w["entry"], doc=None, id="w%d" % wi), w["cfg"],
                                "witness of class %s fails and the class is not an open known finding: %s" % (w["cls"], sig[:200]), b, errs2))
            else:
                chk.violation("witness of " + w["cls"], rep, cls=w["cls"])
        elif not b["ok"] or ok2 is False:
            failing.append((dict(kind=w["kind"], files=w["files"], entry=w["entry"], doc=None, id="w%d" % wi), w["cfg"],
                            "witness of class %s fails differently than recorded: %s" % (w["cls"], sig[:300]), b, errs2))
        elif chk.known_finding(w["cls"]) is not None:
            not_reproduced.append(w["cls"])
    if not_reproduced:
        chk.notes.append("known-finding witnesses that compile now (entry should become `fixed`): %s" % not_reproduced)
    dist["witnesses"] = len(wit)
    dist["witnesses_not_reproduced"] = not_reproduced
    chk.cov["distribution"] = dist
    chk.cov["programs"] = dist["compiled_modules"] + dist["quarantined_compiled"] + len(wit)
    chk.cov["disagreements_checked"] = len(lines) + n_emit + dist["struct_blocks_compared"] + dist["box_decisions_compared"] + dist["derive_items_compared"] + dist["service_helper_sets_compared"]
    chk.cov["model_impl_mismatches"] = len(mism)
    for d in docs[:2]:
        chk.sample(dict(id=d["id"], kind=d["kind"], configs=[cfg_id(c) for c in d["cfgs"]], text=list(d["files"].values())[0][:600]))
    chk.sample(dict(line_cases=lines[:3] + lines[-3:]))

    # ---------------------------------------------------------------- report
    budget = 8 if chk.tier == "quick" else 40
    for d, c, what, b, es in failing[:3]:
        if d is None:
            chk.violation("C14 fails on the implementation: " + what, dict(kind="unattributed", errors=es[:10]))
            continue
        files, steps = (d["files"], 0)
        if d.get("doc") is not None and time.time() - t_start < 140:
            files, steps = shrink(hb, d, c, budget)
        chk.violation("C14 fails on the implementation: " + what,
                      dict(kind="document", idl_kind=d["kind"], files=files, entry=d["entry"], cfg=c, shrink_steps=steps,
                           builder=b, errors=[list(e) for e in es[:10]], original_files=d["files"] if files != d["files"] else None))
    if not failing:
        if mism:
            m0 = mism[0]
            chk.violation("correspondence %s broken: model and implementation disagree (%d cases) but every generated document "
                          "compiled" % (m0["correspondence"], len(mism)), dict(kind="correspondence", **m0), no_input=True)
        if nonidem and False:
            pass
        if not gate["ok"]:
            chk.violation("proof obligation broken: %s (%s) -- %d emitted modules compiled" % (gate.get("failed"), " ".join((gate.get("error") or "").split())[:240], dist["compiled_modules"]),
                          dict(kind="proof", theorem_file="fam/bld/coq/Properties/C14.v", failed=gate.get("failed"), error=gate.get("error"),
                               theorems=gate["theorems"]), no_input=True)
    return chk.finish()


def run(chk, replay=None):
    try:
        return _run(chk, replay)
    finally:
        shutil.rmtree(WORK, ignore_errors=True)      # per-process work directory: nothing in it is needed after the run
