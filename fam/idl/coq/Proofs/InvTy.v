(* C15, converse direction: annotation lists, the cpp_type clause, types (recursive). *)
From PVIdl Require Import Comb Ast Parser Print Proofs.Total Proofs.RoundTok Proofs.RoundPath Proofs.RoundAnn Proofs.RoundTy
  Proofs.RoundKit Proofs.Lex Proofs.InvKit Proofs.InvTok.
From Coq Require Import ZifyN ZifyNat ZifyBool.
From Coq Require String.
Import String.StringSyntax.
Open Scope nat_scope.

(* a well-formed non-empty blank is read by the blank parser: so a text on which the blank parser fails does not begin
   with one *)
Lemma noblank_pr_blank bl X : wf_blank bl = true -> nb X = true -> noblank (pr_blank bl X) -> bl = [].
Proof.
  intros Hw Hn Hb. destruct bl as [|a bl]; [reflexivity|exfalso]. cbn [wf_blank] in Hw. bsplit Hw.
  destruct (item_atom a (pr_blank bl X) ltac:(assumption) (blank_head_follow a bl X ltac:(assumption) ltac:(assumption) Hn)) as [v [E _]].
  unfold noblank, item in Hb. cbn [pr_blank] in Hb. rewrite E in Hb. exact Hb.
Qed.

Lemma wf_sep_of s r : sep_ok s r -> r <> [] -> wf_sep s = true.
Proof. destruct s as [|semi bl]; cbn [sep_ok wf_sep]; [reflexivity|]. intros [H _] Hr. now apply (blank_ok_nonnil bl r). Qed.

Lemma sep_ok_noblank s r : sep_ok s r -> (s = SepNone -> noblank r) -> noblank r.
Proof. destruct s; cbn [sep_ok]; [auto|tauto]. Qed.

Lemma pr_sep_nonnil s r : r <> [] -> pr_sep s r <> [].
Proof. destruct s; cbn [pr_sep]; [auto|discriminate]. Qed.

Section Ann.
Variable lf : nat.

Theorem ann_inv i r a : p_annotation lf i = POk r a ->
  exists c, i = pr_ann c r /\ erase_ann c = a /\ (r <> [] -> wf_ann c = true) /\ noblank r /\ sep_ok (ca_sep c) r.
Proof.
  unfold p_annotation. intros H.
  apply pbind_ok in H. destruct H as [i1 [o1 [E1 H]]]. apply pbind_ok in H. destruct H as [i2 [key [E2 H]]].
  apply pbind_ok in H. destruct H as [i3 [o3 [E3 H]]]. apply pbind_ok in H. destruct H as [i4 [t4 [E4 H]]].
  apply pbind_ok in H. destruct H as [i5 [o5 [E5 H]]]. apply pbind_ok in H. destruct H as [i6 [l [E6 H]]].
  apply pbind_ok in H. destruct H as [i7 [o7 [E7 H]]]. apply pbind_ok in H. destruct H as [i8 [o8 [E8 H]]]. inversion H; subst.
  destruct (oblank_inv _ _ _ _ E1) as [b1 [-> [K1 _]]]. destruct (annkey_inv _ _ _ E2) as [-> [Hk _]].
  destruct (oblank_inv _ _ _ _ E3) as [b2 [-> [K2 _]]]. apply tag_inv in E4. destruct E4 as [-> _].
  destruct (oblank_inv _ _ _ _ E5) as [b3 [-> [K3 _]]]. destruct (literal_inv _ _ _ _ E6) as [cl [-> [<- Hl]]].
  destruct (oblank_inv _ _ _ _ E7) as [b4 [-> [K4 [N4 _]]]]. destruct (osep_inv _ _ _ _ E8) as [s [-> Hs]].
  exists (mkCAnn b1 key b2 b3 cl b4 s). unfold pr_ann, erase_ann, wf_ann. cbn [ca_b1 ca_key ca_b2 ca_b3 ca_lit ca_b4 ca_sep].
  change sym_ann_eq with (txt "="). repeat split; auto.
  - intros Hr. rewrite (blank_ok_nonnil _ _ K1) by (destruct key; [discriminate|discriminate]).
    rewrite Hk, (blank_ok_nonnil _ _ K2) by discriminate.
    rewrite (blank_ok_nonnil _ _ K3) by (unfold pr_lit; discriminate). rewrite Hl.
    rewrite (blank_ok_nonnil _ _ K4) by (now apply pr_sep_nonnil). now rewrite (wf_sep_of s r Hs Hr).
  - apply (sep_ok_noblank s r Hs). intros ->. exact N4.
Qed.

Lemma len_pr_ann c k : length k <= length (pr_ann c k).
Proof. apply sfx_len, sfx_ann, sfx_refl. Qed.

Lemma prl_ann_nonnil cs k : k <> [] -> prl pr_ann cs k <> [].
Proof.
  intros Hk. induction cs as [|c cs IH]; cbn [prl fold_right]; [exact Hk|]. fold (prl pr_ann cs k).
  pose proof (len_pr_ann c (prl pr_ann cs k)). destruct (prl pr_ann cs k); [contradiction|]. destruct (pr_ann c (b :: l)); [cbn in *; lia|discriminate].
Qed.

Lemma prl_ann_list cs k : prl pr_ann cs k = pr_ann_list cs k.
Proof. induction cs; cbn [prl fold_right pr_ann_list]; [reflexivity|]. fold (prl pr_ann cs k). now rewrite IHcs. Qed.

Definition annQ (c : cann) (r : list byte) : Prop := (r <> [] -> wf_ann c = true) /\ noblank r /\ sep_ok (ca_sep c) r.

Lemma chain_ann_wf cs k : k <> [] -> nb k = true -> chain pr_ann annQ cs k ->
  wf_ann_list cs = true /\ (forall c cs', cs = c :: cs' -> wf_blank (ca_b1 c) = true /\ is_annkey (ca_key c) = true).
Proof.
  intros Hk Hn. induction cs as [|c cs IH]; cbn [chain wf_ann_list]; intros Hc; [split; [reflexivity|discriminate]|].
  destruct Hc as [[Hw [Hnb Hs]] Hc]. destruct (IH Hc) as [Wl Hhead].
  specialize (Hw (prl_ann_nonnil cs k Hk)). rewrite Hw, Wl. cbn [andb]. split.
  - destruct cs as [|c' cs']; [reflexivity|]. destruct (Hhead c' cs' eq_refl) as [Wb Wk].
    cbn [prl fold_right] in Hnb. unfold pr_ann at 1 in Hnb.
    rewrite (noblank_pr_blank (ca_b1 c') _ Wb (annkey_nb _ _ Wk) Hnb). reflexivity.
  - intros c0 cs0 E. inversion E; subst. unfold wf_ann in Hw. bsplit Hw. auto.
Qed.

Theorem anns_inv i r l : p_annotations lf i = POk r l ->
  exists cs, i = pr_anns cs r /\ erase_anns cs = l /\ wf_anns cs = true.
Proof.
  unfold p_annotations. intros H. apply pbind_ok in H. destruct H as [i1 [t1 [E1 H]]]. apply pbind_ok in H.
  destruct H as [i2 [l2 [E2 H]]]. apply pbind_ok in H. destruct H as [i3 [t3 [E3 H]]]. inversion H; subst.
  apply tag_inv in E1. destruct E1 as [-> _]. apply tag_inv in E3. destruct E3 as [-> _].
  apply (many1_inv (p_annotation lf) erase_ann pr_ann annQ) in E2.
  - destruct E2 as [c [cs [-> [<- [Hq [Hc _]]]]]].
    destruct (chain_ann_wf (c :: cs) (sym_ann_close ++ r)) as [Wl _]; [discriminate|reflexivity|cbn [chain]; auto|].
    exists (c :: cs). unfold pr_anns. cbn [pr_ann_list]. rewrite <- prl_ann_list. repeat split.
    unfold wf_anns. cbn [is_nil negb andb]. exact Wl.
  - intros i0 r0 a0 H0. destruct (ann_inv _ _ _ H0) as [c [-> [<- Hq]]]. exists c. repeat split; tauto.
Qed.

(* the cpp_type clause *)
Theorem cpp_inv i r l : (fun i => do i, _ <- p_blank lf i ;; p_cpp_type lf i) i = POk r l ->
  exists c, i = pr_cpp c r /\ erase_lit (cc_lit c) = l /\ wf_cpp c = true.
Proof.
  cbn beta. intros H. apply pbind_ok in H. destruct H as [i1 [u [E1 H]]]. unfold p_cpp_type in H.
  apply pbind_ok in H. destruct H as [i2 [t [E2 H]]]. apply pbind_ok in H. destruct H as [i3 [u3 [E3 H]]].
  destruct (blank_inv _ _ _ _ E1) as [b1 [-> [N1 [K1 _]]]]. apply tag_inv in E2. destruct E2 as [-> _].
  destruct (blank_inv _ _ _ _ E3) as [b2 [-> [N2 [K2 _]]]]. destruct (literal_inv _ _ _ _ H) as [cl [-> [<- Hl]]].
  exists (mkCCpp b1 b2 cl). unfold pr_cpp, wf_cpp. cbn [cc_b1 cc_b2 cc_lit]. repeat split.
  rewrite (blank_ok_nonnil _ _ K1) by discriminate. rewrite (blank_ok_nonnil _ _ K2) by (unfold pr_lit; discriminate).
  rewrite Hl. destruct b1; [contradiction|]. destruct b2; [contradiction|]. reflexivity.
Qed.

End Ann.

(* ---------- types ---------- *)
(* A base-type word (and, for constants, true / false; for fields, required / optional) is read as a path only when the
   word is directly followed by a non-ASCII letter or digit: the keyword alternative demands that no alphanumeric
   character (Unicode) follows, the identifier stops at the first non-ASCII byte.  Every token of the grammar begins with
   an ASCII byte, so this cannot happen inside an accepted document: the lemmas below conclude well-formedness from
   [hd_ascii r], "the text that follows begins with an ASCII byte (or is empty)", which every use site knows from what
   it read next. *)
Lemma keyword_path_end kw tl Z : wf_ptail tl = true -> wordend Z = true ->
  is_perr (p_keyword kw (kw ++ pr_path_tail tl Z)) -> False.
Proof.
  intros Wt Hz H. rewrite rt_keyword in H; [exact H|]. destruct tl as [|[[b1 b2] s0] tl]; cbn [pr_path_tail]; [exact Hz|].
  unfold wf_ptail in Wt. cbn [forallb fst snd] in Wt. bsplit Wt. apply blank_then; auto with bsdb.
Qed.
Lemma keyword_path_ascii kw tl r : wf_ptail tl = true -> hd_ascii r = true -> nid r = true ->
  is_perr (p_keyword kw (kw ++ pr_path_tail tl r)) -> False.
Proof. intros Wt Ha Hn. apply keyword_path_end; [exact Wt|now apply wordend_of]. Qed.

Lemma kwend_nid r : kwend r -> nid r = true.
Proof.
  unfold kwend, nid. destruct r as [|b r]; [reflexivity|]. cbn [hd_sat]. intros H. destruct (identch b) eqn:E; [|reflexivity].
  exfalso. destruct (aoru_ok b r E) as [cp Ecp]. rewrite Ecp in H. exact H.
Qed.

Section Ty.
Variable lf : nat.

Lemma ocpp_inv i r o : opt (fun i => do i, _ <- p_blank lf i ;; p_cpp_type lf i) i = POk r o ->
  exists c, i = pr_ocpp c r /\ erase_ocpp c = o /\ wf_ocpp c = true.
Proof.
  intros H. apply opt_inv in H. destruct H as [[l [-> H]]|[-> [-> _]]].
  - destruct (cpp_inv lf _ _ _ H) as [c [-> [<- Hw]]]. exists (Some c). repeat split. exact Hw.
  - exists None. repeat split.
Qed.

Lemma pr_ty_nonnil c r : (forall p, c = CTPath p -> cp_head p <> []) -> pr_ty c r <> [].
Proof.
  destruct c as [b| | | |p]; cbn [pr_ty]; intros H; try discriminate.
  - destruct b; discriminate.
  - unfold pr_path. specialize (H p eq_refl). destruct (cp_head p); [contradiction|discriminate].
Qed.

(* the text of a type begins with a word character *)
Definition whead (x : list byte) : Prop := exists b0 rest, x = b0 :: rest /\ identch b0 = true.
Lemma whead_nonnil x : whead x -> x <> [].
Proof. intros [b0 [rest [-> _]]]. discriminate. Qed.

Definition tyP (c : cty) (r : list byte) : Prop :=
  (hd_ascii r = true -> wf_ty c = true) /\ (ty_ends_word c = true -> nid r = true) /\ whead (pr_ty c r).
Definition typeP (c : ctype) (r : list byte) : Prop :=
  (hd_ascii r = true -> wf_type c = true) /\ (type_ends_word c = true -> nid r = true) /\ whead (pr_type c r).

Lemma type_of_inv (pty : parser Ty) :
  (forall i r t, pty i = POk r t -> exists c, i = pr_ty c r /\ erase_ty c = t /\ tyP c r) ->
  forall i r t, p_type_of lf pty i = POk r t -> exists c, i = pr_type c r /\ erase_type c = t /\ typeP c r.
Proof.
  intros Hty i r t H. unfold p_type_of in H. binv H. inversion H; subst.
  apply opt_inv in E0. destruct E0 as [[an [-> E0]]|[-> [-> _]]].
  - binv E0. destruct a0 as [ob an0]. cbn [snd] in E0. inversion E0; subst.
    unfold permutation2 in E1. destruct (opt (p_blank lf) i0) as [i2 o2| | | |] eqn:EB.
    + binv E1. inversion E1; subst. destruct (oblank_inv _ _ _ _ EB) as [bl [-> [Kb _]]].
      destruct (anns_inv lf _ _ _ E2) as [cs [-> [<- Wa]]].
      destruct (Hty _ _ _ E) as [c [-> [<- [Hw [He Hn]]]]].
      exists (CType c (Some (bl, cs))). unfold typeP. cbn [pr_type erase_type wf_type type_ends_word unwrap_or_default].
      split; [reflexivity|]. split; [reflexivity|]. split; [|split; [discriminate|exact Hn]].
      intros _. rewrite (Hw (blank_ok_ascii _ _ Kb eq_refl)), Wa. rewrite (blank_ok_nonnil _ _ Kb); [reflexivity|]. unfold pr_anns. discriminate.
    + unfold opt in EB. destruct (p_blank lf i0); discriminate.
    + unfold opt in EB. destruct (p_blank lf i0); discriminate.
    + unfold opt in EB. destruct (p_blank lf i0); try discriminate.
    + unfold opt in EB. destruct (p_blank lf i0); try discriminate.
  - destruct (Hty _ _ _ E) as [c [-> [<- [Hw [He Hn]]]]].
    exists (CType c None). unfold typeP. cbn [pr_type erase_type wf_type type_ends_word unwrap_or_default]. repeat split; auto.
Qed.

Lemma base_inv kw T i r t : p_base_ty kw T i = POk r t -> i = kw ++ r /\ t = T /\ kwend r.
Proof. unfold p_base_ty. intros H. binv H. inversion H; subst. destruct (keyword_inv _ _ _ _ E) as [-> Hk]. auto. Qed.

Lemma nonnil_of_len (x : list byte) : 0 < length x -> x <> [].
Proof. destruct x; cbn; [lia|discriminate]. Qed.

Theorem ty_inv : forall d i r t, p_ty lf d i = POk r t -> exists c, i = pr_ty c r /\ erase_ty c = t /\ tyP c r.
Proof.
  induction d as [|d IH]; intros i r t H; [discriminate|]. rewrite p_ty_eq in H.
  pose proof (type_of_inv (p_ty lf d) IH) as IHT.
  apply alt_app_inv_err in H. destruct H as [[p [Hin H]]|[Hbase H]].
  - (* base types *)
    unfold base_alts in Hin. cbn [In] in Hin.
    assert (G : forall kw T B, base_kw B = kw -> base_ast B = T -> p_base_ty kw T i = POk r t ->
                exists c, i = pr_ty c r /\ erase_ty c = t /\ tyP c r).
    { intros kw T B E1 E2 Hb. subst kw T. destruct (base_inv _ _ _ _ _ Hb) as [-> [-> Hk]]. exists (CTBase B). unfold tyP.
      cbn [pr_ty erase_ty ty_ends_word wf_ty]. repeat split; auto.
      - intros _. now apply kwend_nid.
      - destruct B; eexists _, _; split; reflexivity. }
    repeat (destruct Hin as [<-|Hin]; [first [apply (G _ _ BString eq_refl eq_refl H) | apply (G _ _ BVoid eq_refl eq_refl H)
      | apply (G _ _ BByte eq_refl eq_refl H) | apply (G _ _ BBool eq_refl eq_refl H) | apply (G _ _ BBinary eq_refl eq_refl H)
      | apply (G _ _ BI8 eq_refl eq_refl H) | apply (G _ _ BI16 eq_refl eq_refl H) | apply (G _ _ BI32 eq_refl eq_refl H)
      | apply (G _ _ BI64 eq_refl eq_refl H) | apply (G _ _ BDouble eq_refl eq_refl H) | apply (G _ _ BUuid eq_refl eq_refl H)]|]).
    contradiction.
  - apply alt_cons_inv in H. destruct H as [H|[_ H]]; [|apply alt_cons_inv in H; destruct H as [H|[_ H]];
                                                       [|apply alt_cons_inv in H; destruct H as [H|[_ H]]]].
    + (* list *)
      unfold alt_list in H. binv H. inversion H; subst.
      apply tag_inv in E. destruct E as [-> _]. destruct (oblank_inv _ _ _ _ E0) as [b1 [-> [K1 _]]].
      apply tag_inv in E1. destruct E1 as [-> _]. destruct (oblank_inv _ _ _ _ E2) as [b2 [-> [K2 _]]].
      destruct (IHT _ _ _ E3) as [ci [-> [<- [Hw [He Hn]]]]]. destruct (oblank_inv _ _ _ _ E4) as [b3 [-> [K3 _]]].
      apply tag_inv in E5. destruct E5 as [-> _]. destruct (ocpp_inv _ _ _ E6) as [cpp [-> [<- Wc]]].
      exists (CTList b1 b2 ci b3 cpp). cbn [pr_ty erase_ty]. split; [reflexivity|]. split; [reflexivity|]. split; [|split; [discriminate|eexists _, _; split; reflexivity]].
      intros _. cbn [wf_ty] in *. rewrite (blank_ok_nonnil _ _ K1) by discriminate.
      rewrite (blank_ok_nonnil _ _ K2) by (apply whead_nonnil, Hn). rewrite (Hw (blank_ok_ascii _ _ K3 eq_refl)).
      rewrite (blank_ok_nonnil _ _ K3) by discriminate. now rewrite Wc.
    + (* set *)
      unfold alt_set in H. binv H. inversion H; subst.
      apply tag_inv in E. destruct E as [-> _]. destruct (ocpp_inv _ _ _ E0) as [cpp [-> [<- Wc]]].
      destruct (oblank_inv _ _ _ _ E1) as [b1 [-> [K1 _]]].
      apply tag_inv in E2. destruct E2 as [-> _]. destruct (oblank_inv _ _ _ _ E3) as [b2 [-> [K2 _]]].
      destruct (IHT _ _ _ E4) as [ci [-> [<- [Hw [He Hn]]]]]. destruct (oblank_inv _ _ _ _ E5) as [b3 [-> [K3 _]]].
      apply tag_inv in E6. destruct E6 as [-> _].
      exists (CTSet cpp b1 b2 ci b3). cbn [pr_ty erase_ty]. split; [reflexivity|]. split; [reflexivity|]. split; [|split; [discriminate|eexists _, _; split; reflexivity]].
      intros _. cbn [wf_ty] in *. rewrite Wc. rewrite (blank_ok_nonnil _ _ K1) by discriminate.
      rewrite (blank_ok_nonnil _ _ K2) by (apply whead_nonnil, Hn). rewrite (Hw (blank_ok_ascii _ _ K3 eq_refl)).
      now rewrite (blank_ok_nonnil _ _ K3) by discriminate.
    + (* map *)
      unfold alt_map in H. binv H. inversion H; subst.
      apply tag_inv in E. destruct E as [-> _]. destruct (ocpp_inv _ _ _ E0) as [cpp [-> [<- Wc]]].
      destruct (oblank_inv _ _ _ _ E1) as [b1 [-> [K1 _]]].
      apply tag_inv in E2. destruct E2 as [-> _]. destruct (oblank_inv _ _ _ _ E3) as [b2 [-> [K2 _]]].
      destruct (IHT _ _ _ E4) as [ck [-> [<- [Hwk [Hek Hnk]]]]]. destruct (oblank_inv _ _ _ _ E5) as [b3 [-> [K3 _]]].
      destruct (list_separator_inv _ _ _ _ E6) as [semi [b4 [-> [_ [K4 N4]]]]].
      destruct (noblank_oblank _ _ _ _ N4 E7) as [-> _].
      destruct (IHT _ _ _ E8) as [cv [-> [<- [Hwv [Hev Hnv]]]]]. destruct (oblank_inv _ _ _ _ E9) as [b5 [-> [K5 _]]].
      apply tag_inv in E10. destruct E10 as [-> _].
      exists (CTMap cpp b1 b2 ck b3 semi b4 cv b5). cbn [pr_ty erase_ty]. split; [reflexivity|]. split; [reflexivity|]. split; [|split; [discriminate|eexists _, _; split; reflexivity]].
      intros _. cbn [wf_ty] in *. rewrite Wc.
      rewrite (blank_ok_nonnil _ _ K1) by discriminate. rewrite (blank_ok_nonnil _ _ K2) by (apply whead_nonnil, Hnk).
      rewrite (Hwk (blank_ok_ascii _ _ K3 ltac:(destruct semi; reflexivity))).
      rewrite (blank_ok_nonnil _ _ K3) by (destruct semi; discriminate). rewrite (blank_ok_nonnil _ _ K4) by (apply whead_nonnil, Hnv).
      rewrite (Hwv (blank_ok_ascii _ _ K5 eq_refl)). now rewrite (blank_ok_nonnil _ _ K5) by discriminate.
    + (* path *)
      apply alt_one_inv in H. apply pmap_ok in H. destruct H as [l [H ->]].
      destruct (path_inv _ _ _ _ H) as [p [-> [<- [Wp [He Hnr]]]]].
      exists (CTPath p). cbn [pr_ty erase_ty]. repeat split.
      * cbn [wf_ty]. intros Ha. rewrite Wp. cbn [andb]. apply negb_true_iff.
        destruct (bytes_in (cp_head p) base_words) eqn:Eb; [|reflexivity]. exfalso.
        pose proof Wp as Wp'. unfold wf_path in Wp'. apply andb_prop in Wp'. destruct Wp' as [_ Wt].
        (* the base-type alternative of that word failed although the word is followed by the rest of the path *)
        unfold base_alts in Hbase. unfold pr_path in Hbase.
        assert (G : forall kw T, bytes_eq (cp_head p) kw = true -> is_perr (p_base_ty kw T (cp_head p ++ pr_path_tail (cp_tail p) r)) -> False).
        { intros kw T Ek Hb. apply bytes_eq_eq in Ek. rewrite Ek in Hb. unfold p_base_ty in Hb.
          apply (keyword_path_ascii kw (cp_tail p) r Wt Ha Hnr).
          destruct (p_keyword kw (kw ++ pr_path_tail (cp_tail p) r)); cbn in Hb |- *; auto. }
        repeat match goal with H : Forall _ (_ :: _) |- _ => inversion H; clear H; subst end.
        cbn [bytes_in base_words] in Eb.
        repeat (apply orb_prop in Eb; destruct Eb as [Eb|Eb]; [eapply G; [exact Eb|eassumption]|]). discriminate Eb.
      * intros _. exact Hnr.
      * cbn [pr_ty]. unfold pr_path. unfold wf_path in Wp. apply andb_prop in Wp. destruct Wp as [Wh _].
        destruct (cp_head p) as [|h0 hs]; [discriminate Wh|]. cbn [is_ident] in Wh. apply andb_prop in Wh. destruct Wh as [Wh _].
        exists h0, (hs ++ pr_path_tail (cp_tail p) r). split; [reflexivity|now apply identch_head].
Qed.

Theorem type_inv d i r t : p_type lf d i = POk r t -> exists c, i = pr_type c r /\ erase_type c = t /\ typeP c r.
Proof. apply type_of_inv. apply ty_inv. Qed.
End Ty.
