"""C20 -- generated Default values are the IDL defaults.

Implementation oracle: for every emitted type T: the Debug rendering of T::default() read back under the
schema == expected_default(T) computed from the IDL alone (pv/gengen.py: lit_value -- Thrift IDL literal
semantics, independent of pilota's lowering); the encoding of T::default() reference-decodes (every protocol)
to the same value and conforms to the schema (declared wire types, no unknown/mistyped fields, size() exact);
decoding the one-byte empty struct gives that same value whenever it succeeds, and fails exactly when a
required field has no default.

Literal level (fam/gen/coq/Lit.v, LitSpec.v; theorems C20_literal_meaning, C20_default_is_idl, ...): for EVERY field
default of the corpus the extracted model of Context::lit_into_ty / lit_as_rvalue (dispatching on the arm tables
regenerated from context.rs) is evaluated on the literal AST and compared THREE ways: model value = Python lit_value
(independent implementation of the IDL semantics) = the field of the Debug rendering of the emitted T::default();
plus the Coq specification LitSpec.lit_value, the const flag, and that the corpus satisfies the hypotheses of the
theorems (class_free_schema, lits_typed)."""
import os, re
from .. import core, gengen, genref, genrun
from ..gencheck import have_property_file, run_check

PROP = 'C20'
LEVEL = 'proof' if have_property_file(PROP) else 'translation_validation'
DFLT_RE = re.compile(r'DEF (.*?) (SIZE (\d+) ENC ([0-9a-f-]+)|ENCERR \w+.*?)((?: NOTE .*?)?) EMPTY (.*)$')


def n_defaults(sch, tname):
    d = sch.types[tname]
    return sum(1 for f in d['fields'] if f['default'] is not None) if d['kind'] == 'struct' else 0


def gen_cases(gb, rng, tier):
    sch = gb.schema
    cases = []
    for cfg in gb.configs:
        for tname in sch.names_in(cfg):
            d = sch.types[tname]
            ty = ('ref', tname)
            want = gengen.show(sch, ty, gengen.empty_value(sch, ty))
            need_err = d['kind'] == 'struct' and any(f['req'] == 'required' and f['default'] is None for f in d['fields'])
            for proto in genrun.SYNC_PROTOS:
                if proto == 'unchecked' and d['kind'] != 'struct':
                    continue        # the 1-byte input is only a complete message for structs (contract of the unchecked reader)
                cases.append(dict(line=genrun.case_line('dflt', cfg, tname, proto), want=want, cfg=cfg, type=tname, proto=proto,
                                  mode='sync', kind=d['kind'], empty_must_fail=need_err, nontrivial=n_defaults(sch, tname) > 0))
            if d['kind'] == 'struct':
                # the emitted decode_async on the empty struct (the `dflt` line runs the sync decoder): every protocol, the
                # schedules in turn
                for k, proto in enumerate(genrun.ASYNC_PROTOS):
                    mode = 'async:' + genrun.SCHEDULES[(len(cases) + k) % len(genrun.SCHEDULES)]
                    cases.append(dict(line=genrun.case_line('dec', cfg, tname, proto, mode, b'\x00'), want=want, cfg=cfg, type=tname,
                                      proto=proto, mode=mode, kind=d['kind'], empty_must_fail=need_err, op='empty_async',
                                      nontrivial=n_defaults(sch, tname) > 0))
    return cases


def evaluate_empty_async(gb, case, out):
    ty = ('ref', case['type'])
    cls = 'keep-is-arg-swallow' if genrun.is_arg_swallow(gb.schema, case['cfg'], case['type'], 'async') else None
    e = genrun.Res(out)
    if e.kind == 'ok':
        ev, why = genrun.value_text(gb, case['cfg'], ty, e.debug)
        if why:
            return [(why, cls)]
        bad = []
        if case['empty_must_fail']:
            bad.append(('decode_async(empty struct) succeeds although a required field has no default', cls))
        elif ev != case['want']:
            bad.append(('decode_async(empty struct) is not the IDL default (%s)' % genrun.diff_text(ev, case['want']), cls))
        if e.rem != 0:
            bad.append(('decode_async(empty struct) leaves %d bytes' % e.rem, cls))
        return bad
    if e.kind == 'err':
        if not case['empty_must_fail']:
            return [('decode_async(empty struct) fails (%s) although every required field has a default' % e.line[:120], cls)]
        return []
    return [('decode_async(empty struct): %s' % e.line[:80], cls)]


def add_document(gb, case):
    # the replay names the corpus document the type comes from and carries its IDL text
    d = gb.schema.docs.get(case['type'].split('.')[0])
    if d is not None and 'document' not in case:
        case['document'] = dict(name=d.name, idl=gengen.doc_idl(d))


def with_document(gb, failing):
    for f in failing:
        add_document(gb, f[0])
    return failing


def evaluate(gb, case, out):
    bad = evaluate0(gb, case, out)
    if bad:
        add_document(gb, case)
    return bad


def evaluate0(gb, case, out):
    sch = gb.schema
    if case.get('op') == 'empty_async':
        return evaluate_empty_async(gb, case, out)
    tname, cfg, proto = case['type'], case['cfg'], case['proto']
    ty = ('ref', tname)
    m = DFLT_RE.match(out or '')
    if not m:
        return [('Default/encode/decode-empty run did not complete: %s' % (out or '')[:200], None)]
    got, why = genrun.value_text(gb, cfg, ty, m.group(1))
    if why:
        return [(why, None)]
    bad = []
    if got != case['want']:
        # name the field(s): the replay then carries a concrete field, its IDL literal and both values
        fields = []
        d = sch.types[tname]
        if d['kind'] == 'struct':
            v, why2 = genrun.debug_value(gb, cfg, ty, m.group(1))
            exp = gengen.expected_default(sch, tname)
            if not why2 and isinstance(v, dict):
                for f in d['fields']:
                    a = gengen.show(sch, f['ty'], v[f['id']], nan_canon=True) if f['id'] in v else '<absent>'
                    b = gengen.show(sch, f['ty'], exp[f['id']], nan_canon=True) if f['id'] in exp else '<absent>'
                    if a != b:
                        fields.append(dict(field=f['name'], field_id=f['id'], idl_type=gengen.ty_idl_lowered(f['ty']),
                                           idl_default=(gengen.lit_idl(f['lit']) if f['lit'] is not None else None),
                                           default_holds=a[:300], idl_means=b[:300]))
        case['failing_fields'] = fields[:8]
        if fields:
            f0 = fields[0]
            bad.append(('T::default() is not the IDL default: field %s.%s (id %d, %s = %s) holds `%s`, the IDL means `%s`%s'
                        % (tname, f0['field'], f0['field_id'], f0['idl_type'], f0['idl_default'], f0['default_holds'][:120],
                           f0['idl_means'][:120], '' if len(fields) == 1 else ' (+%d more fields)' % (len(fields) - 1)), None))
        else:
            bad.append(('T::default() is not the IDL default (%s)' % genrun.diff_text(got, case['want']), None))
    if m.group(3) is None:
        bad.append(('encoding T::default() failed: ' + m.group(2)[:100], None))
    else:
        enc = b'' if m.group(4) == '-' else bytes.fromhex(m.group(4))
        try:
            v2, n, notes = genref.decode(sch, ty, enc, genrun.ref_proto(proto))
            back = gengen.show(sch, ty, v2)
            if n != len(enc) or notes:
                bad.append(('encode(T::default()) does not conform to the schema: %r' % (notes[:3] or 'trailing bytes',), None))
            elif back != case['want']:
                bad.append(('encode(T::default()) reference-decodes to another value (%s)' % genrun.diff_text(back, case['want']), None))
        except Exception as e:
            bad.append(('encode(T::default()) is not a valid %s message: %r' % (proto, e), None))
        if int(m.group(3)) != len(enc):
            cls = 'typedef-bool-size-compact' if proto == 'compact' and genrun.typedef_bool_under_compact(sch, tname) else None
            if cls is None:
                bad.append(('size() of the default is %s, %d bytes written' % (m.group(3), len(enc)), None))
    if case['kind'] == 'struct':
        e = genrun.Res(m.group(6))
        cls = 'keep-is-arg-swallow' if genrun.is_arg_swallow(sch, cfg, tname, 'sync') else None
        if e.kind == 'ok':
            ev, why = genrun.value_text(gb, cfg, ty, e.debug)
            if why:
                bad.append((why, cls))
            elif ev != got:
                bad.append(('decode(empty struct) differs from T::default() (%s)' % genrun.diff_text(ev, got), cls))
            if case['empty_must_fail']:
                bad.append(('decode(empty struct) succeeds although a required field has no default', cls))
        elif e.kind == 'err':
            if not case['empty_must_fail']:
                bad.append(('decode(empty struct) fails (%s) although every required field has a default' % e.line[:120], cls))
        else:
            bad.append(('decode(empty struct): %s' % e.line[:80], cls))
    return bad


# ------------------------------------------------------------------ literal level

def literal_fields(gb, cases):
    """[(cfg, type name, field dict, case)] for every field with an IDL default of the struct types among the cases
    (one case per (cfg, type): the first protocol)"""
    sch = gb.schema
    seen, out = set(), []
    for c in cases:
        key = (c['cfg'], c['type'])
        d = sch.types.get(c['type'])
        if key in seen or d is None or d['kind'] != 'struct':
            continue
        seen.add(key)
        for f in d['fields']:
            if f['lit'] is not None and ('field_id' not in c or c['field_id'] == f['id']):
                out.append((c['cfg'], c['type'], f, c))
    return out


REPAIR_DOC_NAMES = set(d.name for _, d in gengen.repair_docs())
LIT_RE = re.compile(r'LIT (ok ([CN]) (.*?)|panic \w+|err \w+) WT ([01]) CLASS ([\w-]+) SPEC (.*)$')
LDFLT_RE = re.compile(r'LDFLT MODEL (ok (.*?)|panic \w+|err \w+) PROJ (.*?) SPEC (.*)$')


def literal_phase(chk, gb, cases, outs, stats):
    """-> oracle failures [(case, why, cls, impl line)]; model / specification disagreements are reported here as
    correspondence violations (no failing input) unless an oracle failure was found"""
    sch = gb.schema
    runner = genrun.FAM.runner
    fields = literal_fields(gb, cases)
    stats.update(default_literals=len(set((t, f['id']) for _, t, f, _ in fields)), compared=0, in_proven_domain=0,
                 model_ran=False)
    if not fields:
        return []
    out_by_case = {id(c): o for c, o in zip(cases, outs)}
    failing, corr = [], []
    # ---- the model
    mres, dres, sline = {}, {}, None
    if os.path.exists(runner) and have_property_file(PROP):
        lpath = os.path.join(gb.out_dir, 'lschema.txt')
        open(lpath, 'w').write(gengen.lschema_txt(sch))
        keys = sorted(set((t, f['id']) for _, t, f, _ in fields))
        tys = sorted(set(t for t, _ in keys))
        cnames = list(sch.consts) if 'field_id' not in fields[0][3] else []
        lines = ['lschema'] + ['lit %s %d' % k for k in keys] + ['ldflt %s' % t for t in tys] + ['lconst %d' % i for i in range(len(cnames))]
        mo = core.run_lines(runner, lines, args=[os.path.join(gb.out_dir, 'schema.txt'), lpath])
        # const items: the value the model gives their definition (def_lit) = the meaning of their literal (Python lit_value);
        # the implementation side is the compilation of the emitted `pub const` / `pub static` items
        stats['consts_compared'] = len(cnames)
        for g, o in zip(cnames, mo[1 + len(keys) + len(tys):]):
            cty, clit, cdoc = sch.consts[g]
            want = gengen.show(sch, cty, gengen.lit_value(sch, cty, clit, cdoc), nan_canon=True)
            m = re.match(r'LCONST ok (.*)$', o or '')
            if not m:
                corr.append('the literal model predicts `%s` for the definition of const %s although the generator produced code' % ((o or '')[:60], g))
            elif genrun.canon_nan_text(m.group(1)) != want:
                corr.append('const %s: model const_value `%s`, Python lit_value `%s`' % (g, m.group(1)[:120], want[:120]))
        sline = mo[0] or ''
        for k, o in zip(keys, mo[1:1 + len(keys)]):
            mres[k] = o or ''
        for t, o in zip(tys, mo[1 + len(keys):]):
            dres[t] = o or ''
        stats['model_ran'] = True
        m = re.match(r'LSCHEMA class_free ([01]) lits_typed ([01])', sline)
        if not m:
            corr.append('model runner (literal schema): %s' % sline[:120])
        else:
            stats['class_free_schema'], stats['lits_typed'] = int(m.group(1)), int(m.group(2))
            m2 = re.search(r' wf_proj ([01]) elems_proj ([01])', sline)
            if m2:
                # hypotheses of C20_default_encoding_conforms: the projected schema is well-formed, no void container elements
                stats['wf_projected_schema'], stats['elems_ok_projected_schema'] = int(m2.group(1)), int(m2.group(2))
                if m2.group(1) != '1' or m2.group(2) != '1':
                    corr.append('the corpus is outside the hypotheses of C20_default_encoding_conforms (wf_schema (proj S)=%s, '
                                'elems_ok (proj S)=%s)' % (m2.group(1), m2.group(2)))
            # the class predicate follows the source as it is (a repaired shape is no class): the whole corpus, the documents of
            # repaired shapes (gengen.repair_docs) included, is inside the domain of the general theorems
            if m.group(2) != '1' or m.group(1) != '1':
                corr.append('the corpus is outside the hypotheses of C20_literal_meaning / C20_default_is_idl although the '
                            'generator ran (class_free_schema=%s lits_typed=%s)' % (m.group(1), m.group(2)))
    # ---- per field: Python meaning, emitted Default, model
    for cfg, tname, f, c in fields:
        ty = ('ref', tname)
        want = gengen.show(sch, f['ty'], f['default'], nan_canon=True)
        o = out_by_case.get(id(c)) or ''
        m = DFLT_RE.match(o)
        got = None
        if m:
            v, why = genrun.debug_value(gb, cfg, ty, m.group(1))
            if not why and isinstance(v, dict) and f['id'] in v:
                got = gengen.show(sch, f['ty'], v[f['id']], nan_canon=True)
            elif not why:
                got = '<absent>'
        fc = dict(c, field=f['name'], field_id=f['id'], literal=gengen.lit_idl(f['lit']), idl_type=gengen.ty_idl_lowered(f['ty']))
        stats['compared'] += 1
        if got is not None and got != want:
            failing.append((fc, 'field %s.%s (id %d) = %s: T::default() holds `%s`, the IDL default means `%s`'
                            % (tname, f['name'], f['id'], gengen.lit_idl(f['lit'])[:80], got[:200], want[:200]), None, o))
        mo = mres.get((tname, f['id']))
        if mo is None:
            continue
        mm = LIT_RE.match(mo)
        if not mm:
            corr.append('model runner on %s.%s: %s' % (tname, f['name'], mo[:120]))
            continue
        if mm.group(4) == '1' and mm.group(5) == 'none':
            stats['in_proven_domain'] += 1
        else:
            corr.append('%s.%s = %s is outside the domain of C20_literal_meaning (well-typed %s, class %s) although the generator '
                        'produced code' % (tname, f['name'], gengen.lit_idl(f['lit'])[:60], mm.group(4), mm.group(5)))
        mval = genrun.canon_nan_text(mm.group(3)) if mm.group(2) else None
        if mval is None:
            corr.append('the literal model predicts `%s` for %s.%s = %s but the generator produced code'
                        % (mm.group(1), tname, f['name'], gengen.lit_idl(f['lit'])[:60]))
            continue
        if got is not None and mval != got:
            corr.append('literal model vs emitted Default, %s.%s = %s: model `%s`, implementation `%s`'
                        % (tname, f['name'], gengen.lit_idl(f['lit'])[:60], mval[:120], got[:120]))
        if mval != want and (got is None or got == want):
            corr.append('literal model vs Python lit_value, %s.%s = %s: model `%s`, Python `%s`'
                        % (tname, f['name'], gengen.lit_idl(f['lit'])[:60], mval[:120], want[:120]))
        if (mm.group(2) == 'C') != bool(f['const']):
            corr.append('const flag of %s.%s: model %s, gengen.is_const_default %s' % (tname, f['name'], mm.group(2), f['const']))
        spec = genrun.canon_nan_text(mm.group(6))
        if spec != want:
            corr.append('the two specifications disagree on %s.%s = %s: LitSpec.lit_value `%s`, Python lit_value `%s`'
                        % (tname, f['name'], gengen.lit_idl(f['lit'])[:60], spec[:120], want[:120]))
    # ---- whole Default values: ImplDefaultPlugin model, Defaults.default_of over the projected schema, expected_default
    for tname, o in sorted(dres.items()):
        mm = LDFLT_RE.match(o)
        want = gengen.show(sch, ('ref', tname), gengen.expected_default(sch, tname), nan_canon=True)
        if not mm or not mm.group(2):
            corr.append('model runner, Default of %s: %s' % (tname, o[:120]))
            continue
        three = [genrun.canon_nan_text(x) for x in (mm.group(2), mm.group(3), mm.group(4))]
        if any(x != want for x in three):
            which = ['Lit.rust_default', 'Defaults.default_of (Lit.proj)', 'LitSpec.expected_default']
            bad = [w for w, x in zip(which, three) if x != want]
            corr.append('Default of %s: %s differ(s) from Python expected_default (%s)'
                        % (tname, ', '.join(bad), genrun.diff_text(three[which.index(bad[0])], want)))
    # ---- documents whose shape needs a repair that is not in the tree (gengen.repair_docs): the generator must panic on each,
    #      the model must predict a panic, and the panic is the known finding of the document's class
    if 'field_id' not in fields[0][3]:
        corr += repair_phase(chk, gb, stats)
    stats['model_mismatches'] = len(corr)
    if corr and not failing:
        c0 = fields[0][3]
        chk.violation('correspondence literal-lowering broken: extracted model of lit_into_ty (fam/gen/coq/Lit.v) / specification '
                      'and the emitted code disagree (%d: %s) but the property oracle found no failing field'
                      % (len(corr), corr[0]),
                      dict(kind='correspondence', correspondence='literal lowering (fam/gen/coq/Lit.v vs pilota-build context.rs)',
                           case=c0, details=corr[:20]), no_input=True)
    return failing


def pair_phase(gb, cases, outs, stats):
    """the two ends of one call: <Service><Method>ArgsSend and ...ArgsRecv have the same fields and the same IDL defaults, so
    their Default values are the same value and encode to the same fields (compared after reference decoding).
    -> oracle failures [(case, why, cls, impl line)]"""
    sch = gb.schema
    by = {}
    for c, o in zip(cases, outs):
        d = sch.types.get(c['type'])
        if c.get('op') == 'empty_async' or d is None or not d.get('synth') or d['synth'][2] not in ('ArgsSend', 'ArgsRecv'):
            continue
        by.setdefault((c['cfg'], c['proto'], d['synth'][0], d['synth'][1]), {})[d['synth'][2]] = (c, o or '')
    failing = []
    stats['send_recv_pairs'] = 0
    for key, pr in sorted(by.items()):
        if len(pr) != 2:
            continue
        (cs, os_), (cr, or_) = pr['ArgsSend'], pr['ArgsRecv']
        ms, mr = DFLT_RE.match(os_), DFLT_RE.match(or_)
        if not ms or not mr:
            continue
        stats['send_recv_pairs'] += 1
        vs, _ = genrun.value_text(gb, cs['cfg'], ('ref', cs['type']), ms.group(1))
        vr, _ = genrun.value_text(gb, cr['cfg'], ('ref', cr['type']), mr.group(1))
        if vs is not None and vr is not None and vs != vr:
            failing.append((dict(cr, companions=[cs]), 'the two argument structs of %s.%s disagree: ArgsSend::default() vs ArgsRecv::default() (%s)'
                            % (key[2], key[3], genrun.diff_text(vr, vs)), None, or_))
            continue
        if ms.group(4) and mr.group(4):
            try:
                a = genref.decode(sch, ('ref', cs['type']), bytes.fromhex(ms.group(4).replace('-', '')), genrun.ref_proto(cs['proto']))[0]
                b = genref.decode(sch, ('ref', cr['type']), bytes.fromhex(mr.group(4).replace('-', '')), genrun.ref_proto(cr['proto']))[0]
                ta, tb = gengen.show(sch, ('ref', cs['type']), a), gengen.show(sch, ('ref', cr['type']), b)
            except Exception:
                continue        # reported by evaluate
            if ta != tb:
                failing.append((dict(cr, companions=[cs]), 'encode(ArgsSend::default()) and encode(ArgsRecv::default()) of %s.%s differ (%s)'
                                % (key[2], key[3], genrun.diff_text(tb, ta)), None, or_))
    return failing


def repair_phase(chk, gb, stats):
    """-> correspondence disagreements; known findings are reported through chk.violation(cls=..)"""
    import subprocess, tempfile
    corr = []
    present = gengen.repairs_present()
    genbin = os.path.join(os.path.dirname(gb.bin), 'pv-gen-build')
    runner = genrun.FAM.runner
    stats['repairs_present'] = sorted(present)
    stats['repair_documents_open'] = 0
    for name, doc in gengen.repair_docs():
        if name in present:
            continue                      # the document is part of the corpus: compared field by field above
        stats['repair_documents_open'] += 1
        classes = gengen.repair_doc_class(doc)
        pn = gengen.REPAIR_PATCH.get(name, name)
        patch = 'fam/gen/patches/%s.diff' % pn if pn else None
        idl = gengen.doc_idl(doc)
        d = tempfile.mkdtemp(prefix='c20_probe_', dir=gb.out_dir)
        try:
            src, out = os.path.join(d, doc.name + '.thrift'), os.path.join(d, 'out.rs')
            open(src, 'w').write(idl)
            r = subprocess.run(['timeout', '120', genbin, 'plain', out, src], capture_output=True, text=True, env=dict(core.ENV, RUST_BACKTRACE='0'))
            log = '\n'.join(l for l in (r.stdout + r.stderr).splitlines() if not l.startswith('cargo:'))
            panicked = 'panicked at' in log and not os.path.exists(out)
            msg = next((l for l in log.splitlines() if 'panicked at' in l), '')
            i = log.find(msg)
            detail = ' '.join(log[i:].splitlines()[:2])[:300] if msg else log[-300:]
            # the model on the same document
            mpanic = None
            if os.path.exists(runner) and have_property_file(PROP):
                sch1 = gengen.lower_docs([doc])
                sp, lp = os.path.join(d, 'schema.txt'), os.path.join(d, 'lschema.txt')
                open(sp, 'w').write(gengen.schema_txt(sch1)); open(lp, 'w').write(gengen.lschema_txt(sch1))
                lines = ['lit %s %d' % (n, f['id']) for n in sch1.order if sch1.types[n]['kind'] == 'struct'
                         for f in sch1.types[n]['fields'] if f['lit'] is not None]
                lines += ['lconst %d' % i for i in range(len(sch1.consts))]
                mo = core.run_lines(runner, lines, args=[sp, lp])
                mpanic = any((o or '').startswith(('LIT panic', 'LCONST panic')) for o in mo)
            if panicked:
                if name not in classes:
                    corr.append('document %s panics the generator but is not in class %s' % (doc.name, name))
                if mpanic is False:
                    corr.append('the generator panics on document %s (%s) but the literal model predicts no panic' % (doc.name, detail[:120]))
                chk.violation('C14/C20: the generator panics on a well-typed default (%s): %s' % (name, detail),
                              dict(kind='generator-panic', finding_class=name, document=doc.name, idl=idl, generator_output=log[-1500:],
                                   proposed_patch=patch), cls=name)
            else:
                corr.append('document %s (class %s) no longer panics the generator although the repair marker of %s is not in context.rs'
                            % (doc.name, name, name))
        finally:
            import shutil
            shutil.rmtree(d, ignore_errors=True)
    return corr


def run(chk, replay=None):
    stats = {}
    return run_check(chk, replay, PROP, gen_cases, evaluate,
                     post=lambda gb, cases, outs: with_document(gb, pair_phase(gb, cases, outs, stats) + literal_phase(chk, gb, cases, outs, stats)),
                     rule="every emitted type (structs incl. synthesised service types, unions, enums, typedefs) of the corpus "
                          "(document dflt: defaults of every kind of the property text -- ints, bool from int, double from int, "
                          "decimal/exponent doubles, strings in both quote styles with escapes, binary, enum by name and by number, "
                          "const references incl. across files, list/set/map literals incl. [] for a map, nested struct literals, "
                          "typedef'd targets, btree containers; x required/optional/default requiredness; documents sdef / sdefs: the "
                          "same kinds written in the ARGUMENT lists of service methods, on exceptions and result types -- both "
                          "<Service><Method>ArgsSend and ArgsRecv, compared with the IDL and with each other) x {binary, binary_le, "
                          "compact, unchecked} x builder configs, plus decode_async of the empty struct x {binary, binary_le, compact} "
                          "x schedules; non-trivial = the struct has at least one IDL default",
                     extra_dist=lambda cases, outs: dict(structs_with_defaults=len(set(c['type'] for c in cases if c['nontrivial'])),
                                                         default_fields=sum(1 for c in cases if c['nontrivial']),
                                                         literal_level=dict(stats)))
