(* Denotation of the op rows of EmitOps.v over the primitive writer / length models of the main family
   (PV.Thrift.Proto / Len): what a table of rows writes for a value, and what it computes as its size.  The denotation
   reads ONLY the table: field ids, the TType constants written in the text, the method kinds, the order of the rows'
   fields; the TType a `write_<k>_field` / `<k>_field_len` helper announces comes from the regenerated list of the
   runtime's Ext traits (Generated/ExtTable.v).  No schema in this file, no proofs. *)
From Coq Require Import String.
From PVGen Require Export EmitOps Generated.ExtTable.
Open Scope Z_scope.

Section Den.
  Variable tbl : list erow.
  Variable p : pk.

  Definition row (n : nat) : erow := match nth_error tbl n with Some r => r | None => ENone end.

  (* write_struct(x) / struct_len(x) on a newtype is the newtype's own body *)
  Fixpoint vres (size : bool) (fuel : nat) (e : vop) : vop :=
    match fuel with
    | O => e
    | Datatypes.S f =>
        match e with
        | VPath n => match row n with
                     | ENewtype _ enc sz _ => vres size f (if size then sz else enc)
                     | _ => e
                     end
        | _ => e
        end
    end.
  Definition vfuel : nat := Datatypes.S (length tbl).

  Fixpoint find_ef (fs : list efield) (id : Z) : option efield :=
    match fs with
    | [] => None
    | f :: r => if ef_id f =? id then Some f else find_ef r id
    end.

  (* codegen_encode_field / codegen_field_size send OrderedF64 through the `double` helpers *)
  Definition method_kind (kd : kind) : kind := match kd with KOrderedF64 => KF64 | _ => kd end.
  Definition hdr_of (tab : kind -> option ttype) (kd : kind) : ttype :=
    match tab (method_kind kd) with Some t => t | None => TStop end.

  (* ---------- encode ---------- *)
  Section Enc.
    Variable k : bk.

    Definition w_kind (kd : kind) (v : gval) : wm :=
      match kd, v with
      | KBool, GBool b => w_bool p b
      | (KU8 | KI8), GI8 z => w_i8 z
      | KI16, GI16 z => w_i16 p z
      | KI32, GI32 z => w_i32 p z
      | KI64, GI64 z => w_i64 p z
      | (KF64 | KOrderedF64), GDouble b => w_double p b
      | (KString | KFastStr | KBytes | KBytesVec), GBytes l => w_bytes p k l
      | KUuid, GUuid l => w_uuid l
      | _, _ => wfail
      end.

    (* one field statement: write_<k>_field(id, x) = write_field_begin(ttype, id); write_<k>(x); write_field_end() *)
    Definition den_wfield (rec : vop -> wm) (wk : kind -> wm) (op : fop) (id : Z) : wm :=
      match op with
      | FK kd => w_field_begin p (hdr_of ext_write_field_ttype kd) id ;; wk kd ;; w_field_end p
      | FEnum m => w_field_begin p (hdr_of ext_write_field_ttype KI32) id ;; rec (VPath m) ;; w_field_end p
      | FList et e1 => w_field_begin p ext_list_field_ttype id ;; rec (VList et e1) ;; w_field_end p
      | FSet bt et e1 => w_field_begin p ext_set_field_ttype id ;; rec (VSet bt et e1) ;; w_field_end p
      | FMap bt kt vt ea eb => w_field_begin p ext_map_field_ttype id ;; rec (VMap bt kt vt ea eb) ;; w_field_end p
      | FPath (Some ht) m => w_field_begin p ht id ;; rec (VPath m) ;; w_field_end p
      | FPath None _ => wfail
      | FNone => wnop
      end.

    Fixpoint den_enc (e : vop) (v : gval) {struct v} : wm :=
      match v with
      | GBool _ | GI8 _ | GI16 _ | GI32 _ | GI64 _ | GDouble _ | GBytes _ | GUuid _ =>
          match vres false vfuel e with VK kd => w_kind kd v | _ => wfail end
      | GVoid => match vres false vfuel e with VVoid => w_struct_begin p ;; w_struct_end p | _ => wfail end
      | GEnum z =>
          match vres false vfuel e with
          | VPath n => match row n with EEnum _ => w_i32 p z | _ => wfail end
          | _ => wfail
          end
      | GList l =>
          match vres false vfuel e with
          | VList et e1 =>
              w_coll_begin p et (Z.of_nat (length l)) ;;
              (fix go (l : list gval) : wm := match l with [] => wnop | x :: r => den_enc e1 x ;; go r end) l
          | _ => wfail
          end
      | GSet l =>
          match vres false vfuel e with
          | VSet _ et e1 =>
              w_coll_begin p et (Z.of_nat (length l)) ;;
              (fix go (l : list gval) : wm := match l with [] => wnop | x :: r => den_enc e1 x ;; go r end) l
          | _ => wfail
          end
      | GMap l =>
          match vres false vfuel e with
          | VMap _ kt vt ea eb =>
              w_map_begin p kt vt (Z.of_nat (length l)) ;;
              (fix go (l : list (gval * gval)) : wm :=
                 match l with [] => wnop | (a, b) :: r => den_enc ea a ;; den_enc eb b ;; go r end) l
          | _ => wfail
          end
      | GStruct fs unk =>
          match vres false vfuel e with
          | VPath n =>
              match row n with
              | EStruct _ enc _ _ _ _ =>
                  w_struct_begin p ;;
                  (fix go (fs : list (Z * gval)) : wm :=
                     match fs with
                     | [] => wnop
                     | (id, x) :: r =>
                         match find_ef enc id with
                         | Some f => den_wfield (fun e => den_enc e x) (fun kd => w_kind kd x) (ef_op f) id ;; go r
                         | None => wfail
                         end
                     end) fs ;;
                  (* for bytes in self._unknown_fields.list.iter() { write_bytes_without_len }: a type without the member has no chunks *)
                  w_unknown k unk ;;
                  w_field_stop p ;; w_struct_end p
              | _ => wfail
              end
          | _ => wfail
          end
      | GUnion id x =>
          match vres false vfuel e with
          | VPath n =>
              match row n with
              | EUnion _ enc _ _ _ _ =>
                  match find_ef enc id with
                  | Some f =>
                      w_struct_begin p ;;
                      den_wfield (fun e => den_enc e x) (fun kd => w_kind kd x) (ef_op f) id ;;
                      w_field_stop p ;; w_struct_end p
                  | None => wfail
                  end
              | _ => wfail
              end
          | _ => wfail
          end
      | GUnionUnknown u =>
          match vres false vfuel e with
          | VPath n =>
              match row n with
              | EUnion _ _ true _ _ _ =>
                  w_struct_begin p ;; w_bytes_without_len k u ;; w_field_stop p ;; w_struct_end p
              | _ => wfail
              end
          | _ => wfail
          end
      end.
  End Enc.

  (* ---------- size ---------- *)
  Definition l_kind (kd : kind) (v : gval) : lm :=
    match kd, v with
    | KBool, GBool _ => l_bool p
    | (KU8 | KI8), GI8 _ => l_i8
    | KI16, GI16 z => l_i16 p z
    | KI32, GI32 z => l_i32 p z
    | KI64, GI64 z => l_i64 p z
    | (KF64 | KOrderedF64), GDouble _ => l_double
    | (KString | KFastStr | KBytes | KBytesVec), GBytes l => l_bytes p (Z.of_nat (length l))
    | KUuid, GUuid _ => l_uuid
    | _, _ => lfail
    end.

  (* <k>_field_len(Some(id), x) = field_begin_len(ttype, Some(id)) + <k>_len(x) + field_end_len() *)
  Definition den_lfield (rec : vop -> lm) (lk : kind -> lm) (op : fop) (id : Z) : lm :=
    match op with
    | FK kd => l_field_begin p (hdr_of ext_field_len_ttype kd) id +++ lk kd +++ l_field_end p
    | FEnum m => l_field_begin p (hdr_of ext_field_len_ttype KI32) id +++ rec (VPath m) +++ l_field_end p
    | FList et e1 => l_field_begin p ext_list_field_ttype id +++ rec (VList et e1) +++ l_field_end p
    | FSet bt et e1 => l_field_begin p ext_set_field_ttype id +++ rec (VSet bt et e1) +++ l_field_end p
    | FMap bt kt vt ea eb => l_field_begin p ext_map_field_ttype id +++ rec (VMap bt kt vt ea eb) +++ l_field_end p
    | FPath None m => l_field_begin p ext_struct_field_len_ttype id +++ rec (VPath m) +++ l_field_end p
    | FPath (Some _) _ => lfail
    | FNone => lret 0
    end.

  Fixpoint den_size (e : vop) (v : gval) {struct v} : lm :=
    match v with
    | GBool _ | GI8 _ | GI16 _ | GI32 _ | GI64 _ | GDouble _ | GBytes _ | GUuid _ =>
        match vres true vfuel e with VK kd => l_kind kd v | _ => lfail end
    | GVoid => match vres true vfuel e with VVoid => l_struct_begin p +++ l_struct_end p | _ => lfail end
    | GEnum z =>
        match vres true vfuel e with
        | VPath n => match row n with EEnum _ => l_i32 p z | _ => lfail end
        | _ => lfail
        end
    | GList l =>
        match vres true vfuel e with
        | VList et e1 =>
            l_coll_begin p et (Z.of_nat (length l)) +++
            (fix go (l : list gval) : lm := match l with [] => lret 0 | x :: r => den_size e1 x +++ go r end) l
        | _ => lfail
        end
    | GSet l =>
        match vres true vfuel e with
        | VSet _ et e1 =>
            l_coll_begin p et (Z.of_nat (length l)) +++
            (fix go (l : list gval) : lm := match l with [] => lret 0 | x :: r => den_size e1 x +++ go r end) l
        | _ => lfail
        end
    | GMap l =>
        match vres true vfuel e with
        | VMap _ kt vt ea eb =>
            l_map_begin p kt vt (Z.of_nat (length l)) +++
            (fix go (l : list (gval * gval)) : lm :=
               match l with [] => lret 0 | (a, b) :: r => den_size ea a +++ den_size eb b +++ go r end) l
        | _ => lfail
        end
    | GStruct fs unk =>
        match vres true vfuel e with
        | VPath n =>
            match row n with
            | EStruct _ _ _ sz _ _ =>
                l_struct_begin p +++
                (fix go (fs : list (Z * gval)) : lm :=
                   match fs with
                   | [] => lret 0
                   | (id, x) :: r =>
                       match find_ef sz id with
                       | Some f => den_lfield (fun e => den_size e x) (fun kd => l_kind kd x) (ef_op f) id +++ go r
                       | None => lfail
                       end
                   end) fs +++
                l_unknown unk +++
                l_field_stop p +++ l_struct_end p
            | _ => lfail
            end
        | _ => lfail
        end
    | GUnion id x =>
        match vres true vfuel e with
        | VPath n =>
            match row n with
            | EUnion _ _ _ sz _ _ =>
                match find_ef sz id with
                | Some f =>
                    l_struct_begin p +++
                    den_lfield (fun e => den_size e x) (fun kd => l_kind kd x) (ef_op f) id +++
                    l_field_stop p +++ l_struct_end p
                | None => lfail
                end
            | _ => lfail
            end
        | _ => lfail
        end
    | GUnionUnknown u =>
        match vres true vfuel e with
        | VPath n =>
            match row n with
            | EUnion _ _ _ _ true _ =>
                l_struct_begin p +++ lret (Z.of_nat (length u)) +++ l_field_stop p +++ l_struct_end p
            | _ => lfail
            end
        | _ => lfail
        end
    end.
End Den.

Definition den_encode (tbl : list erow) (p : pk) (k : bk) (n : nat) (v : gval) : res (list byte) :=
  let* (ss, _) := den_enc tbl p k (VPath n) v w0 in Ok (flat ss).
Definition den_sizeof (tbl : list erow) (p : pk) (n : nat) (v : gval) : res Z :=
  let* (m, _) := den_size tbl p (VPath n) v w0 in Ok m.

(* ---------- decode (rows WITHOUT retention statements: what a plain build emits) ----------
   The VALUE of a default expression is not lowered (IDL literals -> Rust expressions are the subject of C20: Lit.v and the
   three-way evaluation of every default of the corpus); the denotation takes the default values as a parameter
   [dfl row var].  Rows with retention statements (keep builds) are compared with the prescription by the table lemma
   only; their denotation is not given here (Err EOther). *)
Section DenDec.
  Variable tbl : list erow.
  Variable dfl : nat -> nat -> option gval.
  Variable p : pk.

  Definition r_kind (kd : kind) : rst -> res (gval * rst) := fun s =>
    match kd with
    | KBool => let* (b, s) := r_bool p s in Ok (GBool b, s)
    | KU8 | KI8 => let* (z, s) := r_i8 s in Ok (GI8 z, s)
    | KI16 => let* (z, s) := r_i16 p s in Ok (GI16 z, s)
    | KI32 => let* (z, s) := r_i32 p s in Ok (GI32 z, s)
    | KI64 => let* (z, s) := r_i64 p s in Ok (GI64 z, s)
    | KF64 | KOrderedF64 => let* (z, s) := r_double p s in Ok (GDouble z, s)
    | KString | KFastStr | KBytes | KBytesVec => let* (l, s) := r_bytes p s in Ok (GBytes l, s)
    | KUuid => let* (l, s) := r_uuid s in Ok (GUuid l, s)
    | _ => Err EOther
    end.

  (* Box::new / Arc::new are the identity on values; Message::decode of a newtype is the newtype's own read *)
  Fixpoint unbox (e : rop) : rop := match e with RBox e' | RArc e' => unbox e' | _ => e end.
  Fixpoint rres (fuel : nat) (e : rop) : rop :=
    match fuel with
    | O => unbox e
    | Datatypes.S f =>
        match unbox e with
        | RPath n => match row tbl n with ENewtype _ _ _ d => rres f d | _ => RPath n end
        | e' => e'
        end
    end.

  Definition len_form0 (lf0 : lenform) (m : rst -> res (Z * rst)) : rst -> res (Z * rst) := fun s =>
    match lf0 with
    | LNo => Ok (0, s)
    | LCall => m s
    | LAdd => Err EOther
    end.

  Fixpoint find_arm (arms : list darm) (id : option Z) (ft : ttype) : option darm :=
    match arms with
    | [] => None
    | a :: r =>
        match id with
        | Some z => if ((da_id a =? z) && ttype_eqb (da_tt a) ft)%bool then Some a else find_arm r id ft
        | None => None
        end
    end.
  Fixpoint find_uarm (arms : list uarm) (id : Z) : option uarm :=
    match arms with
    | [] => None
    | a :: r => if ua_id a =? id then Some a else find_uarm r id
    end.

  Definition retains_s (d : dstruct) : bool :=
    (ds_count d || ds_unk d || ds_skip_all d || ds_ptr d || ds_push d || ds_build_unk d)%bool.
  Definition retains_u (d : dunion) : bool := (du_ptr d || du_unknown d)%bool.

  Section Loops.
    Variable fuel_skip : nat.
    Variable rec : rop -> rst -> res (gval * rst).

    Fixpoint dd_elems (m : nat) (e : rop) (n : Z) (s : rst) (acc : list gval) {struct m} : res (list gval * rst) :=
      if n <=? 0 then Ok (rev acc, s) else
      match m with
      | O => Err EOutOfFuel
      | Datatypes.S m' => let* (x, s) := rec e s in dd_elems m' e (n - 1) s (x :: acc)
      end.

    Fixpoint dd_pairs (m : nat) (ea eb : rop) (n : Z) (s : rst) (acc : list (gval * gval)) {struct m}
      : res (list (gval * gval) * rst) :=
      if n <=? 0 then Ok (rev acc, s) else
      match m with
      | O => Err EOutOfFuel
      | Datatypes.S m' =>
          let* (a, s) := rec ea s in
          let* (b, s) := rec eb s in
          dd_pairs m' ea eb (n - 1) s ((a, b) :: acc)
      end.

    (* loop { let field_ident = read_field_begin()?; if Stop { stop_len; break } else { begin_len }; match (id, type) arms; read_field_end()?; end_len } *)
    Fixpoint dd_fields (m : nat) (d : dstruct) (vars : list (option gval)) (s : rst) {struct m}
      : res (list (option gval) * rst) :=
      match m with
      | O => Err EOutOfFuel
      | Datatypes.S m' =>
          let* (h, s) := r_field_begin p s in
          if ttype_eqb (fst h) TStop then
            let* (_, s) := len_form0 (ds_stop_len d) (r_field_stop_len p) s in Ok (vars, s)
          else
            let* (_, s) := len_form0 (ds_begin_len d) (r_field_begin_len p (fst h) (snd h)) s in
            let* (vars, s) :=
              match find_arm (ds_arms d) (snd h) (fst h) with
              | Some a => let* (x, s) := rec (da_read a) s in Ok (set_nth (da_var a) (Some x) vars, s)
              | None =>
                  match ds_skip d with
                  | LCall => let* (_, s) := skip p fuel_skip (fst h) s in Ok (vars, s)
                  | _ => Err EOther
                  end
              end in
            let* (_, s) := len_form0 (ds_end_len d) (r_field_end_len p) s in
            dd_fields m' d vars s
      end.

    (* the union loop: arms on the id only; the `size(&field_ident);` statement on the reader object is pure in binary and
       balanced in compact (as in Gen.dec_variants) *)
    Fixpoint dd_variants (m : nat) (d : dunion) (ret : option (Z * gval)) (s : rst) {struct m}
      : res (option (Z * gval) * rst) :=
      match m with
      | O => Err EOutOfFuel
      | Datatypes.S m' =>
          let* (h, s) := r_field_begin p s in
          if ttype_eqb (fst h) TStop then
            let* (_, s) := len_form0 (du_stop_len d) (r_field_stop_len p) s in Ok (ret, s)
          else
            let* (_, s) := len_form0 (du_begin_len d) (r_field_begin_len p (fst h) (snd h)) s in
            match match snd h with Some id => find_uarm (du_arms d) id | None => None end with
            | Some a =>
                match ret with
                | None => let* (x, s) := rec (ua_read a) s in dd_variants m' d (Some (ua_id a, x)) s
                | Some _ => Err EInvalidData
                end
            | None =>
                match du_skip d with
                | LCall => let* (_, s) := skip p fuel_skip (fst h) s in dd_variants m' d ret s
                | _ => Err EOther
                end
            end
      end.
  End Loops.

  Fixpoint init_vars (n : nat) (i : nat) (inits : list dinit) : list (option gval) :=
    match inits with
    | [] => []
    | INone :: r => None :: init_vars n (Datatypes.S i) r
    | IConst _ :: r => dfl n i :: init_vars n (Datatypes.S i) r
    end.

  (* after the loop: `let Some(var) = var else { Err(InvalidData) }` for the listed variables, the late defaults, Self { .. } *)
  Fixpoint dd_finish (n : nat) (d : dstruct) (build : list (string * nat)) (vars : list (option gval)) : res (list (Z * gval)) :=
    match build with
    | [] => Ok []
    | (_, var) :: rb =>
        match nth_error vars var, arm_of_var (ds_arms d) var with
        | Some v, Some id =>
            let* rest := dd_finish n d rb vars in
            match v with
            | Some x => Ok ((id, x) :: rest)
            | None =>
                match dfl n var with
                | Some dv => Ok ((id, dv) :: rest)
                | None => if existsb (Nat.eqb var) (ds_required d) then Err EInvalidData else Ok rest
                end
            end
        | _, _ => Err EOther
        end
    end.

  Fixpoint den_dec (fuel : nat) (e : rop) (s : rst) {struct fuel} : res (gval * rst) :=
    match fuel with
    | O => Err EOutOfFuel
    | Datatypes.S f =>
        match rres (vfuel tbl) e with
        | RK kd => r_kind kd s
        | RVoid =>
            let* (_, s) := r_struct_begin p s in
            let* (_, s) := r_struct_end p s in Ok (GVoid, s)
        | RList e1 =>
            let* (h, s) := r_coll_begin p s in
            let* (l, s) := dd_elems (den_dec f) (Datatypes.S f) e1 (snd h) s [] in
            Ok (GList l, s)
        | RSet _ e1 =>
            let* (h, s) := r_coll_begin p s in
            let* (l, s) := dd_elems (den_dec f) (Datatypes.S f) e1 (snd h) s [] in
            Ok (GSet l, s)
        | RMap _ ea eb =>
            let* (h, s) := r_map_begin p s in
            let* (l, s) := dd_pairs (den_dec f) (Datatypes.S f) ea eb (snd h) s [] in
            Ok (GMap l, s)
        | RPath n =>
            match row tbl n with
            | EEnum _ => let* (z, s) := r_i32 p s in Ok (GEnum z, s)
            | EStruct _ _ _ _ _ d =>
                if retains_s d then Err EOther else
                let* (_, s) := r_struct_begin p s in
                let* (vars, s) := dd_fields f (den_dec f) (Datatypes.S f) d (init_vars n 0 (ds_inits d)) s in
                let* (_, s) := r_struct_end p s in
                let* out := dd_finish n d (ds_build d) vars in
                Ok (GStruct out [], s)
            | EUnion _ enc _ _ _ d =>
                if retains_u d then Err EOther else
                let* (_, s) := r_struct_begin p s in
                let* (ret, s) := dd_variants f (den_dec f) (Datatypes.S f) d None s in
                let* (_, s) := r_struct_end p s in
                match ret with
                | Some (id, x) => Ok (GUnion id x, s)
                | None =>
                    if du_void_ok d then
                      match enc with
                      | f0 :: _ => Ok (GUnion (ef_id f0) GVoid, s)       (* Ok(Name::Ok(())): the first variant *)
                      | [] => Err EInvalidData
                      end
                    else Err EInvalidData
                end
            | _ => Err EOther
            end
        | RBox _ | RArc _ => Err EOther
        end
    end.
End DenDec.
