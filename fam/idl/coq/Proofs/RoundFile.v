(* C15, stage 6: include / cpp_include / namespace, the item dispatch and the file level -- the full statement. *)
From PVIdl Require Import Comb Ast Parser Print Proofs.Total Proofs.RoundTok Proofs.RoundPath Proofs.RoundAnn Proofs.RoundTy
  Proofs.RoundKit Proofs.Lex Proofs.RoundNum Proofs.RoundConst Proofs.RoundDecl Proofs.RoundItem Proofs.RoundField Proofs.RoundStruct Proofs.RoundFn.
From Coq Require Import ZifyN ZifyNat ZifyBool.
From Coq Require String.
Import String.StringSyntax.
Open Scope nat_scope.

Lemma blank_start_cases c : blank_start c = true -> c = x20 \/ c = x09 \/ c = x0d \/ c = x0a \/ c = x2f \/ c = x23.
Proof. destruct c; vm_compute; intro H; try discriminate H; tauto. Qed.

(* a scope word followed by a blank is read as that scope (the order of the alternatives matters: py.twisted before py) *)
Lemma scope_ok sc c r : bytes_in sc scope_words = true -> blank_start c = true -> p_scope (sc ++ c :: r) = POk (c :: r) sc.
Proof.
  intros Hs Hc. unfold scope_words in Hs. cbn [bytes_in] in Hs.
  do 18 (apply orb_prop in Hs; destruct Hs as [Hs|Hs]; [apply bytes_eq_eq in Hs; subst sc;
    destruct (blank_start_cases c Hc) as [->|[->|[->|[->|[->| ->]]]]]; vm_compute; reflexivity|]).
  discriminate Hs.
Qed.

Lemma bytes_eqb_eq a b : bytes_eqb a b = bytes_eq a b.
Proof. revert b. induction a as [|x a IH]; intros [|y b]; cbn [bytes_eqb bytes_eq]; auto; now rewrite IH. Qed.

Lemma package_of_eq l : package_of l = package_of_items l.
Proof.
  induction l as [|it l IH]; [reflexivity|]. destruct it; cbn [package_of package_of_items]; auto.
  all: rewrite bytes_eqb_eq; change package_scope with (txt "rs"); now rewrite IH.
Qed.

(* the leading word of an item *)
Lemma item_kw kw X : is_ident kw = true -> hd_sat (fun b => is_alpha b) kw = true -> kw <> [] -> nid X = true ->
  p_item_keyword (kw ++ X) = POk (kw ++ X) kw.
Proof.
  intros Hk Ha Hne HX. destruct kw as [|h t]; [contradiction|]. cbn [is_ident hd_sat] in *. apply andb_prop in Hk. destruct Hk as [_ Ht].
  unfold p_item_keyword, peek, recognize. cbn [app satisfy_b pbind]. rewrite Ha. cbn [pbind]. unfold take_while.
  rewrite (span_app_stop _ t X Ht HX). cbv iota beta. change (h :: t ++ X) with ((h :: t) ++ X).
  now rewrite (consumed_app (h :: t) X).
Qed.

Section File.
Variable lf : nat.
Variable whole : list byte.
Hypothesis Hlf : length whole < lf.
Variable df : nat.
Hypothesis Hdf : length whole < df.

(* include / cpp_include <blank> 'literal' [separator] *)
Lemma rt_include_gen (p : parser Literal) kw kwtxt eof b l s k :
  (forall i, p i = (do i, _ <- tag kw i ;; do i, _ <- p_blank lf i ;; do i, x <- p_literal lf i ;;
                    do i, _ <- opt (p_list_separator lf) i ;; POk i x)) -> kw = kwtxt ->
  wf_blank b = true -> negb (is_nil b) = true -> wf_lit l = true -> wf_sep_at eof s = true -> (eof = true -> k = []) ->
  nosep k = true -> (sep_none s = false -> stop k = true) -> sfx (kwtxt ++ pr_blank b (pr_lit l (pr_sep s k))) whole ->
  p (kwtxt ++ pr_blank b (pr_lit l (pr_sep s k))) = POk k (erase_lit l).
Proof.
  intros Hp -> Hb Hn Hl Hs He Hns Hop S. rewrite Hp. rewrite tag_ok. cbn [pbind].
  mbk lf whole Hlf S ltac:(apply lit_nb).
  rewrite (rt_literal lf l) by (first [assumption | eapply sfx_lt; [exact Hlf|sfx_of S]]). cbn [pbind].
  assert (E : exists o, opt (p_list_separator lf) (pr_sep s k) = POk k o).
  { destruct s as [|semi bl].
    - exists None. apply opt_err. unfold p_list_separator. apply pbind_err. cbn [pr_sep]. destruct k as [|c r]; [exact I|].
      unfold nosep in Hns. cbn [hd_sat] in Hns. cbn [one_of]. destruct (bmem c set_list_separator); [discriminate|exact I].
    - assert (Sk : stop k = true) by (apply Hop; reflexivity).
      apply (osep_e lf whole Hlf eof); auto using stop_nb. sfx_of S. }
  destruct E as [o ->]. reflexivity.
Qed.

(* namespace <blank> scope <blank> path [blank] [annotations [blank]] [separator] *)
Theorem rt_namespace eof c k : wf_namespace eof c = true -> (eof = true -> k = []) -> stop k = true ->
  (is_nil (ns_b3 c) && is_none (ns_canns c) && sep_none (ns_sep c) = true -> wstop k = true) ->
  sfx (pr_namespace c k) whole -> p_namespace lf (pr_namespace c k) = POk k (erase_namespace c).
Proof.
  intros Hw He Hk Hew S. destruct c as [b1 sc b2 p b3 a sp]. unfold wf_namespace, pr_namespace, erase_namespace in *.
  cbn [ns_b1 ns_cscope ns_b2 ns_path ns_b3 ns_canns ns_sep] in *. bsplit Hw.
  unfold p_namespace. tg kw_namespace (txt "namespace").
  assert (N1 : b1 <> []) by (intros ->; discriminate). assert (N2 : b2 <> []) by (intros ->; discriminate).
  assert (Nsc : nb (sc ++ pr_blank b2 (pr_path p (pr_blank b3 (pr_tail2 a sp k)))) = true).
  { match goal with H : bytes_in sc scope_words = true |- _ => revert H end. unfold scope_words. cbn [bytes_in]. intros Hs.
    do 18 (apply orb_prop in Hs; destruct Hs as [Hs|Hs]; [apply bytes_eq_eq in Hs; subst sc; reflexivity|]). discriminate Hs. }
  mbk lf whole Hlf S ltac:(exact Nsc).
  destruct (blank_head b2 (pr_path p (pr_blank b3 (pr_tail2 a sp k))) ltac:(assumption) N2) as [c0 [r0 [E0 Hc0]]].
  rewrite E0 at 1. rewrite (scope_ok sc c0 r0) by assumption. rewrite <- E0. cbn [pbind].
  mbk lf whole Hlf S ltac:(apply path_head; auto; intros c Hc; apply stop_nb with (k := [c]); cbn; now apply idh_stop).
  set (T := pr_tail2 a sp k) in *.
  assert (NT : nb T = true) by (unfold T; apply tail2_head; try reflexivity; apply stop_nb, Hk).
  assert (EB : exists o, opt (p_blank lf) (pr_blank b3 T) = POk T o).
  { destruct a as [[l bl]|]; [|destruct sp as [|semi bs]]; cbn [is_none sep_none andb] in *;
      rewrite ?andb_false_r, ?andb_true_r in *.
    - apply (oblank lf whole Hlf); auto. sfx_of S.
    - apply (oblank_e lf whole Hlf eof); auto. sfx_of S.
    - apply (oblank lf whole Hlf); auto. sfx_of S. }
  destruct EB as [ob EB].
  assert (PF : pfollow lf (pr_blank b3 T)).
  { split.
    - eapply blank_then_e; eauto with bsdb. intros ->. unfold T. destruct a as [[l bl]|]; cbn [pr_tail2 pr_anns]; [reflexivity|].
      destruct sp as [|[|] bs]; cbn [pr_sep sep_byte]; try reflexivity. apply wstop_nid, Hew. reflexivity.
    - left. unfold p_path_sep. rewrite EB. cbn [pbind]. apply pbind_err, dot_err. unfold T. apply tail2_head; try reflexivity.
      apply stop_nodot, Hk. }
  rewrite (rt_path lf whole Hlf p _ ltac:(assumption) PF) by (sfx_of S). cbn [pbind].
  rewrite EB. cbn [pbind].
  destruct (tail2_steps lf whole Hlf eof a sp k ltac:(assumption) He Hk ltac:(sfx_of S)) as (X & o5 & o6 & E5 & E6 & E7).
  subst T. rewrite E5. cbn [pbind]. rewrite E6. cbn [pbind]. rewrite E7. reflexivity.
Qed.

(* ---------- the item dispatch ---------- *)
(* what follows an item *)
Definition item_follow (eof : bool) (it : citem) (k : list byte) : Prop :=
  (eof = true -> k = []) /\ nosep k = true /\ (item_open it = true -> stop k = true) /\
  match it with
  | CIConst c => tail_bare (ck_tail c) = true -> cfollow lf (ck_val c) k
  | _ => item_ends_word it = true -> wstop k = true
  end.

(* every item begins with its keyword and a mandatory blank *)
Lemma item_kw_split eof it X : wf_item eof it = true ->
  exists b X', pr_item it X = item_word it ++ pr_blank b X' /\ wf_blank b = true /\ b <> [].
Proof.
  intros Hw. destruct it as [b l s|b l s|n|t|c|e|kind b s|s]; cbn [pr_item wf_item item_word] in *.
  - bsplit Hw. eexists b, _. split; [reflexivity|]. split; [assumption|]. destruct b; [discriminate|discriminate].
  - bsplit Hw. eexists b, _. split; [reflexivity|]. split; [assumption|]. destruct b; [discriminate|discriminate].
  - unfold wf_namespace, pr_namespace in *. bsplit Hw. eexists (ns_b1 n), _. split; [reflexivity|]. split; [assumption|].
    destruct (ns_b1 n); [discriminate|discriminate].
  - unfold wf_typedef, pr_typedef in *. bsplit Hw. eexists (ctd_b1 t), _. split; [reflexivity|]. split; [assumption|].
    destruct (ctd_b1 t); [discriminate|discriminate].
  - unfold wf_constant, pr_constant in *. bsplit Hw. eexists (ck_b1 c), _. split; [reflexivity|]. split; [assumption|].
    destruct (ck_b1 c); [discriminate|discriminate].
  - unfold wf_enum, pr_enum in *. bsplit Hw. eexists (ce_b1 e), _. split; [reflexivity|]. split; [assumption|].
    destruct (ce_b1 e); [discriminate|discriminate].
  - bsplit Hw. eexists b, _. split; [reflexivity|]. split; [assumption|]. destruct b; [discriminate|discriminate].
  - unfold wf_service, pr_service in *. bsplit Hw. eexists (sv_b1 s), _. split; [reflexivity|]. split; [assumption|].
    destruct (sv_b1 s); [discriminate|discriminate].
Qed.

(* every item keyword is followed by a mandatory blank *)
Lemma kw_blank_nid b X : wf_blank b = true -> negb (is_nil b) = true -> nid (pr_blank b X) = true.
Proof. intros Hb Hn. apply blank_then; auto with bsdb. intros ->. discriminate Hn. Qed.

Ltac dispatch kwt :=
  unfold p_item;
  match goal with |- context [p_item_keyword (_ ++ pr_blank ?b ?X)] =>
    rewrite (item_kw kwt (pr_blank b X) eq_refl eq_refl ltac:(discriminate) (kw_blank_nid b X ltac:(assumption) ltac:(assumption))) end;
  cbn [pbind]; unfold pmap.

Theorem rt_item eof it k : wf_item eof it = true -> item_follow eof it k -> sfx (pr_item it k) whole ->
  p_item lf df (pr_item it k) = POk k (erase_item it).
Proof.
  intros Hw [He [Hns [Hop Hew]]] S. destruct it as [b l s|b l s|n|t|c|e|kind b s|s]; cbn [pr_item wf_item erase_item item_open item_ends_word] in *.
  - bsplit Hw. dispatch (txt "include"). change (bytes_eqb (txt "include") arm_include) with true. cbv iota.
    rewrite (rt_include_gen (p_include lf) kw_include (txt "include") eof b l s k); auto.
    intros E. apply Hop. now rewrite E.
  - bsplit Hw. dispatch (txt "cpp_include").
    change (bytes_eqb (txt "cpp_include") arm_include) with false. change (bytes_eqb (txt "cpp_include") arm_cpp_include) with true. cbv iota.
    rewrite (rt_include_gen (p_cpp_include lf) kw_cpp_include (txt "cpp_include") eof b l s k); auto.
    intros E. apply Hop. now rewrite E.
  - pose proof Hw as Hw'. unfold wf_namespace in Hw'. bsplit Hw'. unfold pr_namespace.
    dispatch (txt "namespace"). fold (pr_namespace n k).
    change (bytes_eqb (txt "namespace") arm_include) with false. change (bytes_eqb (txt "namespace") arm_cpp_include) with false.
    change (bytes_eqb (txt "namespace") arm_namespace) with true. cbv iota.
    rewrite (rt_namespace eof n k Hw He (Hop eq_refl) Hew S). reflexivity.
  - pose proof Hw as Hw'. unfold wf_typedef in Hw'. bsplit Hw'. unfold pr_typedef.
    dispatch (txt "typedef"). fold (pr_typedef t k).
    change (bytes_eqb (txt "typedef") arm_include) with false. change (bytes_eqb (txt "typedef") arm_cpp_include) with false.
    change (bytes_eqb (txt "typedef") arm_namespace) with false. change (bytes_eqb (txt "typedef") arm_typedef) with true. cbv iota.
    rewrite (rt_typedef lf whole Hlf df Hdf eof t k Hw He Hns Hop Hew S). reflexivity.
  - pose proof Hw as Hw'. unfold wf_constant in Hw'. bsplit Hw'. unfold pr_constant.
    dispatch (txt "const"). fold (pr_constant c k).
    change (bytes_eqb (txt "const") arm_include) with false. change (bytes_eqb (txt "const") arm_cpp_include) with false.
    change (bytes_eqb (txt "const") arm_namespace) with false. change (bytes_eqb (txt "const") arm_typedef) with false.
    change (bytes_eqb (txt "const") arm_const) with true. cbv iota.
    rewrite (rt_constant lf whole Hlf df Hdf eof c k Hw He Hns Hop Hew S). reflexivity.
  - pose proof Hw as Hw'. unfold wf_enum in Hw'. bsplit Hw'. unfold pr_enum.
    dispatch (txt "enum"). fold (pr_enum e k).
    change (bytes_eqb (txt "enum") arm_include) with false. change (bytes_eqb (txt "enum") arm_cpp_include) with false.
    change (bytes_eqb (txt "enum") arm_namespace) with false. change (bytes_eqb (txt "enum") arm_typedef) with false.
    change (bytes_eqb (txt "enum") arm_const) with false. change (bytes_eqb (txt "enum") arm_enum) with true. cbv iota.
    rewrite (rt_enum lf whole Hlf df Hdf eof e k Hw He); [reflexivity| |exact S]. intros E. apply Hop. now rewrite E.
  - bsplit Hw. assert (Ws : wf_struct eof s = true) by assumption. destruct kind; cbn [skind_kw] in *.
    + dispatch (txt "struct").
      change (bytes_eqb (txt "struct") arm_include) with false. change (bytes_eqb (txt "struct") arm_cpp_include) with false.
      change (bytes_eqb (txt "struct") arm_namespace) with false. change (bytes_eqb (txt "struct") arm_typedef) with false.
      change (bytes_eqb (txt "struct") arm_const) with false. change (bytes_eqb (txt "struct") arm_enum) with false.
      change (bytes_eqb (txt "struct") arm_struct) with true. cbv iota.
      unfold p_struct. tg kw_struct (txt "struct").
      mbk lf whole Hlf S ltac:(unfold pr_struct_like; apply ident_nb; unfold wf_struct in Ws; bsplit Ws; assumption).
      rewrite (rt_struct_like lf whole Hlf df Hdf eof s k Ws He Hns Hop) by (sfx_of S). reflexivity.
    + dispatch (txt "union").
      change (bytes_eqb (txt "union") arm_include) with false. change (bytes_eqb (txt "union") arm_cpp_include) with false.
      change (bytes_eqb (txt "union") arm_namespace) with false. change (bytes_eqb (txt "union") arm_typedef) with false.
      change (bytes_eqb (txt "union") arm_const) with false. change (bytes_eqb (txt "union") arm_enum) with false.
      change (bytes_eqb (txt "union") arm_struct) with false. change (bytes_eqb (txt "union") arm_union) with true. cbv iota.
      unfold p_union. tg kw_union (txt "union").
      mbk lf whole Hlf S ltac:(unfold pr_struct_like; apply ident_nb; unfold wf_struct in Ws; bsplit Ws; assumption).
      rewrite (rt_struct_like lf whole Hlf df Hdf eof s k Ws He Hns Hop) by (sfx_of S). reflexivity.
    + dispatch (txt "exception").
      change (bytes_eqb (txt "exception") arm_include) with false. change (bytes_eqb (txt "exception") arm_cpp_include) with false.
      change (bytes_eqb (txt "exception") arm_namespace) with false. change (bytes_eqb (txt "exception") arm_typedef) with false.
      change (bytes_eqb (txt "exception") arm_const) with false. change (bytes_eqb (txt "exception") arm_enum) with false.
      change (bytes_eqb (txt "exception") arm_struct) with false. change (bytes_eqb (txt "exception") arm_union) with false.
      change (bytes_eqb (txt "exception") arm_exception) with true. cbv iota.
      unfold p_exception. tg kw_exception (txt "exception").
      mbk lf whole Hlf S ltac:(unfold pr_struct_like; apply ident_nb; unfold wf_struct in Ws; bsplit Ws; assumption).
      rewrite (rt_struct_like lf whole Hlf df Hdf eof s k Ws He Hns Hop) by (sfx_of S). reflexivity.
  - pose proof Hw as Hw'. unfold wf_service in Hw'. bsplit Hw'. unfold pr_service.
    dispatch (txt "service"). fold (pr_service s k).
    change (bytes_eqb (txt "service") arm_include) with false. change (bytes_eqb (txt "service") arm_cpp_include) with false.
    change (bytes_eqb (txt "service") arm_namespace) with false. change (bytes_eqb (txt "service") arm_typedef) with false.
    change (bytes_eqb (txt "service") arm_const) with false. change (bytes_eqb (txt "service") arm_enum) with false.
    change (bytes_eqb (txt "service") arm_struct) with false. change (bytes_eqb (txt "service") arm_union) with false.
    change (bytes_eqb (txt "service") arm_exception) with false. change (bytes_eqb (txt "service") arm_service) with true. cbv iota.
    rewrite (rt_service lf whole Hlf df Hdf eof s k Hw He Hns Hop S). reflexivity.
Qed.

(* ---------- the file level:  many_till ([blank] item [blank]) eof ---------- *)
Definition elem : parser Item :=
  fun i => do i, _ <- opt (p_blank lf) i ;; do i, it <- p_item lf df i ;; do i, _ <- opt (p_blank lf) i ;; POk i it.
Lemma p_file_eq input : p_file lf df input =
  (do input, _ <- opt (p_blank lf) input ;; do remain, items <- many_till lf elem eof input ;;
   POk remain (mkFile (package_of (fst items)) (fst items))).
Proof. reflexivity. Qed.

Lemma item_head (g : byte -> bool) it k : (forall b, is_alpha b = true -> g b = true) -> hd_sat g (pr_item it k) = true.
Proof.
  intros Hg. destruct it as [b l s|b l s|n|t|c|e|kind b s|s]; cbn [pr_item]; try (apply Hg; reflexivity).
  destruct kind; apply Hg; reflexivity.
Qed.

Lemma alpha_stop b : is_alpha b = true -> stopc b = true.
Proof. intros H. apply idh_stop. now rewrite H. Qed.

Lemma items_head (g : byte -> bool) l : (forall b, is_alpha b = true -> g b = true) -> hd_sat g (pr_items l []) = true.
Proof. intros Hg. destruct l as [|[it b] l]; [reflexivity|]. cbn [pr_items]. now apply item_head. Qed.

Lemma len_item it k : length k < length (pr_item it k).
Proof.
  assert (G : forall (w X : list byte), negb (is_nil w) = true -> length k <= length X -> length k < length (w ++ X)).
  { intros w X Hw HX. rewrite app_length. destruct w; [discriminate|]. cbn [length]. lia. }
  destruct it as [b l s|b l s|n|t|c|e|kind b s|s]; cbn [pr_item];
    try (apply G; [reflexivity|apply sfx_len; repeat sfx_step]).
  apply G; [destruct kind; reflexivity|apply sfx_len; apply sfx_blank, sfx_struct_like, sfx_refl].
Qed.

Lemma eof_err (T : list byte) : 0 < length T -> is_perr (eof T).
Proof. destruct T; cbn [length eof]; [lia|intros _; exact I]. Qed.

Lemma items_loop : forall l fuel, wf_items l = true -> sfx (pr_items l []) whole -> length (pr_items l []) < fuel ->
  many_till fuel elem eof (pr_items l []) = POk [] (erase_items l, []).
Proof.
  induction l as [|[it b] rest IH]; intros fuel Hw S Hf; (destruct fuel as [|fu]; [lia|]); [reflexivity|].
  cbn [pr_items wf_items erase_items map fst] in *. bsplit Hw.
  remember (pr_items rest []) as R eqn:ER.
  set (eofi := is_nil rest && is_nil b).
  assert (NR : nb R = true) by (subst R; apply items_head; intros c Hc; apply stop_nb with (k := [c]); cbn; now apply alpha_stop).
  assert (Wit : wf_item eofi it = true) by assumption.
  assert (Fo : item_follow eofi it (pr_blank b R)).
  { unfold item_follow, eofi. repeat split.
    - intros E. apply andb_prop in E. destruct E as [E1 E2]. destruct rest; [|discriminate]. destruct b; [|discriminate]. subst R. reflexivity.
    - unfold nosep. eapply blank_then_e; eauto with bsdb. intros _. subst R. apply items_head. intros c Hc.
      apply stop_nosep with (k := [c]). cbn. now apply alpha_stop.
    - intros E. match goal with H : negb (item_open it) || is_nil b = true |- _ => rewrite E in H; cbn [negb orb] in H end.
      destruct b; [|discriminate]. cbn [pr_blank]. subst R. apply items_head. apply alpha_stop.
    - assert (Aold : item_ends_word it = true -> (forall c, it <> CIConst c) -> wstop (pr_blank b R) = true).
      { intros E Hnc. destruct b as [|a0 b].
        + destruct rest as [|[it' b'] rest']; [subst R; reflexivity|]. exfalso.
          match goal with H : negb (is_nil []) || item_glue it (item_word it') = true |- _ => unfold item_glue in H; rewrite E in H; cbn [is_nil negb orb] in H end.
          destruct it; try discriminate. now apply (Hnc c).
        + unfold wstop. eapply blank_then_e; eauto with bsdb. discriminate. }
      destruct it as [? ? ?|? ? ?|?|?|c|?|? ? ?|?]; try (intros E; apply Aold; [exact E|discriminate]).
      intros Eb Ev.
      assert (NDR : nodot R = true) by (subst R; apply items_head; intros c0 Hc0; apply stop_nodot with (k := [c0]); cbn; now apply alpha_stop).
      destruct b as [|a0 b].
      + destruct rest as [|[it' b'] rest'].
        * subst R. cbn [pr_items pr_blank]. apply (cvfollow_cfollow lf whole Hlf); [|apply sfx_nil|exact Ev].
          intros _. exists true, [], []. repeat split; reflexivity.
        * match goal with H : negb (is_nil []) || item_glue (CIConst c) (item_word it') = true |- _ =>
            unfold item_glue in H; cbn [is_nil negb orb item_ends_word] in H; unfold constant_ends_word in H; rewrite Ev, Eb in H; cbn [andb negb orb] in H end.
          cbn [pr_blank].
          match goal with H : wf_items ((it', b') :: rest') = true |- _ => cbn [wf_items] in H; bsplit H end.
          destruct (item_kw_split _ it' (pr_blank b' (pr_items rest' [])) ltac:(eassumption)) as [bb [X' [EX [Wbb Nbb]]]].
          assert (ER' : R = item_word it' ++ pr_blank bb X') by (rewrite ER; cbn [pr_items]; exact EX).
          assert (LX : lstopk (pr_blank bb X') = true).
          { unfold lstopk. apply blank_then; [exact Wbb|exact lstopc_bs|intros ->; contradiction]. }
          split; [rewrite ER'; rewrite (cont_ok_local (ck_val c) (item_word it') _ LX); assumption|]. split.
          -- subst R. unfold hd_ascii. apply items_head. intros c0 Hc0. destruct c0; vm_compute in Hc0 |- *; congruence.
          -- intros _. change R with (pr_blank [] R). apply (sepfollow_head lf whole Hlf); auto. sfx_of S.
      + apply (cvfollow_cfollow lf whole Hlf); [|sfx_of S|exact Ev]. intros _. exists (is_nil rest), (a0 :: b), R.
        split; [reflexivity|]. split; [assumption|]. split; [intros E; destruct rest; [subst R; reflexivity|discriminate]|].
        split; [exact NR|]. split; [discriminate|]. intros _. exact NDR. }
  assert (EB : exists o, opt (p_blank lf) (pr_blank b R) = POk R o).
  { apply (oblank_e lf whole Hlf (is_nil rest)); auto; [|sfx_of S]. intros E. destruct rest; [|discriminate]. subst R. reflexivity. }
  destruct EB as [ob EB].
  assert (E1 : elem (pr_item it (pr_blank b R)) = POk R (erase_item it)).
  { unfold elem. rewrite (opt_err (p_blank lf)).
    - cbn [pbind]. rewrite (rt_item eofi it (pr_blank b R) Wit Fo S). cbn [pbind]. rewrite EB. reflexivity.
    - apply blank_err, item_head. intros c Hc. apply stop_nb with (k := [c]). cbn. now apply alpha_stop. }
  assert (L : length R < length (pr_item it (pr_blank b R))).
  { pose proof (len_item it (pr_blank b R)) as L2. pose proof (len_blank b R) as L3. clear - L2 L3. lia. }
  cbn [many_till].
  assert (Eeof : is_perr (eof (pr_item it (pr_blank b R)))) by (apply eof_err; clear - L; lia).
  destruct (eof (pr_item it (pr_blank b R))); cbn in Eeof; try contradiction.
  rewrite E1. rewrite (same_len_shorter _ _ L).
  rewrite (IH fu ltac:(assumption)); [reflexivity|sfx_of S|clear - L Hf; lia].
Qed.

End File.

(* ---------- C15, the full statement ---------- *)
Theorem roundtrip_file c : wf_file c = true -> parse_file (pr_file c []) = POk [] (erase_file c).
Proof.
  intros Hw. unfold parse_file. set (s := pr_file c []).
  assert (Hlf : length s < S (length s)) by lia.
  rewrite (p_file_eq (S (length s)) (S (length s))).
  unfold wf_file in Hw. bsplit Hw.
  assert (NI : nb (pr_items (fl_items c) []) = true).
  { apply items_head. intros b Hb. apply stop_nb with (k := [b]). cbn. now apply alpha_stop. }
  assert (E0 : exists o, opt (p_blank (S (length s))) s = POk (pr_items (fl_items c) []) o).
  { apply (oblank_e (S (length s)) s Hlf (is_nil (fl_items c))); auto; [|apply sfx_refl].
    intros E. destruct (fl_items c); [reflexivity|discriminate]. }
  destruct E0 as [o0 E0]. rewrite E0. cbn [pbind].
  assert (SI : sfx (pr_items (fl_items c) []) s) by (unfold s, pr_file; sfx_step; apply sfx_refl).
  assert (LI : length (pr_items (fl_items c) []) < S (length s)).
  { pose proof (len_blank (fl_b0 c) (pr_items (fl_items c) [])) as L. unfold s, pr_file. clear - L. lia. }
  rewrite (items_loop (S (length s)) s Hlf (S (length s)) Hlf (fl_items c) (S (length s)) ltac:(assumption) SI LI).
  cbn [pbind fst]. unfold erase_file. now rewrite package_of_eq.
Qed.

Corollary layout_free_file c1 c2 : wf_file c1 = true -> wf_file c2 = true -> erase_file c1 = erase_file c2 ->
  parse_file (pr_file c1 []) = parse_file (pr_file c2 []).
Proof. intros H1 H2 E. rewrite (roundtrip_file c1 H1), (roundtrip_file c2 H2). now rewrite E. Qed.

(* ---------- non-vacuity of the full statement ---------- *)
(* a document with every kind of item, all three comment styles, keyword-prefixed identifiers in the positions where
   the keyword is tried first, an unterminated line comment at the end *)
Definition example_file : cfile :=
  let ty s := CType (CTPath (mkCPath s [])) None in
  let sp := [BWs (txt " ")] in
  let nl := [BWs [x0a]] in
  let fld n t nm := mkCField n [] sp None t sp nm sp None None SepNone in
  mkCFile [BBlock (txt " header "); BWs [x0a]]
    [ (CIInclude sp (mkLit true (txt "a.thrift")) SepNone, nl);
      (CICppInclude sp (mkLit false (txt "b")) (SepSome true nl), []);
      (CINamespace (mkCNamespace sp (txt "py.twisted") sp (mkCPath (txt "a") [([], [], txt "b")]) nl None SepNone), []);
      (CINamespace (mkCNamespace sp (txt "rs") sp (mkCPath (txt "pkg") []) [] (Some ([mkCAnn [] (txt "x") [] [] (mkLit false []) [] SepNone], nl)) SepNone), []);
      (CITypedef (mkCTypedef sp (ty (txt "listing")) sp (txt "cpp_type") (mkTail nl None SepNone)), []);
      (CIConst (mkCConstant sp (CType (CTBase BI32) None) sp (txt "X") sp sp (CCPath (mkCPath (txt "trueish") [])) (mkTail [BHash (txt " c"); BWs [x0a]] None SepNone)), []);
      (CIEnum (mkCEnum sp (txt "enumerate") sp [] [mkCEnumVal (txt "e5") sp (Some (sp, mkCInt 1 true (txt "1F"), [])) None (SepSome false sp) []] nl None), []);
      (CIStruct SKStruct sp (mkCStruct (txt "structure") sp sp [fld (txt "1") (ty (txt "required_t")) (txt "x"); fld (txt "2") (ty (txt "i32x")) (txt "optionalFoo")] (mkTail nl None SepNone)), []);
      (CIStruct SKUnion sp (mkCStruct (txt "U") [] [] [] (mkTail [] None (SepSome true nl))), []);
      (CIStruct SKException sp (mkCStruct (txt "E") [] [] [] (mkTail [] (Some [mkCAnn [] (txt "a") [] [] (mkLit true (txt "b")) [] SepNone]) SepNone)), nl);
      (CIService (mkCService sp (txt "S") None sp [(sp, mkCFunction None (ty (txt "onewayx")) sp (txt "f") [] [] [] [] None None SepNone)] [] (mkTail [BWs (txt " "); BLine (txt " end")] None SepNone)), []) ].

Example roundtrip_file_example :
  wf_file example_file = true /\
  parse_file (pr_file example_file []) = POk [] (erase_file example_file) /\
  file_package (erase_file example_file) = Some [txt "pkg"] /\ length (file_items (erase_file example_file)) = 11.
Proof. vm_compute. repeat split. Qed.

(* every layout of the document without declarations is read: blanks only, including an unterminated final line comment
   (rejected before /repo 25b7876: finding F-15b, fixed) *)
Example blank_only_file_accepted :
  let c := mkCFile [BWs (txt " "); BBlock (txt "licence"); BWs [x0a]; BHash (txt " no newline after this comment")] [] in
  wf_file c = true /\ parse_file (pr_file c []) = POk [] (mkFile None []) /\
  parse_file (txt " ") = POk [] (mkFile None []) /\ parse_file [] = POk [] (mkFile None []).
Proof. vm_compute. repeat split. Qed.

(* identifiers that merely begin with a keyword, each in a position where the parser tries that keyword first: the
   document is well-formed, hence (by the round-trip theorem) read back with these names as identifiers *)
Definition keyword_prefix_file : cfile :=
  let ty s := CType (CTPath (mkCPath s [])) None in
  let sp := [BWs (txt " ")] in
  let fld n t nm := mkCField n [] sp None t sp nm [] None None (SepSome true sp) in
  let cst nm v := CIConst (mkCConstant sp (CType (CTBase BI32) None) sp nm sp sp (CCPath (mkCPath v [])) (mkTail sp None SepNone)) in
  let fn t nm := mkCFunction None (ty t) sp nm [] [] [] [] None None (SepSome false []) in
  mkCFile []
    [ (CIStruct SKStruct sp (mkCStruct (txt "structure") sp sp
         [fld (txt "1") (ty (txt "optionalFoo")) (txt "a"); fld (txt "2") (ty (txt "required_t")) (txt "b"); fld (txt "3") (ty (txt "listing")) (txt "c"); fld (txt "4") (ty (txt "i32x")) (txt "d");
          fld (txt "5") (ty (txt "mapper")) (txt "e"); fld (txt "6") (ty (txt "settle")) (txt "f"); fld (txt "7") (ty (txt "stringy")) (txt "g"); fld (txt "8") (ty (txt "i8_")) (txt "h")]
         (mkTail sp None SepNone)), []);
      (cst (txt "constx") (txt "trueish"), []); (cst (txt "enumerate") (txt "falsey"), []); (cst (txt "includes") (txt "true_"), []);
      (CIService (mkCService sp (txt "services") None sp [(sp, fn (txt "onewayx") (txt "f")); ([], fn (txt "throwsX") (txt "g")); ([], fn (txt "voidx") (txt "h"))] [] (mkTail [] None SepNone)), []) ].

Theorem keyword_prefix_roundtrip :
  wf_file keyword_prefix_file = true /\
  parse_file (pr_file keyword_prefix_file []) = POk [] (erase_file keyword_prefix_file).
Proof.
  assert (W : wf_file keyword_prefix_file = true) by (vm_compute; reflexivity).
  split; [exact W|]. exact (roundtrip_file keyword_prefix_file W).
Qed.
