(* C13_retain, non-vacuity with a schema that HAS a service and a full schema that DECLARES a new struct for the added
   field.  sub_schema compares declarations index by index and demands equal lengths, so the reader's schema is taken
   with the new declaration appended (index stability: declaration 3 is not reachable from any type of the reader, whose
   emitted code does not depend on it -- that invariance under unreachable declarations is not a theorem here). *)
From PVGen Require Import Gen GenKeep GenSpec EvoSpec KeepSpec FullSpec Proofs.GenBase Proofs.KeepP Proofs.KeepFullP.
From PV Require Import Proofs.HeaderP Proofs.RoundtripP.
From Coq Require Import Lia.
Open Scope Z_scope.

(* reader: struct Req { 1: required i64 id } (method argument: keep + is_arg)   struct Top { 1: required i32 a; 3: optional Sub s }
           struct Sub { 1: optional bool b }                                     [3] struct New { 1: optional i32 n } (unused) *)
Definition Sx : schema :=
  [ DStruct [mkField 1 Required TyI64 None] true true;
    DStruct [mkField 1 Required TyI32 None; mkField 3 Optional (TyRef 2) None] true false;
    DStruct [mkField 1 Optional TyBool None] true false;
    DStruct [mkField 1 Optional TyI32 None] true false ].
(* full schema: Top gains `9: optional New extra`, Sub gains `8: optional double d`; New is a new declaration *)
Definition Wx : schema :=
  [ DStruct [mkField 1 Required TyI64 None] true true;
    DStruct [mkField 1 Required TyI32 None; mkField 3 Optional (TyRef 2) None; mkField 9 Optional (TyRef 3) None] true false;
    DStruct [mkField 1 Optional TyBool None; mkField 8 Optional TyDouble None] true false;
    DStruct [mkField 1 Optional TyI32 None] true false ].
Definition tvx2 : tval :=
  VStruct [ (9, VStruct [(1, VI32 5)]); (1, VI32 7); (3, VStruct [(1, VBool true); (8, VDouble 0)]) ].

Example keep_retain_full_service_newdecl :
  wf_schema Sx = true /\ wf_schema Wx = true /\ sub_schema Sx Wx = true /\ no_keep_arg Sx = false /\
  arg_free Sx (TyRef 1) tvx2 = true /\
  forall p, p <> PCompact -> exists g gw b gw',
    viewk Sx p BContig w0 (TyRef 1) tvx2 = Ok g /\ chunks_of g <> [] /\
    view Wx (TyRef 1) tvx2 = Ok gw /\
    enc_ty Sx p BContig (TyRef 1) g w0 = Ok (b, w0) /\ dfill Wx (TyRef 1) gw gw' /\
    gen_decode Wx p 40 (TyRef 1) (mkS (flat b) r0) = Ok (gw', mkS [] r0).
Proof.
  split; [vm_compute; reflexivity|]. split; [vm_compute; reflexivity|]. split; [vm_compute; reflexivity|].
  split; [vm_compute; reflexivity|]. split; [vm_compute; reflexivity|].
  intros p Hp.
  assert (Hg : exists g, viewk Sx p BContig w0 (TyRef 1) tvx2 = Ok g /\ chunks_of g <> []).
  { destruct p; try congruence; eexists; (split; [vm_compute; reflexivity|cbn; discriminate]). }
  destruct Hg as (g & Hg & Hc).
  assert (Hw : exists gw, view Wx (TyRef 1) tvx2 = Ok gw) by (eexists; vm_compute; reflexivity).
  destruct Hw as (gw & Hw).
  destruct (keep_retain_full Sx Wx p BContig (TyRef 1) tvx2 g gw eq_refl eq_refl eq_refl Hp eq_refl eq_refl eq_refl eq_refl
              eq_refl eq_refl w0 eq_refl Hg eq_refl Hw) as (b & gw' & He & Hdf & Hr).
  exists g, gw, b, gw'. split; [exact Hg|]. split; [exact Hc|]. split; [exact Hw|]. split; [exact He|]. split; [exact Hdf|].
  specialize (Hr 40%nat [] r0 ltac:(vm_compute; lia) idle_r0). rewrite app_nil_r in Hr. exact Hr.
Qed.
